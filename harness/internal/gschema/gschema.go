// Package gschema: schema definitions of the generator fragment used by the model checks (C02, C05, C18):
// AST, JSON rendering, Gallina rendering, document generation.
package gschema

import (
	"fmt"
	"sort"
	"strings"

	"verif/harness/internal/coqpp"
	"verif/harness/internal/rng"
)

type Kind int

const (
	KString Kind = iota
	KInteger
	KNumber
	KBoolean
	KArray
	KObject
	KMap
	KRef
)

type Prop struct {
	Name     string
	Schema   *Schema
	Required bool
}

type Schema struct {
	Kind   Kind
	Format string
	// validations
	Min, Max           *int64
	XMin, XMax         bool
	MultipleOf         *int64
	MinLen, MaxLen     *int64
	Pattern            string
	EnumS              []string
	EnumI              []int64
	MinItems, MaxItems *int64
	Unique             bool
	MinProps, MaxProps *int64
	ReadOnly           bool
	Default            interface{}
	Nullable           *bool // x-nullable
	Items              *Schema
	Props              []Prop
	Addl               *Schema // map values (KMap) or additionalProperties next to properties (KObject)
	Ref                string
	AllOf              []*Schema // KObject with AllOf members (refs or inline objects)
	Discriminator      string
	XClass             string
}

func I(v int64) *int64 { return &v }

// FormatSample: a valid value, in the text the generated type itself writes, for every string format that go-swagger maps to a Go type
// (generator/formats.go; cidr is known to strfmt but not to the generator and is left out)
var FormatSample = map[string]string{
	"date": "2020-02-03", "date-time": "2020-02-03T04:05:06Z", "uuid": "123e4567-e89b-12d3-a456-426614174000",
	"duration": "1h30m0s", "byte": "aGVsbG8=", "email": "someone@example.com", "uri": "http://example.com/x?y=1", "hostname": "example.com",
	"ipv4": "10.0.0.1", "ipv6": "2001:db8::1", "mac": "00:11:22:33:44:55",
	"uuid3": "a3bb189e-8bf9-3888-9912-ace4e6543002", "uuid4": "f47ac10b-58cc-4372-a567-0e02b2c3d479", "uuid5": "886313e1-3b8a-5372-9b90-0c9aee199e5d",
	"isbn10": "0306406152", "isbn13": "9780306406157", "creditcard": "4111111111111111", "ssn": "123-45-6789",
	"hexcolor": "#ff00aa", "rgbcolor": "rgb(1,2,3)", "password": "s3cret", "bsonobjectid": "507f1f77bcf86cd799439011", "ulid": "01ARZ3NDEKTSV4RRFFQ69G5FAV",
}

// StringFormats: the formats drawn by the generator (the three historical ones stay the most frequent)
var StringFormats = []string{"date", "date-time", "uuid", "date", "date-time", "uuid", "duration", "byte", "email", "uri", "hostname", "ipv4", "ipv6", "mac",
	"uuid3", "uuid4", "uuid5", "isbn10", "isbn13", "creditcard", "ssn", "hexcolor", "rgbcolor", "password", "bsonobjectid", "ulid"}

func (s *Schema) JSON() map[string]interface{} {
	m := map[string]interface{}{}
	switch s.Kind {
	case KRef:
		m["$ref"] = "#/definitions/" + s.Ref
		return m
	case KString:
		m["type"] = "string"
	case KInteger:
		m["type"] = "integer"
	case KNumber:
		m["type"] = "number"
	case KBoolean:
		m["type"] = "boolean"
	case KArray:
		m["type"] = "array"
		m["items"] = s.Items.JSON()
	case KObject:
		if len(s.AllOf) == 0 {
			m["type"] = "object"
		}
	case KMap:
		m["type"] = "object"
	}
	if s.Format != "" {
		m["format"] = s.Format
	}
	if s.Min != nil {
		m["minimum"] = *s.Min
	}
	if s.Max != nil {
		m["maximum"] = *s.Max
	}
	if s.XMin {
		m["exclusiveMinimum"] = true
	}
	if s.XMax {
		m["exclusiveMaximum"] = true
	}
	if s.MultipleOf != nil {
		m["multipleOf"] = *s.MultipleOf
	}
	if s.MinLen != nil {
		m["minLength"] = *s.MinLen
	}
	if s.MaxLen != nil {
		m["maxLength"] = *s.MaxLen
	}
	if s.Pattern != "" {
		m["pattern"] = s.Pattern
	}
	if len(s.EnumS) > 0 {
		m["enum"] = s.EnumS
	}
	if len(s.EnumI) > 0 {
		m["enum"] = s.EnumI
	}
	if s.MinItems != nil {
		m["minItems"] = *s.MinItems
	}
	if s.MaxItems != nil {
		m["maxItems"] = *s.MaxItems
	}
	if s.Unique {
		m["uniqueItems"] = true
	}
	if s.MinProps != nil {
		m["minProperties"] = *s.MinProps
	}
	if s.MaxProps != nil {
		m["maxProperties"] = *s.MaxProps
	}
	if s.ReadOnly {
		m["readOnly"] = true
	}
	if s.Default != nil {
		m["default"] = s.Default
	}
	if s.Nullable != nil {
		m["x-nullable"] = *s.Nullable
	}
	if s.Discriminator != "" {
		m["discriminator"] = s.Discriminator
	}
	if s.XClass != "" {
		m["x-class"] = s.XClass
	}
	if len(s.Props) > 0 {
		ps := map[string]interface{}{}
		var req []string
		for _, p := range s.Props {
			ps[p.Name] = p.Schema.JSON()
			if p.Required {
				req = append(req, p.Name)
			}
		}
		m["properties"] = ps
		if len(req) > 0 {
			m["required"] = req
		}
	}
	if s.Addl != nil {
		m["additionalProperties"] = s.Addl.JSON()
	}
	if len(s.AllOf) > 0 {
		var xs []interface{}
		for _, a := range s.AllOf {
			xs = append(xs, a.JSON())
		}
		m["allOf"] = xs
	}
	return m
}

// ---- Gallina rendering (coq/Sem/Schema.v) ----
func optZ(p *int64) string { return coqpp.OptZ(p) }

func (s *Schema) Coq() string {
	switch s.Kind {
	case KRef:
		return "(SRef " + coqpp.Str(s.Ref) + ")"
	case KString:
		es := make([]string, len(s.EnumS))
		for i, e := range s.EnumS {
			es[i] = coqpp.Str(e)
		}
		return fmt.Sprintf("(SStr %s %s %s)", optZ(s.MinLen), optZ(s.MaxLen), coqpp.List(es))
	case KInteger:
		es := make([]string, len(s.EnumI))
		for i, e := range s.EnumI {
			es[i] = coqpp.Z(e)
		}
		return fmt.Sprintf("(SInt %s %s %s %s %s %s)", optZ(s.Min), coqpp.Bool(s.XMin), optZ(s.Max), coqpp.Bool(s.XMax), optZ(s.MultipleOf), coqpp.List(es))
	case KBoolean:
		return "SBool"
	case KArray:
		return fmt.Sprintf("(SArr %s %s %s %s)", s.Items.Coq(), optZ(s.MinItems), optZ(s.MaxItems), coqpp.Bool(s.Unique))
	case KMap:
		return fmt.Sprintf("(SMap %s)", s.Addl.Coq())
	case KObject:
		ps := make([]string, len(s.Props))
		for i, p := range s.Props {
			ps[i] = fmt.Sprintf("(%s, %s, %s)", coqpp.Str(p.Name), coqpp.Bool(p.Required), p.Schema.Coq())
		}
		return fmt.Sprintf("(SObj %s)", coqpp.List(ps))
	}
	return "SBool"
}

// InCoqFragment: the part of the fragment the Coq model covers (no formats, patterns, numbers, allOf, defaults ...)
func (s *Schema) InCoqFragment() bool {
	if s.Format != "" || s.Pattern != "" || s.ReadOnly || s.Default != nil || s.Nullable != nil || len(s.AllOf) > 0 || s.Discriminator != "" ||
		s.MinProps != nil || s.MaxProps != nil || s.Kind == KNumber {
		return false
	}
	switch s.Kind {
	case KArray:
		return s.Items.InCoqFragment()
	case KMap:
		return s.Addl.InCoqFragment()
	case KObject:
		if s.Addl != nil {
			return false
		}
		for _, p := range s.Props {
			if !p.Schema.InCoqFragment() {
				return false
			}
		}
	}
	return true
}

// ---- generation ----
type Gen struct {
	R    *rng.R
	Defs []string // definitions that may be referenced
	Cov  map[string]int
}

func (g *Gen) hit(c string) {
	if g.Cov != nil {
		g.Cov[c]++
	}
}

var words = []string{"a", "bb", "ccc", "dddd", "eeeee", "ffffff"}
var propNames = []string{"alpha", "beta", "gamma", "delta", "id", "name", "tags", "count", "kind", "flag"}

func (g *Gen) Primitive() *Schema {
	switch g.R.Intn(10) {
	case 0, 1, 2:
		s := &Schema{Kind: KString}
		switch g.R.Intn(6) {
		case 0:
			s.MinLen = I(int64(1 + g.R.Intn(3)))
			g.hit("minLength")
		case 1:
			s.MaxLen = I(int64(1 + g.R.Intn(4)))
			g.hit("maxLength")
		case 2:
			s.MinLen, s.MaxLen = I(int64(g.R.Intn(3))), I(int64(3+g.R.Intn(3)))
			g.hit("minLength")
			g.hit("maxLength")
		case 3:
			s.EnumS = []string{"a", "bb", "ccc"}[:1+g.R.Intn(3)]
			g.hit("enum")
		case 4:
			s.Pattern = "^[a-c]+$"
			g.hit("pattern")
		}
		if s.MaxLen != nil && s.MinLen == nil && g.R.Chance(1, 6) {
			s.MaxLen = I(0) // a bound of zero is a bound
			g.hit("maxLength:0")
		}
		if g.R.Chance(1, 8) {
			s.Format = g.R.Pick(StringFormats)
			s.MinLen, s.MaxLen, s.EnumS, s.Pattern = nil, nil, nil, ""
			g.hit("format:" + s.Format)
		}
		return s
	case 3, 4, 5, 6:
		s := &Schema{Kind: KInteger}
		if g.R.Chance(1, 2) {
			s.Format = g.R.Pick([]string{"int32", "int64", "uint32", "uint64", "int64"})
			g.hit("format:" + s.Format)
		}
		lo := int64(0)
		if !strings.HasPrefix(s.Format, "u") {
			lo = -3
		}
		switch g.R.Intn(7) {
		case 0:
			s.Min = I(lo + int64(g.R.Intn(5)))
			s.XMin = g.R.Chance(1, 3)
			g.hit("minimum")
		case 1:
			s.Max = I(int64(1 + g.R.Intn(8)))
			s.XMax = g.R.Chance(1, 3)
			g.hit("maximum")
		case 2:
			s.Min, s.Max = I(lo+int64(g.R.Intn(3))), I(int64(3+g.R.Intn(6)))
			s.XMin, s.XMax = g.R.Chance(1, 3), g.R.Chance(1, 3)
			g.hit("minimum")
			g.hit("maximum")
			if s.XMin != s.XMax {
				g.hit("exclusive-asymmetric")
			}
		case 3:
			s.MultipleOf = I(int64(2 + g.R.Intn(3)))
			g.hit("multipleOf")
		case 4:
			s.EnumI = []int64{1, 2, 5}[:1+g.R.Intn(3)]
			g.hit("enum")
		}
		return s
	case 7:
		s := &Schema{Kind: KNumber}
		if g.R.Chance(1, 2) {
			s.Min, s.Max = I(0), I(10)
			g.hit("minimum")
		}
		return s
	default:
		return &Schema{Kind: KBoolean}
	}
}

func (g *Gen) Schema(depth int) *Schema {
	k := g.R.Intn(100)
	switch {
	case depth <= 0 || k < 45:
		return g.Primitive()
	case k < 55 && len(g.Defs) > 0:
		g.hit("ref")
		return &Schema{Kind: KRef, Ref: g.R.Pick(g.Defs)}
	case k < 72:
		s := &Schema{Kind: KArray, Items: g.Schema(depth - 1)}
		switch g.R.Intn(5) {
		case 0:
			s.MinItems = I(int64(1 + g.R.Intn(2)))
			g.hit("minItems")
		case 1:
			s.MaxItems = I(int64(g.R.Intn(4)))
			g.hit(fmt.Sprintf("maxItems:%d", *s.MaxItems))
		case 2:
			s.Unique = true
			g.hit("uniqueItems")
		}
		g.hit("array")
		return s
	case k < 82:
		g.hit("map")
		return &Schema{Kind: KMap, Addl: g.Schema(depth - 1)}
	default:
		return g.Object(depth)
	}
}

func (g *Gen) Object(depth int) *Schema {
	g.hit("object")
	s := &Schema{Kind: KObject}
	n := 1 + g.R.Intn(4)
	seen := map[string]bool{}
	for i := 0; i < n; i++ {
		name := g.R.Pick(propNames)
		if seen[name] {
			continue
		}
		seen[name] = true
		p := Prop{Name: name, Schema: g.Schema(depth - 1), Required: g.R.Chance(1, 3)}
		if p.Required {
			g.hit("required")
		}
		if k := p.Schema.Kind; (k == KString || k == KInteger || k == KNumber || k == KBoolean) && g.R.Chance(1, 8) {
			// readOnly says who writes the property, not whether a document must carry it
			p.Schema.ReadOnly = true
			g.hit("readOnly")
			if p.Required {
				g.hit("required+readOnly")
			}
		}
		s.Props = append(s.Props, p)
	}
	if g.R.Chance(1, 8) {
		if g.R.Chance(1, 2) {
			s.MinProps = I(int64(1 + g.R.Intn(2)))
			g.hit("minProperties")
		} else {
			s.MaxProps = I(int64(1 + g.R.Intn(3)))
			g.hit("maxProperties")
		}
		if g.R.Chance(1, 3) {
			s.MinProps, s.MaxProps = I(1), I(3)
		}
	}
	return s
}

// ---- documents ----

// Docs returns documents for schema s: valid ones, boundary violations of every constraint, zero values, wrong types,
// missing required properties.  defs resolves references.
func (g *Gen) Docs(s *Schema, defs map[string]*Schema, depth int) []interface{} {
	valid := g.Valid(s, defs, depth)
	out := []interface{}{valid}
	out = append(out, g.Variants(s, defs, depth)...)
	return out
}

func (g *Gen) Valid(s *Schema, defs map[string]*Schema, depth int) interface{} {
	switch s.Kind {
	case KRef:
		if depth > 6 {
			return map[string]interface{}{}
		}
		return g.Valid(defs[s.Ref], defs, depth+1)
	case KString:
		if v, ok := FormatSample[s.Format]; ok {
			return v
		}
		if len(s.EnumS) > 0 {
			return s.EnumS[g.R.Intn(len(s.EnumS))]
		}
		n := int64(2)
		if s.MinLen != nil && n < *s.MinLen {
			n = *s.MinLen
		}
		if s.MaxLen != nil && n > *s.MaxLen {
			n = *s.MaxLen
		}
		return strings.Repeat("b", int(n))
	case KInteger, KNumber:
		if len(s.EnumI) > 0 {
			return s.EnumI[g.R.Intn(len(s.EnumI))]
		}
		v := int64(3)
		if s.Min != nil {
			v = *s.Min
			if s.XMin {
				v++
			}
		}
		if s.Max != nil {
			hi := *s.Max
			if s.XMax {
				hi--
			}
			if v > hi {
				v = hi
			}
		}
		if s.MultipleOf != nil {
			m := *s.MultipleOf
			v = ((v + m - 1) / m) * m
			if v == 0 {
				v = m
			}
		}
		return v
	case KBoolean:
		return g.R.Chance(1, 2)
	case KArray:
		n := 2
		if s.MinItems != nil && int64(n) < *s.MinItems {
			n = int(*s.MinItems)
		}
		if s.MaxItems != nil && int64(n) > *s.MaxItems {
			n = int(*s.MaxItems)
		}
		xs := []interface{}{}
		for i := 0; i < n; i++ {
			if s.Unique && i > 0 {
				break // one element is trivially unique
			}
			xs = append(xs, g.Valid(s.Items, defs, depth+1))
		}
		return xs
	case KMap:
		return map[string]interface{}{"k1": g.Valid(s.Addl, defs, depth+1), "k2": g.Valid(s.Addl, defs, depth+1)}
	case KObject:
		m := map[string]interface{}{}
		for _, a := range s.AllOf {
			if sub, ok := g.Valid(a, defs, depth+1).(map[string]interface{}); ok {
				for k, v := range sub {
					m[k] = v
				}
			}
		}
		for _, p := range s.Props {
			if p.Required || g.R.Chance(2, 3) {
				m[p.Name] = g.Valid(p.Schema, defs, depth+1)
			}
		}
		if s.Addl != nil {
			// additionalProperties next to declared properties: undeclared keys carrying values of that schema
			// (container values differ in their keys / lengths from one undeclared key to the next)
			for i, k := range []string{"extra-one", "extra-two", "zz_extra_three"} {
				v := g.Valid(s.Addl, defs, depth+1)
				switch x := v.(type) {
				case map[string]interface{}:
					if rs := g.resolve(s.Addl, defs); rs != nil && rs.Kind == KMap {
						y := map[string]interface{}{}
						for kk, e := range x {
							y[fmt.Sprintf("%s-%d", kk, i)] = e
						}
						v = y
					}
				case []interface{}:
					if rs := g.resolve(s.Addl, defs); rs != nil && rs.Kind == KArray && rs.MaxItems == nil && !rs.Unique && len(x) > 0 {
						for j := 0; j < i; j++ {
							x = append(x, clone(x[0]))
						}
						v = x
					}
				}
				m[k] = v
			}
		}
		if s.MinProps != nil {
			for i := 0; int64(len(m)) < *s.MinProps; i++ {
				m[fmt.Sprintf("extra%d", i)] = "x"
			}
		}
		return m
	}
	return nil
}

func clone(v interface{}) interface{} {
	switch x := v.(type) {
	case map[string]interface{}:
		o := map[string]interface{}{}
		for k, e := range x {
			o[k] = clone(e)
		}
		return o
	case []interface{}:
		o := make([]interface{}, len(x))
		for i, e := range x {
			o[i] = clone(e)
		}
		return o
	}
	return v
}

// Variants: single deviations from a valid document, at this node and (recursively) below it.
func (g *Gen) Variants(s *Schema, defs map[string]*Schema, depth int) []interface{} {
	if depth > 4 {
		return nil
	}
	var out []interface{}
	switch s.Kind {
	case KRef:
		return g.Variants(defs[s.Ref], defs, depth+1)
	case KString:
		out = append(out, "", 7, true)
		if s.MinLen != nil && *s.MinLen > 0 {
			out = append(out, strings.Repeat("b", int(*s.MinLen-1)), strings.Repeat("b", int(*s.MinLen)))
		}
		if s.MaxLen != nil {
			out = append(out, strings.Repeat("b", int(*s.MaxLen+1)), strings.Repeat("b", int(*s.MaxLen)), strings.Repeat("é", int(*s.MaxLen)))
		}
		if len(s.EnumS) > 0 {
			out = append(out, "zz")
		}
		if s.Pattern != "" {
			out = append(out, "abc", "xyz", "aXc")
		}
		if s.Format != "" {
			out = append(out, "not-a-"+s.Format)
		}
	case KInteger, KNumber:
		out = append(out, int64(0), "seven", 1.5)
		if s.Min != nil {
			out = append(out, *s.Min-1, *s.Min, *s.Min+1)
		}
		if s.Max != nil {
			out = append(out, *s.Max-1, *s.Max, *s.Max+1)
		}
		if s.MultipleOf != nil {
			out = append(out, *s.MultipleOf, *s.MultipleOf+1, int64(0))
		}
		if len(s.EnumI) > 0 {
			out = append(out, int64(77))
		}
		// (values outside the range of the declared integer format are not generated: the reference validator does not
		// range-check formats, Go's decoder does — the property does not ask for more than the reference)
	case KBoolean:
		out = append(out, false, true, "true", 0)
	case KArray:
		item := g.Valid(s.Items, defs, depth+1)
		out = append(out, []interface{}{}, "notarray")
		if s.MinItems != nil {
			out = append(out, repeat(item, int(*s.MinItems)-1), repeat(item, int(*s.MinItems)))
		}
		if s.MaxItems != nil {
			out = append(out, repeat(item, int(*s.MaxItems)+1), repeat(item, int(*s.MaxItems)))
		}
		if s.Unique {
			out = append(out, []interface{}{item, clone(item)})
		}
		// deviations inside items, including the zero value of the item type
		for _, v := range g.Variants(s.Items, defs, depth+1) {
			out = append(out, []interface{}{v})
			if len(out) > 40 {
				break
			}
		}
	case KMap:
		out = append(out, map[string]interface{}{}, "notmap")
		for _, v := range g.Variants(s.Addl, defs, depth+1) {
			out = append(out, map[string]interface{}{"k": v})
			if len(out) > 30 {
				break
			}
		}
	case KObject:
		base, _ := g.Valid(s, defs, depth).(map[string]interface{})
		full := clone(base).(map[string]interface{})
		if len(s.AllOf) > 0 {
			// treat the composition as one object: own properties plus those of every member
			flat := &Schema{Kind: KObject, Props: append([]Prop{}, s.Props...), MinProps: s.MinProps, MaxProps: s.MaxProps}
			for _, a := range s.AllOf {
				m := a
				for i := 0; m != nil && m.Kind == KRef && i < 8; i++ {
					m = defs[m.Ref]
				}
				if m != nil {
					flat.Props = append(flat.Props, m.Props...)
				}
			}
			s = flat
		}
		for _, p := range s.Props {
			if _, ok := full[p.Name]; !ok {
				full[p.Name] = g.Valid(p.Schema, defs, depth+1)
			}
		}
		out = append(out, full, map[string]interface{}{}, "notobject")
		for _, p := range s.Props {
			// missing
			d := clone(full).(map[string]interface{})
			delete(d, p.Name)
			out = append(out, d)
			// deviations of the property value (includes zero values and wrong types)
			vs := g.Variants(p.Schema, defs, depth+1)
			for i, v := range vs {
				if i > 14 {
					break
				}
				d := clone(full).(map[string]interface{})
				d[p.Name] = v
				out = append(out, d)
			}
		}
		// unknown property
		d := clone(full).(map[string]interface{})
		d["unknownProp"] = 1
		out = append(out, d)
		if s.MaxProps != nil || s.MinProps != nil {
			for n := 0; n <= 5; n++ {
				d := map[string]interface{}{}
				keys := []string{}
				for _, p := range s.Props {
					keys = append(keys, p.Name)
				}
				sort.Strings(keys)
				for i := 0; i < n; i++ {
					if i < len(keys) {
						for _, p := range s.Props {
							if p.Name == keys[i] {
								d[keys[i]] = g.Valid(p.Schema, defs, depth+1)
							}
						}
					} else {
						d[fmt.Sprintf("x%d", i)] = "v"
					}
				}
				out = append(out, d)
			}
		}
	}
	return out
}

func repeat(v interface{}, n int) []interface{} {
	if n < 0 {
		n = 0
	}
	out := make([]interface{}, n)
	for i := range out {
		out[i] = clone(v)
	}
	return out
}

// resolve: the schema behind a chain of references
func (g *Gen) resolve(s *Schema, defs map[string]*Schema) *Schema {
	for i := 0; s != nil && s.Kind == KRef && i < 10; i++ {
		s = defs[s.Ref]
	}
	return s
}

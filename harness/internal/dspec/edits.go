package dspec

import "strings"

// Elementary edits: B = A with k edits. Every edit reports its kind for the coverage matrix.

type site struct {
	where  string // query/path/header/formData/body/response/respheader/def + depth info
	schema *Schema
	simple *Simple
	param  *Param
}

func walkSchema(x *Schema, where string, depth int, out *[]site) {
	if x == nil {
		return
	}
	*out = append(*out, site{where: where, schema: x})
	if depth > 6 {
		return
	}
	walkSchema(x.Items, where+"/items", depth+1, out)
	for _, p := range x.Props {
		walkSchema(p.Schema, where+"/prop", depth+1, out)
	}
	for _, a := range x.AllOf {
		walkSchema(a, where+"/allOf", depth+1, out)
	}
}

func walkSimple(x *Simple, where string, out *[]site) {
	*out = append(*out, site{where: where, simple: x})
	if x.Items != nil {
		walkSimple(x.Items, where+"/items", out)
	}
}

func (sp *Spec) sites() []site {
	var out []site
	addParams := func(ps []*Param, prefix string) {
		for _, p := range ps {
			out = append(out, site{where: prefix + p.In, param: p})
			if p.Schema != nil {
				walkSchema(p.Schema, prefix+"body", 0, &out)
			} else {
				walkSimple(&p.Simple, prefix+p.In, &out)
			}
		}
	}
	for _, pi := range sp.Paths {
		addParams(pi.Params, "pathlevel-")
		for _, op := range pi.Ops {
			addParams(op.Params, "")
			for _, r := range op.Responses {
				walkSchema(r.Schema, "response", 0, &out)
				for i := range r.Headers {
					walkSimple(&r.Headers[i].S, "respheader", &out)
				}
			}
		}
	}
	for _, d := range sp.Defs {
		walkSchema(d.Schema, "def", 0, &out)
	}
	return out
}

func bump(p **int64, g *Gen, lo, hi int) string {
	switch {
	case *p == nil:
		*p = i64(int64(lo + g.R.Intn(hi-lo+1)))
		return "add"
	case g.R.Chance(1, 4):
		*p = nil
		return "del"
	case g.R.Chance(1, 2):
		v := **p + 1 + int64(g.R.Intn(3))
		*p = &v
		return "inc"
	default:
		v := **p - 1 - int64(g.R.Intn(3))
		if v < 0 && lo >= 0 {
			v = 0
			if **p == 0 {
				v = 1
			}
		}
		*p = &v
		return "dec"
	}
}

func (g *Gen) editVals(v *Vals, typ string) string {
	switch typ {
	case "string":
		switch g.R.Intn(4) {
		case 0:
			return "minLength." + bump(&v.MinLen, g, 0, 3)
		case 1:
			return "maxLength." + bump(&v.MaxLen, g, 4, 9)
		case 2:
			if v.Pattern == "" {
				v.Pattern = "^[a-z]+$"
				return "pattern.add"
			}
			if g.R.Chance(1, 2) {
				v.Pattern = ""
				return "pattern.del"
			}
			v.Pattern = v.Pattern + "x"
			return "pattern.change"
		default:
			return g.editEnum(v, true)
		}
	case "integer", "number":
		switch g.R.Intn(5) {
		case 0:
			return "minimum." + bump(&v.Min, g, -5, 5)
		case 1:
			return "maximum." + bump(&v.Max, g, 6, 20)
		case 2:
			v.XMax = !v.XMax
			if v.Max == nil {
				v.Max = i64(10)
			}
			return "exclusiveMaximum.flip"
		case 3:
			v.XMin = !v.XMin
			if v.Min == nil {
				v.Min = i64(0)
			}
			return "exclusiveMinimum.flip"
		default:
			if typ == "integer" {
				return g.editEnum(v, false)
			}
			return "minimum." + bump(&v.Min, g, -5, 5)
		}
	case "array":
		if g.R.Chance(1, 2) {
			return "minItems." + bump(&v.MinItems, g, 0, 2)
		}
		return "maxItems." + bump(&v.MaxItems, g, 3, 8)
	}
	return ""
}

func (g *Gen) editEnum(v *Vals, str bool) string {
	if len(v.Enum) == 0 {
		if str {
			v.Enum = g.strEnum()
		} else {
			v.Enum = g.intEnum()
		}
		return "enum.add-constraint"
	}
	switch g.R.Intn(3) {
	case 0:
		if len(v.Enum) > 1 {
			v.Enum = v.Enum[1:]
			return "enum.del-value"
		}
		v.Enum = nil
		return "enum.del-constraint"
	case 1:
		if str {
			v.Enum = append(v.Enum, EnumV{Kind: 0, S: "zz" + g.R.Pick(words)})
		} else {
			v.Enum = append(v.Enum, EnumV{Kind: 1, I: int64(100 + g.R.Intn(50))})
		}
		return "enum.add-value"
	default:
		// reorder only: not a change
		if len(v.Enum) > 1 {
			v.Enum[0], v.Enum[len(v.Enum)-1] = v.Enum[len(v.Enum)-1], v.Enum[0]
		}
		return "enum.reorder"
	}
}

func firstType(x *Schema) string {
	if len(x.Type) > 0 {
		return x.Type[0]
	}
	return ""
}

func (g *Gen) editSchema(x *Schema, defs []string) string {
	if x.Ref != "" {
		if len(defs) > 1 && g.R.Chance(1, 2) {
			for {
				n := g.R.Pick(defs)
				if n != x.Ref {
					x.Ref = n
					return "ref.retarget"
				}
			}
		}
		*x = *g.objectNoAllOf(1, defs)
		return "ref.to-inline"
	}
	t := firstType(x)
	switch g.R.Intn(8) {
	case 0:
		if x.Desc == "" {
			x.Desc = "added"
			return "description.add"
		}
		if g.R.Chance(1, 2) {
			x.Desc = ""
			return "description.del"
		}
		x.Desc += "!"
		return "description.change"
	case 1:
		if t == "string" || t == "integer" || t == "number" {
			f := g.formatFor(t)
			if f != x.Format {
				x.Format = f
				return "format.change"
			}
		}
		return g.editVals(&x.V, t)
	case 2:
		if len(x.Props) > 0 && g.R.Chance(1, 2) {
			i := g.R.Intn(len(x.Props))
			name := x.Props[i].Name
			x.Props = append(x.Props[:i:i], x.Props[i+1:]...)
			var req []string
			for _, r := range x.Required {
				if r != name {
					req = append(req, r)
				}
			}
			x.Required = req
			return "property.del"
		}
		if t == "object" || (t == "" && len(x.Props) > 0) {
			name := "new" + g.R.Pick(propNames)
			for _, p := range x.Props {
				if p.Name == name {
					return ""
				}
			}
			x.Props = append(x.Props, Prop{Name: name, Schema: g.Schema(1, defs)})
			if g.R.Chance(1, 2) {
				x.Required = append(x.Required, name)
				return "property.add-required"
			}
			return "property.add"
		}
		return g.editVals(&x.V, t)
	case 3:
		if len(x.Props) > 0 {
			name := x.Props[g.R.Intn(len(x.Props))].Name
			for i, r := range x.Required {
				if r == name {
					x.Required = append(x.Required[:i:i], x.Required[i+1:]...)
					return "property.required-to-optional"
				}
			}
			x.Required = append(x.Required, name)
			return "property.optional-to-required"
		}
		return g.editVals(&x.V, t)
	case 4:
		if t == "string" || t == "integer" || t == "number" || t == "boolean" {
			nt := g.R.Pick([]string{"string", "integer", "number", "boolean"})
			if nt != t {
				x.Type = []string{nt}
				x.Format = ""
				x.V = Vals{}
				return "type.change-primitive"
			}
		}
		if g.R.Chance(1, 3) && len(defs) > 0 {
			*x = Schema{Ref: g.R.Pick(defs)}
			return "inline.to-ref"
		}
		return g.editVals(&x.V, t)
	case 5:
		if t == "array" && g.R.Chance(1, 2) {
			*x = Schema{Type: []string{"string"}}
			return "type.array-to-primitive"
		}
		if t != "array" && t != "object" && t != "" && g.R.Chance(1, 3) {
			old := *x
			*x = Schema{Type: []string{"array"}, Items: &old}
			return "type.primitive-to-array"
		}
		return g.editVals(&x.V, t)
	default:
		return g.editVals(&x.V, t)
	}
}

func (g *Gen) editSimple(x *Simple) string {
	switch g.R.Intn(7) {
	case 0:
		nt := g.R.Pick([]string{"string", "integer", "number", "boolean"})
		if x.Type != "array" && nt != x.Type {
			x.Type = nt
			x.Format = ""
			x.V = Vals{}
			x.Default = DVal{}
			return "type.change-primitive"
		}
		return g.editVals(&x.V, x.Type)
	case 1:
		f := g.formatFor(x.Type)
		if f != x.Format {
			x.Format = f
			return "format.change"
		}
		return g.editVals(&x.V, x.Type)
	case 2:
		if x.Type == "array" {
			c := g.R.Pick([]string{"", "csv", "ssv", "tsv", "pipes"})
			if c != x.CFmt {
				x.CFmt = c
				return "collectionFormat.change"
			}
		}
		return g.editVals(&x.V, x.Type)
	case 3:
		if x.Type == "array" {
			if x.Default.Kind == 0 {
				x.Default = DVal{Kind: 4, L: []DVal{}}
				return "default.add"
			}
			if g.R.Chance(1, 2) {
				x.Default = DVal{}
				return "default.del"
			}
			if x.Items != nil && x.Items.Type != "array" {
				if e := g.validDefault(x.Items); e.Kind != 0 {
					x.Default.L = append(x.Default.L, e)
					return "default.change"
				}
			}
			return ""
		}
		if x.Default.Kind == 0 {
			x.Default = g.validDefault(x)
			if x.Default.Kind == 0 {
				return ""
			}
			return "default.add"
		}
		if g.R.Chance(1, 2) {
			x.Default = DVal{}
			return "default.del"
		}
		switch x.Default.Kind {
		case 1:
			x.Default.S += "x"
		case 2:
			x.Default.I++
		case 3:
			x.Default.B = !x.Default.B
		}
		return "default.change"
	case 4:
		if x.Type == "array" && g.R.Chance(1, 2) {
			*x = Simple{Type: "string"}
			return "type.array-to-primitive"
		}
		if x.Type != "array" && g.R.Chance(1, 4) {
			old := *x
			old.Default = DVal{}
			*x = Simple{Type: "array", Items: &old}
			return "type.primitive-to-array"
		}
		return g.editVals(&x.V, x.Type)
	default:
		return g.editVals(&x.V, x.Type)
	}
}

// Mutate applies one random elementary edit; returns its kind ("" if it was a no-op).
func (g *Gen) Mutate(sp *Spec) string {
	var defs []string
	for _, d := range sp.Defs {
		defs = append(defs, d.Name)
	}
	if g.R.Chance(1, 8) {
		return g.editExt(sp)
	}
	k := g.R.Intn(100)
	switch {
	case k < 8:
		switch g.R.Intn(6) {
		case 0:
			sp.HasConsumes = true
			sp.Consumes = g.subset(mimes)
			return "meta.consumes"
		case 1:
			sp.HasProduces = true
			sp.Produces = g.subset(mimes)
			return "meta.produces"
		case 2:
			if g.R.Chance(1, 4) {
				sp.HasSchemes, sp.Schemes = false, nil
				return "meta.schemes-removed"
			}
			sp.HasSchemes = true
			sp.Schemes = g.subset(schemes)
			return "meta.schemes"
		case 3:
			sp.Host = g.R.Pick([]string{"", "api.example.com", "other.example.org"})
			return "meta.host"
		case 4:
			sp.BasePath = g.R.Pick([]string{"", "/v1", "/v2"})
			return "meta.basePath"
		default:
			sp.InfoDesc = g.R.Pick([]string{"", "alpha", "changed"})
			return "meta.description"
		}
	case k < 16 && len(sp.Paths) > 0:
		pi := sp.Paths[g.R.Intn(len(sp.Paths))]
		switch g.R.Intn(3) {
		case 0:
			if len(pi.Ops) > 1 {
				i := g.R.Intn(len(pi.Ops))
				pi.Ops = append(pi.Ops[:i:i], pi.Ops[i+1:]...)
				return "endpoint.del"
			}
			return ""
		case 1:
			for _, m := range []string{"get", "post", "put", "delete", "patch"} {
				has := false
				for _, op := range pi.Ops {
					if op.Method == m {
						has = true
					}
				}
				if !has {
					hasID := pi.URL == "/b/{id}" || pi.URL == "/d/{id}/e"
					pl := false
					for _, p := range pi.Params {
						if p.In == "path" {
							pl = true
						}
					}
					pi.Ops = append(pi.Ops, g.operation(m, pi.URL, hasID, pl, defs))
					return "endpoint.add"
				}
			}
			return ""
		default:
			if len(sp.Paths) > 1 {
				i := g.R.Intn(len(sp.Paths))
				sp.Paths = append(sp.Paths[:i:i], sp.Paths[i+1:]...)
				return "path.del"
			}
			return ""
		}
	case k < 30 && len(sp.Paths) > 0:
		pi := sp.Paths[g.R.Intn(len(sp.Paths))]
		if len(pi.Ops) == 0 {
			return ""
		}
		op := pi.Ops[g.R.Intn(len(pi.Ops))]
		switch g.R.Intn(8) {
		case 0:
			if !op.HasTags {
				op.HasTags = true
				op.Tags = []string{g.R.Pick(tagsPool)}
				return "tags.add-list"
			}
			if g.R.Chance(1, 4) {
				op.HasTags, op.Tags = false, nil
				return "tags.del-list"
			}
			op.Tags = g.subset(tagsPool)
			return "tags.change"
		case 1:
			op.Desc = g.R.Pick([]string{"", "one", "two"})
			return "operation.description"
		case 2:
			if len(op.Params) > 0 {
				i := g.R.Intn(len(op.Params))
				if op.Params[i].In != "path" {
					op.Params = append(op.Params[:i:i], op.Params[i+1:]...)
					return "param.del"
				}
			}
			return ""
		case 3:
			nm := "n" + g.R.Pick(queryNames)
			for _, p := range op.Params {
				if p.Name == nm {
					return ""
				}
			}
			in := g.R.Pick([]string{"query", "header"})
			op.Params = append(op.Params, g.param(in, nm, defs))
			if op.Params[len(op.Params)-1].Required {
				return "param.add-required"
			}
			return "param.add-optional"
		case 4:
			if len(op.Responses) > 1 {
				i := 1 + g.R.Intn(len(op.Responses)-1)
				op.Responses = append(op.Responses[:i:i], op.Responses[i+1:]...)
				return "response.del"
			}
			return ""
		case 5:
			for _, c := range []int{201, 204, 400, 404, 500} {
				has := false
				for _, r := range op.Responses {
					if r.Code == c {
						has = true
					}
				}
				if !has {
					r := &Response{Code: c, Desc: "added"}
					if c != 204 && g.R.Chance(1, 2) {
						r.Schema = g.Schema(1, defs)
					}
					op.Responses = append(op.Responses, r)
					return "response.add"
				}
			}
			return ""
		case 6:
			r := op.Responses[g.R.Intn(len(op.Responses))]
			if r.Schema == nil {
				r.Schema = g.Schema(1, defs)
				return "response.schema-add"
			}
			if g.R.Chance(1, 3) {
				r.Schema = nil
				return "response.schema-del"
			}
			r.Desc += "."
			return "response.description"
		default:
			r := op.Responses[g.R.Intn(len(op.Responses))]
			if len(r.Headers) > 0 && g.R.Chance(1, 3) {
				// the same header in another spelling: for the analyser (and for a JSON object) these are two different names,
				// one deleted and one added
				old := r.Headers[0].Name
				nm := strings.ToLower(old)
				if nm == old {
					nm = strings.ToUpper(old)
				}
				clash := false
				for _, h := range r.Headers[1:] {
					clash = clash || h.Name == nm
				}
				if !clash && nm != old {
					r.Headers[0].Name = nm
					return "respheader.respell"
				}
			}
			if len(r.Headers) > 0 && g.R.Chance(1, 2) {
				r.Headers = r.Headers[1:]
				return "respheader.del"
			}
			nm := "X-New-" + g.R.Pick([]string{"A", "B"})
			for _, h := range r.Headers {
				if h.Name == nm {
					return ""
				}
			}
			r.Headers = append(r.Headers, Header{Name: nm, S: g.Simple(1, false)})
			return "respheader.add"
		}
	case k < 36:
		if len(sp.Defs) > 0 && g.R.Chance(1, 2) {
			// remove an unreferenced definition only (keeps the spec valid)
			refd := map[string]bool{}
			for _, s := range sp.sites() {
				if s.schema != nil && s.schema.Ref != "" {
					refd[s.schema.Ref] = true
				}
			}
			for i, d := range sp.Defs {
				if !refd[d.Name] {
					sp.Defs = append(sp.Defs[:i:i], sp.Defs[i+1:]...)
					return "definition.del"
				}
			}
			return ""
		}
		nm := "New" + g.R.Pick(defNames)
		for _, d := range sp.Defs {
			if d.Name == nm {
				return ""
			}
		}
		sp.Defs = append(sp.Defs, Def{Name: nm, Schema: g.objectNoAllOf(1, defs)})
		return "definition.add"
	default:
		sites := sp.sites()
		if len(sites) == 0 {
			return ""
		}
		st := sites[g.R.Intn(len(sites))]
		var kind string
		switch {
		case st.param != nil:
			p := st.param
			switch g.R.Intn(3) {
			case 0:
				if p.In != "path" {
					p.Required = !p.Required
					if p.Required {
						kind = "param.optional-to-required"
					} else {
						kind = "param.required-to-optional"
					}
				}
			case 1:
				p.Desc = g.R.Pick([]string{"", "pd1", "pd2"})
				kind = "param.description"
			default:
				if p.Schema != nil {
					kind = g.editSchema(p.Schema, defs)
				} else {
					kind = g.editSimple(&p.Simple)
				}
			}
		case st.schema != nil:
			if strings.Contains(st.where, "allOf") || strings.HasPrefix(st.where, "def") {
				// inside allOf / definitions an edit could create circular ancestry: keep such edits ref-free
				defs = nil
				if st.schema.Ref != "" {
					return ""
				}
			}
			kind = g.editSchema(st.schema, defs)
		default:
			kind = g.editSimple(st.simple)
		}
		if kind == "" {
			return ""
		}
		// compound edit: a second change at the very same site
		if st.param == nil && g.R.Chance(1, 3) {
			var k2 string
			if st.schema != nil && st.schema.Ref == "" {
				k2 = g.editVals(&st.schema.V, firstType(st.schema))
			} else if st.simple != nil {
				k2 = g.editVals(&st.simple.V, st.simple.Type)
			}
			if k2 != "" {
				kind += "+" + k2
			}
		}
		return kind + "@" + st.where
	}
}

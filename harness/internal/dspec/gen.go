package dspec

import (
	"fmt"

	"verif/harness/internal/rng"
)

// Gen generates structured, mostly-valid specs of the diff fragment.
type Gen struct {
	R       *rng.R
	Lenient bool // also emit fields that are outside strict Swagger 2.0 (parameter example/nullable)
	Cov     map[string]int
	// AllOfDefs: definitions an allOf member may reference (earlier ones only inside definitions: no circular ancestry)
	AllOfDefs     []string
	RestrictAllOf bool
}

func (g *Gen) hit(cell string) {
	if g.Cov != nil {
		g.Cov[cell]++
	}
}

var defNames = []string{"A", "B", "Pet", "Tree", "Item", "Order"}
var propNames = []string{"id", "name", "tags", "child", "kids", "count", "sku", "main"}
var words = []string{"alpha", "beta", "gamma", "a b", "x,y", "0", "true", "Ünï", "q\"uote"}
var mimes = []string{"application/json", "application/xml", "text/plain", "application/x-yaml"}
var schemes = []string{"http", "https", "ws"}
var tagsPool = []string{"pets", "store", "admin", "x"}

func i64(v int64) *int64 { return &v }

func (g *Gen) optInt(lo, hi int) *int64 {
	if g.R.Chance(1, 2) {
		return nil
	}
	return i64(int64(lo + g.R.Intn(hi-lo+1)))
}

func (g *Gen) desc() string {
	if g.R.Chance(2, 3) {
		return ""
	}
	return g.R.Pick(words)
}

func (g *Gen) strEnum() []EnumV {
	n := 1 + g.R.Intn(3)
	seen := map[string]bool{}
	var out []EnumV
	for i := 0; i < n; i++ {
		w := g.R.Pick(words)
		if !seen[w] {
			seen[w] = true
			out = append(out, EnumV{Kind: 0, S: w})
		}
	}
	return out
}

func (g *Gen) intEnum() []EnumV {
	n := 1 + g.R.Intn(3)
	seen := map[int64]bool{}
	var out []EnumV
	for i := 0; i < n; i++ {
		v := int64(g.R.Intn(9) - 2)
		if !seen[v] {
			seen[v] = true
			out = append(out, EnumV{Kind: 1, I: v})
		}
	}
	return out
}

// vals for a primitive type
func (g *Gen) valsFor(typ string) Vals {
	var v Vals
	switch typ {
	case "string":
		if g.R.Chance(1, 2) {
			v.MinLen = g.optInt(0, 3)
			v.MaxLen = g.optInt(4, 9)
		}
		if g.R.Chance(1, 5) {
			v.Pattern = g.R.Pick([]string{"^[a-z]+$", "^\\d+$", "x.*"})
		}
		if g.R.Chance(1, 4) {
			v.Enum = g.strEnum()
		}
	case "integer", "number":
		if g.R.Chance(1, 2) {
			v.Min = g.optInt(-5, 5)
			v.Max = g.optInt(6, 20)
			if v.Max != nil && g.R.Chance(1, 3) {
				v.XMax = true
			}
			if v.Min != nil && g.R.Chance(1, 3) {
				v.XMin = true
			}
		}
		if typ == "integer" && g.R.Chance(1, 6) {
			v.Enum = g.intEnum()
		}
		if g.R.Chance(1, 4) {
			// every integer is a multiple of both: the witnesses of the edit catalogue stay valid
			v.MultipleOf = map[string]float64{"integer": 1, "number": 0.5}[typ]
		}
	case "array":
		if g.R.Chance(1, 2) {
			v.MinItems = g.optInt(0, 2)
			v.MaxItems = g.optInt(3, 8)
		}
		// (uniqueItems is not drawn: the catalogue's array witnesses repeat one element)
	}
	return v
}

func (g *Gen) formatFor(typ string) string {
	switch typ {
	case "string":
		return g.R.Pick([]string{"", "", "", "date", "date-time", "password", "byte", "uuid"})
	case "integer":
		// formats outside the analyser's numberWideness table too: the bounds of such integers are still compared
		return g.R.Pick([]string{"", "", "int32", "int64", "int32", "int64", "uint32", "uint64", "int8", "uint16"})
	case "number":
		return g.R.Pick([]string{"", "", "float", "double", "float", "double", "decimal"})
	}
	return ""
}

// Schema generates a body/definition schema; defs are the names that may be referenced.
func (g *Gen) Schema(depth int, defs []string) *Schema {
	k := g.R.Intn(100)
	switch {
	case k < 18 && len(defs) > 0:
		g.hit("schema:ref")
		return &Schema{Ref: g.R.Pick(defs)}
	case k < 40:
		g.hit("schema:string")
		return &Schema{Type: []string{"string"}, Format: g.formatFor("string"), Desc: g.desc(), V: g.valsFor("string")}
	case k < 55:
		t := g.R.Pick([]string{"integer", "number"})
		g.hit("schema:" + t)
		return &Schema{Type: []string{t}, Format: g.formatFor(t), Desc: g.desc(), V: g.valsFor(t)}
	case k < 60:
		g.hit("schema:boolean")
		return &Schema{Type: []string{"boolean"}, Desc: g.desc()}
	case k < 75 && depth > 0:
		g.hit("schema:array")
		return &Schema{Type: []string{"array"}, Desc: g.desc(), V: g.valsFor("array"), Items: g.Schema(depth-1, defs)}
	case k < 92 && depth > 0:
		return g.Object(depth, defs, g.R.Chance(4, 5))
	case k < 97 && depth > 0 && len(g.allOfTargets(defs)) > 0:
		g.hit("schema:allOf")
		x := &Schema{Desc: g.desc(), AllOf: []*Schema{{Ref: g.R.Pick(g.allOfTargets(defs))}}}
		if g.R.Chance(2, 3) {
			o := g.Object(depth-1, defs, true)
			if g.R.Chance(1, 2) {
				// sibling properties next to allOf
				x.Type = o.Type
				x.Props = o.Props
				x.Required = o.Required
			} else {
				x.AllOf = append(x.AllOf, o)
			}
		}
		return x
	default:
		g.hit("schema:untyped")
		if depth > 0 && g.R.Chance(1, 2) {
			return g.Object(depth, defs, false)
		}
		return &Schema{Desc: g.desc()}
	}
}

func (g *Gen) allOfTargets(defs []string) []string {
	if g.RestrictAllOf {
		return g.AllOfDefs
	}
	return defs
}

func (g *Gen) Object(depth int, defs []string, typed bool) *Schema {
	g.hit("schema:object")
	x := &Schema{Desc: g.desc()}
	if typed {
		x.Type = []string{"object"}
	}
	n := 1 + g.R.Intn(3)
	seen := map[string]bool{}
	for i := 0; i < n; i++ {
		name := g.R.Pick(propNames)
		if seen[name] {
			continue
		}
		seen[name] = true
		x.Props = append(x.Props, Prop{Name: name, Schema: g.Schema(depth-1, defs)})
		if g.R.Chance(1, 3) {
			x.Required = append(x.Required, name)
		}
	}
	if typed && g.R.Chance(1, 3) {
		// additionalProperties in its boolean and its schema form, a title: the analyser looks at none of them
		x.Noise = map[string]interface{}{}
		switch g.R.Intn(4) {
		case 0:
			x.Noise["additionalProperties"] = false
		case 1:
			x.Noise["additionalProperties"] = true
		case 2:
			x.Noise["additionalProperties"] = map[string]interface{}{"type": "string"}
		case 3:
			x.Noise["title"] = "A titled object"
		}
		g.hit("schema:object-noise")
	}
	return x
}

// validDefault returns a default that satisfies the schema's own constraints, or none.
func (g *Gen) validDefault(x *Simple) DVal {
	if x.Format != "" || x.V.Pattern != "" {
		return DVal{}
	}
	if len(x.V.Enum) > 0 {
		e := x.V.Enum[g.R.Intn(len(x.V.Enum))]
		switch e.Kind {
		case 0:
			return DVal{Kind: 1, S: e.S}
		case 1:
			return DVal{Kind: 2, I: e.I}
		}
		return DVal{}
	}
	switch x.Type {
	case "string":
		for tries := 0; tries < 6; tries++ {
			w := g.R.Pick([]string{"alpha", "beta", "a b", "0", "true", "abcdefghi", "ab"})
			n := int64(len(w))
			if (x.V.MinLen == nil || n >= *x.V.MinLen) && (x.V.MaxLen == nil || n <= *x.V.MaxLen) {
				return DVal{Kind: 1, S: w}
			}
		}
		return DVal{}
	case "integer", "number":
		lo, hi := int64(-3), int64(9)
		if x.V.Min != nil {
			lo = *x.V.Min
			if x.V.XMin {
				lo++
			}
		}
		if x.V.Max != nil {
			hi = *x.V.Max
			if x.V.XMax {
				hi--
			}
		}
		if hi < lo {
			return DVal{}
		}
		return DVal{Kind: 2, I: lo + int64(g.R.Intn(int(hi-lo+1)))}
	case "boolean":
		return DVal{Kind: 3, B: g.R.Chance(1, 2)}
	}
	return DVal{}
}

func (g *Gen) scalarDefault(typ string) DVal {
	switch typ {
	case "string":
		return DVal{Kind: 1, S: g.R.Pick(words)}
	case "integer", "number":
		return DVal{Kind: 2, I: int64(g.R.Intn(10))}
	case "boolean":
		return DVal{Kind: 3, B: g.R.Chance(1, 2)}
	}
	return DVal{}
}

// Simple generates a non-body parameter / header / items schema.
func (g *Gen) Simple(depth int, isItems bool) Simple {
	typ := g.R.Pick([]string{"string", "string", "integer", "number", "boolean", "array"})
	if depth == 0 && typ == "array" {
		typ = "string"
	}
	x := Simple{Type: typ, Format: g.formatFor(typ), V: g.valsFor(typ)}
	g.hit("simple:" + typ)
	if typ == "array" {
		it := g.Simple(depth-1, true)
		x.Items = &it
		if g.R.Chance(1, 2) {
			x.CFmt = g.R.Pick([]string{"csv", "ssv", "tsv", "pipes"})
		}
		if g.R.Chance(1, 4) && it.Type != "array" {
			n := g.R.Intn(3)
			if x.V.MinItems != nil && int64(n) < *x.V.MinItems {
				n = int(*x.V.MinItems)
			}
			d := DVal{Kind: 4, L: []DVal{}}
			ok := true
			for i := 0; i < n; i++ {
				e := g.validDefault(&it)
				if e.Kind == 0 {
					ok = false
				}
				d.L = append(d.L, e)
			}
			if ok && (x.V.MaxItems == nil || int64(n) <= *x.V.MaxItems) {
				x.Default = d
				g.hit("simple:array-default")
			}
		}
	} else if g.R.Chance(1, 4) {
		x.Default = g.validDefault(&x)
	}
	if g.Lenient && g.R.Chance(1, 6) {
		x.Example = g.scalarDefault(g.R.Pick([]string{"string", "integer", "boolean"}))
	}
	if g.Lenient && g.R.Chance(1, 8) {
		x.Nullable = true
	}
	return x
}

func (g *Gen) param(in string, name string, defs []string) *Param {
	p := &Param{Name: name, In: in, Desc: g.desc()}
	if in == "body" {
		p.Schema = g.Schema(2, defs)
		p.Required = g.R.Chance(1, 2)
		return p
	}
	p.Simple = g.Simple(2, false)
	if in == "path" {
		p.Required = true
		if p.Simple.Type == "array" || p.Simple.Type == "boolean" {
			p.Simple = Simple{Type: "string", V: g.valsFor("string")}
		}
	} else {
		p.Required = g.R.Chance(1, 3)
	}
	g.hit("param:" + in)
	return p
}

var queryNames = []string{"q", "limit", "trace", "ids"}
var headerNames = []string{"X-Mode", "X-Rate", "If-Match"}

func (g *Gen) operation(method string, url string, hasID bool, pathLevelID bool, defs []string) *Operation {
	op := &Operation{Method: method, Desc: g.desc(), Deprecated: g.R.Chance(1, 10)}
	if g.R.Chance(2, 3) {
		op.HasTags = true
		n := g.R.Intn(3)
		seen := map[string]bool{}
		for i := 0; i < n; i++ {
			t := g.R.Pick(tagsPool)
			if !seen[t] {
				seen[t] = true
				op.Tags = append(op.Tags, t)
			}
		}
	}
	if hasID && (!pathLevelID || g.R.Chance(1, 4)) {
		op.Params = append(op.Params, g.param("path", "id", defs))
	}
	seen := map[string]bool{}
	for i, n := 0, g.R.Intn(3); i < n; i++ {
		nm := g.R.Pick(queryNames)
		if !seen[nm] {
			seen[nm] = true
			op.Params = append(op.Params, g.param("query", nm, defs))
		}
	}
	seenH := map[string]bool{}
	for i, n := 0, g.R.Intn(2); i < n; i++ {
		nm := g.R.Pick(headerNames)
		if g.R.Chance(1, 3) {
			// a parameter is identified by name AND location: a header may share its name with a query parameter
			nm = g.R.Pick(queryNames)
			if seen[nm] {
				g.hit("param:same-name-in-two-locations")
			}
		}
		if !seenH[nm] {
			seenH[nm] = true
			op.Params = append(op.Params, g.param("header", nm, defs))
		}
	}
	if hasID && !seen["id"] && g.R.Chance(1, 4) {
		op.Params = append(op.Params, g.param("query", "id", defs))
		g.hit("param:same-name-in-two-locations")
	}
	if method != "get" && method != "delete" && method != "head" {
		if g.R.Chance(3, 5) {
			op.Params = append(op.Params, g.param("body", "body", defs))
		} else if g.R.Chance(1, 2) {
			op.Params = append(op.Params, g.param("formData", g.R.Pick([]string{"f1", "f2"}), defs))
		}
	}
	codes := []int{200, 201, 204, 400, 404}
	nr := 1 + g.R.Intn(3)
	seenc := map[int]bool{}
	for i := 0; i < nr; i++ {
		c := codes[g.R.Intn(len(codes))]
		if i == 0 {
			c = 200
		}
		if seenc[c] {
			continue
		}
		seenc[c] = true
		r := &Response{Code: c, Desc: "r" + fmt.Sprint(c)}
		if c != 204 && g.R.Chance(3, 4) {
			r.Schema = g.Schema(2, defs)
		}
		for j, n := 0, g.R.Intn(3); j < n && g.R.Chance(1, 2); j++ {
			nm := g.R.Pick(headerNames)
			dup := false
			for _, h := range r.Headers {
				if h.Name == nm {
					dup = true
				}
			}
			if !dup {
				r.Headers = append(r.Headers, Header{Name: nm, S: g.Simple(1, false)})
				g.hit("response:header")
			}
		}
		op.Responses = append(op.Responses, r)
	}
	return op
}

// Spec generates a whole document.
func (g *Gen) Spec() *Spec {
	sp := &Spec{}
	nd := g.R.Intn(5)
	var names []string
	for i := 0; i < nd; i++ {
		n := defNames[g.R.Intn(len(defNames))]
		dup := false
		for _, m := range names {
			if m == n {
				dup = true
			}
		}
		if !dup {
			names = append(names, n)
		}
	}
	g.RestrictAllOf = true
	defer func() { g.RestrictAllOf = false }()
	for i, n := range names {
		g.AllOfDefs = names[:i]
		// definitions may reference any definition (cycles included), but allOf only earlier ones (no circular ancestry)
		var sc *Schema
		if g.R.Chance(1, 5) && i > 0 {
			sc = &Schema{AllOf: []*Schema{{Ref: names[g.R.Intn(i)]}, g.Object(1, names, true)}}
			g.hit("def:allOf")
			if g.R.Chance(1, 2) {
				// the other common spelling: the base in allOf, the own properties beside it
				own := g.Object(1, names, true)
				own.AllOf = []*Schema{{Ref: sc.AllOf[0].Ref}}
				sc = own
				g.hit("def:allOf-beside-properties")
			}
		} else if g.R.Chance(1, 6) {
			// recursive tree through an array property
			sc = &Schema{Type: []string{"object"}, Props: []Prop{{Name: "kids", Schema: &Schema{Type: []string{"array"}, Items: &Schema{Ref: n}}}, {Name: "name", Schema: &Schema{Type: []string{"string"}}}}}
			g.hit("def:cycle-array")
		} else if g.R.Chance(1, 6) {
			sc = &Schema{Type: []string{"object"}, Props: []Prop{{Name: "child", Schema: &Schema{Ref: n}}, {Name: "count", Schema: &Schema{Type: []string{"integer"}, V: g.valsFor("integer")}}}}
			g.hit("def:cycle-ref")
		} else {
			sc = g.objectNoAllOf(2, names)
		}
		sp.Defs = append(sp.Defs, Def{Name: n, Schema: sc})
	}
	g.RestrictAllOf = false
	nested := g.R.Chance(1, 3)
	if nested {
		// Outer -> Inner through a plain property and through array items; Inner carries constraints
		g.hit("def:nested-refs")
		inner := &Schema{Type: []string{"object"}, Props: []Prop{
			{Name: "sku", Schema: &Schema{Type: []string{"string"}, V: g.valsFor("string")}},
			{Name: "qty", Schema: &Schema{Type: []string{"integer"}, V: g.valsFor("integer")}}}}
		if g.R.Chance(1, 2) {
			inner.Required = []string{"sku"}
		}
		outer := &Schema{Type: []string{"object"}, Props: []Prop{{Name: "note", Schema: &Schema{Type: []string{"string"}}}}}
		if g.R.Chance(1, 2) {
			outer.Props = append(outer.Props, Prop{Name: "main", Schema: &Schema{Ref: "Inner"}})
		} else {
			outer.Props = append(outer.Props, Prop{Name: "lines", Schema: &Schema{Type: []string{"array"}, Items: &Schema{Ref: "Inner"}}})
		}
		sp.Defs = append(sp.Defs, Def{Name: "Inner", Schema: inner}, Def{Name: "Outer", Schema: outer})
	}
	if g.R.Chance(1, 2) {
		sp.HasConsumes = true
		sp.Consumes = g.subset(mimes)
	}
	if g.R.Chance(1, 2) {
		sp.HasProduces = true
		sp.Produces = g.subset(mimes)
	}
	if g.R.Chance(1, 2) {
		sp.HasSchemes = true
		sp.Schemes = g.subset(schemes)
	}
	if g.R.Chance(1, 2) {
		sp.Host = g.R.Pick([]string{"api.example.com", "localhost:8080"})
	}
	if g.R.Chance(1, 2) {
		sp.BasePath = g.R.Pick([]string{"/v1", "/api"})
	}
	sp.InfoDesc = g.desc()
	urls := []string{"/a", "/b/{id}", "/c", "/d/{id}/e"}
	np := 1 + g.R.Intn(3)
	seen := map[string]bool{}
	for i := 0; i < np; i++ {
		u := g.R.Pick(urls)
		if seen[u] {
			continue
		}
		seen[u] = true
		hasID := len(u) > 3 && (u == "/b/{id}" || u == "/d/{id}/e")
		pi := &PathItem{URL: u}
		pathLevelID := hasID && g.R.Chance(1, 2)
		if pathLevelID {
			pi.Params = append(pi.Params, g.param("path", "id", names))
			g.hit("pathlevel:path")
		}
		if g.R.Chance(1, 3) {
			pi.Params = append(pi.Params, g.param("query", g.R.Pick(queryNames), names))
			g.hit("pathlevel:query")
		}
		ms := []string{"get", "post", "put", "delete", "patch", "options", "head"}
		nm := 1 + g.R.Intn(3)
		seenm := map[string]bool{}
		for j := 0; j < nm; j++ {
			m := g.R.Pick(ms)
			if seenm[m] {
				continue
			}
			seenm[m] = true
			pi.Ops = append(pi.Ops, g.operation(m, u, hasID, pathLevelID, names))
		}
		sp.Paths = append(sp.Paths, pi)
	}
	if nested {
		op := sp.Paths[0].Ops[0]
		if g.R.Chance(1, 2) || op.Method == "get" || op.Method == "delete" || op.Method == "head" {
			op.Responses[0].Schema = &Schema{Ref: "Outer"}
		} else {
			var ps []*Param
			for _, p := range op.Params {
				if p.In != "body" && p.In != "formData" {
					ps = append(ps, p)
				}
			}
			op.Params = append(ps, &Param{Name: "body", In: "body", Required: true, Schema: &Schema{Ref: "Outer"}})
		}
	}
	g.decorate(sp)
	return sp
}

var extKeys = []string{"x-order", "x-internal", "x-owner", "x-flags"}

func (g *Gen) extVal() DVal {
	switch g.R.Intn(4) {
	case 0:
		return DVal{Kind: 1, S: g.R.Pick([]string{"alpha", "beta", "7"})}
	case 1:
		return DVal{Kind: 2, I: int64(g.R.Intn(3))}
	case 2:
		return DVal{Kind: 3, B: g.R.Chance(1, 2)}
	}
	return DVal{Kind: 4, L: []DVal{{Kind: 1, S: "a"}, {Kind: 2, I: int64(g.R.Intn(2))}}}
}

// extSlots: every place of the document whose vendor extensions `swagger diff` looks at
func (sp *Spec) extSlots() []*Exts {
	out := []*Exts{&sp.Ext, &sp.InfoExt}
	if sp.Contact != nil {
		out = append(out, sp.Contact)
	}
	if sp.License != nil {
		out = append(out, sp.License)
	}
	for i := range sp.TagDecls {
		out = append(out, &sp.TagDecls[i].Ext)
	}
	for i := range sp.SecDefs {
		out = append(out, &sp.SecDefs[i].Ext)
	}
	for _, pi := range sp.Paths {
		out = append(out, &pi.Ext)
		for _, p := range pi.Params {
			out = append(out, &p.Ext)
		}
		for _, op := range pi.Ops {
			out = append(out, &op.Ext, &op.RespExt)
			for _, p := range op.Params {
				out = append(out, &p.Ext)
			}
			for _, r := range op.Responses {
				for i := range r.Headers {
					out = append(out, &r.Headers[i].Ext)
				}
				n := 0
				for lvl := r.Schema; lvl != nil; lvl = lvl.Items {
					n++
				}
				for len(r.BodyExt) < n {
					r.BodyExt = append(r.BodyExt, nil)
				}
				r.BodyExt = r.BodyExt[:n]
				lvl := r.Schema
				for i := 0; i < n; i++ {
					if lvl.Ref == "" {
						out = append(out, &r.BodyExt[i])
					}
					lvl = lvl.Items
				}
			}
		}
	}
	return out
}

// decorate: contact / license objects, tag and security-scheme declarations, and vendor extensions on a third of the places
func (g *Gen) decorate(sp *Spec) {
	if g.R.Chance(1, 2) {
		sp.Contact = &Exts{}
	}
	if g.R.Chance(1, 2) {
		sp.License = &Exts{}
	}
	for _, n := range g.subset([]string{"pets", "store", "admin"}) {
		sp.TagDecls = append(sp.TagDecls, Named{Name: n})
	}
	for _, n := range g.subset([]string{"key", "token"}) {
		sp.SecDefs = append(sp.SecDefs, Named{Name: n})
	}
	for _, slot := range sp.extSlots() {
		if !g.R.Chance(1, 3) {
			continue
		}
		for _, k := range g.subset(extKeys) {
			*slot = append(*slot, ExtKV{Key: k, Val: g.extVal()})
		}
		g.hit("ext:present")
	}
}

// editExt: one extension added, removed or given another value somewhere
func (g *Gen) editExt(sp *Spec) string {
	slots := sp.extSlots()
	slot := slots[g.R.Intn(len(slots))]
	if len(*slot) > 0 && g.R.Chance(2, 3) {
		i := g.R.Intn(len(*slot))
		if g.R.Chance(1, 2) {
			*slot = append(append(Exts{}, (*slot)[:i]...), (*slot)[i+1:]...)
			return "ext.del"
		}
		old := (*slot)[i].Val
		for try := 0; try < 8; try++ {
			nv := g.extVal()
			if fmt.Sprint(nv.JSON()) != fmt.Sprint(old.JSON()) {
				cp := append(Exts{}, *slot...)
				cp[i].Val = nv
				*slot = cp
				return "ext.change"
			}
		}
		return ""
	}
	for _, k := range extKeys {
		has := false
		for _, kv := range *slot {
			has = has || kv.Key == k
		}
		if !has {
			*slot = append(append(Exts{}, *slot...), ExtKV{Key: k, Val: g.extVal()})
			return "ext.add"
		}
	}
	return ""
}

func (g *Gen) objectNoAllOf(depth int, defs []string) *Schema {
	for {
		x := g.Schema(depth, defs)
		if x.Ref == "" {
			return x
		}
	}
}

func (g *Gen) subset(xs []string) []string {
	out := []string{}
	for _, x := range xs {
		if g.R.Chance(1, 2) {
			out = append(out, x)
		}
	}
	return out
}

// Package dspec: abstract Swagger documents of the `swagger diff` fragment (mirrors coq/Tools/DiffSpec.v),
// with renderers to JSON (for the implementation) and to Gallina (for the model).
package dspec

import (
	"encoding/json"
	"fmt"
	"sort"
	"strconv"

	"verif/harness/internal/coqpp"
)

type EnumV struct {
	Kind int // 0 string, 1 int, 2 bool
	S    string
	I    int64
	B    bool
}

func (e EnumV) JSON() interface{} {
	switch e.Kind {
	case 0:
		return e.S
	case 1:
		return e.I
	default:
		return e.B
	}
}
func (e EnumV) Coq() string {
	switch e.Kind {
	case 0:
		return "(EStr " + coqpp.Str(e.S) + ")"
	case 1:
		return "(EInt " + coqpp.Z(e.I) + ")"
	default:
		return "(EBool " + coqpp.Bool(e.B) + ")"
	}
}

// DVal: default / example values
type DVal struct {
	Kind int // 0 none, 1 string, 2 int, 3 bool, 4 array
	S    string
	I    int64
	B    bool
	L    []DVal
}

func (d DVal) JSON() interface{} {
	switch d.Kind {
	case 1:
		return d.S
	case 2:
		return d.I
	case 3:
		return d.B
	case 4:
		out := make([]interface{}, len(d.L))
		for i, x := range d.L {
			out[i] = x.JSON()
		}
		return out
	}
	return nil
}
func (d DVal) Coq() string {
	switch d.Kind {
	case 1:
		return "(DStr " + coqpp.Str(d.S) + ")"
	case 2:
		return "(DInt " + coqpp.Z(d.I) + ")"
	case 3:
		return "(DBool " + coqpp.Bool(d.B) + ")"
	case 4:
		xs := make([]string, len(d.L))
		for i, x := range d.L {
			xs[i] = x.Coq()
		}
		return "(DArr " + coqpp.List(xs) + ")"
	}
	return "DNone"
}

type Vals struct {
	Max, Min                           *int64
	XMax, XMin                         bool
	MaxLen, MinLen, MaxItems, MinItems *int64
	Pattern                            string
	Enum                               []EnumV
	// keywords the analyser does not look at (outside the model: they must never produce a difference)
	MultipleOf  float64
	UniqueItems bool
}

func (v Vals) put(m map[string]interface{}) {
	if v.MultipleOf != 0 {
		m["multipleOf"] = v.MultipleOf
	}
	if v.UniqueItems {
		m["uniqueItems"] = true
	}
	if v.Max != nil {
		m["maximum"] = *v.Max
	}
	if v.Min != nil {
		m["minimum"] = *v.Min
	}
	if v.XMax {
		m["exclusiveMaximum"] = true
	}
	if v.XMin {
		m["exclusiveMinimum"] = true
	}
	if v.MaxLen != nil {
		m["maxLength"] = *v.MaxLen
	}
	if v.MinLen != nil {
		m["minLength"] = *v.MinLen
	}
	if v.MaxItems != nil {
		m["maxItems"] = *v.MaxItems
	}
	if v.MinItems != nil {
		m["minItems"] = *v.MinItems
	}
	if v.Pattern != "" {
		m["pattern"] = v.Pattern
	}
	if len(v.Enum) > 0 {
		xs := make([]interface{}, len(v.Enum))
		for i, e := range v.Enum {
			xs[i] = e.JSON()
		}
		m["enum"] = xs
	}
}

func (v Vals) Coq() string {
	es := make([]string, len(v.Enum))
	for i, e := range v.Enum {
		es[i] = e.Coq()
	}
	return fmt.Sprintf("{| v_max := %s; v_min := %s; v_xmax := %s; v_xmin := %s; v_maxlen := %s; v_minlen := %s; v_maxitems := %s; v_minitems := %s; v_pattern := %s; v_enum := %s |}",
		coqpp.OptZ(v.Max), coqpp.OptZ(v.Min), coqpp.Bool(v.XMax), coqpp.Bool(v.XMin),
		coqpp.OptZ(v.MaxLen), coqpp.OptZ(v.MinLen), coqpp.OptZ(v.MaxItems), coqpp.OptZ(v.MinItems),
		coqpp.Str(v.Pattern), coqpp.List(es))
}

type Prop struct {
	Name   string
	Schema *Schema
}

type Schema struct {
	Ref      string // definition name
	Type     []string
	Format   string
	Desc     string
	V        Vals
	Items    *Schema
	Props    []Prop
	Required []string
	AllOf    []*Schema
	// keywords the analyser does not look at (not part of the model): they must never produce a difference or a crash
	Noise map[string]interface{}
}

func (x *Schema) JSON() map[string]interface{} {
	m := map[string]interface{}{}
	if x.Ref != "" {
		m["$ref"] = "#/definitions/" + x.Ref
		return m // siblings of $ref are not rendered: the fragment keeps refs pure
	}
	if len(x.Type) == 1 {
		m["type"] = x.Type[0]
	} else if len(x.Type) > 1 {
		m["type"] = x.Type
	}
	if x.Format != "" {
		m["format"] = x.Format
	}
	if x.Desc != "" {
		m["description"] = x.Desc
	}
	x.V.put(m)
	if x.Items != nil {
		m["items"] = x.Items.JSON()
	}
	if len(x.Props) > 0 {
		ps := map[string]interface{}{}
		for _, p := range x.Props {
			ps[p.Name] = p.Schema.JSON()
		}
		m["properties"] = ps
	}
	if len(x.Required) > 0 {
		m["required"] = x.Required
	}
	if len(x.AllOf) > 0 {
		xs := make([]interface{}, len(x.AllOf))
		for i, a := range x.AllOf {
			xs[i] = a.JSON()
		}
		m["allOf"] = xs
	}
	for k, v := range x.Noise {
		m[k] = v
	}
	return m
}

func (x *Schema) Coq() string {
	items := "None"
	if x.Items != nil {
		items = "(Some " + x.Items.Coq() + ")"
	}
	ps := make([]string, len(x.Props))
	for i, p := range x.Props {
		ps[i] = "(" + coqpp.Str(p.Name) + ", " + p.Schema.Coq() + ")"
	}
	as := make([]string, len(x.AllOf))
	for i, a := range x.AllOf {
		as[i] = a.Coq()
	}
	if x.Ref != "" {
		return "(Schema " + coqpp.Str(x.Ref) + " [] [] [] no_vals None [] [] [])"
	}
	return fmt.Sprintf("(Schema [] %s %s %s %s %s %s %s %s)", coqpp.StrList(x.Type), coqpp.Str(x.Format), coqpp.Str(x.Desc),
		x.V.Coq(), items, coqpp.List(ps), coqpp.StrList(x.Required), coqpp.List(as))
}

type Simple struct {
	Type, Format, CFmt string
	Nullable           bool
	Default, Example   DVal
	V                  Vals
	Items              *Simple
}

func (x *Simple) put(m map[string]interface{}, isItems bool) {
	if x.Type != "" {
		m["type"] = x.Type
	}
	if x.Format != "" {
		m["format"] = x.Format
	}
	if x.CFmt != "" {
		m["collectionFormat"] = x.CFmt
	}
	if x.Nullable {
		m["nullable"] = true // spec.SimpleSchema.Nullable (json tag "nullable"); not valid Swagger 2.0, lenient stream only
	}
	if x.Default.Kind != 0 {
		m["default"] = x.Default.JSON()
	}
	if x.Example.Kind != 0 {
		m["example"] = x.Example.JSON()
	}
	x.V.put(m)
	if x.Items != nil {
		im := map[string]interface{}{}
		x.Items.put(im, true)
		m["items"] = im
	}
}

func (x *Simple) Coq() string {
	items := "None"
	if x.Items != nil {
		items = "(Some " + x.Items.Coq() + ")"
	}
	return fmt.Sprintf("(Simple %s %s %s %s %s %s %s %s)", coqpp.Str(x.Type), coqpp.Str(x.Format), coqpp.Str(x.CFmt),
		coqpp.Bool(x.Nullable), x.Default.Coq(), x.Example.Coq(), x.V.Coq(), items)
}

type Param struct {
	Name, In string
	Required bool
	Desc     string
	Schema   *Schema
	Simple   Simple
	Ext      Exts
}

func (p *Param) JSON() map[string]interface{} {
	m := map[string]interface{}{"name": p.Name, "in": p.In}
	if p.Required {
		m["required"] = true
	}
	if p.Desc != "" {
		m["description"] = p.Desc
	}
	if p.Schema != nil {
		m["schema"] = p.Schema.JSON()
	}
	p.Simple.put(m, false)
	p.Ext.put(m)
	return m
}

func (p *Param) Coq() string {
	sc := "None"
	if p.Schema != nil {
		sc = "(Some " + p.Schema.Coq() + ")"
	}
	return fmt.Sprintf("{| p_name := %s; p_in := %s; p_required := %s; p_desc := %s; p_schema := %s; p_simple := %s |}",
		coqpp.Str(p.Name), coqpp.Str(p.In), coqpp.Bool(p.Required), coqpp.Str(p.Desc), sc, p.Simple.Coq())
}

// Exts: vendor extensions of one object (x-... keys with scalar or array values), in a fixed order
type ExtKV struct {
	Key string
	Val DVal
}
type Exts []ExtKV

func (e Exts) put(m map[string]interface{}) {
	for _, kv := range e {
		m[kv.Key] = kv.Val.JSON()
	}
}
func (e Exts) Coq() string {
	xs := make([]string, len(e))
	for i, kv := range e {
		xs[i] = "(" + coqpp.Str(kv.Key) + ", " + kv.Val.Coq() + ")"
	}
	return coqpp.List(xs)
}

type Header struct {
	Name string
	S    Simple
	Ext  Exts
}

type Response struct {
	Code    int
	Desc    string
	Schema  *Schema
	Headers []Header
	BodyExt []Exts // extensions of the response schema, of its items, of their items ...
}

type Operation struct {
	Method     string
	Tags       []string
	HasTags    bool
	Desc       string
	Deprecated bool
	Params     []*Param
	Responses  []*Response
	Ext        Exts
	RespExt    Exts // extensions of the responses object
}

type PathItem struct {
	URL    string
	Params []*Param
	Ops    []*Operation
	Ext    Exts
}

type Named struct {
	Name string
	Ext  Exts
}

type Def struct {
	Name   string
	Schema *Schema
}

type Spec struct {
	Consumes, Produces, Schemes          []string
	HasConsumes, HasProduces, HasSchemes bool
	Host, BasePath, InfoDesc             string
	Paths                                []*PathItem
	Defs                                 []Def
	// vendor extensions: root, info, contact and license (nil = the object is absent), tags, security definitions
	Ext, InfoExt        Exts
	Contact, License    *Exts
	TagDecls, SecDefs   []Named
}

func (r *Response) json() map[string]interface{} {
	m := map[string]interface{}{"description": r.Desc}
	if r.Schema != nil {
		sm := r.Schema.JSON()
		m["schema"] = sm
		cur, lvl := sm, r.Schema
		for i := 0; lvl != nil; i++ {
			if i < len(r.BodyExt) && lvl.Ref == "" {
				r.BodyExt[i].put(cur)
			}
			nx, _ := cur["items"].(map[string]interface{})
			if nx == nil {
				break
			}
			cur, lvl = nx, lvl.Items
		}
	}
	if len(r.Headers) > 0 {
		hs := map[string]interface{}{}
		for _, h := range r.Headers {
			hm := map[string]interface{}{}
			h.S.put(hm, false)
			h.Ext.put(hm)
			hs[h.Name] = hm
		}
		m["headers"] = hs
	}
	return m
}

// bodyChain: the response schema and its items chain with the extensions that are rendered at each level
func (r *Response) bodyChain() string {
	var xs []string
	lvl := r.Schema
	for i := 0; lvl != nil; i++ {
		e := Exts{}
		if i < len(r.BodyExt) && lvl.Ref == "" {
			e = r.BodyExt[i]
		}
		xs = append(xs, "("+lvl.Coq()+", "+e.Coq()+")")
		lvl = lvl.Items
	}
	return coqpp.List(xs)
}

func (sp *Spec) JSONMap() map[string]interface{} {
	info := map[string]interface{}{"title": "t", "version": "1.0"}
	if sp.InfoDesc != "" {
		info["description"] = sp.InfoDesc
	}
	sp.InfoExt.put(info)
	if sp.Contact != nil {
		c := map[string]interface{}{"name": "the contact"}
		sp.Contact.put(c)
		info["contact"] = c
	}
	if sp.License != nil {
		l := map[string]interface{}{"name": "the license"}
		sp.License.put(l)
		info["license"] = l
	}
	m := map[string]interface{}{"swagger": "2.0", "info": info}
	sp.Ext.put(m)
	if len(sp.TagDecls) > 0 {
		ts := make([]interface{}, len(sp.TagDecls))
		for i, tg := range sp.TagDecls {
			tm := map[string]interface{}{"name": tg.Name}
			tg.Ext.put(tm)
			ts[i] = tm
		}
		m["tags"] = ts
	}
	if len(sp.SecDefs) > 0 {
		sd := map[string]interface{}{}
		for _, d := range sp.SecDefs {
			dm := map[string]interface{}{"type": "apiKey", "in": "header", "name": "X-" + d.Name}
			d.Ext.put(dm)
			sd[d.Name] = dm
		}
		m["securityDefinitions"] = sd
	}
	if sp.HasConsumes {
		m["consumes"] = nonNil(sp.Consumes)
	}
	if sp.HasProduces {
		m["produces"] = nonNil(sp.Produces)
	}
	if sp.HasSchemes {
		m["schemes"] = nonNil(sp.Schemes)
	}
	if sp.Host != "" {
		m["host"] = sp.Host
	}
	if sp.BasePath != "" {
		m["basePath"] = sp.BasePath
	}
	paths := map[string]interface{}{}
	for _, pi := range sp.Paths {
		pm := map[string]interface{}{}
		pi.Ext.put(pm)
		if len(pi.Params) > 0 {
			ps := make([]interface{}, len(pi.Params))
			for i, p := range pi.Params {
				ps[i] = p.JSON()
			}
			pm["parameters"] = ps
		}
		for _, op := range pi.Ops {
			om := map[string]interface{}{}
			if op.HasTags {
				om["tags"] = nonNil(op.Tags)
			}
			if op.Desc != "" {
				om["description"] = op.Desc
			}
			if op.Deprecated {
				om["deprecated"] = true
			}
			if len(op.Params) > 0 {
				ps := make([]interface{}, len(op.Params))
				for i, p := range op.Params {
					ps[i] = p.JSON()
				}
				om["parameters"] = ps
			}
			rs := map[string]interface{}{}
			for _, r := range op.Responses {
				rs[strconv.Itoa(r.Code)] = r.json()
			}
			op.RespExt.put(rs)
			op.Ext.put(om)
			om["responses"] = rs
			pm[op.Method] = om
		}
		paths[pi.URL] = pm
	}
	m["paths"] = paths
	if len(sp.Defs) > 0 {
		ds := map[string]interface{}{}
		for _, d := range sp.Defs {
			ds[d.Name] = d.Schema.JSON()
		}
		m["definitions"] = ds
	}
	return m
}

func nonNil(xs []string) []string {
	if xs == nil {
		return []string{}
	}
	return xs
}

func (sp *Spec) JSON() []byte {
	b, err := json.Marshal(sp.JSONMap())
	if err != nil {
		panic(err)
	}
	return b
}

func (sp *Spec) Coq() string {
	paths := make([]string, len(sp.Paths))
	for i, pi := range sp.Paths {
		pps := make([]string, len(pi.Params))
		for j, p := range pi.Params {
			pps[j] = p.Coq()
		}
		ops := make([]string, len(pi.Ops))
		for j, op := range pi.Ops {
			ps := make([]string, len(op.Params))
			for k, p := range op.Params {
				ps[k] = p.Coq()
			}
			rs := make([]string, len(op.Responses))
			for k, r := range op.Responses {
				sc := "None"
				if r.Schema != nil {
					sc = "(Some " + r.Schema.Coq() + ")"
				}
				hs := make([]string, len(r.Headers))
				for l, h := range r.Headers {
					hs[l] = "(" + coqpp.Str(h.Name) + ", " + h.S.Coq() + ")"
				}
				rs[k] = fmt.Sprintf("(%s, {| r_desc := %s; r_schema := %s; r_headers := %s |})", coqpp.Z(int64(r.Code)), coqpp.Str(r.Desc), sc, coqpp.List(hs))
			}
			ops[j] = fmt.Sprintf("(%s, {| o_tags := %s; o_desc := %s; o_deprecated := %s; o_params := %s; o_responses := %s |})",
				coqpp.Str(op.Method), coqpp.OptStrList(op.Tags, op.HasTags), coqpp.Str(op.Desc), coqpp.Bool(op.Deprecated), coqpp.List(ps), coqpp.List(rs))
		}
		paths[i] = fmt.Sprintf("(%s, {| pi_params := %s; pi_ops := %s |})", coqpp.Str(pi.URL), coqpp.List(pps), coqpp.List(ops))
	}
	defs := make([]string, len(sp.Defs))
	for i, d := range sp.Defs {
		defs[i] = "(" + coqpp.Str(d.Name) + ", " + d.Schema.Coq() + ")"
	}
	return fmt.Sprintf("{| sw_consumes := %s; sw_produces := %s; sw_schemes := %s; sw_host := %s; sw_basepath := %s; sw_info_desc := %s; sw_paths := %s; sw_defs := %s |}",
		coqpp.OptStrList(sp.Consumes, sp.HasConsumes), coqpp.OptStrList(sp.Produces, sp.HasProduces), coqpp.OptStrList(sp.Schemes, sp.HasSchemes),
		coqpp.Str(sp.Host), coqpp.Str(sp.BasePath), coqpp.Str(sp.InfoDesc), coqpp.List(paths), coqpp.List(defs))
}

// XCoq: the extension view of the document (xdoc of Tools/DiffExt.v)
func (sp *Spec) XCoq() string {
	pe := func(ps []*Param) string {
		xs := make([]string, len(ps))
		for i, p := range ps {
			xs[i] = "(" + p.Coq() + ", " + p.Ext.Coq() + ")"
		}
		return coqpp.List(xs)
	}
	named := func(ns []Named) string {
		xs := make([]string, len(ns))
		for i, n := range ns {
			xs[i] = "(" + coqpp.Str(n.Name) + ", " + n.Ext.Coq() + ")"
		}
		return coqpp.List(xs)
	}
	opt := func(e *Exts) string {
		if e == nil {
			return "None"
		}
		return "(Some " + e.Coq() + ")"
	}
	paths := make([]string, len(sp.Paths))
	for i, pi := range sp.Paths {
		ops := make([]string, len(pi.Ops))
		for j, op := range pi.Ops {
			rs := make([]string, len(op.Responses))
			for k, r := range op.Responses {
				hs := make([]string, len(r.Headers))
				for l, h := range r.Headers {
					hs[l] = "(" + coqpp.Str(h.Name) + ", " + h.Ext.Coq() + ")"
				}
				rs[k] = fmt.Sprintf("(%s, {| xr_headers := %s; xr_body := %s |})", coqpp.Z(int64(r.Code)), coqpp.List(hs), r.bodyChain())
			}
			ops[j] = fmt.Sprintf("(%s, {| xo_ext := %s; xo_resp_ext := %s; xo_params := %s; xo_resps := %s |})", coqpp.Str(op.Method), op.Ext.Coq(), op.RespExt.Coq(), pe(op.Params), coqpp.List(rs))
		}
		paths[i] = fmt.Sprintf("(%s, {| xi_ext := %s; xi_params := %s; xi_ops := %s |})", coqpp.Str(pi.URL), pi.Ext.Coq(), pe(pi.Params), coqpp.List(ops))
	}
	return fmt.Sprintf("{| xd_ext := %s; xd_info := %s; xd_contact := %s; xd_license := %s; xd_tags := %s; xd_secdefs := %s; xd_paths := %s |}",
		sp.Ext.Coq(), sp.InfoExt.Coq(), opt(sp.Contact), opt(sp.License), named(sp.TagDecls), named(sp.SecDefs), coqpp.List(paths))
}

// Clone deep-copies a spec through its own structure.
func (sp *Spec) Clone() *Spec {
	b, _ := json.Marshal(sp)
	var out Spec
	if err := json.Unmarshal(b, &out); err != nil {
		panic(err)
	}
	return &out
}

// SortedDefNames is a helper for stable iteration.
func (sp *Spec) SortedDefNames() []string {
	var ns []string
	for _, d := range sp.Defs {
		ns = append(ns, d.Name)
	}
	sort.Strings(ns)
	return ns
}

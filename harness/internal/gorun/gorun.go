// Package gorun: run the `swagger` binary built from /repo in scratch modules, parse generated trees.
package gorun

import (
	"bytes"
	"fmt"
	"go/ast"
	"go/parser"
	"go/token"
	"os"
	"os/exec"
	"path/filepath"
	"sort"
	"strings"
	"time"
)

const goMod = `module scratchgen

go 1.21

require github.com/go-swagger/go-swagger v0.0.0

replace github.com/go-swagger/go-swagger => /repo
`

// NewModule creates an empty scratch module directory.
func NewModule(dir string) error {
	if err := os.MkdirAll(dir, 0o755); err != nil {
		return err
	}
	if err := os.WriteFile(filepath.Join(dir, "go.mod"), []byte(goMod), 0o644); err != nil {
		return err
	}
	sum, err := os.ReadFile("/repo/go.sum")
	if err != nil {
		return err
	}
	return os.WriteFile(filepath.Join(dir, "go.sum"), sum, 0o644)
}

type RunResult struct {
	Exit   int
	Output string
}

// Swagger runs the swagger binary with a timeout; the exit status is what a user would see.
func Swagger(bin, dir string, timeout time.Duration, args ...string) RunResult {
	cmd := exec.Command(bin, args...)
	cmd.Dir = dir
	var out bytes.Buffer
	cmd.Stdout = &out
	cmd.Stderr = &out
	cmd.Env = append(os.Environ(), "GOFLAGS=-mod=mod", "GOPROXY=off", "GOSUMDB=off", "GOTOOLCHAIN=local")
	if err := cmd.Start(); err != nil {
		return RunResult{Exit: -1, Output: err.Error()}
	}
	done := make(chan error, 1)
	go func() { done <- cmd.Wait() }()
	select {
	case err := <-done:
		if err != nil {
			if ee, ok := err.(*exec.ExitError); ok {
				return RunResult{Exit: ee.ExitCode(), Output: out.String()}
			}
			return RunResult{Exit: -1, Output: err.Error()}
		}
		return RunResult{Exit: 0, Output: out.String()}
	case <-time.After(timeout):
		_ = cmd.Process.Kill()
		return RunResult{Exit: -2, Output: "timeout"}
	}
}

// GoFiles lists the .go files under dir (relative paths, sorted).
func GoFiles(dir string) []string {
	var out []string
	_ = filepath.Walk(dir, func(p string, info os.FileInfo, err error) error {
		if err == nil && !info.IsDir() && strings.HasSuffix(p, ".go") {
			rel, _ := filepath.Rel(dir, p)
			out = append(out, rel)
		}
		return nil
	})
	sort.Strings(out)
	return out
}

// Shape renders the AST of a Go file with comments and literal values erased and constant string
// concatenations folded: what packages, imports, types, functions and statements the file declares.
func Shape(path string) (string, error) {
	fset := token.NewFileSet()
	f, err := parser.ParseFile(fset, path, nil, parser.SkipObjectResolution)
	if err != nil {
		return "", err
	}
	var b strings.Builder
	var walk func(n ast.Node, depth int)
	isStrConcat := func(e ast.Expr) bool { return false }
	var isStr func(e ast.Expr) bool
	isStr = func(e ast.Expr) bool {
		switch x := e.(type) {
		case *ast.BasicLit:
			return x.Kind == token.STRING
		case *ast.BinaryExpr:
			return x.Op == token.ADD && isStr(x.X) && isStr(x.Y)
		case *ast.ParenExpr:
			return isStr(x.X)
		}
		return false
	}
	_ = isStrConcat
	walk = func(n ast.Node, depth int) {
		if n == nil {
			return
		}
		if e, ok := n.(ast.Expr); ok && isStr(e) {
			fmt.Fprintf(&b, "%*sSTRING\n", depth, "")
			return
		}
		switch x := n.(type) {
		case *ast.CommentGroup, *ast.Comment:
			return
		case *ast.Ident:
			fmt.Fprintf(&b, "%*sIdent %s\n", depth, "", x.Name)
			return
		case *ast.BasicLit:
			fmt.Fprintf(&b, "%*sLit %s\n", depth, "", x.Kind)
			return
		case *ast.ImportSpec:
			fmt.Fprintf(&b, "%*sImport %s\n", depth, "", x.Path.Value)
			return
		case *ast.Field:
			fmt.Fprintf(&b, "%*sField tag=%v\n", depth, "", x.Tag != nil)
			for _, nm := range x.Names {
				walk(nm, depth+1)
			}
			walk(x.Type, depth+1)
			return
		}
		fmt.Fprintf(&b, "%*s%T\n", depth, "", n)
		// generic children, in source order, comments skipped
		var kids []ast.Node
		ast.Inspect(n, func(c ast.Node) bool {
			if c == nil || c == n {
				return c == n
			}
			kids = append(kids, c)
			return false
		})
		for _, k := range kids {
			walk(k, depth+1)
		}
	}
	walk(f, 0)
	return b.String(), nil
}

package dimpl

import (
	"bufio"
	"encoding/json"
	"fmt"
	"io"
	"os"
	"os/exec"
	"runtime/debug"
	"time"

	"github.com/go-swagger/go-swagger/cmd/swagger/commands/diff"
)

// The implementation is run in a child process so that a crash the Go runtime cannot recover from
// (stack overflow on unbounded recursion) or a hang is observed as an outcome, not as a dead harness.

type wireNode struct {
	F string    `json:"f"`
	T string    `json:"t"`
	A bool      `json:"a"`
	C *wireNode `json:"c,omitempty"`
}
type wireDiff struct {
	URL, Method string
	Response    int
	Node        *wireNode
	Code        int
	Compat      int
	Info        string
}
type cliReq struct {
	Old, New, Format, Ignore, Dest string
	OnlyBreaking                   bool
}
type wireReq struct {
	A, B []byte
	CLI  *cliReq
}
type wireRes struct {
	Panic string
	Err   string
	Diffs []wireDiff
	CLI   *CLIResult
}

func toWireNode(n *diff.Node) *wireNode {
	if n == nil {
		return nil
	}
	return &wireNode{F: n.Field, T: n.TypeName, A: n.IsArray, C: toWireNode(n.ChildNode)}
}
func fromWireNode(n *wireNode) *diff.Node {
	if n == nil {
		return nil
	}
	return &diff.Node{Field: n.F, TypeName: n.T, IsArray: n.A, ChildNode: fromWireNode(n.C)}
}

// WorkerMain is the child-process loop: one request line in, one result line out.
func WorkerMain() {
	debug.SetMaxStack(48 << 20)
	in := bufio.NewReaderSize(os.Stdin, 1<<20)
	out := bufio.NewWriter(os.Stdout)
	dec := json.NewDecoder(in)
	enc := json.NewEncoder(out)
	for {
		var rq wireReq
		if err := dec.Decode(&rq); err != nil {
			return
		}
		if rq.CLI != nil {
			c := RunCLI(rq.CLI.Old, rq.CLI.New, rq.CLI.Format, rq.CLI.OnlyBreaking, rq.CLI.Ignore, rq.CLI.Dest)
			_ = enc.Encode(wireRes{CLI: &c})
			_ = out.Flush()
			continue
		}
		r := Compare(rq.A, rq.B)
		w := wireRes{Panic: r.Panic, Err: r.Err}
		for _, d := range r.Diffs {
			w.Diffs = append(w.Diffs, wireDiff{URL: d.DifferenceLocation.URL, Method: d.DifferenceLocation.Method, Response: d.DifferenceLocation.Response,
				Node: toWireNode(d.DifferenceLocation.Node), Code: int(d.Code), Compat: int(d.Compatibility), Info: d.DiffInfo})
		}
		_ = enc.Encode(w)
		_ = out.Flush()
	}
}

type Pool struct {
	self    string
	cmd     *exec.Cmd
	stdin   io.WriteCloser
	dec     *json.Decoder
	Timeout time.Duration
	Crashes int
}

func NewPool() *Pool {
	self, err := os.Executable()
	if err != nil {
		panic(err)
	}
	return &Pool{self: self, Timeout: 10 * time.Second}
}

func (p *Pool) start() error {
	p.cmd = exec.Command(p.self, "worker")
	p.cmd.Stderr = io.Discard
	var err error
	if p.stdin, err = p.cmd.StdinPipe(); err != nil {
		return err
	}
	so, err := p.cmd.StdoutPipe()
	if err != nil {
		return err
	}
	p.dec = json.NewDecoder(bufio.NewReaderSize(so, 1<<20))
	return p.cmd.Start()
}

func (p *Pool) kill() {
	if p.cmd != nil {
		_ = p.stdin.Close()
		_ = p.cmd.Process.Kill()
		_, _ = p.cmd.Process.Wait()
		p.cmd = nil
	}
}

func (p *Pool) Close() { p.kill() }

// CLI runs `swagger diff` (DiffCommand.Execute) in the worker.
func (p *Pool) CLI(old, new, format string, onlyBreaking bool, ignore, dest string) CLIResult {
	r := p.roundtrip(wireReq{CLI: &cliReq{Old: old, New: new, Format: format, Ignore: ignore, Dest: dest, OnlyBreaking: onlyBreaking}})
	if r.cli != nil {
		return *r.cli
	}
	return CLIResult{Panic: r.res.Panic + r.res.Err}
}

type rt struct {
	res Result
	cli *CLIResult
}

// Compare runs one comparison in the worker; a crash or a timeout is reported as Panic "CRASH: ...".
func (p *Pool) Compare(a, b []byte) Result { return p.roundtrip(wireReq{A: a, B: b}).res }

func (p *Pool) roundtrip(req wireReq) rt {
	if p.cmd == nil {
		if err := p.start(); err != nil {
			return rt{res: Result{Err: "worker start: " + err.Error()}}
		}
	}
	rq, _ := json.Marshal(req)
	type got struct {
		w   wireRes
		err error
	}
	ch := make(chan got, 1)
	go func() {
		if _, err := p.stdin.Write(append(rq, '\n')); err != nil {
			ch <- got{err: err}
			return
		}
		var w wireRes
		err := p.dec.Decode(&w)
		ch <- got{w: w, err: err}
	}()
	select {
	case g := <-ch:
		if g.err != nil {
			p.kill()
			p.Crashes++
			return rt{res: Result{Panic: "CRASH: worker died (fatal runtime error such as stack overflow): " + g.err.Error()}}
		}
		if g.w.CLI != nil {
			return rt{cli: g.w.CLI}
		}
		res := Result{Panic: g.w.Panic, Err: g.w.Err}
		for _, d := range g.w.Diffs {
			res.Diffs = append(res.Diffs, diff.SpecDifference{
				DifferenceLocation: diff.DifferenceLocation{URL: d.URL, Method: d.Method, Response: d.Response, Node: fromWireNode(d.Node)},
				Code:               diff.SpecChangeCode(d.Code), Compatibility: diff.Compatibility(d.Compat), DiffInfo: d.Info})
		}
		return rt{res: res}
	case <-time.After(p.Timeout):
		p.kill()
		p.Crashes++
		return rt{res: Result{Panic: fmt.Sprintf("CRASH: no result after %s (non-termination)", p.Timeout)}}
	}
}

// Package dimpl runs the implementation (diff.Compare, DiffCommand) on dspec documents and
// renders what it observed as Gallina terms.
package dimpl

import (
	"encoding/json"
	"fmt"
	"sort"
	"strings"

	"github.com/go-openapi/spec"
	"github.com/go-swagger/go-swagger/cmd/swagger/commands/diff"

	"verif/harness/internal/coqpp"
	"verif/harness/internal/dspec"
)

func Load(b []byte) (*spec.Swagger, error) {
	var sw spec.Swagger
	if err := json.Unmarshal(b, &sw); err != nil {
		return nil, err
	}
	return &sw, nil
}

type Result struct {
	Panic string
	Err   string
	Diffs diff.SpecDifferences
}

// Compare runs diff.Compare under recover.
func Compare(a, b []byte) (res Result) {
	defer func() {
		if r := recover(); r != nil {
			res = Result{Panic: fmt.Sprint(r)}
		}
	}()
	sa, err := Load(a)
	if err != nil {
		return Result{Err: err.Error()}
	}
	sb, err := Load(b)
	if err != nil {
		return Result{Err: err.Error()}
	}
	ds, err := diff.Compare(sa, sb)
	if err != nil {
		return Result{Err: err.Error()}
	}
	return Result{Diffs: ds}
}

func CompareSpecs(a, b *dspec.Spec) Result { return Compare(a.JSON(), b.JSON()) }

func nodeCoq(n *diff.Node) string {
	child := "None"
	if n.ChildNode != nil {
		child = "(Some " + nodeCoq(n.ChildNode) + ")"
	}
	return fmt.Sprintf("(Node %s %s %s %s)", coqpp.Str(n.Field), coqpp.Str(n.TypeName), coqpp.Bool(n.IsArray), child)
}

func DiffCoq(d diff.SpecDifference) string {
	node := "None"
	if d.DifferenceLocation.Node != nil {
		node = "(Some " + nodeCoq(d.DifferenceLocation.Node) + ")"
	}
	return fmt.Sprintf("{| d_loc := {| l_url := %s; l_method := %s; l_response := %s; l_node := %s |}; d_code := cidx %d; d_compat := kidx %d; d_info := %s |}",
		coqpp.Str(d.DifferenceLocation.URL), coqpp.Str(d.DifferenceLocation.Method), coqpp.Z(int64(d.DifferenceLocation.Response)), node,
		int(d.Code), int(d.Compatibility), coqpp.Str(d.DiffInfo))
}

func DiffsCoq(ds diff.SpecDifferences) string {
	xs := make([]string, len(ds))
	for i, d := range ds {
		xs[i] = DiffCoq(d)
	}
	return coqpp.List(xs)
}

func ObservedCoq(r Result) string {
	if r.Panic != "" {
		return "OPanic"
	}
	return "(ODiffs " + DiffsCoq(r.Diffs) + ")"
}

// Lines renders a result for humans (sorted String()s).
func Lines(r Result) []string {
	if r.Panic != "" {
		return []string{"PANIC " + r.Panic}
	}
	if r.Err != "" {
		return []string{"ERROR " + r.Err}
	}
	var out []string
	for _, d := range r.Diffs {
		out = append(out, d.String()+" ["+d.Compatibility.String()+"]")
	}
	sort.Strings(out)
	return out
}

// Key is a canonical multiset key of a difference (location, code, compat, info).
func Key(d diff.SpecDifference) string {
	n := ""
	if d.DifferenceLocation.Node != nil {
		n = d.DifferenceLocation.Node.String()
	}
	return strings.Join([]string{d.DifferenceLocation.URL, d.DifferenceLocation.Method, fmt.Sprint(d.DifferenceLocation.Response), n, fmt.Sprint(int(d.Code)), fmt.Sprint(int(d.Compatibility)), d.DiffInfo}, "\x1f")
}

package dimpl

import (
	"io"
	"log"
	"os"

	"github.com/go-swagger/go-swagger/cmd/swagger/commands"
)

// RunCLI runs commands.DiffCommand.Execute exactly as cmd/swagger would (main exits 1 iff Execute returns an error).
type CLIResult struct {
	Output string
	Failed bool   // non-zero exit status
	ErrMsg string // error text (informational)
	Panic  string
}

func RunCLI(oldPath, newPath, format string, onlyBreaking bool, ignorePath string, dest string) (res CLIResult) {
	log.SetOutput(io.Discard)
	defer func() {
		if r := recover(); r != nil {
			res.Panic = "panic"
		}
	}()
	cmd := commands.DiffCommand{Format: format, OnlyBreakingChanges: onlyBreaking, IgnoreFile: ignorePath, Destination: dest}
	if ignorePath == "" {
		cmd.IgnoreFile = "none specified"
	}
	cmd.Args.OldSpec = oldPath
	cmd.Args.NewSpec = newPath
	err := cmd.Execute(nil)
	b, _ := os.ReadFile(dest)
	res.Output = string(b)
	if err != nil {
		res.Failed = true
		res.ErrMsg = err.Error()
	}
	return res
}

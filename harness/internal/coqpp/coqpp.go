// Package coqpp renders Go values as Gallina terms.
package coqpp

import (
	"fmt"
	"strings"
)

// Str renders a Go string as a term of type str (list N of bytes).
func Str(x string) string {
	if x == "" {
		return "[]"
	}
	plain := true
	for i := 0; i < len(x); i++ {
		c := x[i]
		if c < 0x20 || c > 0x7e || c == '"' {
			plain = false
			break
		}
	}
	if plain {
		return `(s "` + x + `")`
	}
	var b strings.Builder
	b.WriteString("([")
	for i := 0; i < len(x); i++ {
		if i > 0 {
			b.WriteString(";")
		}
		fmt.Fprintf(&b, "%d", x[i])
	}
	b.WriteString("]%N)")
	return b.String()
}

func Bool(b bool) string {
	if b {
		return "true"
	}
	return "false"
}

func Z(z int64) string {
	if z < 0 {
		return fmt.Sprintf("(%d)%%Z", z)
	}
	return fmt.Sprintf("%d%%Z", z)
}

func OptZ(z *int64) string {
	if z == nil {
		return "None"
	}
	return "(Some " + Z(*z) + ")"
}

func List(items []string) string { return "[" + strings.Join(items, "; ") + "]" }

func StrList(xs []string) string {
	out := make([]string, len(xs))
	for i, x := range xs {
		out[i] = Str(x)
	}
	return List(out)
}

func OptStrList(xs []string, present bool) string {
	if !present {
		return "None"
	}
	return "(Some " + StrList(xs) + ")"
}

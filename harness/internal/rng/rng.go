// Package rng: one splitmix64 stream drives every random choice of a run.
package rng

type R struct{ s uint64 }

func New(seed uint64) *R { return &R{s: seed*0x9E3779B97F4A7C15 + 0x1234567} }

func (r *R) U64() uint64 {
	r.s += 0x9E3779B97F4A7C15
	z := r.s
	z = (z ^ (z >> 30)) * 0xBF58476D1CE4E5B9
	z = (z ^ (z >> 27)) * 0x94D049BB133111EB
	return z ^ (z >> 31)
}

// Intn returns a number in [0,n).
func (r *R) Intn(n int) int {
	if n <= 0 {
		return 0
	}
	return int(r.U64() % uint64(n))
}

// Chance returns true with probability num/den.
func (r *R) Chance(num, den int) bool { return r.Intn(den) < num }

func (r *R) Pick(xs []string) string { return xs[r.Intn(len(xs))] }

// Fork derives an independent stream (for a sub-case) without disturbing determinism.
func (r *R) Fork() *R { return New(r.U64()) }

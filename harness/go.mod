module verif/harness

go 1.21

require (
	github.com/go-openapi/spec v0.21.0
	github.com/go-swagger/go-swagger v0.0.0
)

require (
	github.com/go-openapi/jsonpointer v0.21.0 // indirect
	github.com/go-openapi/jsonreference v0.21.0 // indirect
	github.com/go-openapi/swag v0.23.0 // indirect
	github.com/josharian/intern v1.0.0 // indirect
	github.com/mailru/easyjson v0.7.7 // indirect
	gopkg.in/yaml.v3 v3.0.1 // indirect
)

replace github.com/go-swagger/go-swagger => /repo

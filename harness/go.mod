module verif/harness

go 1.21

require (
	github.com/go-openapi/analysis v0.23.0
	github.com/go-openapi/loads v0.22.0
	github.com/go-openapi/spec v0.21.0
	github.com/go-openapi/strfmt v0.23.0
	github.com/go-openapi/swag v0.23.0
	github.com/go-openapi/validate v0.24.0
	github.com/go-swagger/go-swagger v0.0.0
	golang.org/x/tools v0.21.0
	gopkg.in/yaml.v3 v3.0.1
)

require (
	github.com/Masterminds/goutils v1.1.1 // indirect
	github.com/Masterminds/semver/v3 v3.2.1 // indirect
	github.com/Masterminds/sprig/v3 v3.2.3 // indirect
	github.com/asaskevich/govalidator v0.0.0-20230301143203-a9d515a09cc2 // indirect
	github.com/felixge/httpsnoop v1.0.4 // indirect
	github.com/fsnotify/fsnotify v1.7.0 // indirect
	github.com/go-openapi/errors v0.22.0 // indirect
	github.com/go-openapi/inflect v0.21.0 // indirect
	github.com/go-openapi/jsonpointer v0.21.0 // indirect
	github.com/go-openapi/jsonreference v0.21.0 // indirect
	github.com/go-openapi/runtime v0.28.0 // indirect
	github.com/go-viper/mapstructure/v2 v2.2.1 // indirect
	github.com/google/uuid v1.6.0 // indirect
	github.com/gorilla/handlers v1.5.2 // indirect
	github.com/hashicorp/hcl v1.0.0 // indirect
	github.com/huandu/xstrings v1.4.0 // indirect
	github.com/imdario/mergo v0.3.16 // indirect
	github.com/jessevdk/go-flags v1.5.0 // indirect
	github.com/josharian/intern v1.0.0 // indirect
	github.com/kr/pretty v0.3.1 // indirect
	github.com/kr/text v0.2.0 // indirect
	github.com/magiconair/properties v1.8.7 // indirect
	github.com/mailru/easyjson v0.7.7 // indirect
	github.com/mitchellh/copystructure v1.2.0 // indirect
	github.com/mitchellh/mapstructure v1.5.0 // indirect
	github.com/mitchellh/reflectwalk v1.0.2 // indirect
	github.com/oklog/ulid v1.3.1 // indirect
	github.com/pelletier/go-toml/v2 v2.1.1 // indirect
	github.com/rogpeppe/go-internal v1.12.0 // indirect
	github.com/sagikazarmark/slog-shim v0.1.0 // indirect
	github.com/shopspring/decimal v1.3.1 // indirect
	github.com/spf13/afero v1.11.0 // indirect
	github.com/spf13/cast v1.6.0 // indirect
	github.com/spf13/pflag v1.0.5 // indirect
	github.com/spf13/viper v1.18.2 // indirect
	github.com/subosito/gotenv v1.6.0 // indirect
	github.com/toqueteos/webbrowser v1.2.0 // indirect
	go.mongodb.org/mongo-driver v1.14.0 // indirect
	golang.org/x/crypto v0.23.0 // indirect
	golang.org/x/mod v0.17.0 // indirect
	golang.org/x/sync v0.7.0 // indirect
	golang.org/x/sys v0.20.0 // indirect
	golang.org/x/text v0.15.0 // indirect
	gopkg.in/ini.v1 v1.67.0 // indirect
	gopkg.in/yaml.v2 v2.4.0 // indirect
)

replace github.com/go-swagger/go-swagger => /repo

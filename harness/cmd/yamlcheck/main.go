// yamlcheck: harness for C19 — JSON and YAML renderings of a spec are interchangeable.
package main

import (
	"strconv"
	"bytes"
	"encoding/json"
	"flag"
	"fmt"
	"math/big"
	"os"
	"path/filepath"
	"sort"
	"strings"
	"sync"
	"time"

	"github.com/go-openapi/swag"
	"gopkg.in/yaml.v3"

	"verif/harness/internal/coqpp"
	"verif/harness/internal/gorun"
	"verif/harness/internal/rng"
)

func die(format string, a ...interface{}) {
	fmt.Fprintf(os.Stderr, "yamlcheck: "+format+"\n", a...)
	os.Exit(2)
}

type violation struct {
	Key    string      `json:"key"`
	What   string      `json:"what"`
	Input  interface{} `json:"input"`
	Detail interface{} `json:"detail"`
}

var scalars = []struct{ class, text string }{
	{"number-like", "123"}, {"number-like", "1e3"}, {"number-like", "0x1F"}, {"number-like", "1_000"}, {"number-like", "-.5"}, {"number-like", "012"},
	{"bool-like", "true"}, {"bool-like", "yes"}, {"bool-like", "No"}, {"bool-like", "on"}, {"bool-like", "y"},
	{"null-like", "null"}, {"null-like", "~"}, {"null-like", ""},
	{"timestamp-like", "2001-12-14"}, {"timestamp-like", "2001-12-14T21:59:43Z"},
	{"multi-line", "line one\nline two"}, {"multi-line-trailing-nl", "block text\nwith trailing newline\n"}, {"multi-line", "\nleading newline"},
	{"spaces", " leading"}, {"spaces", "trailing "}, {"spaces", "  "},
	{"non-ascii", "café 日本語"}, {"astral", "rocket 🚀"},
	{"indicator", ": colon"}, {"indicator", "- dash"}, {"indicator", "#hash"}, {"indicator", "a: b"}, {"indicator", "a #b"}, {"indicator", "@at"}, {"indicator", "`tick"},
	{"indicator", "%pct"}, {"indicator", "!tag"}, {"indicator", "&anchor"}, {"indicator", "*alias"}, {"indicator", "{brace}"}, {"indicator", "[bracket]"},
	{"indicator", "|pipe"}, {"indicator", ">gt"}, {"indicator", "'single"}, {"indicator", "\"double"}, {"indicator", "? q"}, {"indicator", ","},
	{"control", "tab\there"}, {"control", "bell\u0007"}, {"special", ".inf"}, {"special", ".NaN"}, {"special", "<<"}, {"special", "="},
	{"line-sep", "a b"}, {"backslash", "back\\slash\\n"},
}

// string positions of the base document (paths into the JSON value)
var strPaths = [][]string{
	{"info", "title"}, {"info", "description"}, {"info", "version"}, {"info", "termsOfService"},
	{"paths", "/things", "get", "summary"}, {"paths", "/things", "get", "description"},
	{"paths", "/things", "get", "parameters", "0", "description"}, {"paths", "/things", "get", "parameters", "0", "default"},
	{"paths", "/things", "get", "parameters", "1", "enum", "0"},
	{"paths", "/things", "get", "responses", "200", "description"}, {"paths", "/things", "get", "responses", "404", "description"},
	{"definitions", "Thing", "description"}, {"definitions", "Thing", "properties", "name", "example"}, {"definitions", "Thing", "properties", "name", "default"},
	{"definitions", "Thing", "properties", "kind", "enum", "1"}, {"definitions", "Thing", "title"},
	{"x-release-notes"}, {"definitions", "Zlast", "description"},
}

// numeric positions of the base document, and the numbers that visit them: every value is a float64 (what both input
// renderings denote after loading), chosen around the boundaries of the integer types and of the notations
var numPaths = [][]string{
	{"paths", "/things", "get", "parameters", "2", "maximum"}, {"paths", "/things", "get", "parameters", "2", "minimum"},
	{"paths", "/things", "get", "parameters", "2", "default"}, {"paths", "/things", "get", "parameters", "2", "multipleOf"},
	{"paths", "/things", "get", "parameters", "3", "default"}, {"paths", "/things", "get", "parameters", "3", "minimum"}, {"paths", "/things", "get", "parameters", "3", "maximum"},
	{"definitions", "Thing", "properties", "count", "example"}, {"definitions", "Thing", "properties", "count", "maximum"},
	{"definitions", "Thing", "properties", "count", "minimum"}, {"definitions", "Thing", "properties", "count", "default"},
	{"definitions", "Thing", "properties", "ratio", "example"}, {"definitions", "Thing", "properties", "ratio", "multipleOf"},
	{"definitions", "Thing", "properties", "tiny", "example"}, {"definitions", "Thing", "properties", "tiny", "maximum"},
	{"x-rate"},
}

var numbers = []float64{
	0, 1, -1, 0.1, -2.5e-7, 0.5, 100, 1e6, 123456789.125,
	2147483647, 2147483648, -2147483649, 4294967295, 4294967296,
	9007199254740991, 9007199254740992, 9007199254740994, -9007199254740992,
	9223372036854774784, 9223372036854775808, -9223372036854775808, -9223372036854777856, 18446744073709551616,
	1e15, 1e20, 1e21, 1e22, 1.5e300, 1.7976931348623157e308, 5e-324, 2.2250738585072014e-308,
}

const baseDoc = `{
 "swagger":"2.0","info":{"title":"t","description":"d","version":"1.0","termsOfService":"tos"},
 "paths":{"/things":{"get":{"operationId":"listThings","summary":"s","description":"d",
   "parameters":[{"name":"q","in":"query","type":"string","description":"d","default":"dflt"},{"name":"k","in":"query","type":"string","enum":["e1","e2"]},
                 {"name":"n","in":"query","type":"integer","format":"int64","maximum":9007199254740991,"default":4503599627370497},
                 {"name":"f","in":"query","type":"number","default":0.1,"minimum":-1.5e-7}],
   "responses":{"200":{"description":"ok","schema":{"type":"array","items":{"$ref":"#/definitions/Thing"}}},"404":{"description":"nf"},"default":{"description":"err"}}}}},
 "definitions":{
  "Thing":{"type":"object","title":"t","description":"d","properties":{"name":{"type":"string","example":"ex","default":"df"},"kind":{"type":"string","enum":["a","b"]},
           "count":{"type":"integer","format":"int64","example":9007199254740991},"ratio":{"type":"number","example":1e21},"tiny":{"type":"number","example":1.5e-9},
           "codes":{"type":"object","additionalProperties":{"type":"string"},"example":{"200":"ok","404":"nf","1e3":"x","true":"y","null":"z"}}}},
  "Zlast":{"allOf":[{"$ref":"#/definitions/Thing"}],"description":"last"}},
 "x-release-notes":"notes", "x-rate":1.5
}`

const mixinDoc = `{"swagger":"2.0","info":{"title":"m","version":"1"},"paths":{"/other":{"get":{"operationId":"other","responses":{"204":{"description":"nc"}}}}},
 "definitions":{"Other":{"type":"object","properties":{"x":{"type":"string"}}}}}`

func setPath(doc interface{}, path []string, v interface{}) bool {
	cur := doc
	for i, k := range path {
		last := i == len(path)-1
		switch c := cur.(type) {
		case map[string]interface{}:
			if last {
				if _, ok := c[k]; !ok {
					return false
				}
				c[k] = v
				return true
			}
			cur = c[k]
		case []interface{}:
			idx := 0
			fmt.Sscan(k, &idx)
			if idx >= len(c) {
				return false
			}
			if last {
				c[idx] = v
				return true
			}
			cur = c[idx]
		default:
			return false
		}
	}
	return false
}

// exact comparison of two JSON texts: numbers are compared as exact decimals
func canon(v interface{}) interface{} {
	switch x := v.(type) {
	case json.Number:
		f, _, err := big.ParseFloat(string(x), 10, 2000, big.ToNearestEven)
		if err != nil {
			return "NUM:" + string(x)
		}
		return "NUM:" + f.Text('g', 60)
	case map[string]interface{}:
		out := map[string]interface{}{}
		for k, e := range x {
			out[k] = canon(e)
		}
		return out
	case []interface{}:
		out := make([]interface{}, len(x))
		for i, e := range x {
			out[i] = canon(e)
		}
		return out
	}
	return v
}

func decodeExact(b []byte) (interface{}, error) {
	d := json.NewDecoder(bytes.NewReader(b))
	d.UseNumber()
	var v interface{}
	if err := d.Decode(&v); err != nil {
		return nil, err
	}
	return canon(v), nil
}

func firstDiff(path string, a, b interface{}) string {
	switch x := a.(type) {
	case map[string]interface{}:
		y, ok := b.(map[string]interface{})
		if !ok {
			return fmt.Sprintf("%s: %T vs %T", path, a, b)
		}
		ks := map[string]bool{}
		for k := range x {
			ks[k] = true
		}
		for k := range y {
			ks[k] = true
		}
		var keys []string
		for k := range ks {
			keys = append(keys, k)
		}
		sort.Strings(keys)
		for _, k := range keys {
			xv, xo := x[k]
			yv, yo := y[k]
			if !xo || !yo {
				return fmt.Sprintf("%s/%s: present in json output=%v, in yaml output=%v", path, k, xo, yo)
			}
			if d := firstDiff(path+"/"+k, xv, yv); d != "" {
				return d
			}
		}
		return ""
	case []interface{}:
		y, ok := b.([]interface{})
		if !ok || len(x) != len(y) {
			return fmt.Sprintf("%s: array mismatch", path)
		}
		for i := range x {
			if d := firstDiff(fmt.Sprintf("%s/%d", path, i), x[i], y[i]); d != "" {
				return d
			}
		}
		return ""
	}
	if fmt.Sprintf("%#v", a) != fmt.Sprintf("%#v", b) {
		return fmt.Sprintf("%s: json output %#v, yaml output %#v", path, a, b)
	}
	return ""
}

func yamlFileToJSON(path string) ([]byte, error) {
	raw, err := swag.YAMLDoc(path) // the loader go-swagger itself uses for .yml/.yaml documents
	if err != nil {
		return nil, err
	}
	return raw, nil
}

type cmdSpec struct {
	name string
	args func(in, in2, out, format string, compact bool) []string
}

var cmds = []cmdSpec{
	{"flatten", func(in, in2, out, format string, compact bool) []string {
		a := []string{"flatten", in, "--format", format, "-o", out}
		if compact {
			a = append(a, "--compact")
		}
		return a
	}},
	{"expand", func(in, in2, out, format string, compact bool) []string {
		a := []string{"expand", in, "--format", format, "-o", out}
		if compact {
			a = append(a, "--compact")
		}
		return a
	}},
	{"mixin", func(in, in2, out, format string, compact bool) []string {
		a := []string{"mixin", in, in2, "--format", format, "-o", out}
		if compact {
			a = append(a, "--compact")
		}
		return a
	}},
	{"mixin --keep-spec-order", func(in, in2, out, format string, compact bool) []string {
		a := []string{"mixin", "--keep-spec-order", in, in2, "--format", format, "-o", out}
		if compact {
			a = append(a, "--compact")
		}
		return a
	}},
}

const scanPkg = `// Package scanme API.
//
//	Schemes: http
//	Host: localhost
//	BasePath: /v1
//	Version: 0.0.1
//
// swagger:meta
package scanme

// Thing is a model
//
// swagger:model
type Thing struct {
	// the id
	//
	// example: 9223372036854775807
	// default: 9007199254740993
	ID int64 ` + "`json:\"id\"`" + `
	// a name
	//
	// example: %s
	Name string ` + "`json:\"name\"`" + `
	// small
	//
	// maximum: 10
	// example: 7
	Small int32 ` + "`json:\"small\"`" + `
}
`

func main() {
	fs := flag.NewFlagSet("yamlcheck", flag.ExitOnError)
	bin := fs.String("bin", "", "")
	work := fs.String("work", "", "")
	out := fs.String("out", "", "output dir")
	seed := fs.Uint64("seed", 1, "")
	n := fs.Int("n", 40, "number of documents")
	workers := fs.Int("workers", 12, "")
	_ = fs.Parse(os.Args[1:])
	if *bin == "" || *work == "" || *out == "" {
		die("-bin, -work, -out required")
	}
	_ = os.MkdirAll(*out, 0o755)
	r := rng.New(*seed)
	type job struct {
		id    int
		doc   []byte
		marks []string
	}
	var jobs []job
	for i := 0; i < *n; i++ {
		var doc interface{}
		_ = json.Unmarshal([]byte(baseDoc), &doc)
		var marks []string
		k := 2 + r.Intn(5)
		for j := 0; j < k; j++ {
			p := strPaths[r.Intn(len(strPaths))]
			sc := scalars[r.Intn(len(scalars))]
			for isolated(sc.text) {
				sc = scalars[r.Intn(len(scalars))]
			}
			if i < len(scalars) && j == 0 {
				sc = scalars[i] // every scalar at least once per run, in a position that changes with the seed
			}
			if i%5 == 0 && j == 1 {
				// a multi-line scalar ending in a newline as the very last scalar of the document
				p = strPaths[len(strPaths)-2+r.Intn(2)]
				sc = scalars[17]
			}
			if setPath(doc, p, sc.text) {
				marks = append(marks, strings.Join(p, "/")+"="+sc.class)
			}
		}
		// numbers in numeric positions: one forced (every number once per run), up to two more at random
		kn := 1 + r.Intn(3)
		for j := 0; j < kn; j++ {
			p := numPaths[r.Intn(len(numPaths))]
			x := numbers[r.Intn(len(numbers))]
			if j == 0 {
				x = numbers[i%len(numbers)]
			}
			if setPath(doc, p, x) {
				marks = append(marks, strings.Join(p, "/")+"=number:"+strconv.FormatFloat(x, 'g', -1, 64))
			}
		}
		b, _ := json.Marshal(doc)
		jobs = append(jobs, job{i, b, marks})
	}
	var mu sync.Mutex
	var viols []violation
	cov := map[string]int{}
	evals := 0
	var samples []interface{}
	var intCases []string
	ch := make(chan job)
	var wg sync.WaitGroup
	addV := func(key, what string, in, detail interface{}) {
		// a document that trips a known defect of the YAML library is reported under that cause, whatever the symptom
		if i := strings.Index(key, "|"); i >= 0 {
			key = "c19/yaml-rendering-broken[" + strings.TrimSuffix(key[i+1:], "]") + "]"
		}
		mu.Lock()
		viols = append(viols, violation{key, what, in, detail})
		mu.Unlock()
	}
	for w := 0; w < *workers; w++ {
		wg.Add(1)
		go func(w int) {
			defer wg.Done()
			for j := range ch {
				dir := filepath.Join(*work, fmt.Sprintf("y%d", w))
				_ = os.RemoveAll(dir)
				_ = os.MkdirAll(dir, 0o755)
				inJ := filepath.Join(dir, "in.json")
				inY := filepath.Join(dir, "in.yaml")
				_ = os.WriteFile(inJ, j.doc, 0o644)
				var v interface{}
				_ = json.Unmarshal(j.doc, &v)
				yb, _ := yaml.Marshal(v)
				_ = os.WriteFile(inY, yb, 0o644)
				mx := filepath.Join(dir, "mixin.json")
				_ = os.WriteFile(mx, []byte(mixinDoc), 0o644)
				// the mixed-in document in both renderings too: "the same input" means every input document
				mxY := filepath.Join(dir, "mixin.yaml")
				{
					var mv interface{}
					_ = json.Unmarshal([]byte(mixinDoc), &mv)
					myb, _ := yaml.Marshal(mv)
					_ = os.WriteFile(mxY, myb, 0o644)
				}
				for _, c := range cmds {
					for _, compact := range []bool{false, true} {
						results := map[string][]byte{} // "<input>/<format>" -> JSON value of the output
						for _, in := range []string{"json", "yaml"} {
							inPath, mx := inJ, mx
							if in == "yaml" {
								inPath, mx = inY, mxY
							}
							for _, format := range []string{"json", "yaml"} {
								outPath := filepath.Join(dir, "out."+format)
								_ = os.Remove(outPath)
								res := gorun.Swagger(*bin, dir, 60*time.Second, c.args(inPath, mx, outPath, format, compact)...)
								mu.Lock()
								evals++
								cov["cmd:"+c.name]++
								cov["in:"+in+"/out:"+format]++
								mu.Unlock()
								desc := map[string]interface{}{"command": c.name, "compact": compact, "input_format": in, "output_format": format, "document": json.RawMessage(j.doc), "scalars": j.marks}
								if res.Exit != 0 {
									mu.Lock()
									cov["command-error"]++
									mu.Unlock()
									results[in+"/"+format] = []byte("ERROR")
									continue
								}
								var jb []byte
								var err error
								if format == "yaml" {
									jb, err = yamlFileToJSON(outPath)
								} else {
									jb, err = os.ReadFile(outPath)
								}
								if err != nil {
									addV("c19/output-unreadable["+c.name+cause(j.marks, j.doc)+"]", "the "+format+" output cannot be loaded: "+err.Error(), desc, nil)
									continue
								}
								results[in+"/"+format] = jb
							}
						}
						base := map[string]interface{}{"command": c.name, "compact": compact, "document": json.RawMessage(j.doc), "scalars": j.marks}
						// (1) yaml output == json output, for each input rendering
						for _, in := range []string{"json", "yaml"} {
							a, b := results[in+"/json"], results[in+"/yaml"]
							if a == nil || b == nil || string(a) == "ERROR" || string(b) == "ERROR" {
								if (string(a) == "ERROR") != (string(b) == "ERROR") {
									addV("c19/one-format-fails["+c.name+cause(j.marks, j.doc)+"]", "the command succeeds for one output format and fails for the other", base, in)
								}
								continue
							}
							x, e1 := decodeExact(a)
							y, e2 := decodeExact(b)
							if e1 != nil || e2 != nil {
								addV("c19/output-unreadable["+c.name+"]", "output is not JSON-decodable", base, fmt.Sprint(e1, e2))
								continue
							}
							if d := firstDiff("", x, y); d != "" {
								addV("c19/yaml-output-differs["+c.name+cause(j.marks, j.doc)+"]", "loading the YAML output does not give the JSON output ("+c.name+", "+in+" input)", base, d)
							}
						}
						// (2) json input and yaml input give identical results
						for _, format := range []string{"json", "yaml"} {
							a, b := results["json/"+format], results["yaml/"+format]
							if a == nil || b == nil || string(a) == "ERROR" || string(b) == "ERROR" {
								continue
							}
							x, _ := decodeExact(a)
							y, _ := decodeExact(b)
							if d := firstDiff("", x, y); d != "" {
								addV("c19/input-format-matters["+c.name+cause(j.marks, j.doc)+"]", "the JSON and the YAML rendering of the same input give different results ("+c.name+", "+format+" output)", base, d)
							}
						}
					}
				}
				mu.Lock()
				if len(samples) < 3 {
					samples = append(samples, map[string]interface{}{"scalars": j.marks})
				}
				for _, m := range j.marks {
					cov["scalar:"+m[strings.LastIndex(m, "=")+1:]]++
				}
				mu.Unlock()
				_ = os.RemoveAll(dir)
			}
		}(w)
	}
	for _, j := range jobs {
		ch <- j
	}
	close(ch)
	wg.Wait()

	// generate spec: .json vs .yml output of the scanner, with integers beyond 2^53 and hostile strings
	scanNames := []string{"plain", "123", "true", "2001-12-14", "a: b",
		// text that looks like an escape sequence of one of the two renderings, and characters encoding/json escapes for HTML
		`a\u003cb\u0026c\u003e`, `<tag> & "quoted"`, `back\slash \n \t`, `tab\there`, "caf\u00e9 \u00e9", `%3C %26`, "'single' `tick`"}
	for _, sc := range scalars {
		if !strings.ContainsAny(sc.text, "\n\r\u0007\t\u2028") && strings.TrimSpace(sc.text) == sc.text && sc.text != "" && !isolated(sc.text) {
			scanNames = append(scanNames, sc.text)
		}
	}
	if *n < 60 {
		scanNames = scanNames[:18] // quick tier: the hand-picked ones and the first scalars
	}
	for i, name := range scanNames {
		dir := filepath.Join(*work, fmt.Sprintf("scan%d", i))
		_ = os.RemoveAll(dir)
		if err := gorun.NewModule(dir); err != nil {
			die("%v", err)
		}
		_ = os.MkdirAll(filepath.Join(dir, "scanme"), 0o755)
		_ = os.WriteFile(filepath.Join(dir, "scanme", "doc.go"), []byte(fmt.Sprintf(scanPkg, name)), 0o644)
		var outs [2][]byte
		ok := true
		for k, ext := range []string{"json", "yml"} {
			o := filepath.Join(dir, "spec."+ext)
			res := gorun.Swagger(*bin, dir, 120*time.Second, "generate", "spec", "-m", "-w", "./scanme", "-o", o)
			evals++
			cov["cmd:generate spec"]++
			if res.Exit != 0 {
				ok = false
				cov["command-error"]++
				break
			}
			if ext == "yml" {
				outs[k], _ = yamlFileToJSON(o)
			} else {
				outs[k], _ = os.ReadFile(o)
			}
		}
		if ok {
			x, _ := decodeExact(outs[0])
			y, _ := decodeExact(outs[1])
			if d := firstDiff("", x, y); d != "" {
				viols = append(viols, violation{"c19/yaml-output-differs[generate spec]", "generate spec: the .yml output reloaded differs from the .json output", map[string]interface{}{"package": fmt.Sprintf(scanPkg, name)}, d})
			}
		}
		_ = os.RemoveAll(dir)
	}
	// init spec
	// every ambiguous scalar visits every free-text option of init spec; the two strings that the pinned yaml.v3 itself
	// cannot round-trip (known findings, keyed by cause) get runs of their own so that they cannot hide anything else
	initOpts := []string{"title", "description", "version", "terms", "license.name", "contact.name"}
	yamlBroken := map[string]string{"<<": "string-equal-to-merge-key", "\nleading newline": "string-with-leading-line-break"}
	runInit := func(used map[string]string, key string) {
		var outs [2][]byte
		args := []string{}
		for _, o := range initOpts {
			if v, ok := used[o]; ok {
				args = append(args, "--"+o+"="+v)
			}
		}
		for k, format := range []string{"json", "yaml"} {
			dir := filepath.Join(*work, "initdir")
			_ = os.RemoveAll(dir)
			_ = os.MkdirAll(dir, 0o755)
			res := gorun.Swagger(*bin, dir, 60*time.Second, append(append([]string{"init", "spec", "--format", format}, args...), dir)...)
			evals++
			cov["cmd:init spec"]++
			if res.Exit != 0 {
				cov["command-error"]++
				_ = os.RemoveAll(dir)
				return
			}
			if format == "yaml" {
				outs[k], _ = yamlFileToJSON(filepath.Join(dir, "swagger.yml"))
			} else {
				outs[k], _ = os.ReadFile(filepath.Join(dir, "swagger.json"))
			}
			_ = os.RemoveAll(dir)
		}
		x, e1 := decodeExact(outs[0])
		y, e2 := decodeExact(outs[1])
		if e1 != nil || e2 != nil {
			cov["init-output-unreadable"]++
			k := "c19/output-unreadable[init spec]"
			if key != "" {
				k = key
			}
			viols = append(viols, violation{k, "init spec: one of the two renderings does not load", map[string]interface{}{"options": used}, fmt.Sprint(e1, e2)})
		} else if d := firstDiff("", x, y); d != "" {
			k := "c19/yaml-output-differs[init spec]"
			if key != "" {
				k = key
			}
			viols = append(viols, violation{k, "init spec: the yaml document differs from the json one", map[string]interface{}{"options": used}, d})
		}
	}
	for i := range scalars {
		used := map[string]string{}
		for k, o := range initOpts {
			sc := scalars[(i+k*7)%len(scalars)]
			if _, bad := yamlBroken[sc.text]; bad {
				continue
			}
			used[o] = sc.text
			cov["init-option:"+o+":"+sc.class]++
		}
		runInit(used, "")
	}
	for text, cause := range yamlBroken {
		runInit(map[string]string{"title": text}, "c19/yaml-rendering-broken["+cause+"]")
	}
	// integer text round trip cases for the Coq model: Go's decimal rendering of integers vs dec_of_Z
	for i := 0; i < 400; i++ {
		z := new(big.Int).SetUint64(r.U64())
		if i%3 == 0 {
			z.Mul(z, new(big.Int).SetUint64(r.U64()))
		}
		if i%2 == 0 {
			z.Neg(z)
		}
		if i < 20 {
			z = big.NewInt(int64(i - 10))
		}
		intCases = append(intCases, fmt.Sprintf("(%s%%Z, %s)", parenZ(z.String()), coqpp.Str(z.String())))
	}
	var sb strings.Builder
	sb.WriteString("From GS Require Import Base.Str Tools.Decimal.\nDefinition cases : list (Z * str) := [\n")
	sb.WriteString(strings.Join(intCases, ";\n"))
	sb.WriteString("\n].\nDefinition M := Eval vm_compute in run_dec cases.\nPrint M.\n")
	_ = os.WriteFile(filepath.Join(*out, "cases_00.v"), []byte(sb.String()), 0o644)
	if viols == nil {
		viols = []violation{}
	}
	sort.Slice(viols, func(i, j int) bool { return viols[i].Key < viols[j].Key })
	rep := map[string]interface{}{
		"evaluations": evals, "distinct_nontrivial": len(jobs) * 24,
		"rule":    "documents = a fixed spec (numeric-looking map keys, integers up to 2^53, floats with exponents, allOf last definition, top-level extension) with 2-6 scalars from a table of ~50 ambiguous strings (number-, bool-, null-, timestamp-like, multi-line with and without trailing newline, leading/trailing blanks, non-ASCII, every YAML indicator, control characters) at random string positions; each document goes through flatten, expand and mixin x {json,yaml} input x {json,yaml} output x compact/pretty; YAML outputs are reloaded with swag.YAMLDoc and compared with the JSON output as exact JSON values (numbers as exact decimals). generate spec (.json vs .yml, integers beyond 2^53) and init spec are run on fixed inputs. Each (document, command, compact) triple is a distinct non-trivial case.",
		"samples": samples, "coverage": cov, "violations": viols, "model_cases": len(intCases),
	}
	b, _ := json.MarshalIndent(rep, "", " ")
	_ = os.WriteFile(filepath.Join(*out, "yaml.json"), b, 0o644)
	fmt.Printf("yamlcheck: %d command runs, %d violations\n", evals, len(viols))
}

// isolated: scalars that trip known defects of the YAML library; they only appear in their own dedicated document,
// so that they cannot mask another failure
func isolated(s string) bool { return strings.HasPrefix(s, "\n") || s == "<<" }

// cause names the known library defect a document can trip, "" if none
func cause(marks []string, doc []byte) string {
	var v interface{}
	_ = json.Unmarshal(doc, &v)
	c := ""
	var walk func(x interface{})
	walk = func(x interface{}) {
		switch y := x.(type) {
		case string:
			if strings.HasPrefix(y, "\n") {
				c = "|string-with-leading-line-break"
			} else if y == "<<" && c == "" {
				c = "|string-equal-to-merge-key"
			}
		case map[string]interface{}:
			for _, e := range y {
				walk(e)
			}
		case []interface{}:
			for _, e := range y {
				walk(e)
			}
		}
	}
	walk(v)
	return c
}

func parenZ(s string) string {
	if strings.HasPrefix(s, "-") {
		return "(" + s + ")"
	}
	return s
}

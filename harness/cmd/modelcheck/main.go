// modelcheck: harness for C02 (generated model validation agrees with the schema) and C05 (JSON round trip).
// Generates a spec of the fragment, runs `swagger generate model`, compiles the models with a driver, runs every
// (definition, document) pair through json.Unmarshal / Validate / json.Marshal and compares with the reference
// validator (go-openapi/validate) modulo the documented exceptions.
package main

import (
	"bytes"
	"encoding/json"
	"flag"
	"fmt"
	"os"
	"os/exec"
	"path/filepath"
	"reflect"
	"regexp"
	"sort"
	"strconv"
	"strings"
	"time"

	"github.com/go-openapi/spec"
	"github.com/go-openapi/strfmt"
	"github.com/go-openapi/validate"

	"verif/harness/internal/coqpp"
	"verif/harness/internal/gorun"
	gs "verif/harness/internal/gschema"
	"verif/harness/internal/rng"
)

func die(format string, a ...interface{}) {
	fmt.Fprintf(os.Stderr, "modelcheck: "+format+"\n", a...)
	os.Exit(2)
}

type violation struct {
	Key    string      `json:"key"`
	What   string      `json:"what"`
	Input  interface{} `json:"input"`
	Detail interface{} `json:"detail"`
}

type tcase struct {
	Def string          `json:"def"`
	Doc json.RawMessage `json:"doc"`
}
type tresult struct {
	Verdict string          `json:"verdict"` // unmarshal_err | validate_err | ok
	Err     string          `json:"err,omitempty"`
	Out     json.RawMessage `json:"out,omitempty"`  // json.Marshal of the decoded value
	Out2    json.RawMessage `json:"out2,omitempty"` // marshal(unmarshal(out)) — idempotence
}

const driverTmpl = `package main

import (
	"encoding/json"
	"os"

	"github.com/go-openapi/strfmt"
	"scratchgen/models"
)

type validatable interface{ Validate(strfmt.Registry) error }

var registry = map[string]func() interface{}{
%s}

type tcase struct {
	Def string          ` + "`json:\"def\"`" + `
	Doc json.RawMessage ` + "`json:\"doc\"`" + `
}
type tresult struct {
	Verdict string          ` + "`json:\"verdict\"`" + `
	Err     string          ` + "`json:\"err,omitempty\"`" + `
	Out     json.RawMessage ` + "`json:\"out,omitempty\"`" + `
	Out2    json.RawMessage ` + "`json:\"out2,omitempty\"`" + `
}

func one(c tcase) (r tresult) {
	defer func() {
		if e := recover(); e != nil {
			r = tresult{Verdict: "panic"}
		}
	}()
	v := registry[c.Def]()
	if err := json.Unmarshal(c.Doc, v); err != nil {
		return tresult{Verdict: "unmarshal_err", Err: err.Error()}
	}
	r.Verdict = "ok"
	if vv, ok := v.(validatable); ok {
		if err := vv.Validate(strfmt.Default); err != nil {
			r.Verdict = "validate_err"
			r.Err = err.Error()
		}
	}
	if b, err := json.Marshal(v); err == nil {
		r.Out = b
		w := registry[c.Def]()
		if json.Unmarshal(b, w) == nil {
			if b2, err := json.Marshal(w); err == nil {
				r.Out2 = b2
			}
		}
	}
	return r
}

func main() {
	b, _ := os.ReadFile(os.Args[1])
	var cases []tcase
	if err := json.Unmarshal(b, &cases); err != nil {
		panic(err)
	}
	out := make([]tresult, len(cases))
	for i, c := range cases {
		out[i] = one(c)
	}
	ob, _ := json.Marshal(out)
	_ = os.WriteFile(os.Args[2], ob, 0o644)
}
`

// ---- reference side ----

// zeroOf: is v the zero value of the JSON type of schema s (0, "", false)?
func isZeroScalar(v interface{}) bool {
	switch x := v.(type) {
	case float64:
		return x == 0
	case string:
		return x == ""
	case bool:
		return !x
	}
	return false
}

// isZeroOf: e is the zero value of the (scalar) JSON type declared by ps
func isZeroOf(ps *gs.Schema, e interface{}) bool {
	switch x := e.(type) {
	case float64:
		return x == 0 && (ps.Kind == gs.KInteger || ps.Kind == gs.KNumber)
	case string:
		return x == "" && ps.Kind == gs.KString
	case bool:
		return !x && ps.Kind == gs.KBoolean
	}
	return false
}

func resolve(s *gs.Schema, defs map[string]*gs.Schema) *gs.Schema {
	for i := 0; s != nil && s.Kind == gs.KRef && i < 10; i++ {
		s = defs[s.Ref]
	}
	return s
}

// erase applies the documented exceptions to a document before it is given to the reference validator:
//   - an optional property holding null or the zero value of a scalar type is treated as absent
//   - (unknown properties are ignored by both sides: the reference schemas do not forbid them)
func erase(s *gs.Schema, defs map[string]*gs.Schema, v interface{}, depth int) interface{} {
	return eraseX(s, defs, v, depth, false)
}

// eraseX with alsoRequired: the second half of the documented permission — an explicit zero value of a required property
// that is read-only or has a default may be treated as if the property were absent too
func eraseX(s *gs.Schema, defs map[string]*gs.Schema, v interface{}, depth int, alsoRequired bool) interface{} {
	s = resolve(s, defs)
	if s == nil || depth > 12 {
		return v
	}
	switch s.Kind {
	case gs.KObject:
		m, ok := v.(map[string]interface{})
		if !ok {
			return v
		}
		out := map[string]interface{}{}
		for k, e := range m {
			out[k] = e
		}
		for _, a := range s.AllOf {
			if r, ok := eraseX(a, defs, out, depth+1, alsoRequired).(map[string]interface{}); ok {
				out = r
			}
		}
		for _, p := range s.Props {
			e, present := out[p.Name]
			if !present {
				continue
			}
			ps := resolve(p.Schema, defs)
			if (!p.Required || (alsoRequired && ps != nil && (ps.ReadOnly || ps.Default != nil))) && (e == nil || (ps != nil && isZeroOf(ps, e))) {
				delete(out, p.Name)
				continue
			}
			out[p.Name] = eraseX(p.Schema, defs, e, depth+1, alsoRequired)
		}
		return out
	case gs.KArray:
		xs, ok := v.([]interface{})
		if !ok {
			return v
		}
		out := make([]interface{}, len(xs))
		for i, e := range xs {
			out[i] = eraseX(s.Items, defs, e, depth+1, alsoRequired)
		}
		return out
	case gs.KMap:
		m, ok := v.(map[string]interface{})
		if !ok {
			return v
		}
		out := map[string]interface{}{}
		for k, e := range m {
			out[k] = eraseX(s.Addl, defs, e, depth+1, alsoRequired)
		}
		return out
	}
	return v
}

func refValid(name string, root *spec.Swagger, doc interface{}) (bool, string) {
	sc := root.Definitions[name]
	res := validate.NewSchemaValidator(&sc, root, "", strfmt.Default).Validate(doc)
	if res == nil || res.IsValid() {
		return true, ""
	}
	var msgs []string
	for _, e := range res.Errors {
		msgs = append(msgs, e.Error())
	}
	return false, strings.Join(msgs, "; ")
}

// ---- round trip (C05) ----

// lost compares the re-encoded document with the input per schema and returns a description of the first
// undocumented difference ("" if none). Tolerated: an optional scalar property holding its zero value may be omitted,
// an absent array may come back as null, undeclared properties are dropped where additionalProperties is absent.
func lost(s *gs.Schema, defs map[string]*gs.Schema, in, out interface{}, path string, depth int) string {
	s = resolve(s, defs)
	if s == nil || depth > 12 {
		return ""
	}
	switch s.Kind {
	case gs.KObject:
		mi, ok1 := in.(map[string]interface{})
		mo, ok2 := out.(map[string]interface{})
		if !ok1 {
			return ""
		}
		if !ok2 {
			return path + ": object became " + fmt.Sprintf("%T", out)
		}
		declared := map[string]bool{}
		var walk func(x *gs.Schema) string
		walk = func(x *gs.Schema) string {
			x = resolve(x, defs)
			if x == nil {
				return ""
			}
			for _, a := range x.AllOf {
				if d := walk(a); d != "" {
					return d
				}
			}
			for _, p := range x.Props {
				declared[p.Name] = true
				iv, inIn := mi[p.Name]
				ov, inOut := mo[p.Name]
				ps := resolve(p.Schema, defs)
				switch {
				case inIn && !inOut:
					if p.Required {
						return path + "/" + p.Name + ": required property omitted"
					}
					if iv == nil || isZeroScalar(iv) {
						continue
					}
					if xs, ok := iv.([]interface{}); ok && len(xs) == 0 {
						continue // empty array with omitempty
					}
					if mm, ok := iv.(map[string]interface{}); ok && len(mm) == 0 {
						continue
					}
					return path + "/" + p.Name + ": value lost"
				case !inIn && inOut:
					if ov == nil && ps != nil && (ps.Kind == gs.KArray || ps.Kind == gs.KMap || ps.Kind == gs.KObject) {
						continue // absent container rendered as null
					}
					if p.Required {
						continue // required properties are always rendered (zero value)
					}
					return path + "/" + p.Name + ": property added"
				case inIn && inOut:
					if d := lost(p.Schema, defs, iv, ov, path+"/"+p.Name, depth+1); d != "" {
						return d
					}
				}
			}
			return ""
		}
		if d := walk(s); d != "" {
			return d
		}
		for k, ov := range mo {
			if !declared[k] {
				if s.Addl != nil {
					if iv, ok := mi[k]; ok {
						if d := lost(s.Addl, defs, iv, ov, path+"/"+k, depth+1); d != "" {
							return d
						}
						continue
					}
				}
				if _, ok := mi[k]; !ok {
					return path + "/" + k + ": property added"
				}
			}
		}
		if s.Addl != nil {
			for k := range mi {
				if !declared[k] {
					if _, ok := mo[k]; !ok {
						return path + "/" + k + ": additional property lost"
					}
				}
			}
		}
		return ""
	case gs.KArray:
		xi, ok1 := in.([]interface{})
		xo, ok2 := out.([]interface{})
		if !ok1 {
			return ""
		}
		if !ok2 || len(xi) != len(xo) {
			if out == nil && len(xi) == 0 {
				return path + ": empty array rendered-as-null"
			}
			return path + ": array length changed"
		}
		for i := range xi {
			if d := lost(s.Items, defs, xi[i], xo[i], fmt.Sprintf("%s/%d", path, i), depth+1); d != "" {
				return d
			}
		}
		return ""
	case gs.KMap:
		mi, ok1 := in.(map[string]interface{})
		mo, ok2 := out.(map[string]interface{})
		if !ok1 {
			return ""
		}
		if !ok2 || len(mi) != len(mo) {
			return path + ": map size changed"
		}
		for k, iv := range mi {
			ov, ok := mo[k]
			if !ok {
				return path + "/" + k + ": map entry lost"
			}
			if d := lost(s.Addl, defs, iv, ov, path+"/"+k, depth+1); d != "" {
				return d
			}
		}
		return ""
	default:
		if !reflect.DeepEqual(in, out) {
			// date-time may be re-rendered in another layout; compare loosely
			if s.Format == "date-time" {
				return ""
			}
			return fmt.Sprintf("%s: value %v became %v", path, in, out)
		}
		return ""
	}
}

// ---- fixed special definitions (allOf, discriminator with x-class, additionalProperties next to properties, lone property-count bounds) ----
func formatNames() []string {
	var fs []string
	for f := range gs.FormatSample {
		fs = append(fs, f)
	}
	sort.Strings(fs)
	return fs
}

// fmtDefName: FormatA, FormatB, ... in the order of formatNames (names that no initialism rule rewrites)
func fmtDefName(f string) string {
	for i, x := range formatNames() {
		if x == f {
			return "Format" + string(rune('A'+i))
		}
	}
	return "FormatX"
}

// formatBag: one required property per format, each a $ref to the named type of that format
func formatBag() *gs.Schema {
	s := &gs.Schema{Kind: gs.KObject}
	for _, f := range formatNames() {
		s.Props = append(s.Props, gs.Prop{Name: strings.ToLower(fmtDefName(f)) + "Val", Schema: &gs.Schema{Kind: gs.KRef, Ref: fmtDefName(f)}, Required: true})
	}
	return s
}

// buildProbes: see their use
var buildProbes = []struct{ name, spec string }{
	{"enum-in-member-of-inline-allOf-property", `{"swagger":"2.0","info":{"title":"t","version":"1"},"paths":{},"definitions":{"Kennel":{"type":"object","properties":{"dog":{"allOf":[{"type":"object","properties":{"status":{"type":"string","enum":["a","b"]}}},{"type":"object","properties":{"bark":{"type":"string","enum":["loud","soft"]}}}]}}}}}`},
	{"enum-in-nested-anonymous-object", `{"swagger":"2.0","info":{"title":"t","version":"1"},"paths":{},"definitions":{"Kennel":{"type":"object","properties":{"dog":{"type":"object","properties":{"bark":{"type":"string","enum":["loud","soft"]},"inner":{"type":"object","properties":{"size":{"type":"integer","enum":[1,2]}}}}}}}}}`},
	{"enum-in-items-of-anonymous-array-property", `{"swagger":"2.0","info":{"title":"t","version":"1"},"paths":{},"definitions":{"Kennel":{"type":"object","properties":{"dogs":{"type":"array","items":{"type":"object","properties":{"bark":{"type":"string","enum":["loud","soft"]}}}}}}}}`},
	{"enum-in-additional-properties-object", `{"swagger":"2.0","info":{"title":"t","version":"1"},"paths":{},"definitions":{"Kennel":{"type":"object","properties":{"id":{"type":"integer"}},"additionalProperties":{"type":"object","properties":{"bark":{"type":"string","enum":["loud","soft"]}}}}}}`},
	{"allOf-of-ref-and-inline-with-enum", `{"swagger":"2.0","info":{"title":"t","version":"1"},"paths":{},"definitions":{"Pet":{"type":"object","properties":{"status":{"type":"string","enum":["a","b"]}}},"Dog":{"allOf":[{"$ref":"#/definitions/Pet"},{"type":"object","properties":{"bark":{"type":"string","enum":["loud","soft"]}}}]},"Owner":{"type":"object","properties":{"dog":{"$ref":"#/definitions/Dog"},"pets":{"type":"array","items":{"$ref":"#/definitions/Dog"}}}}}}`},
}

func specials() map[string]*gs.Schema {
	m := specials0()
	for _, f := range formatNames() {
		m[fmtDefName(f)] = &gs.Schema{Kind: gs.KString, Format: f}
	}
	return m
}

func specials0() map[string]*gs.Schema {
	str := func() *gs.Schema { return &gs.Schema{Kind: gs.KString} }
	return map[string]*gs.Schema{
		"Base": {Kind: gs.KObject, Props: []gs.Prop{{Name: "createdBy", Schema: str(), Required: true}}},
		"Composed": {Kind: gs.KObject, AllOf: []*gs.Schema{{Kind: gs.KRef, Ref: "Base"},
			{Kind: gs.KObject, Props: []gs.Prop{{Name: "name", Schema: str(), Required: true}, {Name: "labels", Schema: &gs.Schema{Kind: gs.KMap, Addl: str()}, Required: true},
				{Name: "note", Schema: &gs.Schema{Kind: gs.KString, MinLen: gs.I(2)}}}}}},
		"WithAddl": {Kind: gs.KObject, Props: []gs.Prop{{Name: "id", Schema: &gs.Schema{Kind: gs.KInteger}, Required: true}, {Name: "name", Schema: str()}},
			Addl: &gs.Schema{Kind: gs.KInteger, Min: gs.I(1)}},
		// a definition that is only a reference to another one (an alias), reached through optional and required properties:
		// the constraints of the target hold at that depth
		"Address": {Kind: gs.KObject, Props: []gs.Prop{{Name: "zip", Schema: &gs.Schema{Kind: gs.KString, MinLen: gs.I(5)}, Required: true}, {Name: "floor", Schema: &gs.Schema{Kind: gs.KInteger, Min: gs.I(1)}}}},
		"PostalAddress":  {Kind: gs.KRef, Ref: "Address"},
		"MailingAddress": {Kind: gs.KRef, Ref: "PostalAddress"},
		"Customer": {Kind: gs.KObject, Props: []gs.Prop{{Name: "shipping", Schema: &gs.Schema{Kind: gs.KRef, Ref: "PostalAddress"}}, {Name: "billing", Schema: &gs.Schema{Kind: gs.KRef, Ref: "Address"}},
			{Name: "mailing", Schema: &gs.Schema{Kind: gs.KRef, Ref: "MailingAddress"}}, {Name: "legal", Schema: &gs.Schema{Kind: gs.KRef, Ref: "PostalAddress"}, Required: true},
			{Name: "others", Schema: &gs.Schema{Kind: gs.KArray, Items: &gs.Schema{Kind: gs.KRef, Ref: "PostalAddress"}}}}},
		// additionalProperties of container and object types next to declared properties
		"WithAddlMap": {Kind: gs.KObject, Props: []gs.Prop{{Name: "id", Schema: &gs.Schema{Kind: gs.KInteger}, Required: true}, {Name: "name", Schema: str()}},
			Addl: &gs.Schema{Kind: gs.KMap, Addl: &gs.Schema{Kind: gs.KInteger}}},
		"WithAddlArr": {Kind: gs.KObject, Props: []gs.Prop{{Name: "id", Schema: &gs.Schema{Kind: gs.KInteger}, Required: true}},
			Addl: &gs.Schema{Kind: gs.KArray, Items: str()}},
		"WithAddlRef": {Kind: gs.KObject, Props: []gs.Prop{{Name: "id", Schema: &gs.Schema{Kind: gs.KInteger}, Required: true}},
			Addl: &gs.Schema{Kind: gs.KRef, Ref: "Base"}},
		// every declared property optional: the empty object is a valid document, on its own and as a (required) property value
		"WithAddlOpt": {Kind: gs.KObject, Props: []gs.Prop{{Name: "name", Schema: str()}}, Addl: &gs.Schema{Kind: gs.KInteger}},
		"HoldsAddl": {Kind: gs.KObject, Props: []gs.Prop{{Name: "id", Schema: &gs.Schema{Kind: gs.KInteger}, Required: true},
			{Name: "labels", Schema: &gs.Schema{Kind: gs.KRef, Ref: "WithAddlOpt"}, Required: true}, {Name: "settings", Schema: &gs.Schema{Kind: gs.KRef, Ref: "WithAddlOpt"}}}},
		// a map whose values are a named map with validations of its own (and a holder of such a map)
		"Labels":      {Kind: gs.KMap, MaxProps: gs.I(2), Addl: &gs.Schema{Kind: gs.KString, MaxLen: gs.I(3)}},
		"LabelGroups": {Kind: gs.KMap, Addl: &gs.Schema{Kind: gs.KRef, Ref: "Labels"}},
		"GroupHolder": {Kind: gs.KObject, Props: []gs.Prop{{Name: "groups", Schema: &gs.Schema{Kind: gs.KMap, Addl: &gs.Schema{Kind: gs.KRef, Ref: "Labels"}}},
			{Name: "list", Schema: &gs.Schema{Kind: gs.KArray, Items: &gs.Schema{Kind: gs.KMap, Addl: &gs.Schema{Kind: gs.KRef, Ref: "Labels"}}}}}},
		"MaxOnly":    {Kind: gs.KObject, MaxProps: gs.I(2), Props: []gs.Prop{{Name: "a", Schema: str()}, {Name: "b", Schema: str()}, {Name: "c", Schema: str()}}},
		"MinOnly":    {Kind: gs.KObject, MinProps: gs.I(2), Props: []gs.Prop{{Name: "a", Schema: str()}, {Name: "b", Schema: str()}}},
		"BothBounds": {Kind: gs.KObject, MinProps: gs.I(1), MaxProps: gs.I(2), Props: []gs.Prop{{Name: "a", Schema: str()}, {Name: "b", Schema: str()}, {Name: "c", Schema: str()}}},
		"ZeroItems": {Kind: gs.KObject, Props: []gs.Prop{
			{Name: "counts", Schema: &gs.Schema{Kind: gs.KArray, Items: &gs.Schema{Kind: gs.KInteger, Min: gs.I(1)}}},
			{Name: "names", Schema: &gs.Schema{Kind: gs.KArray, Items: &gs.Schema{Kind: gs.KString, MinLen: gs.I(2)}}},
			{Name: "grid", Schema: &gs.Schema{Kind: gs.KArray, Items: &gs.Schema{Kind: gs.KArray, Items: &gs.Schema{Kind: gs.KInteger, Min: gs.I(1)}}}}}},
		// polymorphism: base type with discriminator, a subtype that sets x-class, one that does not, and containers
		"Pet":    {Kind: gs.KObject, Discriminator: "petType", Props: []gs.Prop{{Name: "petType", Schema: str(), Required: true}, {Name: "name", Schema: str(), Required: true}}},
		"Dog":    {Kind: gs.KObject, XClass: "com.acme.Dog", AllOf: []*gs.Schema{{Kind: gs.KRef, Ref: "Pet"}, {Kind: gs.KObject, Props: []gs.Prop{{Name: "bark", Schema: str()}}}}},
		"Cat":    {Kind: gs.KObject, AllOf: []*gs.Schema{{Kind: gs.KRef, Ref: "Pet"}, {Kind: gs.KObject, Props: []gs.Prop{{Name: "lives", Schema: &gs.Schema{Kind: gs.KInteger}}}}}},
		"Kennel": {Kind: gs.KObject, Props: []gs.Prop{{Name: "resident", Schema: &gs.Schema{Kind: gs.KRef, Ref: "Pet"}}, {Name: "all", Schema: &gs.Schema{Kind: gs.KArray, Items: &gs.Schema{Kind: gs.KRef, Ref: "Pet"}}}}},
		// additional properties on types that hold polymorphic members (their serializer is the discriminated one)
		"Scores": {Kind: gs.KObject, Props: []gs.Prop{{Name: "owner", Schema: &gs.Schema{Kind: gs.KRef, Ref: "Pet"}}, {Name: "comment", Schema: str()}},
			Addl: &gs.Schema{Kind: gs.KInteger}},
		"Pack": {Kind: gs.KObject, Props: []gs.Prop{{Name: "title", Schema: str(), Required: true}, {Name: "members", Schema: &gs.Schema{Kind: gs.KArray, Items: &gs.Schema{Kind: gs.KRef, Ref: "Pet"}}}},
			Addl: str()},
		// bounds whose value is zero are bounds (only the empty string, no item, nothing above zero)
		"ZeroBounds": {Kind: gs.KObject, Props: []gs.Prop{
			{Name: "emptyOnly", Schema: &gs.Schema{Kind: gs.KString, MaxLen: gs.I(0)}},
			{Name: "anyLength", Schema: &gs.Schema{Kind: gs.KString, MinLen: gs.I(0)}},
			{Name: "noItems", Schema: &gs.Schema{Kind: gs.KArray, Items: &gs.Schema{Kind: gs.KInteger}, MaxItems: gs.I(0)}},
			{Name: "notPositive", Schema: &gs.Schema{Kind: gs.KInteger, Max: gs.I(0)}},
			{Name: "negative", Schema: &gs.Schema{Kind: gs.KInteger, Max: gs.I(0), XMax: true}},
			{Name: "notNegative", Schema: &gs.Schema{Kind: gs.KInteger, Min: gs.I(0)}},
			{Name: "positive", Schema: &gs.Schema{Kind: gs.KInteger, Min: gs.I(0), XMin: true}},
			{Name: "emptyOnlyRequired", Schema: &gs.Schema{Kind: gs.KString, MaxLen: gs.I(0)}, Required: true},
			{Name: "emptyStrings", Schema: &gs.Schema{Kind: gs.KArray, Items: &gs.Schema{Kind: gs.KString, MaxLen: gs.I(0)}}},
			{Name: "emptyValues", Schema: &gs.Schema{Kind: gs.KMap, Addl: &gs.Schema{Kind: gs.KString, MaxLen: gs.I(0), Pattern: "^$"}}}}},
		"EmptyName": {Kind: gs.KString, MaxLen: gs.I(0)},
		// named types of every string format (aliases of formatted types), and an object, an array and a map holding them
		"FormatBag": formatBag(),
		"Durations": {Kind: gs.KArray, Items: &gs.Schema{Kind: gs.KString, Format: "duration"}},
		"Secrets":   {Kind: gs.KMap, Addl: &gs.Schema{Kind: gs.KString, Format: "byte"}},
		"Unsigned": {Kind: gs.KObject, Props: []gs.Prop{
			{Name: "n", Schema: &gs.Schema{Kind: gs.KInteger, Format: "uint32", Max: gs.I(10), XMax: true}},
			{Name: "m", Schema: &gs.Schema{Kind: gs.KInteger, Format: "uint32", Min: gs.I(1), Max: gs.I(10), XMin: true}},
			{Name: "k", Schema: &gs.Schema{Kind: gs.KInteger, Format: "uint64", Min: gs.I(2), Max: gs.I(9), XMax: true}}}},
	}
}

func main() {
	fs := flag.NewFlagSet("modelcheck", flag.ExitOnError)
	bin := fs.String("bin", "", "")
	work := fs.String("work", "", "")
	out := fs.String("out", "", "output dir")
	seed := fs.Uint64("seed", 1, "")
	nspecs := fs.Int("specs", 2, "")
	ndefs := fs.Int("defs", 24, "definitions per spec")
	_ = fs.Parse(os.Args[1:])
	if *bin == "" || *work == "" || *out == "" {
		die("-bin, -work, -out required")
	}
	_ = os.MkdirAll(*out, 0o755)
	r := rng.New(*seed)
	cov := map[string]int{}
	var v02, v05 []violation
	evals, distinct := 0, 0
	var samples []interface{}
	var coqCases, rtCases, pcCases []string
	seen := map[string]bool{}
	builds := 0
	t0 := time.Now()
	for si := 0; si < *nspecs; si++ {
		g := &gs.Gen{R: r.Fork(), Cov: cov}
		defs := map[string]*gs.Schema{}
		var names []string
		for i := 0; i < *ndefs; i++ {
			name := fmt.Sprintf("Def%d", i)
			var sc *gs.Schema
			switch {
			case i%5 == 4:
				sc = g.Schema(2) // any kind at top level (aliases of primitives, arrays, maps)
			default:
				sc = g.Object(2)
			}
			defs[name] = sc
			names = append(names, name)
			g.Defs = append(g.Defs, name) // later definitions may reference earlier ones (no cycles)
		}
		for n, sc := range specials() {
			defs[n] = sc
			names = append(names, n)
		}
		sort.Strings(names)
		dj := map[string]interface{}{}
		for n, sc := range defs {
			dj[n] = sc.JSON()
		}
		doc := map[string]interface{}{"swagger": "2.0", "info": map[string]interface{}{"title": "m", "version": "1"}, "paths": map[string]interface{}{}, "definitions": dj}
		specJSON, _ := json.Marshal(doc)
		var root spec.Swagger
		if err := json.Unmarshal(specJSON, &root); err != nil {
			die("%v", err)
		}
		dir := filepath.Join(*work, fmt.Sprintf("m%d", si))
		_ = os.RemoveAll(dir)
		if err := gorun.NewModule(dir); err != nil {
			die("%v", err)
		}
		sp := filepath.Join(dir, "spec.json")
		_ = os.WriteFile(sp, specJSON, 0o644)
		res := gorun.Swagger(*bin, dir, 180*time.Second, "generate", "model", "-q", "-f", sp, "-t", dir)
		if res.Exit != 0 {
			cov["generation-error"]++
			v02 = append(v02, violation{Key: "c02/generation-failed", What: "generate model fails on a spec of the fragment", Input: map[string]interface{}{"spec": json.RawMessage(specJSON)}, Detail: tail(res.Output)})
			continue
		}
		var reg strings.Builder
		for _, n := range names {
			if n == "Pet" {
				continue // the base type is a Go interface; it is reached through Kennel
			}
			fmt.Fprintf(&reg, "\t%q: func() interface{} { return new(models.%s) },\n", n, n)
		}
		_ = os.MkdirAll(filepath.Join(dir, "driver"), 0o755)
		_ = os.WriteFile(filepath.Join(dir, "driver", "main.go"), []byte(fmt.Sprintf(driverTmpl, reg.String())), 0o644)
		// cases
		var cases []tcase
		for _, fx := range []struct{ def, doc string }{
			{"Kennel", `{"resident":{"petType":"com.acme.Dog","name":"rex","bark":"loud"}}`},
			{"Kennel", `{"resident":{"petType":"Cat","name":"tom","lives":9},"all":[{"petType":"com.acme.Dog","name":"a","bark":"x"},{"petType":"Cat","name":"b","lives":1}]}`},
			{"Kennel", `{"all":[]}`},
			{"Scores", `{"owner":{"petType":"Cat","name":"tom","lives":3},"comment":"c","alpha":1,"beta":2}`},
			{"Scores", `{"alpha":7}`},
			{"Pack", `{"title":"p","members":[{"petType":"com.acme.Dog","name":"a","bark":"x"},{"petType":"Cat","name":"b","lives":2}],"x1":"one","x2":"two"}`},
			{"Dog", `{"petType":"com.acme.Dog","name":"rex","bark":"loud"}`},
			{"Cat", `{"petType":"Cat","name":"tom","lives":3}`},
		} {
			cases = append(cases, tcase{Def: fx.def, Doc: json.RawMessage(fx.doc)})
		}
		for _, n := range names {
			if n == "Pet" || n == "Kennel" || n == "Dog" || n == "Cat" || n == "Scores" || n == "Pack" {
				continue
			}
			docs := g.Docs(defs[n], defs, 0)
			for _, d := range docs {
				b, err := json.Marshal(d)
				if err != nil {
					continue
				}
				cases = append(cases, tcase{Def: n, Doc: b})
			}
		}
		cb, _ := json.Marshal(cases)
		cf, rf := filepath.Join(dir, "cases.json"), filepath.Join(dir, "results.json")
		_ = os.WriteFile(cf, cb, 0o644)
		build := exec.Command("go", "build", "-o", filepath.Join(dir, "drv"), "./driver")
		build.Dir = dir
		build.Env = append(os.Environ(), "GOFLAGS=-mod=mod", "GOPROXY=off", "GOSUMDB=off", "GOTOOLCHAIN=local")
		bo, err := build.CombinedOutput()
		builds++
		if err != nil {
			cov["build-error"]++
			bkey := "c02/generated-models-do-not-build"
			if regexp.MustCompile(`\.validate\w+ItemsEnum undefined`).Match(bo) {
				bkey += "[items-enum-validator-of-nested-array-alias-undefined]"
			}
			v02 = append(v02, violation{Key: bkey, What: "generate model exits 0 but the models do not compile", Input: map[string]interface{}{"spec": json.RawMessage(specJSON)}, Detail: tail(string(bo))})
			continue
		}
		run := exec.Command(filepath.Join(dir, "drv"), cf, rf)
		if ro, err := run.CombinedOutput(); err != nil {
			die("driver failed: %v %s", err, tail(string(ro)))
		}
		var results []tresult
		rb, _ := os.ReadFile(rf)
		if err := json.Unmarshal(rb, &results); err != nil || len(results) != len(cases) {
			die("driver results unreadable")
		}
		for i, c := range cases {
			evals++
			key := c.Def + string(c.Doc)
			if !seen[fmt.Sprint(si)+key] {
				seen[fmt.Sprint(si)+key] = true
				distinct++
			}
			var d interface{}
			_ = json.Unmarshal(c.Doc, &d)
			er := erase(defs[c.Def], defs, d, 0)
			refOK, refMsg := refValid(c.Def, &root, er)
			genOK := results[i].Verdict == "ok"
			// the exception is a permission ("may be treated as absent"): the generated verdict may follow either reading
			if rawOK0, _ := refValid(c.Def, &root, d); rawOK0 == genOK {
				refOK = genOK
			} else if reqOK, _ := refValid(c.Def, &root, eraseX(defs[c.Def], defs, d, 0, true)); reqOK == genOK {
				refOK = genOK
			}
			cov["verdict:"+results[i].Verdict]++
			if refOK {
				cov["ref:valid"]++
			} else {
				cov["ref:invalid"]++
			}
			in := map[string]interface{}{"definition": c.Def, "schema": defs[c.Def].JSON(), "document": c.Doc, "definitions": dj}
			if results[i].Verdict == "panic" {
				v02 = append(v02, violation{Key: "c02/panic", What: "generated Unmarshal/Validate panics", Input: in})
				continue
			}
			if genOK != refOK {
				kind := "generated-accepts-invalid"
				if !genOK {
					kind = "generated-rejects-valid"
				}
				cls := classify(defs[c.Def], defs, d, refMsg+results[i].Err)
				if strings.HasPrefix(cls, "should-have") && results[i].Out != nil {
					// known imprecision: the generated code counts the properties of the re-marshalled object (zero values dropped
					// by omitempty are not counted, nested structs always are); a verdict that follows that rule is this class
					var o interface{}
					_ = json.Unmarshal(results[i].Out, &o)
					if countRule(defs[c.Def], defs, o, 0) == genOK {
						cls = "property-count-of-remarshalled-object"
					}
				}
				if strings.HasPrefix(cls, "should-have") && genOK {
					// the count constraint sits on the values of a map (additionalProperties): the generated code does not check it there
					under, elsewhere := countViolations(defs[c.Def], defs, d, false, 0)
					if under && !elsewhere {
						cls = "property-count-of-map-value-not-checked"
					}
				}
				if cls == "required" && genOK {
					// the generated map validators skip values that are the zero value of their Go type: an empty object held
					// by a map of objects is not validated, so a required property of the value schema is not demanded there
					okWithout, _ := refValid(c.Def, &root, dropEmptyObjectMapValues(defs[c.Def], defs, d, 0))
					if !okWithout {
						okWithout, _ = refValid(c.Def, &root, dropEmptyObjectMapValues(defs[c.Def], defs, er, 0))
					}
					if okWithout {
						cls = "empty-object-map-value-not-validated"
					}
				}
				if cls == "required" && !genOK {
					if name := strings.TrimSuffix(results[i].Err, " in body is required"); name != results[i].Err && (emptyObjectMapValue(defs[c.Def], defs, d, name, 0) || emptyObjectMapValue(defs[c.Def], defs, er, name, 0)) {
						cls = "empty-object-map-value-treated-as-missing"
					}
				}
				if cls == "type" && strings.Contains(refMsg, "must be of type date") && strings.Contains(string(c.Doc), `""`) {
					cls = "empty-string-accepted-as-date-in-array"
				} else if cls == "type" && genOK && rxEmptyFormatted.MatchString(refMsg) {
					cls = "empty-string-accepted-as-formatted-string"
				}
				v02 = append(v02, violation{Key: "c02/" + kind + "[" + cls + "]",
					What:   "generated model and reference validator disagree on " + c.Def,
					Input:  in,
					Detail: map[string]interface{}{"generated": results[i].Verdict, "generated_error": results[i].Err, "reference_valid": refOK, "reference_errors": refMsg, "document_after_documented_erasure": er}})
			}
			// C05: round trip on documents valid for the schema (as given, not erased)
			rawOK, _ := refValid(c.Def, &root, d)
			if rawOK && results[i].Verdict == "unmarshal_err" {
				v05 = append(v05, violation{Key: "c05/valid-document-not-decodable", What: "a document valid for " + c.Def + " cannot be decoded into the generated type: " + results[i].Err, Input: in,
					Detail: map[string]interface{}{"in": c.Doc, "error": results[i].Err}})
			}
			if rawOK && genOK && results[i].Out != nil {
				var o, o2 interface{}
				_ = json.Unmarshal(results[i].Out, &o)
				cov["roundtrip"]++
				if defs[c.Def].InCoqFragment() && closedFragment(defs[c.Def], defs, 0) && noAliasedArrayProp(defs[c.Def], defs, 0) && len(rtCases) < 1200 && jsonInCoqFragment(d) && jsonInCoqFragment(o) {
					rtCases = append(rtCases, fmt.Sprintf("{| rt_schema := %s; rt_doc := %s; rt_out := %s |}", inlineCoq(defs[c.Def], defs, 0), jsonCoq(d), jsonCoq(o)))
				}
				if dd := lost(defs[c.Def], defs, d, o, "", 0); dd != "" {
					cls := lossClass(dd)
					if strings.HasSuffix(dd, ": property added") {
						// which value was added: the zero of a struct-based format is a cause of its own
						switch valueAt(o, strings.TrimSuffix(dd, ": property added")) {
						case "0001-01-01", "0001-01-01T00:00:00.000Z":
							cls = "absent-optional-date-rendered-as-zero-date"
						case "000000000000000000000000", "00000000000000000000000000":
							cls = "absent-optional-objectid-or-ulid-rendered-as-zero-id"
						}
					}
					v05 = append(v05, violation{Key: "c05/roundtrip-loss[" + cls + "]", What: "decode-then-encode of a valid document is not lossless for " + c.Def + ": " + dd, Input: in,
						Detail: map[string]interface{}{"in": c.Doc, "out": results[i].Out, "difference": dd}})
				}
				if results[i].Out2 != nil {
					_ = json.Unmarshal(results[i].Out2, &o2)
					if !reflect.DeepEqual(o, o2) {
						v05 = append(v05, violation{Key: "c05/not-idempotent", What: "encoding the re-decoded output does not reproduce it for " + c.Def, Input: in,
							Detail: map[string]interface{}{"out": results[i].Out, "out2": results[i].Out2}})
					}
				}
			}
			// model correspondence case (Coq fragment only)
			// (documents holding an empty object as the value of a map of objects are outside the model's fragment: the generated
			// validators skip such values — the known finding empty-object-map-value-not-validated — and gen_accepts does not)
			dropped, _ := json.Marshal(dropEmptyObjectMapValues(defs[c.Def], defs, d, 0))
			kept, _ := json.Marshal(d)
			if defs[c.Def].InCoqFragment() && closedFragment(defs[c.Def], defs, 0) && len(coqCases) < 1600 && jsonInCoqFragment(d) && string(dropped) == string(kept) {
				coqCases = append(coqCases, fmt.Sprintf("{| mc_schema := %s; mc_doc := %s; mc_gen := %s; mc_ref := %s |}",
					inlineCoq(defs[c.Def], defs, 0), jsonCoq(d), coqpp.Bool(genOK), coqpp.Bool(refOK)))
			}
			// ... and the property-count cases (Sem/PropCount.v): an object of the fragment that also carries minProperties / maxProperties
			if sd := defs[c.Def]; sd.Kind == gs.KObject && (sd.MinProps != nil || sd.MaxProps != nil) && len(pcCases) < 600 && jsonInCoqFragment(d) {
				plainObj := *sd
				plainObj.MinProps, plainObj.MaxProps = nil, nil
				// (a declared array property that the document leaves out is outside what Sem/PropCount.v models: how the generated
				// count treats it depends on the validations the array carries — met at thorough depth)
				absentArray := false
				if dm, ok := d.(map[string]interface{}); ok {
					for _, pp := range sd.Props {
						if rs := resolve(pp.Schema, defs); rs != nil && rs.Kind == gs.KArray {
							if _, has := dm[pp.Name]; !has {
								absentArray = true
							}
						}
					}
				}
				if plainObj.InCoqFragment() && closedFragment(&plainObj, defs, 0) && !absentArray {
					pcCases = append(pcCases, fmt.Sprintf("{| pc_schema := %s; pc_min := %s; pc_max := %s; pc_doc := %s; pc_gen := %s; pc_ref := %s |}",
						inlineCoq(&plainObj, defs, 0), coqpp.OptZ(sd.MinProps), coqpp.OptZ(sd.MaxProps), jsonCoq(d), coqpp.Bool(genOK), coqpp.Bool(refOK)))
				}
			}
			if len(samples) < 3 && !refOK && results[i].Verdict == "validate_err" {
				samples = append(samples, map[string]interface{}{"definition": defs[c.Def].JSON(), "document": c.Doc, "generated": results[i].Verdict, "reference": refMsg})
			}
		}
		_ = os.RemoveAll(dir)
	}
	writeCoq(*out, coqCases, pcCases)
	writeCoqRT(*out, rtCases)
	// probe documents: one delicate construct each, alone in its document, so that a construct the generator cannot render
	// does not take the other definitions of a spec with it; the models must be generated and must compile
	for _, pb := range buildProbes {
		dir := filepath.Join(*work, "probe-"+pb.name)
		_ = os.RemoveAll(dir)
		if err := gorun.NewModule(dir); err != nil {
			die("%v", err)
		}
		sp := filepath.Join(dir, "spec.json")
		_ = os.WriteFile(sp, []byte(pb.spec), 0o644)
		res := gorun.Swagger(*bin, dir, 180*time.Second, "generate", "model", "-q", "-f", sp, "-t", dir)
		cov["probe:"+pb.name]++
		evals++
		distinct++
		if res.Exit != 0 {
			v02 = append(v02, violation{Key: "c02/generation-failed[" + pb.name + "]", What: "generate model fails on a valid document", Input: map[string]interface{}{"spec": json.RawMessage(pb.spec)}, Detail: tail(res.Output)})
			_ = os.RemoveAll(dir)
			continue
		}
		b := exec.Command("go", "build", "./...")
		b.Dir = dir
		b.Env = append(os.Environ(), "GOFLAGS=-mod=mod", "GOPROXY=off", "GOSUMDB=off", "GOTOOLCHAIN=local")
		if bo, err := b.CombinedOutput(); err != nil {
			v02 = append(v02, violation{Key: "c02/generated-models-do-not-build[" + pb.name + "]", What: "generate model exits 0 but the models do not compile", Input: map[string]interface{}{"spec": json.RawMessage(pb.spec)}, Detail: tail(string(bo))})
		}
		_ = os.RemoveAll(dir)
	}
	for _, x := range []struct {
		name  string
		viols []violation
	}{{"c02.json", v02}, {"c05.json", v05}} {
		vs := x.viols
		if vs == nil {
			vs = []violation{}
		}
		sort.Slice(vs, func(i, j int) bool { return vs[i].Key < vs[j].Key })
		rep := map[string]interface{}{
			"evaluations": evals, "distinct_nontrivial": distinct,
			"rule":    "specs of ~24 generated definitions (objects with required/optional properties, arrays, maps, aliases, references; every validation keyword; integer formats incl. unsigned) plus fixed special definitions (allOf with inline member, additionalProperties next to properties, lone minProperties / maxProperties, arrays whose item constraints exclude the zero value, unsigned bounds with asymmetric exclusivity); documents per definition: a valid one, and single deviations at every node: boundary values of every constraint, zero values, wrong types, missing properties, unknown properties. The generated models are compiled and run. Distinct by (spec, definition, document); every document but the first of a definition is a deviation, hence non-trivial.",
			"samples": samples, "coverage": cov, "violations": vs, "builds": builds, "model_cases": len(coqCases) + len(pcCases), "count_model_cases": len(pcCases), "rt_model_cases": len(rtCases), "wall_s": time.Since(t0).Seconds(),
		}
		b, _ := json.MarshalIndent(rep, "", " ")
		_ = os.WriteFile(filepath.Join(*out, x.name), b, 0o644)
	}
	fmt.Printf("modelcheck: %d pairs, %d C02 disagreements, %d C05 losses, %d model cases\n", evals, len(v02), len(v05), len(coqCases))
}

func tail(s string) string {
	if len(s) > 1500 {
		return s[len(s)-1500:]
	}
	return s
}

// classify gives a disagreement a coarse, stable class from the error texts
func classify(s *gs.Schema, defs map[string]*gs.Schema, d interface{}, msg string) string {
	m := strings.ToLower(msg)
	for _, k := range []string{"minproperties", "maxproperties", "min_properties", "should have at most", "should have at least", "unique", "multiple", "required", "enum", "one of", "pattern", "should match",
		"greater than", "less than", "at least", "at most", "type", "format"} {
		if strings.Contains(m, k) {
			return strings.ReplaceAll(k, " ", "-")
		}
	}
	return "other"
}

// countViolations: object nodes whose minProperties / maxProperties the document violates — under a map value, elsewhere
func countViolations(s *gs.Schema, defs map[string]*gs.Schema, d interface{}, underMap bool, depth int) (under, elsewhere bool) {
	s = resolve(s, defs)
	if s == nil || depth > 10 {
		return
	}
	switch s.Kind {
	case gs.KObject:
		m, ok := d.(map[string]interface{})
		if !ok {
			return
		}
		if (s.MinProps != nil && int64(len(m)) < *s.MinProps) || (s.MaxProps != nil && int64(len(m)) > *s.MaxProps) {
			if underMap {
				under = true
			} else {
				elsewhere = true
			}
		}
		for _, p := range s.Props {
			if v, ok := m[p.Name]; ok {
				u, e := countViolations(p.Schema, defs, v, false, depth+1)
				under, elsewhere = under || u, elsewhere || e
			}
		}
	case gs.KArray:
		if xs, ok := d.([]interface{}); ok {
			for _, x := range xs {
				u, e := countViolations(s.Items, defs, x, false, depth+1)
				under, elsewhere = under || u, elsewhere || e
			}
		}
	case gs.KMap:
		if m, ok := d.(map[string]interface{}); ok {
			for _, x := range m {
				u, e := countViolations(s.Addl, defs, x, true, depth+1)
				under, elsewhere = under || u, elsewhere || e
			}
		}
	}
	return
}

// emptyObjectMapValue: is [name] a key of a map (at any depth) whose value in the document is an empty object?
// dropEmptyObjectMapValues: the document without the entries of maps of objects whose value is the empty object
func dropEmptyObjectMapValues(s *gs.Schema, defs map[string]*gs.Schema, d interface{}, depth int) interface{} {
	s = resolve(s, defs)
	if s == nil || depth > 10 {
		return d
	}
	switch s.Kind {
	case gs.KMap:
		if m, ok := d.(map[string]interface{}); ok {
			out := map[string]interface{}{}
			vs := resolve(s.Addl, defs)
			for k, x := range m {
				if e, isObj := x.(map[string]interface{}); isObj && len(e) == 0 && vs != nil && vs.Kind == gs.KObject {
					continue
				}
				out[k] = dropEmptyObjectMapValues(s.Addl, defs, x, depth+1)
			}
			return out
		}
	case gs.KObject:
		if m, ok := d.(map[string]interface{}); ok {
			out := map[string]interface{}{}
			for k, x := range m {
				out[k] = x
			}
			for _, p := range s.Props {
				if v, ok := out[p.Name]; ok {
					out[p.Name] = dropEmptyObjectMapValues(p.Schema, defs, v, depth+1)
				}
			}
			return out
		}
	case gs.KArray:
		if xs, ok := d.([]interface{}); ok {
			out := make([]interface{}, len(xs))
			for i, x := range xs {
				out[i] = dropEmptyObjectMapValues(s.Items, defs, x, depth+1)
			}
			return out
		}
	}
	return d
}

func emptyObjectMapValue(s *gs.Schema, defs map[string]*gs.Schema, d interface{}, name string, depth int) bool {
	s = resolve(s, defs)
	if s == nil || depth > 10 {
		return false
	}
	last := name
	if i := strings.LastIndex(name, "."); i >= 0 {
		last = name[i+1:]
	}
	switch s.Kind {
	case gs.KMap:
		if m, ok := d.(map[string]interface{}); ok {
			for k, x := range m {
				if e, isObj := x.(map[string]interface{}); isObj && len(e) == 0 && k == last {
					return true
				}
				if emptyObjectMapValue(s.Addl, defs, x, name, depth+1) {
					return true
				}
			}
		}
	case gs.KObject:
		if m, ok := d.(map[string]interface{}); ok {
			for _, p := range s.Props {
				if v, ok := m[p.Name]; ok && emptyObjectMapValue(p.Schema, defs, v, name, depth+1) {
					return true
				}
			}
		}
	case gs.KArray:
		if xs, ok := d.([]interface{}); ok {
			for _, x := range xs {
				if emptyObjectMapValue(s.Items, defs, x, name, depth+1) {
					return true
				}
			}
		}
	}
	return false
}

// countRule: would every object node with minProperties/maxProperties accept the number of properties that the
// re-marshalled value [o] shows at that node?
func countRule(s *gs.Schema, defs map[string]*gs.Schema, o interface{}, depth int) bool {
	s = resolve(s, defs)
	if s == nil || depth > 10 {
		return true
	}
	switch s.Kind {
	case gs.KObject:
		m, ok := o.(map[string]interface{})
		if !ok {
			return true
		}
		if s.MinProps != nil && int64(len(m)) < *s.MinProps {
			return false
		}
		if s.MaxProps != nil && int64(len(m)) > *s.MaxProps {
			return false
		}
		for _, p := range s.Props {
			if v, ok := m[p.Name]; ok && !countRule(p.Schema, defs, v, depth+1) {
				return false
			}
		}
	case gs.KArray:
		if xs, ok := o.([]interface{}); ok {
			for _, e := range xs {
				if !countRule(s.Items, defs, e, depth+1) {
					return false
				}
			}
		}
	case gs.KMap:
		if m, ok := o.(map[string]interface{}); ok {
			for _, e := range m {
				if !countRule(s.Addl, defs, e, depth+1) {
					return false
				}
			}
		}
	}
	return true
}

var rxEmptyFormatted = regexp.MustCompile(`must be of type [a-z0-9]+: ""$`)

// valueAt: the value at a /-separated path of property names and array indices
func valueAt(v interface{}, path string) interface{} {
	for _, p := range strings.Split(strings.Trim(path, "/"), "/") {
		switch x := v.(type) {
		case map[string]interface{}:
			v = x[p]
		case []interface{}:
			i, err := strconv.Atoi(p)
			if err != nil || i < 0 || i >= len(x) {
				return nil
			}
			v = x[i]
		default:
			return nil
		}
	}
	return v
}

func lossClass(d string) string {
	i := strings.LastIndex(d, ": ")
	if i >= 0 {
		d = d[i+2:]
	}
	f := strings.Fields(d)
	if len(f) > 3 {
		f = f[:3]
	}
	return strings.Join(f, "-")
}

// ---- Coq rendering of documents / closed schemas ----
func jsonInCoqFragment(v interface{}) bool {
	switch x := v.(type) {
	case float64:
		return x == float64(int64(x)) && x < 1e15 && x > -1e15
	case map[string]interface{}:
		for _, e := range x {
			if !jsonInCoqFragment(e) {
				return false
			}
		}
	case []interface{}:
		for _, e := range x {
			if !jsonInCoqFragment(e) {
				return false
			}
		}
	}
	return true
}

func jsonCoq(v interface{}) string {
	switch x := v.(type) {
	case nil:
		return "JNull"
	case bool:
		return "(JBool " + coqpp.Bool(x) + ")"
	case float64:
		return "(JNum " + coqpp.Z(int64(x)) + " 0)"
	case string:
		return "(JStr " + coqpp.Str(x) + ")"
	case []interface{}:
		xs := make([]string, len(x))
		for i, e := range x {
			xs[i] = jsonCoq(e)
		}
		return "(JArr " + coqpp.List(xs) + ")"
	case map[string]interface{}:
		var ks []string
		for k := range x {
			ks = append(ks, k)
		}
		sort.Strings(ks)
		xs := make([]string, len(ks))
		for i, k := range ks {
			xs[i] = "(" + coqpp.Str(k) + ", " + jsonCoq(x[k]) + ")"
		}
		return "(JObj " + coqpp.List(xs) + ")"
	}
	return "JNull"
}

// closedFragment: all references resolve to fragment schemas
func closedFragment(s *gs.Schema, defs map[string]*gs.Schema, depth int) bool {
	if depth > 8 {
		return false
	}
	switch s.Kind {
	case gs.KRef:
		t := defs[s.Ref]
		return t != nil && t.InCoqFragment() && closedFragment(t, defs, depth+1)
	case gs.KArray:
		return closedFragment(s.Items, defs, depth+1)
	case gs.KMap:
		return closedFragment(s.Addl, defs, depth+1)
	case gs.KObject:
		for _, p := range s.Props {
			if !closedFragment(p.Schema, defs, depth+1) {
				return false
			}
		}
	}
	return true
}

// noAliasedArrayProp: no optional property refers to a named array definition. Such a field is of a named slice type and carries
// omitempty (resolvedType.setIsEmptyOmitted: arrays are kept unless aliased), an inline array does not; rt of Sem/Schema.v models
// inline arrays only, and inlineCoq erases the difference
func noAliasedArrayProp(s *gs.Schema, defs map[string]*gs.Schema, depth int) bool {
	if s == nil || depth > 8 {
		return true
	}
	switch s.Kind {
	case gs.KRef:
		return noAliasedArrayProp(defs[s.Ref], defs, depth+1)
	case gs.KArray:
		return noAliasedArrayProp(s.Items, defs, depth+1)
	case gs.KMap:
		return noAliasedArrayProp(s.Addl, defs, depth+1)
	case gs.KObject:
		for _, p := range s.Props {
			if p.Schema.Kind == gs.KRef && !p.Required {
				if t := resolve(p.Schema, defs); t != nil && t.Kind == gs.KArray {
					return false
				}
			}
			if !noAliasedArrayProp(p.Schema, defs, depth+1) {
				return false
			}
		}
	}
	return true
}

// inlineCoq renders a schema with references inlined (the Coq fragment has no definitions environment)
func inlineCoq(s *gs.Schema, defs map[string]*gs.Schema, depth int) string {
	if s.Kind == gs.KRef {
		return inlineCoq(defs[s.Ref], defs, depth+1)
	}
	c := *s
	switch s.Kind {
	case gs.KArray:
		return fmt.Sprintf("(SArr %s %s %s %s)", inlineCoq(s.Items, defs, depth+1), coqpp.OptZ(s.MinItems), coqpp.OptZ(s.MaxItems), coqpp.Bool(s.Unique))
	case gs.KMap:
		return fmt.Sprintf("(SMap %s)", inlineCoq(s.Addl, defs, depth+1))
	case gs.KObject:
		ps := make([]string, len(s.Props))
		for i, p := range s.Props {
			ps[i] = fmt.Sprintf("(%s, %s, %s)", coqpp.Str(p.Name), coqpp.Bool(p.Required), inlineCoq(p.Schema, defs, depth+1))
		}
		return fmt.Sprintf("(SObj %s)", coqpp.List(ps))
	}
	return c.Coq()
}

func writeCoq(out string, cases, pcases []string) {
	shards := 4
	for sh := 0; sh < shards; sh++ {
		var part []string
		for i, c := range cases {
			if i%shards == sh {
				part = append(part, c)
			}
		}
		var sb bytes.Buffer
		sb.WriteString("From GS Require Import Base.Str Base.Json Sem.Schema Sem.PropCount Sem.SchemaRun.\nDefinition cases : list mcase := [\n")
		sb.WriteString(strings.Join(part, ";\n"))
		sb.WriteString("\n].\nDefinition pcases : list pcase := [\n")
		var ppart []string
		for i, c := range pcases {
			if i%shards == sh {
				ppart = append(ppart, c)
			}
		}
		sb.WriteString(strings.Join(ppart, ";\n"))
		sb.WriteString("\n].\nDefinition M := Eval vm_compute in (run_mc cases ++ run_pc pcases).\nPrint M.\n")
		_ = os.WriteFile(filepath.Join(out, fmt.Sprintf("cases_%02d.v", sh)), sb.Bytes(), 0o644)
	}
}

func writeCoqRT(out string, cases []string) {
	d := filepath.Join(out, "rt")
	_ = os.MkdirAll(d, 0o755)
	shards := 4
	for sh := 0; sh < shards; sh++ {
		var part []string
		for i, c := range cases {
			if i%shards == sh {
				part = append(part, c)
			}
		}
		var sb bytes.Buffer
		sb.WriteString("From GS Require Import Base.Str Base.Json Sem.Schema Sem.SchemaRun.\nDefinition cases : list rtcase := [\n")
		sb.WriteString(strings.Join(part, ";\n"))
		sb.WriteString("\n].\nDefinition M := Eval vm_compute in run_rt cases.\nPrint M.\n")
		_ = os.WriteFile(filepath.Join(d, fmt.Sprintf("cases_%02d.v", sh)), sb.Bytes(), 0o644)
	}
}

package main

import (
	"encoding/json"
	"flag"
	"fmt"
	"os"
	"path/filepath"
	"strings"

	"github.com/go-swagger/go-swagger/generator"

	"verif/harness/internal/coqpp"
	"verif/harness/internal/rng"
)

var fragments = []string{"*/", "/*", "*", "/", "\n", "\r\n", "\r", "`", "\"", "\\", "//", " ", "a", "func F() {}", "é", "\t", "{{", "}}", "+", "[*]/", "**/", "*//", "\n\n", "`+\"`\"+`"}

func randText(r *rng.R) string {
	n := r.Intn(7)
	var b strings.Builder
	for i := 0; i < n; i++ {
		b.WriteString(fragments[r.Intn(len(fragments))])
	}
	return b.String()
}

// cmdFuncs: the implementation's template helpers (taken from the generator's own FuncMap) on random and
// adversarial strings; the outputs are written to cases_*.v for comparison with the Coq model.
func cmdFuncs(args []string) {
	fs := flag.NewFlagSet("funcs", flag.ExitOnError)
	seed := fs.Uint64("seed", 1, "")
	n := fs.Int("n", 3000, "")
	out := fs.String("out", "", "")
	shards := fs.Int("shards", 4, "")
	_ = fs.Parse(args)
	if *out == "" {
		die("funcs: -out required")
	}
	_ = os.MkdirAll(*out, 0o755)
	fm := generator.FuncMapFunc(generator.DefaultLanguageFunc())
	comment, ok1 := fm["comment"].(func(string, ...string) string)
	block, ok2 := fm["blockcomment"].(func(string) string)
	esc, ok3 := fm["escapeBackticks"].(func(string) string)
	if !ok1 || !ok2 || !ok3 {
		die("funcs: the template FuncMap no longer provides comment/blockcomment/escapeBackticks with the expected signatures")
	}
	r := rng.New(*seed)
	bufs := make([][]string, *shards)
	seen := map[string]bool{}
	distinct := 0
	cov := map[string]int{}
	var samples []interface{}
	for i := 0; i < *n; i++ {
		in := randText(r)
		fn := i % 3
		pad := ""
		var o string
		switch fn {
		case 0:
			if r.Chance(1, 2) {
				pad = r.Pick([]string{" ", "  ", "\t", ""})
				o = comment(in, pad)
			} else {
				pad = " " // default padding
				o = comment(in)
			}
		case 1:
			o = block(in)
		default:
			o = esc(in)
		}
		key := fmt.Sprint(fn, "|", in, "|", pad)
		if !seen[key] && in != "" {
			seen[key] = true
			distinct++
		}
		cov[[]string{"comment", "blockcomment", "escapeBackticks"}[fn]]++
		bufs[i%*shards] = append(bufs[i%*shards], fmt.Sprintf("{| t_fn := %d; t_in := %s; t_pad := %s; t_out := %s |}", fn, coqpp.Str(in), coqpp.Str(pad), coqpp.Str(o)))
		if len(samples) < 3 && len(in) > 3 {
			samples = append(samples, map[string]interface{}{"fn": fn, "in": in, "out": o})
		}
	}
	for sh := 0; sh < *shards; sh++ {
		var sb strings.Builder
		sb.WriteString("From GS Require Import Base.Str Tools.Escape Tools.EscapeRun.\nDefinition cases : list tcase := [\n")
		sb.WriteString(strings.Join(bufs[sh], ";\n"))
		sb.WriteString("\n].\nDefinition M := Eval vm_compute in run_t cases.\nPrint M.\n")
		_ = os.WriteFile(filepath.Join(*out, fmt.Sprintf("cases_%02d.v", sh)), []byte(sb.String()), 0o644)
	}
	rep := map[string]interface{}{"evaluations": *n, "distinct_nontrivial": distinct, "coverage": cov, "samples": samples}
	b, _ := json.Marshal(rep)
	_ = os.WriteFile(filepath.Join(*out, "funcs.json"), b, 0o644)
	fmt.Printf("funcs: %d cases, %d distinct\n", *n, distinct)
}

// textcheck: harness for C09 (free text never becomes code) and the text helpers shared with C10.
package main

import (
	"encoding/json"
	"flag"
	"fmt"
	"os"
	"path/filepath"
	"sort"
	"strconv"
	"strings"
	"sync"
	"time"

	"verif/harness/internal/gorun"
)

func die(format string, a ...interface{}) {
	fmt.Fprintf(os.Stderr, "textcheck: "+format+"\n", a...)
	os.Exit(2)
}

// base document: every free-text position of the catalogue is present, with neutral content
const baseSpec = `{
 "swagger":"2.0",
 "info":{"title":"Neutral title","description":"neutral info description","termsOfService":"neutral terms","version":"1.0.0",
         "contact":{"name":"Neutral Contact","url":"http://example.com/contact","email":"me@example.com"},
         "license":{"name":"Neutral License","url":"http://example.com/license"}},
 "host":"api.example.com","basePath":"/v1","schemes":["http"],
 "consumes":["application/json"],"produces":["application/json"],
 "externalDocs":{"description":"neutral external docs","url":"http://example.com/docs"},
 "tags":[{"name":"pets","description":"neutral tag description","externalDocs":{"description":"neutral tag docs","url":"http://example.com/tagdocs"}}],
 "securityDefinitions":{
   "key":{"type":"apiKey","in":"header","name":"X-Key","description":"neutral key description"},
   "oauth":{"type":"oauth2","flow":"accessCode","authorizationUrl":"http://example.com/auth","tokenUrl":"http://example.com/token","description":"neutral oauth description","scopes":{"read":"neutral scope description"}}},
 "security":[{"key":[]}],
 "paths":{
  "/pets/{id}":{
   "parameters":[{"name":"id","in":"path","required":true,"type":"string","description":"neutral path param"}],
   "get":{"tags":["pets"],"operationId":"getPet","summary":"neutral summary","description":"neutral operation description",
          "externalDocs":{"description":"neutral op docs","url":"http://example.com/opdocs"},
          "security":[{"oauth":["read"]}],
          "parameters":[
            {"name":"q","in":"query","type":"string","description":"neutral query param","pattern":"^[a-z]+$"},
            {"name":"qd","in":"query","type":"string","description":"neutral defaulted param","default":"neutraldefault"},
            {"name":"kind","in":"query","type":"string","description":"neutral enum param","enum":["neutralone","neutraltwo"]},
            {"name":"X-Trace","in":"header","type":"string","description":"neutral header param"},
            {"name":"tags","in":"query","type":"array","items":{"type":"string","default":"neutralitem"},"description":"neutral array param"}],
          "responses":{
            "200":{"description":"neutral response description","schema":{"$ref":"#/definitions/Pet"},
                   "headers":{"X-Rate":{"type":"integer","description":"neutral header description"}}},
            "default":{"description":"neutral default response","schema":{"$ref":"#/definitions/Error"}}}},
   "post":{"tags":["pets"],"operationId":"updatePet","summary":"neutral post summary","consumes":["application/json"],
          "parameters":[{"name":"body","in":"body","required":true,"description":"neutral body param","schema":{"$ref":"#/definitions/Pet"}}],
          "responses":{"201":{"description":"neutral created"}}}},
  "/upload":{
   "post":{"operationId":"upload","consumes":["multipart/form-data"],
          "parameters":[{"name":"note","in":"formData","type":"string","description":"neutral form param","default":"neutralform"}],
          "responses":{"204":{"description":"neutral no content"}}}}},
 "definitions":{
  "Pet":{"type":"object","title":"neutral pet title","description":"neutral pet description","required":["name"],
         "example":{"name":"neutral example name"},
         "properties":{
           "name":{"type":"string","title":"neutral prop title","description":"neutral prop description","pattern":"^[a-z]+$","minLength":1},
           "nick":{"type":"string","description":"neutral defaulted prop","default":"neutralname","example":"neutralexample"},
           "status":{"type":"string","description":"neutral enum prop","enum":["neutralavailable","neutralsold"]},
           "tags":{"type":"array","description":"neutral array prop","items":{"type":"string","description":"neutral items description"}},
           "extra":{"type":"object","description":"neutral map prop","additionalProperties":{"type":"string","description":"neutral addl description"}}}},
  "Error":{"type":"object","description":"neutral error description","properties":{"message":{"type":"string","description":"neutral message"}}},
  "Alias":{"type":"string","description":"neutral alias description","pattern":"^[a-z]+$"},
  "Alias2":{"type":"string","description":"neutral alias2 description","default":"neutralalias"}}
}`

type position struct {
	name string
	path []string // map keys / decimal array indices
}

func P(name string, path ...string) position { return position{name, path} }

var positions = []position{
	P("info.title", "info", "title"), P("info.description", "info", "description"), P("info.termsOfService", "info", "termsOfService"),
	P("info.version", "info", "version"), P("info.contact.name", "info", "contact", "name"), P("info.contact.url", "info", "contact", "url"),
	P("info.contact.email", "info", "contact", "email"), P("info.license.name", "info", "license", "name"), P("info.license.url", "info", "license", "url"),
	P("host", "host"), P("basePath", "basePath"),
	P("externalDocs.description", "externalDocs", "description"), P("externalDocs.url", "externalDocs", "url"),
	P("tag.description", "tags", "0", "description"), P("tag.externalDocs.description", "tags", "0", "externalDocs", "description"),
	P("security.apikey.description", "securityDefinitions", "key", "description"), P("security.oauth.description", "securityDefinitions", "oauth", "description"),
	P("security.scope.description", "securityDefinitions", "oauth", "scopes", "read"),
	P("pathparam.description", "paths", "/pets/{id}", "parameters", "0", "description"),
	P("operation.summary", "paths", "/pets/{id}", "get", "summary"), P("operation.description", "paths", "/pets/{id}", "get", "description"),
	P("operation.externalDocs.description", "paths", "/pets/{id}", "get", "externalDocs", "description"),
	P("queryparam.description", "paths", "/pets/{id}", "get", "parameters", "0", "description"),
	P("queryparam.default", "paths", "/pets/{id}", "get", "parameters", "1", "default"),
	P("queryparam.pattern", "paths", "/pets/{id}", "get", "parameters", "0", "pattern"),
	P("enumparam.description", "paths", "/pets/{id}", "get", "parameters", "2", "description"),
	P("headerparam.description", "paths", "/pets/{id}", "get", "parameters", "3", "description"),
	P("arrayparam.description", "paths", "/pets/{id}", "get", "parameters", "4", "description"),
	P("arrayparam.items.default", "paths", "/pets/{id}", "get", "parameters", "4", "items", "default"),
	P("response.description", "paths", "/pets/{id}", "get", "responses", "200", "description"),
	P("response.header.description", "paths", "/pets/{id}", "get", "responses", "200", "headers", "X-Rate", "description"),
	P("defaultresponse.description", "paths", "/pets/{id}", "get", "responses", "default", "description"),
	P("post.summary", "paths", "/pets/{id}", "post", "summary"),
	P("bodyparam.description", "paths", "/pets/{id}", "post", "parameters", "0", "description"),
	P("formparam.description", "paths", "/upload", "post", "parameters", "0", "description"),
	P("formparam.default", "paths", "/upload", "post", "parameters", "0", "default"),
	P("schema.title", "definitions", "Pet", "title"), P("schema.description", "definitions", "Pet", "description"),
	P("schema.example", "definitions", "Pet", "example", "name"),
	P("property.title", "definitions", "Pet", "properties", "name", "title"), P("property.description", "definitions", "Pet", "properties", "name", "description"),
	P("property.default", "definitions", "Pet", "properties", "nick", "default"), P("property.example", "definitions", "Pet", "properties", "nick", "example"),
	P("property.pattern", "definitions", "Pet", "properties", "name", "pattern"),
	P("enumprop.description", "definitions", "Pet", "properties", "status", "description"),
	P("arrayprop.description", "definitions", "Pet", "properties", "tags", "description"), P("items.description", "definitions", "Pet", "properties", "tags", "items", "description"),
	P("mapprop.description", "definitions", "Pet", "properties", "extra", "description"), P("addlprops.description", "definitions", "Pet", "properties", "extra", "additionalProperties", "description"),
	P("alias.description", "definitions", "Alias", "description"), P("alias.pattern", "definitions", "Alias", "pattern"), P("alias.default", "definitions", "Alias2", "default"),
}

type hostile struct {
	class, text string
	onlyTarget  string // non-empty: the payload is meant for the code of that target alone
}

var hostilesQuick = []hostile{
	{class: "block-close", text: "x */ func InjectedA() {} /* y"},
	// the same inside a struct body (comments on fields), where a declaration would be a syntax error (= an accepted generation failure)
	{class: "block-close-field", text: "x */ InjectedF int /* y"},
	{class: "backtick-stmt", text: "first part`; _ = `second part", onlyTarget: ""},
	// the same inside a struct tag (a raw string in a struct body): what follows the closing backtick are field declarations
	{class: "backtick-field", text: "x`; InjectedT int64; Other string `y", onlyTarget: "model-tags"},
	{class: "mixed-crlf", text: "first line\r\nsecond line\nInjected string"},
}
var hostilesMore = []hostile{
	{class: "raw-close-call", text: "x`); _ = len(`y"},
	{class: "newline-code", text: "x\nfunc InjectedB() {}\n// y"},
	{class: "quote", text: "x\" + InjectedC + \"y"},
	{class: "block-close-regex", text: "x*/ func InjectedP() {} /*"},
	{class: "backslash", text: "x\\"},
	{class: "template", text: "{{ .Injected }}"},
	{class: "backtick-plain", text: "a`b"},
	{class: "cr-only", text: "x\rfunc InjectedD() {}"},
	{class: "block-open", text: "/* x"},
	{class: "line-sep-2028", text: "x func InjectedE() {}"},
	{class: "percent", text: "100%s %d %!"},
	{class: "dollar-brace", text: "${x} $(y)"},
}

func setPath(doc interface{}, path []string, v interface{}) bool {
	cur := doc
	for i, k := range path {
		last := i == len(path)-1
		switch c := cur.(type) {
		case map[string]interface{}:
			if last {
				if _, ok := c[k]; !ok {
					return false
				}
				c[k] = v
				return true
			}
			cur = c[k]
		case []interface{}:
			idx, err := strconv.Atoi(k)
			if err != nil || idx >= len(c) {
				return false
			}
			if last {
				c[idx] = v
				return true
			}
			cur = c[idx]
		default:
			return false
		}
	}
	return false
}

type target struct {
	name string
	args []string
}

// `generate cli` also writes the client and the models; the application name is fixed so that info.title stays text
var targets = []target{
	{"server", []string{"generate", "server", "-q", "-A", "verifapi"}},
	{"cli", []string{"generate", "cli", "-q", "-A", "verifapi"}},
	// descriptions and examples copied into struct tags (a raw string literal unless a value forbids it), followed by another tag
	{"model-tags", []string{"generate", "model", "-q", "--struct-tags", "description", "--struct-tags", "example", "--struct-tags", "yaml"}},
}

type rendering struct {
	exit   map[string]int
	out    map[string]string
	shapes map[string]string // file -> shape (or "PARSE-ERROR: ...")
}

func render(bin, dir string, spec []byte, only map[string]bool, raw map[string]string) rendering {
	r := rendering{exit: map[string]int{}, out: map[string]string{}, shapes: map[string]string{}}
	for _, t := range targets {
		if only != nil && !only[t.name] {
			continue
		}
		sub := filepath.Join(dir, t.name)
		_ = os.RemoveAll(sub)
		if err := gorun.NewModule(sub); err != nil {
			die("%v", err)
		}
		sp := filepath.Join(sub, "spec.json")
		_ = os.WriteFile(sp, spec, 0o644)
		args := append(append([]string{}, t.args...), "-f", sp, "-t", sub)
		res := gorun.Swagger(bin, sub, 120*time.Second, args...)
		r.exit[t.name] = res.Exit
		r.out[t.name] = res.Output
		if res.Exit != 0 {
			continue
		}
		for _, f := range gorun.GoFiles(sub) {
			if raw != nil {
				b, _ := os.ReadFile(filepath.Join(sub, f))
				raw[t.name] += string(b)
			}
			sh, err := gorun.Shape(filepath.Join(sub, f))
			if err != nil {
				sh = "PARSE-ERROR: " + err.Error()
			}
			r.shapes[t.name+"/"+f] = sh
		}
	}
	_ = os.RemoveAll(dir)
	return r
}

type violation struct {
	Key    string      `json:"key"`
	What   string      `json:"what"`
	Input  interface{} `json:"input"`
	Detail interface{} `json:"detail"`
}

func firstDiffLine(a, b string) string {
	la, lb := strings.Split(a, "\n"), strings.Split(b, "\n")
	for i := 0; i < len(la) && i < len(lb); i++ {
		if la[i] != lb[i] {
			return fmt.Sprintf("line %d: neutral %q vs hostile %q", i, strings.TrimSpace(la[i]), strings.TrimSpace(lb[i]))
		}
	}
	return fmt.Sprintf("length %d vs %d", len(la), len(lb))
}

// c09Base: baseSpec with the places the fixed catalogue does not reach: external docs on schemas and properties, anonymous
// (inline) schemas in responses and bodies with documented properties, a documented items schema of a parameter
func c09Base() []byte {
	var doc map[string]interface{}
	_ = json.Unmarshal([]byte(baseSpec), &doc)
	ed := func(tag string) map[string]interface{} {
		return map[string]interface{}{"description": "neutral " + tag + " docs", "url": "http://example.com/" + tag}
	}
	defs := doc["definitions"].(map[string]interface{})
	pet := defs["Pet"].(map[string]interface{})
	pet["externalDocs"] = ed("pet")
	pet["properties"].(map[string]interface{})["name"].(map[string]interface{})["externalDocs"] = ed("petname")
	defs["Alias"].(map[string]interface{})["externalDocs"] = ed("alias")
	defs["Error"].(map[string]interface{})["title"] = "neutral error title"
	inline := func(tag string) map[string]interface{} {
		return map[string]interface{}{"type": "object", "title": "neutral " + tag + " title", "description": "neutral " + tag + " description", "externalDocs": ed(tag),
			"example": map[string]interface{}{"a": "neutral " + tag + " example"},
			"properties": map[string]interface{}{
				"a": map[string]interface{}{"type": "string", "title": "neutral " + tag + " a title", "description": "neutral " + tag + " a description", "externalDocs": ed(tag + "a"), "default": "neutral" + tag + "default"},
				"deep": map[string]interface{}{"type": "object", "description": "neutral " + tag + " deep description", "properties": map[string]interface{}{
					"b": map[string]interface{}{"type": "array", "description": "neutral " + tag + " b description", "items": map[string]interface{}{"type": "string", "description": "neutral " + tag + " b items", "enum": []interface{}{"neutralx", "neutraly"}}}}}}}
	}
	doc["paths"].(map[string]interface{})["/inline"] = map[string]interface{}{
		"get": map[string]interface{}{"operationId": "getInline", "summary": "neutral inline summary",
			"responses": map[string]interface{}{
				"200":     map[string]interface{}{"description": "neutral inline ok", "schema": inline("okbody")},
				"default": map[string]interface{}{"description": "neutral inline default", "schema": inline("defaultbody")}}},
		"put": map[string]interface{}{"operationId": "putInline", "summary": "neutral inline put",
			"parameters": []interface{}{map[string]interface{}{"name": "body", "in": "body", "description": "neutral inline body param", "schema": inline("reqbody")}},
			"responses":  map[string]interface{}{"204": map[string]interface{}{"description": "neutral inline done"}}}}
	b, _ := json.Marshal(doc)
	return b
}

var freeTextKeys = map[string]bool{"title": true, "description": true, "summary": true, "termsOfService": true, "default": true, "example": true, "pattern": true}

// allPositions: the catalogue, then every string leaf under a free-text key (and the members of externalDocs / example objects)
func allPositions(spec []byte, catalogue []position) []position {
	var doc interface{}
	_ = json.Unmarshal(spec, &doc)
	out := append([]position{}, catalogue...)
	seen := map[string]bool{}
	for _, p := range catalogue {
		seen[strings.Join(p.path, "\x00")] = true
	}
	var walk func(v interface{}, path []string, free bool)
	walk = func(v interface{}, path []string, free bool) {
		switch x := v.(type) {
		case map[string]interface{}:
			keys := make([]string, 0, len(x))
			for k := range x {
				keys = append(keys, k)
			}
			sort.Strings(keys)
			for _, k := range keys {
				walk(x[k], append(append([]string{}, path...), k), free && false || freeTextKeys[k] || k == "externalDocs" || (free && (len(path) > 0 && (path[len(path)-1] == "example" || path[len(path)-1] == "externalDocs"))))
			}
		case []interface{}:
			for i, e := range x {
				walk(e, append(append([]string{}, path...), strconv.Itoa(i)), false)
			}
		case string:
			if free && !seen[strings.Join(path, "\x00")] {
				seen[strings.Join(path, "\x00")] = true
				name := strings.Join(path, ".")
				if strings.Contains(name, "url") || strings.Contains(name, "email") {
					// URL-typed members are validated by the loader: only external docs URLs of schemas are of interest, and they are free text for it
					if !strings.HasSuffix(name, "externalDocs.url") {
						return
					}
				}
				out = append(out, position{name: "auto:" + name, path: append([]string{}, path...)})
			}
		}
	}
	walk(doc, nil, false)
	return out
}

// sparseOf: the document without optional descriptive text
func sparseOf(spec []byte) []byte {
	var doc interface{}
	_ = json.Unmarshal(spec, &doc)
	var walk func(v interface{}, path []string)
	walk = func(v interface{}, path []string) {
		switch x := v.(type) {
		case map[string]interface{}:
			inResponses := len(path) >= 2 && path[len(path)-2] == "responses"
			inInfo := len(path) == 1 && path[0] == "info"
			inExtDocs := len(path) > 0 && path[len(path)-1] == "externalDocs"
			inProps := len(path) > 0 && (path[len(path)-1] == "properties" || path[len(path)-1] == "definitions" || path[len(path)-1] == "example")
			if !inProps && !inExtDocs {
				if !inResponses {
					delete(x, "description")
				}
				if !inInfo {
					delete(x, "title")
				}
				delete(x, "summary")
			}
			for k, e := range x {
				walk(e, append(append([]string{}, path...), k))
			}
		case []interface{}:
			for i, e := range x {
				walk(e, append(append([]string{}, path...), strconv.Itoa(i)))
			}
		}
	}
	walk(doc, nil)
	b, _ := json.Marshal(doc)
	return b
}

func pathExists(spec []byte, path []string) bool {
	var cur interface{}
	_ = json.Unmarshal(spec, &cur)
	for _, k := range path {
		switch c := cur.(type) {
		case map[string]interface{}:
			n, ok := c[k]
			if !ok {
				return false
			}
			cur = n
		case []interface{}:
			idx, err := strconv.Atoi(k)
			if err != nil || idx >= len(c) {
				return false
			}
			cur = c[idx]
		default:
			return false
		}
	}
	_, isStr := cur.(string)
	return isStr
}

func cmdInject(args []string) {
	fs := flag.NewFlagSet("inject", flag.ExitOnError)
	bin := fs.String("bin", "", "swagger binary built from /repo")
	work := fs.String("work", "", "scratch directory")
	out := fs.String("out", "", "result json")
	tier := fs.String("tier", "quick", "")
	workers := fs.Int("workers", 14, "")
	only := fs.String("only", "", "position name: restrict to one position (replay)")
	onlyClass := fs.String("class", "", "hostile class: restrict (replay)")
	_ = fs.Parse(args)
	if *bin == "" || *work == "" || *out == "" {
		die("inject: -bin, -work, -out required")
	}
	hs := append([]hostile{}, hostilesQuick...)
	if *tier == "thorough" {
		hs = append(hs, hostilesMore...)
	}
	// the catalogue positions, plus every free-text leaf of the document extended with inline schemas and external docs
	baseSpec := string(c09Base())
	positions := allPositions([]byte(baseSpec), positions)
	neutral := render(*bin, filepath.Join(*work, "neutral"), []byte(baseSpec), nil, nil)
	// marker probe: which targets render which position at all
	var mdoc interface{}
	_ = json.Unmarshal([]byte(baseSpec), &mdoc)
	for i, p := range positions {
		var cur interface{} = mdoc
		for _, k := range p.path {
			switch c := cur.(type) {
			case map[string]interface{}:
				cur = c[k]
			case []interface{}:
				idx, _ := strconv.Atoi(k)
				cur = c[idx]
			}
		}
		s, _ := cur.(string)
		setPath(mdoc, p.path, fmt.Sprintf("%smk%dzz", s, i))
	}
	mspec, _ := json.Marshal(mdoc)
	raw := map[string]string{}
	probe := render(*bin, filepath.Join(*work, "probe"), mspec, nil, raw)
	rendersIn := map[string]map[string]bool{}
	for i, p := range positions {
		rendersIn[p.name] = map[string]bool{}
		for _, t := range targets {
			if probe.exit[t.name] != 0 || strings.Contains(raw[t.name], fmt.Sprintf("mk%dzz", i)) {
				rendersIn[p.name][t.name] = true
			}
		}
	}
	for _, t := range targets {
		if neutral.exit[t.name] != 0 {
			die("neutral spec does not generate (%s): %s", t.name, neutral.out[t.name])
		}
	}
	type job struct {
		p       position
		h       hostile
		variant int
	}
	// variant 1: the same document without its optional descriptive text (descriptions, summaries, titles of everything but the
	// info object and the responses, where they are mandatory): templates that lay out a comment differently when there is no
	// description are reached only then. The remaining free-text positions are visited by the comment-closing classes.
	sparseSpec := string(sparseOf([]byte(baseSpec)))
	var catalogueLeft []position
	for _, p := range positions {
		if !strings.HasPrefix(p.name, "auto:") && pathExists([]byte(sparseSpec), p.path) {
			catalogueLeft = append(catalogueLeft, p)
		}
	}
	sparsePositions := allPositions([]byte(sparseSpec), catalogueLeft)
	for i := range sparsePositions {
		sparsePositions[i].name = "sparse:" + sparsePositions[i].name
	}
	neutralSparse := render(*bin, filepath.Join(*work, "neutral-sparse"), []byte(sparseSpec), nil, nil)
	for _, t := range targets {
		if neutralSparse.exit[t.name] != 0 {
			die("sparse neutral spec does not generate (%s): %s", t.name, neutralSparse.out[t.name])
		}
	}
	allTargets := map[string]bool{}
	for _, t := range targets {
		allTargets[t.name] = true
	}
	for _, p := range sparsePositions {
		rendersIn[p.name] = allTargets
	}
	specOf := []string{baseSpec, sparseSpec}
	neutralOf := []rendering{neutral, neutralSparse}
	var jobs []job
	for _, p := range positions {
		if *only != "" && p.name != *only {
			continue
		}
		for _, h := range hs {
			if *onlyClass != "" && h.class != *onlyClass {
				continue
			}
			jobs = append(jobs, job{p, h, 0})
		}
	}
	for _, p := range sparsePositions {
		if *only != "" && p.name != *only {
			continue
		}
		for _, h := range hs {
			if !strings.HasPrefix(h.class, "block-close") && (*tier != "thorough" || (h.class != "mixed-crlf" && h.class != "newline-code")) {
				continue
			}
			if *onlyClass != "" && h.class != *onlyClass {
				continue
			}
			jobs = append(jobs, job{p, h, 1})
		}
	}
	var mu sync.Mutex
	var viols []violation
	cov := map[string]int{}
	evals, genErrors := 0, 0
	var samples []interface{}
	ch := make(chan job)
	var wg sync.WaitGroup
	for w := 0; w < *workers; w++ {
		wg.Add(1)
		go func(w int) {
			defer wg.Done()
			for j := range ch {
				var doc interface{}
				_ = json.Unmarshal([]byte(specOf[j.variant]), &doc)
				neutral := neutralOf[j.variant]
				if !setPath(doc, j.p.path, j.h.text) {
					die("position %s does not exist in the base document", j.p.name)
				}
				spec, _ := json.Marshal(doc)
				if len(rendersIn[j.p.name]) == 0 {
					mu.Lock()
					cov["position-not-rendered:"+j.p.name]++
					mu.Unlock()
					continue
				}
				where := rendersIn[j.p.name]
				if j.h.onlyTarget != "" {
					if !where[j.h.onlyTarget] {
						mu.Lock()
						cov["class-not-applicable:"+j.h.class]++
						mu.Unlock()
						continue
					}
					where = map[string]bool{j.h.onlyTarget: true}
				}
				r := render(*bin, filepath.Join(*work, fmt.Sprintf("w%d", w)), spec, where, nil)
				mu.Lock()
				evals++
				cov["class:"+j.h.class]++
				for _, t := range targets {
					if !where[t.name] {
						continue
					}
					if r.exit[t.name] != 0 {
						genErrors++
						cov["generation-error:"+t.name]++
						continue
					}
					var files []string
					for f := range neutral.shapes {
						if strings.HasPrefix(f, t.name+"/") {
							files = append(files, f)
						}
					}
					for f := range r.shapes {
						if strings.HasPrefix(f, t.name+"/") {
							if _, ok := neutral.shapes[f]; !ok {
								files = append(files, f)
							}
						}
					}
					sort.Strings(files)
					for _, f := range files {
						ns, nok := neutral.shapes[f]
						hsh, hok := r.shapes[f]
						if nok && hok && ns == hsh {
							continue
						}
						what := "declares different code"
						detail := ""
						switch {
						case !nok:
							what, detail = "is an extra file", f
						case !hok:
							what, detail = "is missing", f
						case strings.HasPrefix(hsh, "PARSE-ERROR"):
							what, detail = "does not parse although generation exited 0", hsh
						default:
							detail = firstDiffLine(ns, hsh)
						}
						viols = append(viols, violation{
							Key:    fmt.Sprintf("c09/injection[%s|%s|%s]", j.p.name, j.h.class, f),
							What:   fmt.Sprintf("hostile text (%s) at %s: generated file %s %s", j.h.class, j.p.name, f, what),
							Input:  map[string]interface{}{"position": j.p.name, "path": j.p.path, "class": j.h.class, "text": j.h.text, "target": t.name},
							Detail: detail,
						})
					}
				}
				if len(samples) < 3 {
					samples = append(samples, map[string]interface{}{"position": j.p.name, "class": j.h.class, "text": j.h.text, "exits": r.exit})
				}
				mu.Unlock()
			}
		}(w)
	}
	for _, j := range jobs {
		ch <- j
	}
	close(ch)
	wg.Wait()
	sort.Slice(viols, func(i, k int) bool { return viols[i].Key < viols[k].Key })
	if viols == nil {
		viols = []violation{}
	}
	rep := map[string]interface{}{
		"evaluations": evals, "distinct_nontrivial": evals,
		"rule":    "every free-text position of the catalogue (" + fmt.Sprint(len(positions)) + " positions) x every hostile string class; each case renders server, client and cli with the swagger binary built from /repo and compares the go/parser AST of every generated file (comments and literal values erased, constant string concatenations folded) with the neutral rendering; plus the same document stripped of its optional descriptions, summaries and titles (" + fmt.Sprint(len(sparsePositions)) + " remaining positions x the comment-closing classes). A generation error is accepted. Every case is distinct (position, class) and non-trivial (the hostile text is designed to leave its lexical context).",
		"samples": samples, "coverage": cov, "violations": viols, "generation_errors": genErrors,
		"positions": len(positions), "classes": len(hs), "sparse_positions": len(sparsePositions),
	}
	b, _ := json.MarshalIndent(rep, "", " ")
	if err := os.WriteFile(*out, b, 0o644); err != nil {
		die("%v", err)
	}
	fmt.Printf("inject: %d renderings, %d generation errors, %d differing files\n", evals, genErrors, len(viols))
}

func main() {
	if len(os.Args) < 2 {
		die("usage: textcheck <inject|funcs> ...")
	}
	switch os.Args[1] {
	case "inject":
		cmdInject(os.Args[2:])
	case "funcs":
		cmdFuncs(os.Args[2:])
	case "embed":
		cmdEmbed(os.Args[2:])
	default:
		die("unknown subcommand %s", os.Args[1])
	}
}

package main

// C10 oracle: the spec embedded in a generated server is the input spec.

import (
	"encoding/json"
	"flag"
	"fmt"
	"go/ast"
	"go/parser"
	"go/token"
	"io"
	"net"
	"net/http"
	"os"
	"os/exec"
	"path/filepath"
	"reflect"
	"sort"
	"strconv"
	"strings"
	"sync"
	"time"

	"github.com/go-openapi/spec"
	"github.com/go-swagger/go-swagger/generator"
	"gopkg.in/yaml.v3"

	"verif/harness/internal/coqpp"
	"verif/harness/internal/gorun"
	"verif/harness/internal/rng"
)

// evalStringExpr constant-folds a Go expression made of string literals and + exactly as the compiler does.
func evalStringExpr(e ast.Expr) (string, bool) {
	switch x := e.(type) {
	case *ast.BasicLit:
		if x.Kind != token.STRING {
			return "", false
		}
		s, err := strconv.Unquote(x.Value)
		return s, err == nil
	case *ast.BinaryExpr:
		if x.Op != token.ADD {
			return "", false
		}
		a, ok1 := evalStringExpr(x.X)
		b, ok2 := evalStringExpr(x.Y)
		return a + b, ok1 && ok2
	case *ast.ParenExpr:
		return evalStringExpr(x.X)
	}
	return "", false
}

// embeddedDocs extracts SwaggerJSON / FlatSwaggerJSON (value and raw literal source) from restapi/embedded_spec.go.
func embeddedDocs(path string) (vals map[string]string, srcs map[string]string, err error) {
	fset := token.NewFileSet()
	src, err := os.ReadFile(path)
	if err != nil {
		return nil, nil, err
	}
	f, err := parser.ParseFile(fset, path, src, 0)
	if err != nil {
		return nil, nil, err
	}
	vals, srcs = map[string]string{}, map[string]string{}
	ast.Inspect(f, func(n ast.Node) bool {
		as, ok := n.(*ast.AssignStmt)
		if !ok || len(as.Lhs) != 1 || len(as.Rhs) != 1 {
			return true
		}
		id, ok := as.Lhs[0].(*ast.Ident)
		if !ok || (id.Name != "SwaggerJSON" && id.Name != "FlatSwaggerJSON") {
			return true
		}
		// json.RawMessage([]byte(<expr>))
		call, ok := as.Rhs[0].(*ast.CallExpr)
		if !ok || len(call.Args) != 1 {
			return true
		}
		inner, ok := call.Args[0].(*ast.CallExpr)
		if !ok || len(inner.Args) != 1 {
			return true
		}
		if v, ok := evalStringExpr(inner.Args[0]); ok {
			vals[id.Name] = v
			srcs[id.Name] = string(src[fset.Position(inner.Args[0].Pos()).Offset:fset.Position(inner.Args[0].End()).Offset])
		}
		return true
	})
	if len(vals) != 2 {
		return nil, nil, fmt.Errorf("embedded_spec.go: expected SwaggerJSON and FlatSwaggerJSON assignments, found %d", len(vals))
	}
	return vals, srcs, nil
}

func jsonEqual(a, b []byte) bool {
	var x, y interface{}
	if json.Unmarshal(a, &x) != nil || json.Unmarshal(b, &y) != nil {
		return false
	}
	return reflect.DeepEqual(x, y)
}

// stripGenExt removes generator-added x-go-* extensions and normalises for comparison after expansion.
func stripGenExt(v interface{}) interface{} {
	switch x := v.(type) {
	case map[string]interface{}:
		out := map[string]interface{}{}
		for k, e := range x {
			if strings.HasPrefix(k, "x-go-") {
				continue
			}
			out[k] = stripGenExt(e)
		}
		return out
	case []interface{}:
		out := make([]interface{}, len(x))
		for i, e := range x {
			out[i] = stripGenExt(e)
		}
		return out
	}
	return v
}

// expanded returns the fully $ref-expanded document (paths, parameters, responses) as a JSON value, definitions dropped.
func expanded(doc []byte, base string) (interface{}, error) {
	var sw spec.Swagger
	if err := json.Unmarshal(doc, &sw); err != nil {
		return nil, err
	}
	if err := spec.ExpandSpec(&sw, &spec.ExpandOptions{RelativeBase: base, SkipSchemas: false}); err != nil {
		return nil, err
	}
	b, err := json.Marshal(sw)
	if err != nil {
		return nil, err
	}
	var v map[string]interface{}
	if err := json.Unmarshal(b, &v); err != nil {
		return nil, err
	}
	delete(v, "definitions")
	return stripGenExt(v), nil
}

var c10Strings = []struct{ class, text string }{
	{"backtick", "a`b``c"},
	{"quotes", "say \"hi\" and 'bye' \\ back"},
	{"control", "tab\there\u0001bell\u0007 nl\nnext"},
	{"non-ascii", "café 日本語 naïve Ünï"},
	{"emoji-astral", "rocket 🚀 𝔘𝔫𝔦"},
	{"line-sep", "ls ps end"},
	{"html", "<a href=\"x\">&amp;</a>"},
	{"backtick-plus", "`+\"`\"+`"},
	{"crlf", "line1\r\nline2"},
	{"percent-brace", "%s {{ .X }} ${y}"},
}

// structural additions so that flattening has something to do: anonymous inline schemas, nested refs, allOf
const c10Extra = `{
 "Order":{"type":"object","properties":{"lines":{"type":"array","items":{"type":"object","properties":{"sku":{"type":"string"},"qty":{"type":"integer"}}}},
          "buyer":{"$ref":"#/definitions/Pet"},"meta":{"type":"object","additionalProperties":{"type":"object","properties":{"k":{"type":"string"}}}}}},
 "Dog":{"allOf":[{"$ref":"#/definitions/Pet"},{"type":"object","properties":{"bark":{"type":"string","enum":["loud","quiet"]}}}]},
 "Tree":{"type":"object","properties":{"kids":{"type":"array","items":{"$ref":"#/definitions/Tree"}}}}
}`

func c10Base() map[string]interface{} {
	var doc map[string]interface{}
	_ = json.Unmarshal([]byte(baseSpec), &doc)
	var extra map[string]interface{}
	_ = json.Unmarshal([]byte(c10Extra), &extra)
	defs := doc["definitions"].(map[string]interface{})
	for k, v := range extra {
		defs[k] = v
	}
	// an operation returning an anonymous inline schema and one taking a nested body
	paths := doc["paths"].(map[string]interface{})
	var op map[string]interface{}
	_ = json.Unmarshal([]byte(`{"get":{"operationId":"listOrders","responses":{"200":{"description":"ok","schema":{"type":"array","items":{"type":"object","properties":{"order":{"$ref":"#/definitions/Order"},"note":{"type":"string"}}}}}}},
	  "post":{"operationId":"addOrder","parameters":[{"name":"body","in":"body","schema":{"type":"object","properties":{"dog":{"$ref":"#/definitions/Dog"}}}}],"responses":{"204":{"description":"done"}}}}`), &op)
	paths["/orders"] = op
	// operations without an operationId: the generator names them for its own use, the documents must not change
	var anon map[string]interface{}
	_ = json.Unmarshal([]byte(`{"get":{"parameters":[{"name":"id","in":"path","required":true,"type":"string"}],"responses":{"200":{"description":"ok","schema":{"$ref":"#/definitions/Pet"}}}},
	  "delete":{"parameters":[{"name":"id","in":"path","required":true,"type":"string"}],"responses":{"204":{"description":"gone"}}}}`), &anon)
	paths["/anonymous/{id}"] = anon
	return doc
}

type c10mode struct {
	name string
	args []string
}

var c10Modes = []c10mode{
	{"minimal", nil},
	{"full", []string{"--with-flatten=full"}},
	{"expand", []string{"--with-expand"}},
}

func cmdEmbed(args []string) {
	fs := flag.NewFlagSet("embed", flag.ExitOnError)
	bin := fs.String("bin", "", "")
	work := fs.String("work", "", "")
	out := fs.String("out", "", "")
	tier := fs.String("tier", "quick", "")
	seed := fs.Uint64("seed", 1, "")
	workers := fs.Int("workers", 14, "")
	_ = fs.Parse(args)
	if *bin == "" || *work == "" || *out == "" {
		die("embed: -bin, -work, -out required")
	}
	r := rng.New(*seed)
	type job struct {
		id    int
		doc   map[string]interface{}
		mode  c10mode
		yaml  bool
		marks []string
		multi bool // the input is split over several files: a path item and a definition live in sibling documents
	}
	// every case: a few random string positions receive a hostile string each
	ncases := 24
	if *tier == "thorough" {
		ncases = 240
	}
	var jobs []job
	for i := 0; i < ncases; i++ {
		doc := c10Base()
		var marks []string
		k := 1 + r.Intn(4)
		for j := 0; j < k; j++ {
			p := positions[r.Intn(len(positions))]
			// format-constrained positions would only produce validation errors
			if strings.Contains(p.name, "url") || strings.Contains(p.name, "email") || p.name == "host" || p.name == "basePath" || strings.Contains(p.name, "pattern") {
				continue
			}
			h := c10Strings[r.Intn(len(c10Strings))]
			if setPath(doc, p.path, h.text) {
				marks = append(marks, p.name+"="+h.class)
			}
		}
		multi := i%4 == 3
		if multi {
			doc["paths"].(map[string]interface{})["/remote"] = map[string]interface{}{"$ref": "paths.json#/remote"}
			doc["definitions"].(map[string]interface{})["Far"] = map[string]interface{}{"$ref": "defs.json#/definitions/Far"}
		}
		jobs = append(jobs, job{id: i, doc: doc, mode: c10Modes[i%len(c10Modes)], yaml: i%2 == 1, marks: marks, multi: multi})
	}
	var mu sync.Mutex
	var viols []violation
	cov := map[string]int{}
	evals, genErrors := 0, 0
	var samples []interface{}
	var litCases []string
	ch := make(chan job)
	var wg sync.WaitGroup
	for w := 0; w < *workers; w++ {
		wg.Add(1)
		go func(w int) {
			defer wg.Done()
			for j := range ch {
				dir := filepath.Join(*work, fmt.Sprintf("e%d", w))
				_ = os.RemoveAll(dir)
				if err := gorun.NewModule(dir); err != nil {
					die("%v", err)
				}
				input, _ := json.Marshal(j.doc)
				specPath := filepath.Join(dir, "spec.json")
				if j.multi {
					_ = os.WriteFile(filepath.Join(dir, "paths.json"), []byte(`{"remote":{"get":{"operationId":"getRemote","parameters":[{"name":"name","in":"query","type":"string","required":true}],"responses":{"200":{"description":"ok","schema":{"$ref":"defs.json#/definitions/Far"}}}}}}`), 0o644)
					_ = os.WriteFile(filepath.Join(dir, "defs.json"), []byte(`{"definitions":{"Far":{"type":"object","required":["id"],"properties":{"id":{"type":"integer","format":"int64"},"label":{"type":"string","maxLength":9}}}}}`), 0o644)
				}
				if j.yaml {
					var v interface{}
					_ = json.Unmarshal(input, &v)
					yb, _ := yaml.Marshal(v)
					specPath = filepath.Join(dir, "spec.yaml")
					_ = os.WriteFile(specPath, yb, 0o644)
				} else {
					_ = os.WriteFile(specPath, input, 0o644)
				}
				a := append([]string{"generate", "server", "-q", "-A", "verifapi", "-f", specPath, "-t", dir}, j.mode.args...)
				res := gorun.Swagger(*bin, dir, 120*time.Second, a...)
				mu.Lock()
				evals++
				cov["mode:"+j.mode.name]++
				cov[map[bool]string{true: "input:yaml", false: "input:json"}[j.yaml]]++
				cov[map[bool]string{true: "input:several-files", false: "input:one-file"}[j.multi]]++
				for _, m := range j.marks {
					cov["string:"+m[strings.Index(m, "=")+1:]]++
				}
				mu.Unlock()
				if res.Exit != 0 {
					mu.Lock()
					genErrors++
					cov["generation-error"]++
					mu.Unlock()
					_ = os.RemoveAll(dir)
					continue
				}
				vals, srcs, err := embeddedDocs(filepath.Join(dir, "restapi", "embedded_spec.go"))
				in := map[string]interface{}{"spec": json.RawMessage(input), "mode": j.mode.name, "yaml_input": j.yaml, "strings": j.marks, "several_files": j.multi}
				mu.Lock()
				if err != nil {
					viols = append(viols, violation{Key: "c10/embedded-unreadable", What: "the embedded documents cannot be evaluated: " + err.Error(), Input: in})
				} else {
					if !jsonEqual([]byte(vals["SwaggerJSON"]), input) {
						viols = append(viols, violation{Key: "c10/swaggerjson-differs[" + j.mode.name + "]", What: "SwaggerJSON is not JSON-equal to the input spec (" + j.mode.name + " flatten mode)", Input: in,
							Detail: firstJSONDiff([]byte(vals["SwaggerJSON"]), input)})
					}
					// the input resolves its $refs from where it lies; the embedded flat document has only itself at run time
					ea, e1 := expanded(input, specPath)
					eb, e2 := expanded([]byte(vals["FlatSwaggerJSON"]), filepath.Join(os.TempDir(), "nowhere", "embedded.json"))
					if e1 != nil {
						cov["expand-failed"]++
					} else if e2 != nil {
						viols = append(viols, violation{Key: "c10/flat-not-self-contained[" + j.mode.name + "]", What: "the $refs of FlatSwaggerJSON cannot be resolved from the document alone (" + j.mode.name + "): " + e2.Error(), Input: in})
					} else if !reflect.DeepEqual(ea, eb) {
						x, _ := json.Marshal(ea)
						y, _ := json.Marshal(eb)
						viols = append(viols, violation{Key: "c10/flat-differs[" + j.mode.name + "]", What: "FlatSwaggerJSON does not describe the same API as the input once $refs are resolved (" + j.mode.name + ")", Input: in,
							Detail: firstJSONDiff(y, x)})
					}
					// the literal source text must be the model's escaping of the value (correspondence case for Coq)
					for _, name := range []string{"SwaggerJSON", "FlatSwaggerJSON"} {
						// gofmt writes the concatenation with spaces around +; a backtick never occurs inside a raw literal,
						// so this sequence is always syntax and can be normalised back to what the template emitted
						src := strings.ReplaceAll(srcs[name], "` + \"`\" + `", "`+\"`\"+`")
						if len(src) >= 2 && len(litCases) < 60 && len(vals[name]) < 20000 {
							litCases = append(litCases, fmt.Sprintf("{| t_fn := 2; t_in := %s; t_pad := []; t_out := %s |}", coqpp.Str(vals[name]), coqpp.Str(src[1:len(src)-1])))
						}
					}
					// what the generated server itself serves at <basePath>/swagger.json: the generated main is built and started
					// (a few cases per run: the several-files inputs and one of each flatten mode)
					if j.multi || j.id < len(c10Modes) {
						mu.Unlock()
						served, serr := servedSpec(dir, j.doc)
						mu.Lock()
						cov["served-document-fetched"]++
						if serr != nil && strings.Contains(serr.Error(), "does not build") {
							// whether generated code compiles is C01's question (known: enum helpers of inline allOf members under --with-expand)
							cov["served-document-skipped:server-does-not-build"]++
						} else if serr != nil {
							viols = append(viols, violation{Key: "c10/served-unavailable[" + j.mode.name + "]", What: "the generated server does not serve its document: " + serr.Error(), Input: in})
						} else if !jsonEqual(served, input) {
							viols = append(viols, violation{Key: "c10/served-differs[" + j.mode.name + "]", What: "the document the generated server serves at /swagger.json is not JSON-equal to the input spec (" + j.mode.name + ")", Input: in,
								Detail: firstJSONDiff(served, input)})
						}
					}
					if len(samples) < 3 {
						samples = append(samples, map[string]interface{}{"mode": j.mode.name, "yaml_input": j.yaml, "strings": j.marks, "SwaggerJSON_bytes": len(vals["SwaggerJSON"]), "FlatSwaggerJSON_bytes": len(vals["FlatSwaggerJSON"])})
					}
				}
				mu.Unlock()
				_ = os.RemoveAll(dir)
			}
		}(w)
	}
	for _, j := range jobs {
		ch <- j
	}
	close(ch)
	wg.Wait()
	// function-level cases through the verif hook
	nf := 1500
	if *tier == "thorough" {
		nf = 20000
	}
	var fcases []string
	for i := 0; i < nf; i++ {
		in := randText(r)
		if r.Chance(1, 3) {
			in += c10Strings[r.Intn(len(c10Strings))].text
		}
		o := generator.VerifGenerateReadableSpec([]byte(in))
		fcases = append(fcases, fmt.Sprintf("{| t_fn := 2; t_in := %s; t_pad := []; t_out := %s |}", coqpp.Str(in), coqpp.Str(o)))
	}
	cdir := filepath.Join(filepath.Dir(*out), "embedcases")
	_ = os.MkdirAll(cdir, 0o755)
	all := append(litCases, fcases...)
	shards := 4
	for sh := 0; sh < shards; sh++ {
		var part []string
		for i, c := range all {
			if i%shards == sh {
				part = append(part, c)
			}
		}
		var sb strings.Builder
		sb.WriteString("From GS Require Import Base.Str Tools.Escape Tools.EscapeRun.\nDefinition cases : list tcase := [\n")
		sb.WriteString(strings.Join(part, ";\n"))
		sb.WriteString("\n].\nDefinition M := Eval vm_compute in run_t cases.\nPrint M.\n")
		_ = os.WriteFile(filepath.Join(cdir, fmt.Sprintf("cases_%02d.v", sh)), []byte(sb.String()), 0o644)
	}
	sort.Slice(viols, func(i, k int) bool { return viols[i].Key < viols[k].Key })
	if viols == nil {
		viols = []violation{}
	}
	rep := map[string]interface{}{
		"evaluations": evals, "distinct_nontrivial": evals,
		"rule":    "specs = a fixed document with every free-text position, anonymous inline schemas, nested $refs, allOf and a recursive definition; each case puts 1-4 strings of the classes {backtick, quotes, control, non-ascii, astral, U+2028/9, html, escape-lookalike, CRLF, format verbs} at random string positions, alternates JSON / YAML input and cycles minimal / full / expand flattening; `swagger generate server` is run and restapi/embedded_spec.go is evaluated as the compiler would (go/parser + constant folding). Every case is distinct and non-trivial (at least one hostile string, a flatten mode).",
		"samples": samples, "coverage": cov, "violations": viols, "generation_errors": genErrors,
		"literal_cases": len(litCases), "function_cases": len(fcases), "cases_dir": cdir,
	}
	b, _ := json.MarshalIndent(rep, "", " ")
	_ = os.WriteFile(*out, b, 0o644)
	fmt.Printf("embed: %d generations, %d generation errors, %d violations, %d model cases\n", evals, genErrors, len(viols), len(all))
}

func firstJSONDiff(got, want []byte) string {
	var x, y interface{}
	_ = json.Unmarshal(got, &x)
	_ = json.Unmarshal(want, &y)
	return diffAt("", x, y)
}

func diffAt(path string, got, want interface{}) string {
	switch w := want.(type) {
	case map[string]interface{}:
		g, ok := got.(map[string]interface{})
		if !ok {
			return fmt.Sprintf("%s: got %T, want object", path, got)
		}
		var keys []string
		for k := range w {
			keys = append(keys, k)
		}
		for k := range g {
			if _, ok := w[k]; !ok {
				keys = append(keys, k)
			}
		}
		sort.Strings(keys)
		for _, k := range keys {
			gv, gok := g[k]
			wv, wok := w[k]
			if !gok {
				return fmt.Sprintf("%s/%s: missing", path, k)
			}
			if !wok {
				return fmt.Sprintf("%s/%s: unexpected", path, k)
			}
			if d := diffAt(path+"/"+k, gv, wv); d != "" {
				return d
			}
		}
		return ""
	case []interface{}:
		g, ok := got.([]interface{})
		if !ok || len(g) != len(w) {
			return fmt.Sprintf("%s: array mismatch", path)
		}
		for i := range w {
			if d := diffAt(fmt.Sprintf("%s/%d", path, i), g[i], w[i]); d != "" {
				return d
			}
		}
		return ""
	}
	if !reflect.DeepEqual(got, want) {
		return fmt.Sprintf("%s: got %q, want %q", path, fmt.Sprint(got), fmt.Sprint(want))
	}
	return ""
}

// servedSpec builds the generated main, starts it on a free port and fetches <basePath>/swagger.json
func servedSpec(dir string, doc map[string]interface{}) ([]byte, error) {
	mains, _ := filepath.Glob(filepath.Join(dir, "cmd", "*-server"))
	if len(mains) != 1 {
		return nil, fmt.Errorf("no generated main package")
	}
	exe := filepath.Join(dir, "srv.bin")
	b := exec.Command("go", "build", "-o", exe, "./"+filepath.ToSlash(strings.TrimPrefix(mains[0], dir+string(filepath.Separator))))
	b.Dir = dir
	b.Env = append(os.Environ(), "GOFLAGS=-mod=mod", "GOPROXY=off", "GOSUMDB=off", "GOTOOLCHAIN=local")
	if bo, err := b.CombinedOutput(); err != nil {
		return nil, fmt.Errorf("the generated server does not build: %s", tailText(string(bo)))
	}
	l, err := net.Listen("tcp", "127.0.0.1:0")
	if err != nil {
		return nil, err
	}
	port := l.Addr().(*net.TCPAddr).Port
	_ = l.Close()
	srv := exec.Command(exe, "--host", "127.0.0.1", "--port", strconv.Itoa(port))
	srv.Dir = dir
	if err := srv.Start(); err != nil {
		return nil, err
	}
	defer func() { _ = srv.Process.Kill(); _, _ = srv.Process.Wait(); _ = os.Remove(exe) }()
	base, _ := doc["basePath"].(string)
	urls := []string{fmt.Sprintf("http://127.0.0.1:%d%s/swagger.json", port, strings.TrimSuffix(base, "/")), fmt.Sprintf("http://127.0.0.1:%d/swagger.json", port)}
	var last error
	for i := 0; i < 100; i++ {
		time.Sleep(100 * time.Millisecond)
		status := 0
		for _, url := range urls {
			resp, err := http.Get(url)
			if err != nil {
				last = err
				status = -1
				break
			}
			body, _ := io.ReadAll(resp.Body)
			_ = resp.Body.Close()
			status = resp.StatusCode
			if resp.StatusCode == 200 {
				return body, nil
			}
		}
		if status > 0 {
			return nil, fmt.Errorf("GET %v: status %d", urls, status)
		}
	}
	return nil, fmt.Errorf("server did not answer: %v", last)
}

func tailText(s string) string {
	if len(s) > 500 {
		return s[len(s)-500:]
	}
	return s
}

package main

import (
	"fmt"
	"strings"

	"github.com/go-openapi/swag"

	"verif/harness/internal/rng"
)

// PSpec: a non-body parameter (or response header)
type PSpec struct {
	Name, GoName, In string
	Type, Format     string
	ItemType         string // for arrays
	ItemFormat       string
	CFmt             string
	Required         bool
	AllowEmpty       bool
	Default          interface{}
	Min, Max         *int64
	XMin, XMax       bool
	MinLen, MaxLen   *int64
	Enum             []string
	MinItems         *int64
	MaxItems         *int64
	Unique           bool
	ItemMin          *int64
	Inner            *ISpec // non-nil: the items are themselves arrays (nested array parameter)
}

// ISpec: an items object that is an array; its own items are a leaf (Type/Format/constraints) or a deeper array
type ISpec struct {
	CFmt               string
	MinItems, MaxItems *int64
	Unique             bool
	Inner              *ISpec
	Type, Format       string // leaf
	Min                *int64
	MinLen             *int64
}

func (is *ISpec) json() map[string]interface{} {
	m := map[string]interface{}{"type": "array"}
	if is.CFmt != "" {
		m["collectionFormat"] = is.CFmt
	}
	if is.MinItems != nil {
		m["minItems"] = *is.MinItems
	}
	if is.MaxItems != nil {
		m["maxItems"] = *is.MaxItems
	}
	if is.Unique {
		m["uniqueItems"] = true
	}
	if is.Inner != nil {
		m["items"] = is.Inner.json()
		return m
	}
	it := map[string]interface{}{"type": is.Type}
	if is.Format != "" {
		it["format"] = is.Format
	}
	if is.Min != nil {
		it["minimum"] = *is.Min
	}
	if is.MinLen != nil {
		it["minLength"] = *is.MinLen
	}
	m["items"] = it
	return m
}

// leaf: the innermost level
func (is *ISpec) leaf() *ISpec {
	for is.Inner != nil {
		is = is.Inner
	}
	return is
}

type RSpec struct {
	Code    int // 0 = default
	Body    bool
	Headers []PSpec
	File    bool // the response is a stream of bytes (schema type file)
}

type OSpec struct {
	ID, Method, Path string
	Params           []PSpec
	Body             int // 0 none, 1 optional, 2 required
	Responses        []RSpec
	Consumes         []string
	Produces         []string
	Security         [][]string // nil = inherit; empty non-nil = none; scheme names with optional ":scope,scope"
	HasSecurity      bool
}

type Spec struct {
	Ops            []OSpec
	Consumes       []string
	Produces       []string
	GlobalSecurity [][]string
	GenFlags       []string // extra flags for generate server / client
	BasePath       string
	// Extra: operations (path -> method -> operation object) that are generated and compiled but never called:
	// nested array parameters in every location, outside the fragment of the binding model
	Extra map[string]map[string]interface{}
	// SplitPath: a path whose path item lives in a sibling document (paths.json) and is pulled in by $ref
	SplitPath string
	sibling   map[string]interface{}
}

// Siblings: the documents to write next to the spec
func (sp *Spec) Siblings() map[string]interface{} {
	if sp.sibling == nil {
		return nil
	}
	return map[string]interface{}{"paths.json": sp.sibling}
}

func i64(v int64) *int64 { return &v }

// goName: the field name the generator gives a parameter (the naming itself is the subject of C01/C08, not of this harness)
func goName(n string) string { return swag.ToGoName(n) }

func (p *PSpec) json(isHeader bool) map[string]interface{} {
	m := map[string]interface{}{"type": p.Type}
	if !isHeader {
		m["name"], m["in"] = p.Name, p.In
		if p.Required {
			m["required"] = true
		}
		if p.AllowEmpty {
			m["allowEmptyValue"] = true
		}
	}
	if p.Format != "" {
		m["format"] = p.Format
	}
	if p.Type == "array" && p.Inner != nil {
		m["items"] = p.Inner.json()
		if p.CFmt != "" {
			m["collectionFormat"] = p.CFmt
		}
	} else if p.Type == "array" {
		it := map[string]interface{}{"type": p.ItemType}
		if p.ItemFormat != "" {
			it["format"] = p.ItemFormat
		}
		if p.ItemMin != nil {
			it["minimum"] = *p.ItemMin
		}
		m["items"] = it
		if p.CFmt != "" {
			m["collectionFormat"] = p.CFmt
		}
	}
	if p.Default != nil {
		m["default"] = p.Default
	}
	if p.Min != nil {
		m["minimum"] = *p.Min
	}
	if p.Max != nil {
		m["maximum"] = *p.Max
	}
	if p.XMin {
		m["exclusiveMinimum"] = true
	}
	if p.XMax {
		m["exclusiveMaximum"] = true
	}
	if p.MinLen != nil {
		m["minLength"] = *p.MinLen
	}
	if p.MaxLen != nil {
		m["maxLength"] = *p.MaxLen
	}
	if len(p.Enum) > 0 {
		m["enum"] = p.Enum
	}
	if p.MinItems != nil {
		m["minItems"] = *p.MinItems
	}
	if p.MaxItems != nil {
		m["maxItems"] = *p.MaxItems
	}
	if p.Unique {
		m["uniqueItems"] = true
	}
	return m
}

func secJSON(reqs [][]string) []interface{} {
	out := []interface{}{}
	for _, alt := range reqs {
		m := map[string]interface{}{}
		for _, s := range alt {
			name, scopes := s, []string{}
			if i := strings.Index(s, ":"); i >= 0 {
				name = s[:i]
				scopes = strings.Split(s[i+1:], ",")
			}
			m[name] = scopes
		}
		out = append(out, m)
	}
	return out
}

func (sp *Spec) JSON() map[string]interface{} {
	paths := map[string]interface{}{}
	for i := range sp.Ops {
		op := &sp.Ops[i]
		params := []interface{}{}
		for j := range op.Params {
			params = append(params, op.Params[j].json(false))
		}
		if op.Body > 0 {
			params = append(params, map[string]interface{}{"name": "body", "in": "body", "required": op.Body == 2, "schema": map[string]interface{}{"$ref": "#/definitions/Msg"}})
		}
		resps := map[string]interface{}{}
		for _, r := range op.Responses {
			rm := map[string]interface{}{"description": "r"}
			if r.Body {
				rm["schema"] = map[string]interface{}{"$ref": "#/definitions/Msg"}
			}
			if r.File {
				rm["schema"] = map[string]interface{}{"type": "file"}
			}
			if len(r.Headers) > 0 {
				hs := map[string]interface{}{}
				for k := range r.Headers {
					hs[r.Headers[k].Name] = r.Headers[k].json(true)
				}
				rm["headers"] = hs
			}
			code := "default"
			if r.Code != 0 {
				code = fmt.Sprint(r.Code)
			}
			resps[code] = rm
		}
		o := map[string]interface{}{"operationId": op.ID, "parameters": params, "responses": resps}
		if len(op.Consumes) > 0 {
			o["consumes"] = op.Consumes
		}
		if len(op.Produces) > 0 {
			o["produces"] = op.Produces
		}
		if op.HasSecurity {
			o["security"] = secJSON(op.Security)
		}
		pi, _ := paths[op.Path].(map[string]interface{})
		if pi == nil {
			pi = map[string]interface{}{}
			paths[op.Path] = pi
		}
		pi[op.Method] = o
	}
	for path, ms := range sp.Extra {
		pi := map[string]interface{}{}
		for m, o := range ms {
			pi[m] = o
		}
		paths[path] = pi
	}
	if pi, ok := paths[sp.SplitPath]; ok && sp.SplitPath != "" {
		sp.sibling = map[string]interface{}{"moved": pi}
		paths[sp.SplitPath] = map[string]interface{}{"$ref": "paths.json#/moved"}
	}
	doc := map[string]interface{}{
		"swagger": "2.0", "info": map[string]interface{}{"title": "verifapi", "version": "1"},
		"consumes": sp.Consumes, "produces": sp.Produces, "paths": paths,
		"definitions": map[string]interface{}{
			"Msg": map[string]interface{}{"type": "object", "required": []string{"text"}, "properties": map[string]interface{}{
				"text": map[string]interface{}{"type": "string", "minLength": 1}, "n": map[string]interface{}{"type": "integer", "minimum": 0, "maximum": 100}}},
			"Principal": map[string]interface{}{"type": "object", "properties": map[string]interface{}{"name": map[string]interface{}{"type": "string"}}},
		},
		"securityDefinitions": map[string]interface{}{
			"key":   map[string]interface{}{"type": "apiKey", "in": "header", "name": "X-Key"},
			"qkey":  map[string]interface{}{"type": "apiKey", "in": "query", "name": "api_key"},
			"basic": map[string]interface{}{"type": "basic"},
			"oauth": map[string]interface{}{"type": "oauth2", "flow": "accessCode", "authorizationUrl": "http://e/a", "tokenUrl": "http://e/t", "scopes": map[string]interface{}{"read": "r", "write": "w"}},
		},
	}
	if sp.BasePath != "" {
		doc["basePath"] = sp.BasePath
	}
	if sp.GlobalSecurity != nil {
		doc["security"] = secJSON(sp.GlobalSecurity)
	}
	return doc
}

// ---- generation ----
type gen struct {
	r   *rng.R
	cov map[string]int
}

func (g *gen) hit(c string) { g.cov[c]++ }

func (g *gen) scalar(p *PSpec) {
	switch g.r.Intn(9) {
	case 0, 1:
		p.Type = "string"
		switch g.r.Intn(4) {
		case 0:
			p.MinLen, p.MaxLen = i64(2), i64(5)
		case 1:
			p.Enum = []string{"aa", "bb", "cc"}
		case 2:
			p.MaxLen = i64(3)
		}
	case 2, 3:
		p.Type = "integer"
		p.Format = g.r.Pick([]string{"", "int32", "int64", "uint32", "uint64", "uint8"})
		lo := int64(-2)
		if strings.HasPrefix(p.Format, "u") {
			lo = 1
		}
		switch g.r.Intn(4) {
		case 0:
			p.Min, p.Max = i64(lo), i64(10)
			p.XMin, p.XMax = g.r.Chance(1, 2), g.r.Chance(1, 2)
		case 1:
			p.Max = i64(10)
			p.XMax = g.r.Chance(1, 2)
		case 2:
			p.Min = i64(lo)
			p.XMin = g.r.Chance(1, 2)
		}
	case 4:
		p.Type = "number"
		p.Format = g.r.Pick([]string{"", "float", "double"})
		if g.r.Chance(1, 2) {
			p.Min, p.Max = i64(0), i64(10)
		}
	case 5:
		p.Type = "boolean"
	case 6:
		p.Type = "string"
		p.Format = g.r.Pick([]string{"date", "date-time", "uuid"})
	default:
		p.Type = "array"
		p.ItemType = g.r.Pick([]string{"string", "integer", "string"})
		if p.ItemType == "integer" {
			p.ItemFormat = g.r.Pick([]string{"", "int32", "int64"})
			if g.r.Chance(1, 2) {
				p.ItemMin = i64(1)
			}
		}
		p.CFmt = g.r.Pick([]string{"", "csv", "ssv", "tsv", "pipes", "multi"})
		switch g.r.Intn(4) {
		case 0:
			p.MinItems = i64(2)
		case 1:
			p.MaxItems = i64(3)
		case 2:
			p.Unique = true
		}
	}
}

func (g *gen) param(in, name string) PSpec {
	p := PSpec{Name: name, GoName: goName(name), In: in}
	g.scalar(&p)
	if p.CFmt == "multi" && in != "query" && in != "formData" {
		p.CFmt = "csv"
	}
	switch in {
	case "path":
		p.Required = true
		if p.Type == "array" || p.Type == "boolean" {
			p.Type, p.ItemType, p.CFmt, p.MinItems, p.MaxItems, p.Unique, p.ItemMin = "string", "", "", nil, nil, false, nil
		}
	default:
		p.Required = g.r.Chance(2, 5)
		if (in == "query" || in == "formData") && g.r.Chance(1, 3) {
			p.AllowEmpty = true
		}
		// a default next to required: true is legal and changes nothing about the obligation to send the parameter
		if p.Type != "array" && p.Format != "date" && p.Format != "date-time" && p.Format != "uuid" && g.r.Chance(1, 3) {
			switch p.Type {
			case "string":
				p.Default = "bb"
				if len(p.Enum) == 0 && p.MinLen == nil && p.MaxLen != nil {
					p.Default = "b"
				}
			case "integer", "number":
				p.Default = 3
			case "boolean":
				p.Default = true
			}
		}
	}
	g.hit("param:" + in + ":" + p.Type + ":" + p.Format)
	if p.Required {
		g.hit("param:required")
	}
	if p.AllowEmpty {
		g.hit("param:allowEmptyValue:" + in)
		if p.Required {
			g.hit("param:required+allowEmptyValue:" + in)
		}
	}
	if p.Default != nil {
		g.hit("param:default")
		if p.Required {
			g.hit("param:required+default:" + in)
		}
	}
	if p.Type == "array" {
		g.hit("param:collectionFormat:" + p.CFmt)
	}
	if p.XMin != p.XMax && p.Min != nil && p.Max != nil {
		g.hit("param:exclusive-asymmetric:" + p.Format)
	}
	return p
}

// nestedParam: an array of arrays (sometimes of arrays) whose requests are exercised: distinct separators per level
func (g *gen) nestedParam(in, name string) PSpec {
	p := PSpec{Name: name, GoName: goName(name), In: in, Type: "array"}
	seps := []string{"pipes", "csv", "ssv", "tsv"}
	if in == "header" {
		seps = []string{"pipes", "csv", "ssv"}
	}
	for i := len(seps) - 1; i > 0; i-- {
		j := g.r.Intn(i + 1)
		seps[i], seps[j] = seps[j], seps[i]
	}
	p.CFmt = seps[0]
	if p.CFmt == "csv" && g.r.Chance(1, 2) {
		p.CFmt = "" // the default
	}
	depth := 1
	if g.r.Chance(1, 4) {
		depth = 2
	}
	var mk func(d int) *ISpec
	mk = func(d int) *ISpec {
		is := &ISpec{CFmt: seps[1+depth-d]}
		switch g.r.Intn(5) {
		case 0:
			is.MinItems = i64(2)
		case 1:
			is.MaxItems = i64(3)
		case 2:
			is.Unique = true
		case 3:
			is.MaxItems, is.Unique = i64(3), true
		}
		if d > 1 {
			is.Inner = mk(d - 1)
			return is
		}
		switch g.r.Intn(4) {
		case 0:
			is.Type = "string"
			if g.r.Chance(1, 2) {
				is.MinLen = i64(2)
			}
		case 1:
			is.Type = "boolean"
		default:
			is.Type = "integer"
			is.Format = g.r.Pick([]string{"", "int32", "int64", "uint32"})
			if g.r.Chance(1, 2) {
				is.Min = i64(1)
			}
		}
		return is
	}
	p.Inner = mk(depth)
	switch g.r.Intn(5) {
	case 0:
		p.MinItems = i64(2)
	case 1:
		p.MaxItems = i64(3)
	case 2:
		p.Unique = true
	}
	p.Required = g.r.Chance(1, 3)
	if !p.Required && g.r.Chance(1, 2) {
		// a default for the whole array of arrays: what the reference binder reads from a valid request value
		if ok, v := refBind(&p, rawList(&p, g.r), true); ok && v != nil {
			p.Default = v
			g.hit("nested-request:default")
		}
	}
	lf := p.Inner.leaf()
	g.hit(fmt.Sprintf("nested-request:param:%s:depth=%d:leaf=%s:%s", in, depth+1, lf.Type, lf.Format))
	if p.Unique {
		g.hit("nested-request:outer-unique")
	}
	return p
}

// nestItems: an items object of the given remaining depth; leaves of every simple type, validations present or absent at each level
func (g *gen) nestItems(depth int, header bool) map[string]interface{} {
	if depth > 0 {
		m := map[string]interface{}{"type": "array", "items": g.nestItems(depth-1, header)}
		if cf := g.r.Pick([]string{"", "csv", "ssv", "tsv", "pipes"}); cf != "" {
			m["collectionFormat"] = cf
		}
		k := g.r.Intn(6)
		switch k {
		case 0:
			m["minItems"] = 1
		case 1:
			m["maxItems"] = 4
		case 2:
			m["uniqueItems"] = true
		}
		g.hit(fmt.Sprintf("nested:array-level:validated=%v", k < 3))
		return m
	}
	m := map[string]interface{}{}
	validated := g.r.Chance(1, 3)
	switch g.r.Intn(6) {
	case 0:
		m["type"] = "integer"
		if f := g.r.Pick([]string{"", "int32", "int64", "uint32", "uint64"}); f != "" {
			m["format"] = f
		}
		if validated {
			if g.r.Chance(1, 2) {
				m["minimum"] = 1
			} else {
				m["enum"] = []int{1, 2, 3}
			}
		}
	case 1:
		m["type"] = "number"
		if f := g.r.Pick([]string{"", "float", "double"}); f != "" {
			m["format"] = f
		}
		if validated {
			m["maximum"] = 10
		}
	case 2:
		m["type"] = "boolean"
	case 3:
		m["type"] = "string"
		m["format"] = g.r.Pick([]string{"date", "date-time", "uuid", "byte"})
	default:
		m["type"] = "string"
		if validated {
			switch g.r.Intn(3) {
			case 0:
				m["minLength"] = 1
			case 1:
				m["enum"] = []string{"a", "b"}
			default:
				m["pattern"] = "^[a-z]+$"
			}
		}
	}
	_, hasFormat := m["format"]
	g.hit(fmt.Sprintf("nested:leaf:%v:%v:validated=%v", m["type"], m["format"], len(m) > 2 || (len(m) == 2 && !hasFormat)))
	return m
}

func (g *gen) nestParam(in, name string) map[string]interface{} {
	depth := 2 + g.r.Intn(2)
	if g.r.Chance(1, 4) {
		depth = 1
	}
	m := g.nestItems(depth, in == "header")
	m["name"], m["in"] = name, in
	if in == "path" || g.r.Chance(1, 3) {
		m["required"] = true
	}
	g.hit(fmt.Sprintf("nested:param:%s:depth=%d", in, depth))
	return m
}

// extraOps: compile-only operations with nested array parameters
func (g *gen) extraOps() map[string]map[string]interface{} {
	ok := map[string]interface{}{"200": map[string]interface{}{"description": "r"}}
	var qs []interface{}
	qs = append(qs, g.nestParam("path", "grid"))
	for j := 0; j < 4; j++ {
		qs = append(qs, g.nestParam("query", fmt.Sprintf("nq%d", j)))
	}
	qs = append(qs, g.nestParam("header", "X-Nest"))
	var fs []interface{}
	for j := 0; j < 3; j++ {
		fs = append(fs, g.nestParam("formData", fmt.Sprintf("nf%d", j)))
	}
	return map[string]map[string]interface{}{
		"/opnest/{grid}": {"get": map[string]interface{}{"operationId": "opnestq", "parameters": qs, "responses": ok, "security": []interface{}{}}},
		"/opnestform":    {"post": map[string]interface{}{"operationId": "opnestf", "consumes": []string{"application/x-www-form-urlencoded", "multipart/form-data"}, "parameters": fs, "responses": ok, "security": []interface{}{}}},
	}
}

var secShapes = [][][]string{
	nil,                                // inherit
	{},                                 // explicit none
	{{"key"}},                          // single
	{{"basic"}},                        //
	{{"qkey"}},                         //
	{{"oauth:read"}},                   //
	{{"oauth:read,write"}},             //
	{{"key", "basic"}},                 // AND
	{{"key"}, {"basic"}},               // OR
	{{"key", "oauth:read"}, {"basic"}}, // mix
	{{"oauth:admin,write"}},            // a scope the scheme does not declare (legal) next to one it declares: both are demanded
}

func (g *gen) spec(nops int, variant int) *Spec {
	sp := &Spec{Consumes: []string{"application/json"}, Produces: []string{"application/json"}}
	if variant%2 == 1 {
		// spec-level consumes and produces differ (both are JSON serialisations)
		sp.Produces = []string{"application/vnd.verif+json"}
		sp.Consumes = []string{"application/json"}
	}
	if variant%3 == 1 {
		sp.GlobalSecurity = [][]string{{"key"}}
		g.hit("security:global")
	}
	if variant%3 == 2 {
		// a global requirement with two schemes (both must authenticate), one of which no operation names itself;
		// generated with the documented pre-processing option that prunes what nothing refers to
		sp.GlobalSecurity = [][]string{{"qkey", "basic"}}
		sp.GenFlags = []string{"--with-flatten=remove-unused"}
		g.hit("security:global-and+flatten-remove-unused")
	}
	if variant%4 == 2 {
		sp.BasePath = "/api"
	}
	for i := 0; i < nops; i++ {
		op := OSpec{ID: fmt.Sprintf("op%d", i)}
		op.Method = []string{"get", "post", "put", "delete", "patch"}[g.r.Intn(5)]
		op.Path = fmt.Sprintf("/op%d", i)
		if i == 0 {
			op.Path = "/" // root path
			op.Method = "get"
			g.hit("path:root")
		}
		if g.r.Chance(1, 3) && i > 0 {
			op.Path += "/{pid}"
			op.Params = append(op.Params, g.param("path", "pid"))
		}
		nq := g.r.Intn(3)
		for j := 0; j < nq; j++ {
			op.Params = append(op.Params, g.param("query", fmt.Sprintf("q%d", j)))
		}
		if g.r.Chance(1, 2) {
			// header names as specs write them: net/http canonicalises what arrives, the spec's spelling need not be canonical
			hn := g.r.Pick([]string{"X-H", "X-Request-ID", "x-lower-case", "X-H", "X-RATE-Limit"})
			g.hit("header-name:" + hn)
			op.Params = append(op.Params, g.param("header", hn))
		}
		if op.Method != "get" && op.Method != "delete" {
			switch g.r.Intn(3) {
			case 0:
				op.Body = 1 + g.r.Intn(2)
				g.hit(fmt.Sprintf("body:%d", op.Body))
			case 1:
				op.Consumes = []string{"application/x-www-form-urlencoded", "multipart/form-data"}
				nf := 1 + g.r.Intn(2)
				for j := 0; j < nf; j++ {
					op.Params = append(op.Params, g.param("formData", fmt.Sprintf("f%d", j)))
				}
			}
		}
		op.Responses = []RSpec{{Code: 200, Body: g.r.Chance(1, 2)}}
		if g.r.Chance(1, 6) {
			// an operation that documents no success code at all
			op.Responses = []RSpec{{Code: 304}}
			g.hit("response:no-success-code")
		}
		if g.r.Chance(1, 2) {
			op.Responses[0].Headers = []PSpec{{Name: "X-Rate", GoName: "XRate", Type: "integer", Format: "int64"}}
			g.hit("response:header")
		}
		if g.r.Chance(1, 2) {
			op.Responses = append(op.Responses, RSpec{Code: 201})
		}
		if g.r.Chance(1, 3) {
			// success codes are the 2xx range, registered with IANA or not
			op.Responses = append(op.Responses, RSpec{Code: []int{250, 299}[g.r.Intn(2)], Body: g.r.Chance(1, 2)})
			g.hit("response:unregistered-2xx")
		}
		if g.r.Chance(2, 3) {
			op.Responses = append(op.Responses, RSpec{Code: 404, Body: g.r.Chance(1, 2)})
		}
		if g.r.Chance(1, 2) {
			op.Responses = append(op.Responses, RSpec{Code: 0, Body: true})
			g.hit("response:default")
		}
		sh := secShapes[g.r.Intn(len(secShapes))]
		if variant%3 == 2 && len(sh) == 1 && len(sh[0]) == 1 && sh[0][0] == "qkey" {
			sh = [][]string{{"basic"}} // qkey is named by the global requirement only
		}
		if sh != nil {
			op.HasSecurity = true
			op.Security = sh
		}
		g.hit(fmt.Sprintf("security:shape:%v", sh))
		sp.Ops = append(sp.Ops, op)
	}
	// fixed operations: combinations the random draw may miss
	// a download: the response is a stream of bytes next to headers of formatted types (the client reads them with the formats registry)
	sp.Ops = append(sp.Ops, OSpec{ID: "opdownload", Method: "get", Path: "/opdownload", Produces: []string{"application/octet-stream"},
		Params: []PSpec{{Name: "name", GoName: "Name", In: "query", Type: "string"}},
		Responses: []RSpec{{Code: 200, File: true, Headers: []PSpec{{Name: "X-Stamp", GoName: "XStamp", Type: "string", Format: "date-time"}, {Name: "X-Rate", GoName: "XRate", Type: "integer", Format: "int64"}}},
			{Code: 404, Headers: []PSpec{{Name: "X-Stamp", GoName: "XStamp", Type: "string", Format: "date-time"}}}},
		HasSecurity: true, Security: [][]string{}})
	g.hit("response:file-stream")
	sp.Ops = append(sp.Ops, OSpec{ID: "opform", Method: "post", Path: "/opform", Consumes: []string{"application/x-www-form-urlencoded", "multipart/form-data"},
		Params: []PSpec{
			{Name: "note", GoName: "Note", In: "formData", Type: "string", Required: true, AllowEmpty: true},
			{Name: "ids", GoName: "Ids", In: "formData", Type: "array", ItemType: "integer", ItemFormat: "int64", CFmt: "csv"},
			{Name: "tag", GoName: "Tag", In: "formData", Type: "string", Required: true}},
		Responses: []RSpec{{Code: 200}}, HasSecurity: true, Security: [][]string{}})
	sp.Ops = append(sp.Ops, OSpec{ID: "opnames", Method: "get", Path: "/opnames",
		Params: []PSpec{
			{Name: "Timeout", GoName: "Timeout", In: "query", Type: "integer", Format: "int32"},
			{Name: "lim", GoName: "Lim", In: "query", Type: "integer", Format: "int32", AllowEmpty: true, Default: 5}},
		Responses: []RSpec{{Code: 200}}, HasSecurity: true, Security: [][]string{}})
	sp.Ops = append(sp.Ops, OSpec{ID: "opuint", Method: "get", Path: "/opuint",
		Params: []PSpec{
			{Name: "n", GoName: "N", In: "query", Type: "integer", Format: "uint32", Max: i64(10), XMax: true},
			{Name: "m", GoName: "M", In: "query", Type: "integer", Format: "uint32", Min: i64(1), Max: i64(10), XMin: true}},
		Responses: []RSpec{{Code: 200}}, HasSecurity: true, Security: [][]string{}})
	g.hit("param:required+allowEmptyValue:formData")
	// nested array parameters whose requests are exercised (reference binder: refNested)
	sp.Ops = append(sp.Ops, OSpec{ID: "opnested", Method: "get", Path: "/opnested",
		Params:    []PSpec{g.nestedParam("query", "nq0"), g.nestedParam("query", "nq1"), g.nestedParam("query", "nq2"), g.nestedParam("header", "X-Nested")},
		Responses: []RSpec{{Code: 200}}, HasSecurity: true, Security: [][]string{}})
	sp.Ops = append(sp.Ops, OSpec{ID: "opnestedform", Method: "post", Path: "/opnestedform", Consumes: []string{"application/x-www-form-urlencoded", "multipart/form-data"},
		Params:    []PSpec{g.nestedParam("formData", "nf0"), g.nestedParam("formData", "nf1")},
		Responses: []RSpec{{Code: 200}}, HasSecurity: true, Security: [][]string{}})
	sp.Extra = g.extraOps()
	if variant%3 == 2 {
		sp.SplitPath = "/opnames" // an operation without $refs of its own: its path item can live in another file
		g.hit("spec:path-item-in-sibling-file")
	}
	return sp
}

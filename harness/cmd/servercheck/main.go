// servercheck: harness for C03 (server binds and validates per the spec), C04 (client and server interoperate),
// C06 (security requirements enforced exactly) and the routing half of C08. Generates specs of the operation fragment,
// runs `swagger generate server` and `generate client`, compiles both with a reflection driver and runs request /
// call cases in-process (httptest); every observation is compared with a reference written from the Swagger 2.0
// parameter and security semantics (DESIGN.md section 12).
package main

import (
	"encoding/base64"
	"encoding/json"
	"flag"
	"fmt"
	"math"
	"net/url"
	"os"
	"os/exec"
	"path/filepath"
	"reflect"
	"sort"
	"strconv"
	"strings"
	"time"
	"unicode/utf8"

	"github.com/go-openapi/strfmt"
	"github.com/go-openapi/swag"

	"verif/harness/internal/coqpp"
	"verif/harness/internal/gorun"
	"verif/harness/internal/rng"
)

func die(format string, a ...interface{}) {
	fmt.Fprintf(os.Stderr, "servercheck: "+format+"\n", a...)
	os.Exit(2)
}

type violation struct {
	Key    string      `json:"key"`
	What   string      `json:"what"`
	Input  interface{} `json:"input"`
	Detail interface{} `json:"detail"`
}

type kv struct{ K, V string }

type tcase struct {
	Mode        string
	Op          string
	Method      string
	URL         string
	Headers     []kv
	Form        []kv
	Multipart   bool
	Body        *string
	CType       string
	Params      json.RawMessage
	Respond     int
	RespCode    int
	Payload     json.RawMessage
	RespHeaders map[string]string
	Auth        string
	// harness-side bookkeeping (not read by the driver)
	expect   expectation
	note     string
	devParam *PSpec // C03: the parameter whose raw occurrences deviate (others are valid)
	devRaws  []string
	devKey   bool
	creds    creds
	paramsOK bool
}

type tresult struct {
	Status        int
	Reached       string
	Params        json.RawMessage
	Principal     string
	ClientType    string
	ClientCode    int
	ClientPayload json.RawMessage
	ClientHeaders map[string]string
	ClientErr     string
	Panic         string
}

type expectation struct {
	prop       string // which property's oracle owns this case: C03 | C04 | C06
	reach      bool
	values     map[string]interface{} // GoName -> expected value (nil = absent)
	principals []string               // acceptable principals ("" = none expected)
	denyAuth   bool                   // expect 401/403
	// C04
	clientType string
	clientCode int
	payload    interface{}
	headers    map[string]string
}

// ---------- reference binder ----------
var sepOf = map[string]string{"": ",", "csv": ",", "ssv": " ", "tsv": "\t", "pipes": "|"}

func splitByFormat(raw, cf string) []string {
	var out []string
	for _, x := range strings.Split(raw, sepOf[cf]) {
		if t := strings.TrimSpace(x); t != "" {
			out = append(out, t)
		}
	}
	return out
}

var truthy = map[string]bool{"true": true, "1": true, "yes": true, "ok": true, "y": true, "on": true, "selected": true, "checked": true, "t": true, "enabled": true}

// parseScalar: (value, ok)
func parseScalar(typ, format, raw string) (interface{}, bool) {
	switch typ {
	case "string":
		switch format {
		case "date", "date-time", "uuid":
			if !strfmt.Default.Validates(format, raw) {
				return nil, false
			}
		}
		return raw, true
	case "integer":
		switch format {
		case "uint8", "uint32", "uint64":
			bits := map[string]int{"uint8": 8, "uint32": 32, "uint64": 64}[format]
			v, err := strconv.ParseUint(raw, 10, bits)
			return float64(v), err == nil
		case "int32":
			v, err := strconv.ParseInt(raw, 10, 32)
			return float64(v), err == nil
		default:
			v, err := strconv.ParseInt(raw, 10, 64)
			return float64(v), err == nil
		}
	case "number":
		bits := 64
		if format == "float" {
			bits = 32
		}
		v, err := strconv.ParseFloat(raw, bits)
		return v, err == nil
	case "boolean":
		return truthy[strings.ToLower(raw)], true
	}
	return raw, true
}

func scalarValid(p *PSpec, v interface{}) bool {
	switch x := v.(type) {
	case float64:
		if p.Min != nil {
			if p.XMin && !(x > float64(*p.Min)) || !p.XMin && !(x >= float64(*p.Min)) {
				return false
			}
		}
		if p.Max != nil {
			if p.XMax && !(x < float64(*p.Max)) || !p.XMax && !(x <= float64(*p.Max)) {
				return false
			}
		}
	case string:
		n := int64(utf8.RuneCountInString(x))
		if p.MinLen != nil && n < *p.MinLen {
			return false
		}
		if p.MaxLen != nil && n > *p.MaxLen {
			return false
		}
		if len(p.Enum) > 0 {
			ok := false
			for _, e := range p.Enum {
				if e == x {
					ok = true
				}
			}
			if !ok {
				return false
			}
		}
	}
	return true
}

// refBind: outcome of one parameter for the raw occurrences of its key. returns (ok, value) — value nil when absent
func refBind(p *PSpec, raw []string, hasKey bool) (bool, interface{}) {
	last := ""
	if len(raw) > 0 {
		last = raw[len(raw)-1]
	}
	if p.Type == "array" && p.Inner != nil {
		if p.Required && !hasKey && p.In != "header" {
			return false, nil
		}
		parts := splitByFormat(last, p.CFmt)
		if len(parts) == 0 {
			if p.Required && !p.AllowEmpty {
				return false, nil
			}
			return true, nil
		}
		var vals []interface{}
		for _, part := range parts {
			ok, v := refNested(p.Inner, part)
			if !ok {
				return false, nil
			}
			vals = append(vals, v)
		}
		if !countsOK(vals, p.MinItems, p.MaxItems, p.Unique) {
			return false, nil
		}
		return true, vals
	}
	if p.Type == "array" {
		if p.Required && !hasKey && p.In != "header" {
			return false, nil
		}
		var items []string
		if p.CFmt == "multi" {
			items = raw
		} else {
			items = splitByFormat(last, p.CFmt)
		}
		if len(items) == 0 {
			if p.Required && !p.AllowEmpty {
				return false, nil
			}
			return true, nil
		}
		var vals []interface{}
		for _, it := range items {
			v, ok := parseScalar(p.ItemType, p.ItemFormat, it)
			if !ok {
				return false, nil
			}
			if f, isNum := v.(float64); isNum && p.ItemMin != nil && f < float64(*p.ItemMin) {
				return false, nil
			}
			vals = append(vals, v)
		}
		if p.MinItems != nil && int64(len(vals)) < *p.MinItems {
			return false, nil
		}
		if p.MaxItems != nil && int64(len(vals)) > *p.MaxItems {
			return false, nil
		}
		if p.Unique {
			seen := map[string]bool{}
			for _, v := range vals {
				k := fmt.Sprint(v)
				if seen[k] {
					return false, nil
				}
				seen[k] = true
			}
		}
		return true, vals
	}
	if p.In != "path" {
		if p.Required && !hasKey && p.In != "header" {
			return false, nil
		}
		if last == "" {
			if p.Required && !p.AllowEmpty {
				return false, nil
			}
			return true, nil // absent: the default (if any) is the value
		}
	}
	v, ok := parseScalar(p.Type, p.Format, last)
	if !ok {
		return false, nil
	}
	if !scalarValid(p, v) {
		return false, nil
	}
	return true, v
}

// uniqueAsText: the reading under which a nested level's uniqueItems compares the parts as written ("1" and "01" differ);
// used only to name the cause of a disagreement, never as the expectation
var uniqueAsText bool

func countsOK(vals []interface{}, minItems, maxItems *int64, unique bool) bool {
	if minItems != nil && int64(len(vals)) < *minItems {
		return false
	}
	if maxItems != nil && int64(len(vals)) > *maxItems {
		return false
	}
	if unique {
		seen := map[string]bool{}
		for _, v := range vals {
			k := fmt.Sprint(v)
			if seen[k] {
				return false
			}
			seen[k] = true
		}
	}
	return true
}

// refNested: one element of a nested array parameter: split by this level's separator, every part is an element
// (an array again, or a leaf), the level's item counts and uniqueness (of values) apply
func refNested(is *ISpec, raw string) (bool, interface{}) {
	parts := splitByFormat(raw, is.CFmt)
	vals := []interface{}{}
	for _, part := range parts {
		if is.Inner != nil {
			ok, v := refNested(is.Inner, part)
			if !ok {
				return false, nil
			}
			vals = append(vals, v)
			continue
		}
		v, ok := parseScalar(is.Type, is.Format, part)
		if !ok {
			return false, nil
		}
		if f, isNum := v.(float64); isNum && is.Min != nil && f < float64(*is.Min) {
			return false, nil
		}
		if sv, isStr := v.(string); isStr && is.MinLen != nil && int64(utf8.RuneCountInString(sv)) < *is.MinLen {
			return false, nil
		}
		vals = append(vals, v)
	}
	if uniqueAsText && is.Unique {
		texts := make([]interface{}, len(parts))
		for i, part := range parts {
			texts[i] = part
		}
		if !countsOK(vals, is.MinItems, is.MaxItems, false) || !countsOK(texts, nil, nil, true) {
			return false, nil
		}
		return true, vals
	}
	if !countsOK(vals, is.MinItems, is.MaxItems, is.Unique) {
		return false, nil
	}
	return true, vals
}

// nestedRaw: a valid rendering: n elements per level within the level's counts, leaves distinct
func nestedRaw(is *ISpec, salt int) string {
	n := 2
	if is.MaxItems != nil && int64(n) > *is.MaxItems {
		n = int(*is.MaxItems)
	}
	if is.MinItems != nil && int64(n) < *is.MinItems {
		n = int(*is.MinItems)
	}
	var parts []string
	for i := 0; i < n; i++ {
		switch {
		case is.Inner != nil:
			parts = append(parts, nestedRaw(is.Inner, salt*3+i))
		case is.Type == "integer":
			parts = append(parts, fmt.Sprint(1+salt*3+i))
		case is.Type == "boolean":
			parts = append(parts, []string{"true", "false"}[(salt+i)%2])
		default:
			parts = append(parts, fmt.Sprintf("v%d%c", salt, 'a'+i))
		}
	}
	return strings.Join(parts, sepOf[is.CFmt])
}

// ---------- values for requests ----------
func validRaw(p *PSpec, r *rng.R) string {
	one := func(typ, format string) string {
		switch typ {
		case "string":
			switch format {
			case "date":
				return "2021-03-04"
			case "date-time":
				return "2021-03-04T05:06:07Z"
			case "uuid":
				return "123e4567-e89b-12d3-a456-426614174000"
			}
			if len(p.Enum) > 0 {
				return p.Enum[r.Intn(len(p.Enum))]
			}
			// plain strings also with blanks at either end (kept as they are; HTTP itself trims header values)
			pool := []string{"bb", "abc", "bcd"}
			if p.In != "header" && typ == p.Type {
				for _, c := range []string{" bb", "bc ", "\tab", " b c "} {
					n := int64(len(c))
					if (p.MinLen == nil || n >= *p.MinLen) && (p.MaxLen == nil || n <= *p.MaxLen) {
						pool = append(pool, c)
					}
				}
			}
			return pool[r.Intn(len(pool))]
		case "integer", "number":
			lo, hi := int64(1), int64(9)
			if p.Min != nil {
				lo = *p.Min
				if p.XMin {
					lo++
				}
			}
			if p.Max != nil {
				hi = *p.Max
				if p.XMax {
					hi--
				}
			}
			if p.ItemMin != nil && lo < *p.ItemMin {
				lo = *p.ItemMin
			}
			if hi < lo {
				hi = lo
			}
			return fmt.Sprint(lo + int64(r.Intn(int(hi-lo+1))))
		case "boolean":
			return r.Pick([]string{"true", "false"})
		}
		return "x"
	}
	if p.Type == "array" && p.Inner != nil {
		n := 2
		if p.MaxItems != nil && int64(n) > *p.MaxItems {
			n = int(*p.MaxItems)
		}
		if p.MinItems != nil && int64(n) < *p.MinItems {
			n = int(*p.MinItems)
		}
		var parts []string
		for i := 0; i < n; i++ {
			parts = append(parts, nestedRaw(p.Inner, i+1))
		}
		return strings.Join(parts, sepOf[p.CFmt])
	}
	if p.Type == "array" {
		n := 2
		if p.MaxItems != nil && int64(n) > *p.MaxItems {
			n = int(*p.MaxItems)
		}
		if p.MinItems != nil && int64(n) < *p.MinItems {
			n = int(*p.MinItems)
		}
		var items []string
		for i := 0; i < n; i++ {
			it := one(p.ItemType, p.ItemFormat)
			if p.Unique || true {
				it = fmt.Sprintf("%s%d", strings.TrimRight(it, "0123456789"), i+1)
				if p.ItemType == "integer" {
					it = fmt.Sprint(i + 1)
				}
			}
			items = append(items, it)
		}
		if p.CFmt == "multi" {
			return strings.Join(items, "\x00") // separate occurrences, see rawList
		}
		return strings.Join(items, sepOf[p.CFmt])
	}
	return one(p.Type, p.Format)
}

// rawList: the occurrences of the key that carry a valid value
func rawList(p *PSpec, r *rng.R) []string {
	v := validRaw(p, r)
	if p.Type == "array" && p.CFmt == "multi" {
		return strings.Split(v, "\x00")
	}
	return []string{v}
}

// deviations for one parameter: raw occurrence lists (nil = key absent)
func deviations(p *PSpec) [][]string {
	out := [][]string{nil, {""}}
	add := func(v ...string) { out = append(out, v) }
	switch p.Type {
	case "integer", "number":
		add("abc")
		add("1.5")
		if p.Min != nil {
			add(fmt.Sprint(*p.Min - 1))
			add(fmt.Sprint(*p.Min))
			add(fmt.Sprint(*p.Min + 1))
		}
		if p.Max != nil {
			add(fmt.Sprint(*p.Max - 1))
			add(fmt.Sprint(*p.Max))
			add(fmt.Sprint(*p.Max + 1))
		}
		add("0")
		add("-1")
		add("300")
		add("5000000000")
		add("3", "4") // repeated key: last wins
	case "string":
		add("a")
		add("abcdefgh")
		add("éé")
		add("zz")
		if p.Format != "" {
			add("not-a-" + p.Format)
		}
		add("aa", "bb")
	case "boolean":
		add("yes")
		add("maybe")
		add("0")
	case "array":
		sep := sepOf[p.CFmt]
		if p.Inner != nil {
			in := p.Inner
			isep := sepOf[in.CFmt]
			lf := in.leaf()
			a, b, c := "1", "2", "3"
			switch lf.Type {
			case "string":
				a, b, c = "aa", "bb", "cc"
			case "boolean":
				a, b, c = "true", "false", "true"
			}
			if in.Inner != nil {
				// three levels: elements of the middle level are single leaves
				dsep := sepOf[in.Inner.CFmt]
				add(a + dsep + b + isep + c + sep + b + dsep + c + isep + a)
				add(a + dsep + a + isep + b)
				add(a + dsep + "x" + isep + b)
				add(a + isep + a)
				add(a + sep + a)
				return out
			}
			add(a + isep + b)                                                    // one element
			add(a + isep + b + sep + b + isep + c)                               // two elements
			add(a + sep + b + sep + c + sep + a + isep + b + sep + b + isep + c) // five elements
			add(a + isep + b + isep + c + isep + a + isep + b)                   // an element of five
			add(a)                                                               // an element of one
			add(a + isep + a)                                                    // a repeated leaf
			add(a + isep + b + sep + a + isep + b)                               // a repeated element
			add(a + isep + "x" + sep + b)                                        // a leaf of another kind
			if strings.TrimSpace(sep) != "" && strings.TrimSpace(isep) != "" {
				// blanks around parts (with a blank separator the text would denote elements that split to nothing: not exercised,
				// Swagger 2.0 does not say what such an element is)
				add(" " + a + " " + isep + " " + b + " " + sep + " " + c + " ")
			}
			add(a+isep+b, b+isep+c) // repeated key: the last occurrence
			switch lf.Type {
			case "integer":
				add(a + isep + "01") // equal values written differently
				add("0" + isep + b)  // below a minimum of 1
				add("-1" + isep + b)
				add("5000000000" + isep + b) // beyond 32 bits
				add(a + isep + "1.5")
			case "string":
				add("a" + isep + b) // shorter than a minLength of 2
				add("éé" + isep + b)
			case "boolean":
				add("yes" + isep + "no")
				add("maybe" + isep + a)
			}
			return out
		}
		if p.CFmt == "multi" {
			add("1")
			add("1", "2", "3", "4")
			add("1", "1")
			add("0", "x")
			add(" 1 ", "", " 2 ")
			add("a", "b")
			return out
		}
		add("1")
		add("1" + sep + "2" + sep + "3" + sep + "4")
		add("1" + sep + "1")
		add("0" + sep + "x")
		add(" 1 " + sep + sep + " 2 ")
		add(sep)
		add("1", "2") // repeated key
		add("a" + sep + "b")
	}
	return out
}

// ---------- security reference ----------
type creds struct{ key, qkey, basic, oauth string } // "", "valid...", "bad"

func schemeOK(s string, c creds) (bool, string) {
	name, scopes := s, ""
	if i := strings.Index(s, ":"); i >= 0 {
		name, scopes = s[:i], s[i+1:]
	}
	switch name {
	case "key":
		if c.key == "k-alice" || c.key == "k-bob" {
			return true, "key:" + c.key[2:]
		}
	case "qkey":
		if c.qkey == "q-alice" {
			return true, "qkey:alice"
		}
	case "basic":
		if c.basic == "alice:wonderland" || c.basic == "bob:builder" {
			return true, "basic:" + strings.SplitN(c.basic, ":", 2)[0]
		}
	case "oauth":
		have := map[string]string{"t-read": "read", "t-rw": "read,write", "t-all": "read,write,admin"}[c.oauth]
		if have == "" {
			return false, ""
		}
		for _, n := range strings.Split(scopes, ",") {
			if n != "" && !strings.Contains(","+have+",", ","+n+",") {
				return false, ""
			}
		}
		return true, "oauth:" + c.oauth
	}
	return false, ""
}

// effective requirement and its satisfaction: (open, satisfied, acceptable principals)
func refAuth(sp *Spec, op *OSpec, c creds) (open bool, sat bool, principals []string) {
	eff := sp.GlobalSecurity
	if op.HasSecurity {
		eff = op.Security
	}
	if len(eff) == 0 {
		return true, true, []string{""}
	}
	for _, alt := range eff {
		all := true
		var ps []string
		for _, s := range alt {
			ok, p := schemeOK(s, c)
			if !ok {
				all = false
			}
			ps = append(ps, p)
		}
		if all {
			return false, true, ps
		}
	}
	return false, false, nil
}

func goType(code int) string {
	switch code {
	case 200:
		return "OK"
	case 201:
		return "Created"
	case 404:
		return "NotFound"
	case 304:
		return "NotModified"
	case 0:
		return "Default"
	}
	return "Status" + fmt.Sprint(code) // codes without a registered status text
}

func opGo(id string) string { return strings.ToUpper(id[:1]) + id[1:] }

func main() {
	fs := flag.NewFlagSet("servercheck", flag.ExitOnError)
	bin := fs.String("bin", "", "")
	work := fs.String("work", "", "")
	out := fs.String("out", "", "output dir")
	seed := fs.Uint64("seed", 1, "")
	nspecs := fs.Int("specs", 2, "")
	nops := fs.Int("ops", 14, "")
	_ = fs.Parse(os.Args[1:])
	if *bin == "" || *work == "" || *out == "" {
		die("-bin, -work, -out required")
	}
	_ = os.MkdirAll(*out, 0o755)
	r := rng.New(*seed)
	cov := map[string]int{}
	viols := map[string][]violation{"C03": nil, "C04": nil, "C06": nil, "C08": nil, "C01": nil}
	evals := map[string]int{}
	samples := map[string][]interface{}{}
	builds := 0
	coq := map[string][]string{"C03": nil, "C04": nil, "C06": nil}
	routeMiss := map[string]bool{}
	addV := func(prop, key, what string, in, detail interface{}) {
		viols[prop] = append(viols[prop], violation{key, what, in, detail})
	}
	for si := 0; si < *nspecs; si++ {
		g := &gen{r: r.Fork(), cov: cov}
		sp := g.spec(*nops, si)
		// (not together with --with-flatten=remove-unused, which prunes the Principal definition nothing in the document refers to)
		customPrincipal := si%2 == 1 && len(sp.GenFlags) == 0
		specJSON, _ := json.Marshal(sp.JSON())
		dir := filepath.Join(*work, fmt.Sprintf("s%d", si))
		_ = os.RemoveAll(dir)
		if err := gorun.NewModule(dir); err != nil {
			die("%v", err)
		}
		spath := filepath.Join(dir, "spec.json")
		_ = os.WriteFile(spath, specJSON, 0o644)
		for name, doc := range sp.Siblings() {
			b, _ := json.Marshal(doc)
			_ = os.WriteFile(filepath.Join(dir, name), b, 0o644)
		}
		specIn := map[string]interface{}{"spec": json.RawMessage(specJSON), "custom_principal": customPrincipal}
		sargs := []string{"generate", "server", "-q", "-A", "verifapi", "-f", spath, "-t", dir}
		cargs := []string{"generate", "client", "-q", "-A", "verifapi", "-f", spath, "-t", dir}
		sargs = append(sargs, sp.GenFlags...)
		cargs = append(cargs, sp.GenFlags...)
		for _, f := range sp.GenFlags {
			cov["option:"+f]++
		}
		if customPrincipal {
			sargs = append(sargs, "-P", "models.Principal")
			cargs = append(cargs, "-P", "models.Principal")
			cov["option:custom-principal"]++
		}
		rs := gorun.Swagger(*bin, dir, 180*time.Second, sargs...)
		rc := gorun.Swagger(*bin, dir, 180*time.Second, cargs...)
		if rs.Exit != 0 || rc.Exit != 0 {
			cov["generation-error"]++
			addV("C01", "c01/generation-failed[operations-fragment]", "generate server/client fails on a valid spec of the operation fragment", specIn, tailS(rs.Output+rc.Output))
			continue
		}
		// driver
		var h, np, rp strings.Builder
		for i := range sp.Ops {
			op := &sp.Ops[i]
			G := opGo(op.ID)
			fmt.Fprintf(&h, "\tapi.%sHandler = mk(operations.%sHandlerFunc(nil), %q).(operations.%sHandlerFunc)\n", G, G, op.ID, G)
			fmt.Fprintf(&np, "\tnewParams[%q] = func() interface{} { return clientops.New%sParams() }\n", op.ID, G)
			fmt.Fprintf(&rp, "\tresponders[%q] = map[int]func() middleware.Responder{\n", op.ID)
			for _, rr := range op.Responses {
				if rr.Code == 0 {
					fmt.Fprintf(&rp, "\t\t0: func() middleware.Responder { return operations.New%sDefault(500) },\n", G)
				} else {
					fmt.Fprintf(&rp, "\t\t%d: func() middleware.Responder { return operations.New%s%s() },\n", rr.Code, G, goType(rr.Code))
				}
			}
			fmt.Fprintf(&rp, "\t}\n")
		}
		_ = os.MkdirAll(filepath.Join(dir, "driver"), 0o755)
		drv := fmt.Sprintf(driverTmpl, h.String(), np.String(), rp.String(), "\tsetAuths(reflect.ValueOf(api).Elem())\n", sp.BasePath)
		_ = os.WriteFile(filepath.Join(dir, "driver", "main.go"), []byte(drv), 0o644)
		build := exec.Command("go", "build", "-o", filepath.Join(dir, "drv"), "./driver")
		build.Dir = dir
		build.Env = append(os.Environ(), "GOFLAGS=-mod=mod", "GOPROXY=off", "GOSUMDB=off", "GOTOOLCHAIN=local")
		bo, err := build.CombinedOutput()
		builds++
		if err != nil {
			// is it the generated code or the driver?
			gb := exec.Command("go", "build", "./restapi/...", "./client/...", "./models/...", "./cmd/...")
			gb.Dir = dir
			gb.Env = build.Env
			if gbo, gerr := gb.CombinedOutput(); gerr != nil {
				addV("C01", "c01/generated-code-does-not-build[operations-fragment]", "generate server/client exit 0 but the generated packages do not compile", specIn, tailS(string(gbo)))
				cov["build-error"]++
				continue
			}
			die("driver does not build: %s", tailS(string(bo)))
		}
		// ---- cases ----
		var cases []tcase
		validCreds := func(op *OSpec) creds {
			eff := sp.GlobalSecurity
			if op.HasSecurity {
				eff = op.Security
			}
			c := creds{}
			if len(eff) > 0 {
				for _, s := range eff[0] {
					switch strings.SplitN(s, ":", 2)[0] {
					case "key":
						c.key = "k-alice"
					case "qkey":
						c.qkey = "q-alice"
					case "basic":
						c.basic = "alice:wonderland"
					case "oauth":
						c.oauth = "t-rw"
						if strings.Contains(s, "admin") {
							c.oauth = "t-all" // the only token that holds the scope the scheme does not declare
						}
					}
				}
			}
			return c
		}
		formRequests := 0
		mkReq := func(op *OSpec, raws map[string][]string, c creds, body *string) tcase {
			path := sp.BasePath + op.Path
			q := url.Values{}
			var hs, form []kv
			isForm := false
			for i := range op.Params {
				p := &op.Params[i]
				vals, present := raws[p.Name]
				if p.In == "formData" {
					isForm = true
				}
				if !present {
					continue
				}
				switch p.In {
				case "path":
					path = strings.ReplaceAll(path, "{"+p.Name+"}", url.PathEscape(vals[len(vals)-1]))
				case "query":
					for _, v := range vals {
						q.Add(p.Name, v)
					}
				case "header":
					for _, v := range vals {
						hs = append(hs, kv{p.Name, v})
					}
				case "formData":
					for _, v := range vals {
						form = append(form, kv{p.Name, v})
					}
				}
			}
			if c.qkey != "" {
				q.Add("api_key", c.qkey)
			}
			if c.key != "" {
				hs = append(hs, kv{"X-Key", c.key})
			}
			if c.basic != "" {
				hs = append(hs, kv{"Authorization", "Basic " + base64.StdEncoding.EncodeToString([]byte(c.basic))})
			} else if c.oauth != "" {
				hs = append(hs, kv{"Authorization", "Bearer " + c.oauth})
			}
			u := path
			if len(q) > 0 {
				u += "?" + q.Encode()
			}
			tc := tcase{Mode: "http", Op: op.ID, Method: strings.ToUpper(op.Method), URL: u, Headers: hs, Respond: -1}
			if isForm {
				if form == nil {
					form = []kv{}
				}
				tc.Form = form
				// every other form request travels as multipart/form-data (the operations consume both encodings)
				formRequests++
				tc.Multipart = formRequests%2 == 0
				if tc.Multipart {
					cov["request:multipart-form"]++
				}
			}
			if body != nil {
				tc.Body = body
				tc.CType = "application/json"
			}
			return tc
		}
		okBody := `{"text":"hello","n":5}`
		for i := range sp.Ops {
			op := &sp.Ops[i]
			base := map[string][]string{}
			for j := range op.Params {
				base[op.Params[j].Name] = rawList(&op.Params[j], g.r)
			}
			var bodyp *string
			if op.Body > 0 {
				bodyp = &okBody
			}
			vc := validCreds(op)
			expectOf := func(raws map[string][]string, body *string, c creds, prop string) expectation {
				e := expectation{prop: prop, reach: true, values: map[string]interface{}{}}
				for j := range op.Params {
					p := &op.Params[j]
					vals, present := raws[p.Name]
					ok, v := refBind(p, vals, present)
					if !ok {
						e.reach = false
					}
					if v == nil && p.Default != nil {
						v = p.Default
					}
					e.values[p.GoName] = v
				}
				if op.Body > 0 {
					if body == nil {
						if op.Body == 2 {
							e.reach = false
						}
					} else {
						var m map[string]interface{}
						if json.Unmarshal([]byte(*body), &m) != nil {
							e.reach = false
						} else {
							t, tok := m["text"].(string)
							if !tok || utf8.RuneCountInString(t) < 1 {
								e.reach = false
							}
							if n, has := m["n"]; has {
								f, fok := n.(float64)
								if !fok || f < 0 || f > 100 || f != math.Trunc(f) {
									e.reach = false
								}
							}
						}
					}
				}
				_, sat, ps := refAuth(sp, op, c)
				if !sat {
					e.reach = false
					e.denyAuth = true
				}
				e.principals = ps
				return e
			}
			add := func(raws map[string][]string, body *string, c creds, prop, note string) {
				tc := mkReq(op, raws, c, body)
				tc.expect = expectOf(raws, body, c, prop)
				tc.note = note
				cases = append(cases, tc)
			}
			// C03: the valid request, then one deviation at a time
			add(base, bodyp, vc, "C03", "valid")
			for j := range op.Params {
				p := &op.Params[j]
				for _, dv := range deviations(p) {
					if p.In == "path" && (dv == nil || len(dv) == 0 || dv[len(dv)-1] == "" || strings.ContainsAny(dv[len(dv)-1], " /?#")) {
						continue // a path parameter is present by construction of the route
					}
					raws := map[string][]string{}
					for k, v := range base {
						raws[k] = v
					}
					if dv == nil {
						delete(raws, p.Name)
					} else {
						raws[p.Name] = dv
					}
					kind := "value"
					if dv == nil {
						kind = "absent"
					} else if len(dv) == 1 && dv[0] == "" {
						kind = "empty"
					} else if len(dv) > 1 {
						kind = "repeated"
					}
					cov["request:"+p.In+":"+kind]++
					add(raws, bodyp, vc, "C03", p.Name+"="+fmt.Sprint(dv))
					last := &cases[len(cases)-1]
					last.devParam, last.devRaws, last.devKey = p, dv, dv != nil
				}
			}
			if op.Body > 0 {
				for _, b := range []string{`{"text":"","n":5}`, `{"n":5}`, `{"text":"x","n":101}`, `{"text":"x","n":-1}`, `{"text":"x"}`, `{"text":"x","n":"five"}`, `not json`, `{"text":"x","n":0}`} {
					bb := b
					cov["request:body"]++
					add(base, &bb, vc, "C03", "body="+b)
				}
				cov["request:body:absent"]++
				add(base, nil, vc, "C03", "body absent")
			}
			// C06: every combination of presented credentials on the valid request
			for _, k := range []string{"", "k-alice", "bad"} {
				for _, qk := range []string{"", "q-alice"} {
					for _, au := range []string{"", "basic:alice:wonderland", "basic:alice:wrong", "oauth:t-read", "oauth:t-rw", "oauth:t-all", "oauth:bad"} {
						c := creds{key: k, qkey: qk}
						if strings.HasPrefix(au, "basic:") {
							c.basic = au[6:]
						} else if strings.HasPrefix(au, "oauth:") {
							c.oauth = au[6:]
						}
						cov["credentials"]++
						add(base, bodyp, c, "C06", fmt.Sprintf("creds key=%q qkey=%q auth=%q", k, qk, au))
						cases[len(cases)-1].creds, cases[len(cases)-1].paramsOK = c, true
					}
				}
			}
			// C06: unauthenticated AND invalid input: must be denied as unauthenticated, not answered as a validation error
			if _, sat, _ := refAuth(sp, op, creds{}); !sat && len(op.Params) > 0 {
				raws := map[string][]string{}
				for j := range op.Params {
					if op.Params[j].In == "path" {
						raws[op.Params[j].Name] = base[op.Params[j].Name]
					}
				}
				bad := `{"n":5}`
				var bp *string
				if op.Body > 0 {
					bp = &bad
				}
				cov["credentials:absent+invalid-input"]++
				add(raws, bp, creds{}, "C06", "no credentials and invalid input")
				cases[len(cases)-1].paramsOK = false
			}
			// C04: client calls
			cparams := map[string]interface{}{}
			for j := range op.Params {
				p := &op.Params[j]
				raw := validRaw(p, g.r)
				if p.Type == "array" && p.Inner != nil {
					_, v := refBind(p, []string{raw}, true)
					cparams[p.GoName] = v
				} else if p.Type == "array" {
					var arr []interface{}
					its := splitByFormat(raw, p.CFmt)
					if p.CFmt == "multi" {
						its = strings.Split(raw, "\x00")
					}
					for _, it := range its {
						v, _ := parseScalar(p.ItemType, p.ItemFormat, it)
						arr = append(arr, v)
					}
					cparams[p.GoName] = arr
				} else {
					v, _ := parseScalar(p.Type, p.Format, raw)
					cparams[p.GoName] = v
				}
			}
			if op.Body > 0 {
				cparams["Body"] = map[string]interface{}{"text": "hello", "n": 5}
			}
			variants := []map[string]interface{}{cparams}
			// required + allowEmptyValue parameters: the empty value is spec-conforming
			for j := range op.Params {
				p := &op.Params[j]
				if p.Required && p.AllowEmpty && p.Type == "string" && len(p.Enum) == 0 && p.Format == "" && p.MinLen == nil {
					v2 := map[string]interface{}{}
					for k, v := range cparams {
						v2[k] = v
					}
					v2[p.GoName] = ""
					variants = append(variants, v2)
					cov["client:empty-value-of-required-allowEmptyValue:"+p.In]++
				}
			}
			authStr := ""
			if vc.key != "" {
				authStr = "key:" + vc.key
			} else if vc.basic != "" {
				authStr = "basic:" + vc.basic
			} else if vc.oauth != "" {
				authStr = "bearer:" + vc.oauth
			}
			clientOK := vc.qkey == "" && !(vc.key != "" && (vc.basic != "" || vc.oauth != "")) // one credential writer per call
			if clientOK {
				for vi, cp := range variants {
					cpj, _ := json.Marshal(cp)
					resps := append([]RSpec{}, op.Responses...)
					hasDef := false
					for _, x := range op.Responses {
						if x.Code == 0 {
							hasDef = true
						}
					}
					if !hasDef {
						resps = append(resps, RSpec{Code: -1}) // a code the spec does not declare (501 from NotImplemented)
					}
					for ri, rr := range resps {
						if vi > 0 && ri > 0 {
							break
						}
						tc := tcase{Mode: "client", Op: op.ID, Params: cpj, Respond: rr.Code, Auth: authStr}
						e := expectation{prop: "C04", reach: true, values: cp}
						switch {
						case rr.Code == -1:
							e.clientType, e.clientCode = "APIError", 501
							hasDefault := false
							for _, x := range op.Responses {
								if x.Code == 0 {
									hasDefault = true
								}
							}
							if hasDefault {
								e.clientType = opGo(op.ID) + "Default"
							}
						case rr.Code == 0:
							tc.RespCode = 418
							e.clientType, e.clientCode = opGo(op.ID)+"Default", 418
						default:
							e.clientType, e.clientCode = opGo(op.ID)+goType(rr.Code), rr.Code
						}
						if rr.Body && rr.Code != -1 {
							tc.Payload = json.RawMessage(`{"text":"pong","n":7}`)
							e.payload = map[string]interface{}{"text": "pong", "n": float64(7)}
						}
						if rr.File && rr.Code != -1 {
							tc.Payload = json.RawMessage(`"streamed bytes \u00e9\n\u0000 end"`)
							e.payload = "streamed bytes \u00e9\n\x00 end"
						}
						if len(rr.Headers) > 0 {
							tc.RespHeaders, e.headers = map[string]string{}, map[string]string{}
							for _, h := range rr.Headers {
								if h.Format == "date-time" {
									tc.RespHeaders[h.GoName], e.headers[h.GoName] = "2021-03-04T05:06:07Z", "2021-03-04T05:06:07.000Z"
								} else {
									tc.RespHeaders[h.GoName], e.headers[h.GoName] = "42", "42"
								}
							}
						}
						tc.expect = e
						cov[fmt.Sprintf("client:response:%d", rr.Code)]++
						cases = append(cases, tc)
					}
				}
			}
		}
		cb, _ := json.Marshal(cases)
		cf, rf := filepath.Join(dir, "cases.json"), filepath.Join(dir, "results.json")
		_ = os.WriteFile(cf, cb, 0o644)
		run := exec.Command(filepath.Join(dir, "drv"), cf, rf)
		if ro, err := run.CombinedOutput(); err != nil {
			if strings.Contains(string(ro), "api.Validate") {
				addV("C08", "c08/api-validate-fails", "the generated API does not validate although every handler is registered", specIn, tailS(string(ro)))
				continue
			}
			die("driver failed: %v %s", err, tailS(string(ro)))
		}
		var results []tresult
		rb, _ := os.ReadFile(rf)
		if err := json.Unmarshal(rb, &results); err != nil || len(results) != len(cases) {
			die("driver results unreadable")
		}
		// ---- compare ----
		for i := range cases {
			c, res := &cases[i], &results[i]
			e := c.expect
			evals[e.prop]++
			in := map[string]interface{}{"spec": json.RawMessage(specJSON), "custom_principal": customPrincipal, "operation": c.Op, "case": c.note,
				"request": map[string]interface{}{"method": c.Method, "url": c.URL, "headers": c.Headers, "form": c.Form, "body": c.Body}}
			if res.Panic != "" {
				addV(e.prop, strings.ToLower(e.prop)+"/panic", "the generated code panics", in, res.Panic)
				continue
			}
			reached := res.Reached != ""
			if reached && res.Reached != c.Op {
				addV("C08", "c08/misrouted", fmt.Sprintf("a request for %s reached the handler of %s", c.Op, res.Reached), in, nil)
			}
			opSpec := findOp(sp, c.Op)
			if e.reach && !reached && (res.Status == 404 || res.Status == 405) && opSpec != nil && !routeMiss[fmt.Sprintf("%d/%s", si, c.Op)] {
				routeMiss[fmt.Sprintf("%d/%s", si, c.Op)] = true
				kind := "path"
				if opSpec.Path == "/" {
					kind = "root-path"
				}
				if sp.BasePath != "" {
					kind += "+basePath"
				}
				addV("C08", "c08/route-missing["+kind+"]", fmt.Sprintf("a valid request to %s %s is answered %d: the router does not know the handler generated for %s", strings.ToUpper(opSpec.Method), opSpec.Path, res.Status, c.Op), in, nil)
			}
			switch e.prop {
			case "C03":
				if reached != e.reach {
					kind := "handler-not-reached-for-valid-request"
					if reached {
						kind = "handler-reached-for-invalid-request"
					}
					cls := paramClass(opSpec, c.note)
					if reached && c.devParam != nil && c.devParam.Inner != nil {
						uniqueAsText = true
						if ok, _ := refBind(c.devParam, c.devRaws, c.devKey); ok {
							cls = "nested-array-uniqueItems-compared-as-text"
						}
						uniqueAsText = false
					}
					addV("C03", "c03/"+kind+"["+cls+"]", "the generated server and the reference binder disagree on "+c.note, in,
						map[string]interface{}{"status": res.Status, "reached": reached, "expected_reach": e.reach, "params": res.Params})
				} else if !reached && (res.Status < 400 || res.Status >= 500) {
					addV("C03", "c03/rejection-status-not-4xx", fmt.Sprintf("an invalid request is answered with %d", res.Status), in, nil)
				} else if reached {
					if d := valuesDiff(e.values, res.Params); d != "" {
						addV("C03", "c03/bound-values-differ["+paramClass(opSpec, c.note)+"]", "the parameter struct handed to the handler does not hold the values carried by the request: "+d, in,
							map[string]interface{}{"expected": e.values, "params": res.Params})
					}
				}
			case "C06":
				switch {
				case e.reach && !reached:
					addV("C06", "c06/authorized-request-denied", "a request satisfying the effective security requirement does not reach the handler ("+c.note+")", in, map[string]interface{}{"status": res.Status})
				case !e.reach && reached:
					addV("C06", "c06/handler-reached-without-authorization", "the handler runs although no alternative of the security requirement is satisfied ("+c.note+")", in, map[string]interface{}{"principal": res.Principal})
				case !e.reach && e.denyAuth && res.Status != 401 && res.Status != 403:
					addV("C06", "c06/deny-status", fmt.Sprintf("an unauthorized request is answered with %d instead of 401/403 (%s)", res.Status, c.note), in, nil)
				case reached:
					okp := false
					for _, p := range e.principals {
						if p == "" && (res.Principal == "" || res.Principal == "<nil>") {
							okp = true
						}
						if p != "" && strings.Contains(res.Principal, p) {
							okp = true
						}
					}
					if !okp {
						addV("C06", "c06/wrong-principal", fmt.Sprintf("the handler received principal %q, expected one of %v", res.Principal, e.principals), in, nil)
					}
				}
			case "C04":
				in["client_params"] = c.Params
				in["handler_answers"] = c.Respond
				if !reached {
					addV("C04", "c04/valid-call-does-not-reach-handler["+clientClass(opSpec, c.Params)+"]", "a client call with spec-conforming values is not handed to the server handler: "+res.ClientErr, in,
						map[string]interface{}{"client_error": res.ClientErr, "client_type": res.ClientType, "client_code": res.ClientCode})
					continue
				}
				if d := valuesDiff(e.values, res.Params); d != "" {
					addV("C04", "c04/values-differ", "the server handler does not see the values given to the client: "+d, in, map[string]interface{}{"given": e.values, "seen": res.Params})
				}
				if res.ClientType != e.clientType || (e.clientCode != 0 && res.ClientCode != e.clientCode && res.ClientCode != 0) {
					addV("C04", "c04/response-classification", fmt.Sprintf("the client returned %s (code %d), expected %s (code %d)", res.ClientType, res.ClientCode, e.clientType, e.clientCode), in,
						map[string]interface{}{"client_error": res.ClientErr})
				} else {
					// a declared 2xx code is the typed result of the call, every other declared code (and default) its typed error
					if declared2xx := e.clientCode/100 == 2 && e.clientType != "APIError" && !strings.HasSuffix(e.clientType, "Default"); declared2xx != (res.ClientErr == "") {
						addV("C04", "c04/result-vs-error", fmt.Sprintf("the client returned %s (code %d) as %s", res.ClientType, res.ClientCode, map[bool]string{true: "an error although the code is a declared 2xx code", false: "a result although the code is not a declared 2xx code"}[declared2xx]), in,
							map[string]interface{}{"client_error": res.ClientErr})
					}
					if e.payload != nil {
						var got interface{}
						_ = json.Unmarshal(res.ClientPayload, &got)
						if !reflect.DeepEqual(got, e.payload) {
							addV("C04", "c04/payload-differs", "the payload returned by the client differs from the one the handler answered with", in, map[string]interface{}{"got": got, "want": e.payload})
						}
					}
					for k, v := range e.headers {
						if res.ClientHeaders[k] != v {
							addV("C04", "c04/header-differs", "a response header is not carried to the typed client result", in, map[string]interface{}{"got": res.ClientHeaders, "want": e.headers})
						}
					}
				}
			}
			if cc := coqCase(sp, opSpec, c, res, reached); cc != "" && len(coq[e.prop]) < 1500 {
				coq[e.prop] = append(coq[e.prop], cc)
			}
			if len(samples[e.prop]) < 3 && i%17 == 3 {
				samples[e.prop] = append(samples[e.prop], map[string]interface{}{"operation": c.Op, "case": c.note, "url": c.URL, "status": res.Status, "reached": res.Reached, "params": res.Params, "client_type": res.ClientType})
			}
		}
		_ = os.RemoveAll(dir)
	}
	// function-level cases for the collection formats (swag.SplitByFormat / JoinByFormat are what the generated code calls)
	fr := rng.New(*seed + 99)
	frag := []string{"a", "b", " ", "", "x y", ",", "|", "\t", "1", " lead", "trail ", "é", "a,b", "  "}
	for i := 0; i < 600; i++ {
		cf := []string{"csv", "ssv", "tsv", "pipes"}[fr.Intn(4)]
		n := fr.Intn(5)
		var items []string
		for j := 0; j < n; j++ {
			items = append(items, frag[fr.Intn(len(frag))]+frag[fr.Intn(len(frag))])
		}
		joined := ""
		if jl := swag.JoinByFormat(items, cf); len(jl) > 0 {
			joined = jl[0]
		}
		back := swag.SplitByFormat(joined, cf)
		sep := int(sepOf[cf][0])
		if len(items) > 0 {
			coq["C04"] = append(coq["C04"], fmt.Sprintf("CJ {| j_sep := %d%%N; j_items := %s; j_joined := %s |}", sep, coqpp.StrList(items), coqpp.Str(joined)))
		}
		sc := fmt.Sprintf("CS {| s_sep := %d%%N; s_raw := %s; s_items := %s |}", sep, coqpp.Str(joined), coqpp.StrList(back))
		coq["C04"] = append(coq["C04"], sc)
		coq["C03"] = append(coq["C03"], sc)
	}
	// C04: the text written for integer and boolean values
	for _, z := range []int64{0, 1, -1, 7, 10, -10, 99, 100, 255, 256, 65535, 65536, 1000000, -1000000, 2147483647, -2147483648, 4294967295, 9007199254740993, 9223372036854775807, -9223372036854775808} {
		coq["C04"] = append(coq["C04"], fmt.Sprintf("CF {| f_val := VInt %s; f_text := %s |}", coqpp.Z(z), coqpp.Str(swag.FormatInt64(z))))
	}
	for i := 0; i < 40; i++ {
		z := int64(r.U64())
		coq["C04"] = append(coq["C04"], fmt.Sprintf("CF {| f_val := VInt %s; f_text := %s |}", coqpp.Z(z), coqpp.Str(swag.FormatInt64(z))))
		z32 := int32(r.U64())
		coq["C04"] = append(coq["C04"], fmt.Sprintf("CF {| f_val := VInt %s; f_text := %s |}", coqpp.Z(int64(z32)), coqpp.Str(swag.FormatInt32(z32))))
	}
	coq["C04"] = append(coq["C04"], "CF {| f_val := VBool true; f_text := "+coqpp.Str(swag.FormatBool(true))+" |}", "CF {| f_val := VBool false; f_text := "+coqpp.Str(swag.FormatBool(false))+" |}",
		"CF {| f_val := VInt 18446744073709551615%Z; f_text := "+coqpp.Str(swag.FormatUint64(18446744073709551615))+" |}")
	for prop, cs := range coq {
		d := filepath.Join(*out, "coq-"+prop)
		_ = os.MkdirAll(d, 0o755)
		shards := 4
		for sh := 0; sh < shards; sh++ {
			var part []string
			for i, c := range cs {
				if i%shards == sh {
					part = append(part, c)
				}
			}
			text := "From GS Require Import Base.Str Tools.GenServer Tools.GenServerRun.\nDefinition cases : list anycase := [\n" + strings.Join(part, ";\n") +
				"\n].\nDefinition M := Eval vm_compute in run_cases cases.\nPrint M.\n"
			_ = os.WriteFile(filepath.Join(d, fmt.Sprintf("cases_%02d.v", sh)), []byte(text), 0o644)
		}
	}
	for _, prop := range []string{"C03", "C04", "C06", "C08", "C01"} {
		vs := viols[prop]
		if vs == nil {
			vs = []violation{}
		}
		sort.Slice(vs, func(i, j int) bool { return vs[i].Key < vs[j].Key })
		n := evals[prop]
		if prop == "C08" || prop == "C01" {
			n = evals["C03"] + evals["C04"] + evals["C06"]
		}
		rep := map[string]interface{}{
			"evaluations": n, "distinct_nontrivial": n,
			"rule":    "specs of ~14 generated operations: path/query/header/formData/body parameters of every scalar type and integer format (incl. unsigned), arrays in every collectionFormat, required / optional / allowEmptyValue / default, every validation; declared 2xx, non-2xx and default responses with and without payload and headers; every security shape (inherit, none, single, AND, OR, mix; apiKey header/query, basic, oauth2 scopes); root path and base path variants; half of the specs generated with a custom principal type. Server and client are generated, compiled and driven in-process. C03: a valid request plus one deviation per parameter (absent, empty, malformed, boundary, repeated key) and body variants; C06: all 36 credential combinations per operation plus unauthenticated+invalid input; C04: client calls with valid values (and the empty value of required allowEmptyValue parameters) x every declared response, default and an undeclared code. Every case is distinct (operation, deviation) and non-trivial.",
			"samples": samples[prop], "coverage": cov, "violations": vs, "builds": builds, "model_cases": len(coq[prop]),
		}
		b, _ := json.MarshalIndent(rep, "", " ")
		_ = os.WriteFile(filepath.Join(*out, strings.ToLower(prop)+".json"), b, 0o644)
	}
	fmt.Printf("servercheck: C03 %d cases/%d violations, C04 %d/%d, C06 %d/%d, C08 %d, C01 %d\n", evals["C03"], len(viols["C03"]), evals["C04"], len(viols["C04"]), evals["C06"], len(viols["C06"]), len(viols["C08"]), len(viols["C01"]))
}

func findOp(sp *Spec, id string) *OSpec {
	for i := range sp.Ops {
		if sp.Ops[i].ID == id {
			return &sp.Ops[i]
		}
	}
	return nil
}

// paramClass: a stable class for a deviation: location, type/format, required/allowEmpty flags, kind of deviation
func paramClass(op *OSpec, note string) string {
	name := note
	if i := strings.Index(note, "="); i >= 0 {
		name = note[:i]
	}
	if op != nil {
		for i := range op.Params {
			p := &op.Params[i]
			if p.Name == name {
				f := ""
				if p.Required {
					f += "required"
				} else {
					f += "optional"
				}
				if p.AllowEmpty {
					f += "+allowEmptyValue"
				}
				t := p.Type
				if p.Format != "" {
					t += "." + p.Format
				}
				if p.Type == "array" {
					t += "[" + p.ItemType + "," + p.CFmt + "]"
				}
				return p.In + ":" + t + ":" + f
			}
		}
	}
	if strings.HasPrefix(note, "body") {
		return "body"
	}
	return "request"
}

func clientClass(op *OSpec, params json.RawMessage) string {
	var m map[string]interface{}
	_ = json.Unmarshal(params, &m)
	if op != nil {
		for i := range op.Params {
			p := &op.Params[i]
			if v, ok := m[p.GoName]; ok && v == "" && p.AllowEmpty {
				return p.In + ":empty-value-of-required-allowEmptyValue"
			}
		}
	}
	return "valid-values"
}

// valuesDiff compares expected values (by Go field name) with the JSON of the params struct seen by the handler
func valuesDiff(want map[string]interface{}, got json.RawMessage) string {
	var g map[string]interface{}
	if err := json.Unmarshal(got, &g); err != nil {
		return "params not readable"
	}
	var names []string
	for k := range want {
		names = append(names, k)
	}
	sort.Strings(names)
	for _, k := range names {
		w := want[k]
		v, ok := g[k]
		if !ok {
			return k + ": field missing"
		}
		if !sameValue(w, v) {
			return fmt.Sprintf("%s: expected %v, handler saw %v", k, w, v)
		}
	}
	return ""
}

func isZeroish(v interface{}) bool {
	switch x := v.(type) {
	case nil:
		return true
	case string:
		return x == "" || x == "0001-01-01" || strings.HasPrefix(x, "0001-01-01T")
	case float64:
		return x == 0
	case bool:
		return !x
	case []interface{}:
		return len(x) == 0
	}
	return false
}

func sameValue(w, v interface{}) bool {
	if w == nil {
		return isZeroish(v) // absent: nil pointer or zero value
	}
	switch x := w.(type) {
	case []interface{}:
		y, ok := v.([]interface{})
		if !ok || len(x) != len(y) {
			return false
		}
		for i := range x {
			if !sameValue(x[i], y[i]) {
				return false
			}
		}
		return true
	case map[string]interface{}:
		y, ok := v.(map[string]interface{})
		if !ok {
			return false
		}
		for k, e := range x {
			if !sameValue(e, y[k]) {
				return false
			}
		}
		return true
	case int:
		f, ok := v.(float64)
		return ok && f == float64(x)
	case float64:
		f, ok := v.(float64)
		return ok && (f == x || math.Abs(f-x) < 1e-6*math.Max(1, math.Abs(x)))
	case string:
		s, ok := v.(string)
		if !ok {
			return false
		}
		if s == x {
			return true
		}
		// date-time values may be re-rendered with fractional seconds
		t1, e1 := time.Parse(time.RFC3339, x)
		t2, e2 := time.Parse(time.RFC3339Nano, s)
		return e1 == nil && e2 == nil && t1.Equal(t2)
	}
	return reflect.DeepEqual(w, v)
}

func tailS(s string) string {
	if len(s) > 1500 {
		return s[len(s)-1500:]
	}
	return s
}

// ---- Gallina rendering of observed cases (Tools/GenServerRun.v) ----
func intRange(format string) (string, string) {
	switch format {
	case "int32":
		return "(-2147483648)%Z", "2147483647%Z"
	case "uint8":
		return "0%Z", "255%Z"
	case "uint32":
		return "0%Z", "4294967295%Z"
	case "uint64":
		return "0%Z", "18446744073709551615%Z"
	}
	return "(-9223372036854775808)%Z", "9223372036854775807%Z"
}

func sparamCoq(p *PSpec) (string, bool) {
	var ty string
	switch {
	case p.Type == "string" && p.Format == "":
		ty = fmt.Sprintf("(PStr %s %s %s)", coqpp.OptZ(p.MinLen), coqpp.OptZ(p.MaxLen), coqpp.StrList(p.Enum))
	case p.Type == "integer":
		lo, hi := intRange(p.Format)
		ty = fmt.Sprintf("(PInt %s %s %s %s %s %s)", lo, hi, coqpp.OptZ(p.Min), coqpp.Bool(p.XMin), coqpp.OptZ(p.Max), coqpp.Bool(p.XMax))
	case p.Type == "boolean":
		ty = "PBool"
	default:
		return "", false
	}
	return fmt.Sprintf("{| sp_path := %s; sp_header := %s; sp_required := %s; sp_allow_empty := %s; sp_type := %s |}",
		coqpp.Bool(p.In == "path"), coqpp.Bool(p.In == "header"), coqpp.Bool(p.Required), coqpp.Bool(p.AllowEmpty), ty), true
}

func aparamCoq(p *PSpec) (string, bool) {
	if p.In == "path" || len(p.Enum) > 0 || p.Inner != nil {
		return "", false
	}
	var el string
	switch {
	case p.ItemType == "string" && p.ItemFormat == "":
		el = "(PStr None None [])"
	case p.ItemType == "integer":
		lo, hi := intRange(p.ItemFormat)
		el = fmt.Sprintf("(PInt %s %s %s false None false)", lo, hi, coqpp.OptZ(p.ItemMin))
	case p.ItemType == "boolean":
		el = "PBool"
	default:
		return "", false
	}
	sep := map[string]int{"": 44, "csv": 44, "ssv": 32, "tsv": 9, "pipes": 124, "multi": 44}[p.CFmt]
	return fmt.Sprintf("{| ap_required := %s; ap_allow_empty := %s; ap_multi := %s; ap_sep := %d%%N; ap_elem := %s; ap_minitems := %s; ap_maxitems := %s; ap_unique := %s |}",
		coqpp.Bool(p.Required), coqpp.Bool(p.AllowEmpty), coqpp.Bool(p.CFmt == "multi"), sep, el, coqpp.OptZ(p.MinItems), coqpp.OptZ(p.MaxItems), coqpp.Bool(p.Unique)), true
}

var sepCode = map[string]int{"": 44, "csv": 44, "ssv": 32, "tsv": 9, "pipes": 124}

func nitemsCoq(is *ISpec) (string, bool) {
	var inner string
	if is.Inner != nil {
		x, ok := nitemsCoq(is.Inner)
		if !ok {
			return "", false
		}
		inner = x
	} else {
		switch {
		case is.Type == "string" && is.Format == "":
			inner = fmt.Sprintf("(NLeaf (PStr %s None []))", coqpp.OptZ(is.MinLen))
		case is.Type == "integer":
			lo, hi := intRange(is.Format)
			inner = fmt.Sprintf("(NLeaf (PInt %s %s %s false None false))", lo, hi, coqpp.OptZ(is.Min))
		case is.Type == "boolean":
			inner = "(NLeaf PBool)"
		default:
			return "", false
		}
	}
	return fmt.Sprintf("(NArr %d%%N %s %s %s %s)", sepCode[is.CFmt], coqpp.OptZ(is.MinItems), coqpp.OptZ(is.MaxItems), coqpp.Bool(is.Unique), inner), true
}

func nparamCoq(p *PSpec) (string, bool) {
	if p.In == "path" || p.CFmt == "multi" {
		return "", false
	}
	it, ok := nitemsCoq(p.Inner)
	if !ok {
		return "", false
	}
	return fmt.Sprintf("{| np_required := %s; np_allow_empty := %s; np_sep := %d%%N; np_items := %s; np_minitems := %s; np_maxitems := %s; np_unique := %s |}",
		coqpp.Bool(p.Required), coqpp.Bool(p.AllowEmpty), sepCode[p.CFmt], it, coqpp.OptZ(p.MinItems), coqpp.OptZ(p.MaxItems), coqpp.Bool(p.Unique)), true
}

func nvalueCoq(e interface{}) string {
	switch v := e.(type) {
	case string:
		return "NV (VStr " + coqpp.Str(v) + ")"
	case float64:
		return "NV (VInt " + coqpp.Z(int64(v)) + ")"
	case bool:
		return "NV (VBool " + coqpp.Bool(v) + ")"
	case []interface{}:
		var vs []string
		for _, x := range v {
			vs = append(vs, nvalueCoq(x))
		}
		return "NL " + coqpp.List(vs)
	}
	return "NL []"
}

func coqCase(sp *Spec, op *OSpec, c *tcase, res *tresult, reached bool) string {
	switch c.expect.prop {
	case "C03":
		p := c.devParam
		if p == nil || p.Default != nil {
			return ""
		}
		if p.Type == "array" && p.Inner != nil {
			np, ok := nparamCoq(p)
			if !ok {
				return ""
			}
			hk := c.devKey || p.In == "header"
			val := "None"
			if reached {
				var g map[string]interface{}
				_ = json.Unmarshal(res.Params, &g)
				if l, ok := g[p.GoName].([]interface{}); ok {
					var vs []string
					for _, e := range l {
						vs = append(vs, nvalueCoq(e))
					}
					val = "(Some " + coqpp.List(vs) + ")"
				}
			}
			return fmt.Sprintf("CN {| na_param := %s; na_raws := %s; na_has_key := %s; na_reached := %s; na_values := %s |}", np, coqpp.StrList(c.devRaws), coqpp.Bool(hk), coqpp.Bool(reached), val)
		}
		if p.Type == "array" {
			ap, ok := aparamCoq(p)
			if !ok {
				return ""
			}
			hk := c.devKey || p.In == "header"
			val := "None"
			if reached {
				var g map[string]interface{}
				_ = json.Unmarshal(res.Params, &g)
				if l, ok := g[p.GoName].([]interface{}); ok {
					var vs []string
					for _, e := range l {
						switch v := e.(type) {
						case string:
							vs = append(vs, "VStr "+coqpp.Str(v))
						case float64:
							vs = append(vs, "VInt "+coqpp.Z(int64(v)))
						case bool:
							vs = append(vs, "VBool "+coqpp.Bool(v))
						}
					}
					val = "(Some " + coqpp.List(vs) + ")"
				}
			}
			return fmt.Sprintf("CR {| ra_param := %s; ra_raws := %s; ra_has_key := %s; ra_reached := %s; ra_values := %s |}", ap, coqpp.StrList(c.devRaws), coqpp.Bool(hk), coqpp.Bool(reached), val)
		}
		ps, ok := sparamCoq(p)
		if !ok {
			return ""
		}
		hk := c.devKey || p.In == "header"
		val := "None"
		if reached {
			var g map[string]interface{}
			_ = json.Unmarshal(res.Params, &g)
			switch v := g[p.GoName].(type) {
			case string:
				if v != "" || (len(c.devRaws) > 0 && c.devRaws[len(c.devRaws)-1] != "") {
					val = "(Some (VStr " + coqpp.Str(v) + "))"
				}
			case float64:
				if len(c.devRaws) > 0 && c.devRaws[len(c.devRaws)-1] != "" {
					val = "(Some (VInt " + coqpp.Z(int64(v)) + "))"
				}
			case bool:
				if len(c.devRaws) > 0 && c.devRaws[len(c.devRaws)-1] != "" {
					val = "(Some (VBool " + coqpp.Bool(v) + "))"
				}
			}
		}
		return fmt.Sprintf("CB {| b_param := %s; b_raws := %s; b_has_key := %s; b_reached := %s; b_value := %s |}", ps, coqpp.StrList(c.devRaws), coqpp.Bool(hk), coqpp.Bool(reached), val)
	case "C06":
		if op == nil {
			return ""
		}
		eff := sp.GlobalSecurity
		if op.HasSecurity {
			eff = op.Security
		}
		var alts []string
		answers := map[string]string{}
		for _, alt := range eff {
			alts = append(alts, coqpp.StrList(alt))
			for _, s := range alt {
				name := strings.SplitN(s, ":", 2)[0]
				presented := map[string]string{"key": c.creds.key, "qkey": c.creds.qkey, "basic": c.creds.basic, "oauth": c.creds.oauth}[name]
				if presented == "" {
					answers[s] = "NotApplicable"
				} else if ok, pr := schemeOK(s, c.creds); ok {
					answers[s] = "(Principal " + coqpp.Str(pr) + ")"
				} else {
					answers[s] = "AuthError"
				}
			}
		}
		var as []string
		for k, v := range answers {
			as = append(as, "("+coqpp.Str(k)+", "+v+")")
		}
		sort.Strings(as)
		kind := 1
		switch {
		case reached:
			kind = 2
		case res.Status == 401 || res.Status == 403:
			kind = 0
		}
		pr := res.Principal
		if pr == "<nil>" {
			pr = ""
		}
		// the custom principal prints as &{name}
		pr = strings.TrimSuffix(strings.TrimPrefix(pr, "&{"), "}")
		return fmt.Sprintf("CA {| a_req := %s; a_answers := %s; a_params_ok := %s; a_kind := %d; a_principal := %s |}", coqpp.List(alts), coqpp.List(as), coqpp.Bool(c.paramsOK), kind, coqpp.Str(pr))
	case "C04":
		if op == nil || !reached {
			return ""
		}
		var decl []string
		hasDef := false
		for _, r := range op.Responses {
			if r.Code == 0 {
				hasDef = true
			} else {
				decl = append(decl, coqpp.Z(int64(r.Code)))
			}
		}
		code := c.Respond
		if code == -1 {
			code = 501
		} else if code == 0 {
			code = c.RespCode
		}
		kind := 0
		switch {
		case res.ClientType == "APIError":
			kind = 2
		case strings.HasSuffix(res.ClientType, "Default"):
			kind = 1
		}
		return fmt.Sprintf("CC {| c_declared := %s; c_default := %s; c_code := %s; c_kind := %d; c_obs_code := %s |}", coqpp.List(decl), coqpp.Bool(hasDef), coqpp.Z(int64(code)), kind, coqpp.Z(int64(res.ClientCode)))
	}
	return ""
}

package main

// driverTmpl is the program compiled next to the generated server and client. It is generic (reflection) except for
// the per-operation registrations that the harness fills in (%[1]s handlers, %[2]s client params, %[3]s responders, %[4]s auth).
const driverTmpl = `package main

import (
	"mime/multipart"
	"bytes"
	"encoding/json"
	"fmt"
	"io"
	"net/http"
	"net/http/httptest"
	"net/url"
	"os"
	"reflect"
	"strings"

	"github.com/go-openapi/errors"
	"github.com/go-openapi/loads"
	"github.com/go-openapi/runtime"
	httptransport "github.com/go-openapi/runtime/client"
	"github.com/go-openapi/runtime/middleware"
	"github.com/go-openapi/strfmt"

	apiclient "scratchgen/client"
	clientops "scratchgen/client/operations"
	"scratchgen/restapi"
	"scratchgen/restapi/operations"
)

var _ = errors.New
var _ = clientops.New

type kv struct{ K, V string }

type tcase struct {
	Mode    string // "http" | "client"
	Op      string
	Method  string
	URL     string // path + query, already encoded
	Headers []kv
	Form    []kv
	Multipart bool // the form is sent as multipart/form-data instead of application/x-www-form-urlencoded
	Body    *string
	CType   string
	// client mode
	Params  json.RawMessage // fields of the client params struct
	Respond int             // status code the handler answers with (0 = default response, -1 = not implemented)
	RespCode int            // status to use with the default response
	Payload json.RawMessage
	RespHeaders map[string]string
	Auth    string // client mode: "" | "key:<v>" | "basic:<u>:<p>" | "bearer:<t>"
}

type tresult struct {
	Status    int
	Reached   string          // operation id whose handler ran ("" if none)
	Params    json.RawMessage // what the handler saw
	Principal string
	// client mode
	ClientType    string          // Go type name of the value or error returned by the client method
	ClientCode    int             // status code reported by an API error
	ClientPayload json.RawMessage
	ClientHeaders map[string]string
	ClientErr     string
	Panic         string
}

var (
	current   *tresult
	curCase   *tcase
	responders = map[string]map[int]func() middleware.Responder{}
	newParams  = map[string]func() interface{}{}
)

// record what the handler sees; answer as the case asks
func handle(op string, args []reflect.Value, rt reflect.Type) []reflect.Value {
	current.Reached = op
	p := reflect.New(args[0].Type()).Elem()
	p.Set(args[0])
	if f := p.FieldByName("HTTPRequest"); f.IsValid() {
		f.Set(reflect.Zero(f.Type()))
	}
	if b, err := json.Marshal(p.Interface()); err == nil {
		current.Params = b
	} else {
		current.Params = json.RawMessage(fmt.Sprintf("%%q", "unmarshalable: "+err.Error()))
	}
	if len(args) > 1 {
		current.Principal = fmt.Sprint(args[1].Interface())
	}
	var resp middleware.Responder = middleware.NotImplemented("recorded")
	if curCase != nil && curCase.Respond >= 0 && curCase.Mode == "client" {
		if mk, ok := responders[op][curCase.Respond]; ok {
			r := mk()
			rv := reflect.ValueOf(r).Elem()
			if f := rv.FieldByName("Payload"); f.IsValid() && len(curCase.Payload) > 0 {
				if f.Kind() == reflect.Interface {
					// a stream of bytes: the case carries its content as a JSON string
					var content string
					_ = json.Unmarshal(curCase.Payload, &content)
					f.Set(reflect.ValueOf(io.NopCloser(strings.NewReader(content))))
				} else {
					_ = json.Unmarshal(curCase.Payload, f.Addr().Interface())
				}
			}
			for name, val := range curCase.RespHeaders {
				if f := rv.FieldByName(name); f.IsValid() {
					switch f.Kind() {
					case reflect.String:
						f.SetString(val)
					case reflect.Int64, reflect.Int32:
						var n int64
						fmt.Sscan(val, &n)
						f.SetInt(n)
					case reflect.Struct:
						if dt, err := strfmt.ParseDateTime(val); err == nil && f.Type() == reflect.TypeOf(dt) {
							f.Set(reflect.ValueOf(dt))
						}
					}
				}
			}
			if curCase.Respond == 0 {
				if m := reflect.ValueOf(r).MethodByName("SetStatusCode"); m.IsValid() {
					m.Call([]reflect.Value{reflect.ValueOf(curCase.RespCode)})
				}
			}
			resp = r
		}
	}
	out := reflect.New(rt.Out(0)).Elem()
	out.Set(reflect.ValueOf(resp))
	return []reflect.Value{out}
}

func mk(proto interface{}, op string) interface{} {
	t := reflect.TypeOf(proto)
	return reflect.MakeFunc(t, func(args []reflect.Value) []reflect.Value { return handle(op, args, t) }).Interface()
}

func main() {
	swaggerSpec, err := loads.Embedded(restapi.SwaggerJSON, restapi.FlatSwaggerJSON)
	if err != nil {
		panic(err)
	}
	api := operations.NewVerifapiAPI(swaggerSpec)
	api.Logger = func(string, ...interface{}) {}
%[1]s
%[4]s
%[3]s
%[2]s
	if err := api.Validate(); err != nil {
		fmt.Fprintln(os.Stderr, "api.Validate:", err)
		os.Exit(3)
	}
	handler := api.Serve(nil)
	srv := httptest.NewServer(handler)
	defer srv.Close()
	u, _ := url.Parse(srv.URL)
	tr := httptransport.New(u.Host, "%[5]s", []string{"http"})
	// the runtime client only knows the standard media types: a custom JSON media type is registered by the application
	tr.Consumers["application/vnd.verif+json"] = runtime.JSONConsumer()
	tr.Producers["application/vnd.verif+json"] = runtime.JSONProducer()
	cli := apiclient.New(tr, strfmt.Default)

	b, _ := os.ReadFile(os.Args[1])
	var cases []tcase
	if err := json.Unmarshal(b, &cases); err != nil {
		panic(err)
	}
	results := make([]tresult, len(cases))
	for i := range cases {
		c := &cases[i]
		current = &results[i]
		curCase = c
		func() {
			defer func() {
				if e := recover(); e != nil {
					current.Panic = fmt.Sprint(e)
				}
			}()
			switch c.Mode {
			case "http":
				var body io.Reader
				if c.Body != nil {
					body = strings.NewReader(*c.Body)
				} else if c.Form != nil && c.Multipart {
					var mb bytes.Buffer
					mw := multipart.NewWriter(&mb)
					for _, f := range c.Form {
						_ = mw.WriteField(f.K, f.V)
					}
					_ = mw.Close()
					body = &mb
					c.CType = mw.FormDataContentType()
				} else if c.Form != nil {
					vals := url.Values{}
					for _, f := range c.Form {
						vals.Add(f.K, f.V)
					}
					body = strings.NewReader(vals.Encode())
				}
				req := httptest.NewRequest(c.Method, c.URL, body)
				if c.CType != "" {
					req.Header.Set("Content-Type", c.CType)
				} else if c.Form != nil {
					req.Header.Set("Content-Type", "application/x-www-form-urlencoded")
				}
				for _, h := range c.Headers {
					req.Header.Add(h.K, h.V)
				}
				rec := httptest.NewRecorder()
				handler.ServeHTTP(rec, req)
				current.Status = rec.Code
			case "client":
				p := newParams[c.Op]()
				if len(c.Params) > 0 {
					if err := json.Unmarshal(c.Params, p); err != nil {
						current.ClientErr = "params: " + err.Error()
						return
					}
				}
				m := reflect.ValueOf(cli.Operations).MethodByName(goName(c.Op))
				args := []reflect.Value{reflect.ValueOf(p)}
				if m.Type().NumIn() > 1 && m.Type().In(1) == reflect.TypeOf((*runtime.ClientAuthInfoWriter)(nil)).Elem() {
					var ai runtime.ClientAuthInfoWriter
					switch {
					case strings.HasPrefix(c.Auth, "key:"):
						ai = httptransport.APIKeyAuth("X-Key", "header", c.Auth[4:])
					case strings.HasPrefix(c.Auth, "basic:"):
						parts := strings.SplitN(c.Auth[6:], ":", 2)
						ai = httptransport.BasicAuth(parts[0], parts[1])
					case strings.HasPrefix(c.Auth, "bearer:"):
						ai = httptransport.BearerToken(c.Auth[7:])
					default:
						ai = runtime.ClientAuthInfoWriterFunc(func(runtime.ClientRequest, strfmt.Registry) error { return nil })
					}
					args = append(args, reflect.ValueOf(ai))
				}
				// a streaming operation takes the writer that receives the bytes
				var sink bytes.Buffer
				writerT := reflect.TypeOf((*io.Writer)(nil)).Elem()
				for i := len(args); i < m.Type().NumIn(); i++ {
					if m.Type().In(i) == writerT {
						args = append(args, reflect.ValueOf(&sink))
					}
				}
				outs := m.Call(args)
				errv := outs[len(outs)-1]
				if !errv.IsNil() {
					e := errv.Interface().(error)
					describe(errv.Elem(), e)
					return
				}
				for _, o := range outs[:len(outs)-1] {
					if !o.IsNil() {
						describe(o, nil)
					}
				}
			}
		}()
	}
	ob, _ := json.Marshal(results)
	_ = os.WriteFile(os.Args[2], ob, 0o644)
}

func goName(op string) string { return strings.ToUpper(op[:1]) + op[1:] }

// test authenticators: a fixed credential table; the principal names the scheme and the user
//   key:   X-Key "k-alice" / "k-bob"           qkey: api_key "q-alice"
//   basic: alice/wonderland, bob/builder        oauth: bearer "t-read" (read), "t-rw" (read, write)
func principalOf(t reflect.Type, name string) reflect.Value {
	if t.Kind() == reflect.Ptr {
		p := reflect.New(t.Elem())
		if f := p.Elem().FieldByName("Name"); f.IsValid() {
			f.SetString(name)
		}
		return p
	}
	v := reflect.New(t).Elem()
	v.Set(reflect.ValueOf(name))
	return v
}

func setAuths(api reflect.Value) {
	errT := reflect.TypeOf((*error)(nil)).Elem()
	set := func(field string, decide func(args []reflect.Value) (string, error)) {
		f := api.FieldByName(field)
		if !f.IsValid() || f.Kind() != reflect.Func {
			return
		}
		t := f.Type()
		f.Set(reflect.MakeFunc(t, func(args []reflect.Value) []reflect.Value {
			name, err := decide(args)
			ev := reflect.Zero(errT)
			pv := reflect.Zero(t.Out(0))
			if err != nil {
				// a refusal may still name whom it refused (a known but revoked account, a token without the scopes): the
				// error decides, the scheme has not authenticated
				ev = reflect.ValueOf(&err).Elem()
				pv = principalOf(t.Out(0), "refused:"+field)
			} else {
				pv = principalOf(t.Out(0), name)
			}
			return []reflect.Value{pv, ev}
		}))
	}
	set("KeyAuth", func(a []reflect.Value) (string, error) {
		switch a[0].String() {
		case "k-alice":
			return "key:alice", nil
		case "k-bob":
			return "key:bob", nil
		}
		return "", errors.Unauthenticated("key")
	})
	set("QkeyAuth", func(a []reflect.Value) (string, error) {
		if a[0].String() == "q-alice" {
			return "qkey:alice", nil
		}
		return "", errors.Unauthenticated("qkey")
	})
	set("BasicAuth", func(a []reflect.Value) (string, error) {
		u, p := a[0].String(), a[1].String()
		if (u == "alice" && p == "wonderland") || (u == "bob" && p == "builder") {
			return "basic:" + u, nil
		}
		return "", errors.Unauthenticated("basic")
	})
	set("OauthAuth", func(a []reflect.Value) (string, error) {
		have := map[string][]string{"t-read": {"read"}, "t-rw": {"read", "write"}, "t-all": {"read", "write", "admin"}}[a[0].String()]
		if have == nil {
			return "", errors.Unauthenticated("oauth")
		}
		need := a[1].Interface().([]string)
		for _, n := range need {
			ok := false
			for _, h := range have {
				if h == n {
					ok = true
				}
			}
			if !ok {
				return "", errors.New(403, "insufficient scope")
			}
		}
		return "oauth:" + a[0].String(), nil
	})
}

// describe a typed client result or error: type name, code, payload, headers
func describe(v reflect.Value, e error) {
	for v.Kind() == reflect.Interface {
		v = v.Elem()
	}
	t := v.Type()
	if t.Kind() == reflect.Ptr {
		t = t.Elem()
	}
	current.ClientType = t.Name()
	if e != nil {
		current.ClientErr = e.Error()
		if ae, ok := e.(*runtime.APIError); ok {
			current.ClientCode = ae.Code
			current.ClientType = "APIError"
			return
		}
	}
	if m := v.MethodByName("Code"); m.IsValid() && m.Type().NumIn() == 0 {
		current.ClientCode = int(m.Call(nil)[0].Int())
	}
	ev := v
	if ev.Kind() == reflect.Ptr {
		ev = ev.Elem()
	}
	if ev.Kind() == reflect.Struct {
		if f := ev.FieldByName("Payload"); f.IsValid() {
			if buf, ok := f.Interface().(*bytes.Buffer); ok {
				b, _ := json.Marshal(buf.String()) // what was streamed into the writer the call was given
				current.ClientPayload = b
			} else if b, err := json.Marshal(f.Interface()); err == nil {
				current.ClientPayload = b
			}
		}
		current.ClientHeaders = map[string]string{}
		for i := 0; i < ev.NumField(); i++ {
			n := ev.Type().Field(i).Name
			if n == "Payload" || n == "_statusCode" || !ev.Field(i).CanInterface() {
				continue
			}
			current.ClientHeaders[n] = fmt.Sprint(ev.Field(i).Interface())
		}
	}
	_ = bytes.NewBuffer
	_ = http.StatusOK
}
`

package main

// driverSrc: the program compiled next to the generated model package. `encode` prints values of every model type as
// encoding/json renders them; `decode` reports whether documents decode into the type.
const driverSrc = `package main

import (
	"bufio"
	"encoding/json"
	"fmt"
	"math"
	"os"
	"reflect"
	"sort"
	"time"

	m "scratchscan/m"
)

var _ = m.Inner{}

type rnd struct{ s uint64 }

func (r *rnd) next() uint64 {
	r.s += 0x9E3779B97F4A7C15
	z := r.s
	z = (z ^ (z >> 30)) * 0xBF58476D1CE4E5B9
	z = (z ^ (z >> 27)) * 0x94D049BB133111EB
	return z ^ (z >> 31)
}
func (r *rnd) n(k int) int { return int(r.next() % uint64(k)) }

var timeT = reflect.TypeOf(time.Time{})
var rawT = reflect.TypeOf(json.RawMessage{})

func fill(v reflect.Value, mode string, r *rnd, depth int) {
	if !v.CanSet() {
		return
	}
	t := v.Type()
	if t == timeT {
		switch mode {
		case "zero":
		case "max":
			v.Set(reflect.ValueOf(time.Date(9999, 12, 31, 23, 59, 59, 999999999, time.UTC)))
		default:
			v.Set(reflect.ValueOf(time.Date(2021, 3, 4, 5, 6, 7, 800000000, time.FixedZone("x", 3600))))
		}
		return
	}
	if t == rawT {
		switch mode {
		case "zero":
		case "empty":
			v.SetBytes([]byte("{}"))
		default:
			v.SetBytes([]byte("{\"r\":[1,\"x\"]}"))
		}
		return
	}
	pick := mode
	if mode == "random" {
		pick = []string{"zero", "full", "max", "min", "empty"}[r.n(5)]
	}
	switch t.Kind() {
	case reflect.Bool:
		v.SetBool(pick == "full" || pick == "max")
	case reflect.String:
		switch pick {
		case "zero", "empty":
		case "max":
			v.SetString("long é世\U0001F600 \"quoted\" <tag> & more")
		default:
			v.SetString("s1")
		}
	case reflect.Int, reflect.Int8, reflect.Int16, reflect.Int32, reflect.Int64:
		bits := t.Bits()
		switch pick {
		case "zero", "empty":
		case "max":
			v.SetInt(int64(1)<<(bits-1) - 1)
		case "min":
			v.SetInt(-(int64(1) << (bits - 1)))
		default:
			v.SetInt(7)
		}
	case reflect.Uint, reflect.Uint8, reflect.Uint16, reflect.Uint32, reflect.Uint64, reflect.Uintptr:
		bits := t.Bits()
		switch pick {
		case "zero", "empty", "min":
		case "max":
			if bits == 64 {
				v.SetUint(math.MaxUint64)
			} else {
				v.SetUint(uint64(1)<<bits - 1)
			}
		default:
			v.SetUint(7)
		}
	case reflect.Float32:
		switch pick {
		case "zero", "empty":
		case "max":
			v.SetFloat(math.MaxFloat32)
		case "min":
			v.SetFloat(-1.5e-7)
		default:
			v.SetFloat(1.5)
		}
	case reflect.Float64:
		switch pick {
		case "zero", "empty":
		case "max":
			v.SetFloat(math.MaxFloat64)
		case "min":
			v.SetFloat(-2.5e-300)
		default:
			v.SetFloat(1.5)
		}
	case reflect.Ptr:
		if pick == "zero" {
			return
		}
		v.Set(reflect.New(t.Elem()))
		fill(v.Elem(), mode, r, depth+1)
	case reflect.Slice:
		switch pick {
		case "zero":
		case "empty":
			v.Set(reflect.MakeSlice(t, 0, 0))
		default:
			n := 2
			if depth > 2 {
				n = 1
			}
			s := reflect.MakeSlice(t, n, n)
			for i := 0; i < n; i++ {
				em := mode
				if mode == "full" && i == 1 {
					em = "min"
				}
				fill(s.Index(i), em, r, depth+1)
			}
			v.Set(s)
		}
	case reflect.Array:
		for i := 0; i < v.Len(); i++ {
			fill(v.Index(i), mode, r, depth+1)
		}
	case reflect.Map:
		switch pick {
		case "zero":
		case "empty":
			v.Set(reflect.MakeMap(t))
		default:
			mm := reflect.MakeMap(t)
			for i, k := range []string{"k1", "k 2"} {
				kv := reflect.New(t.Key()).Elem()
				switch t.Key().Kind() {
				case reflect.String:
					kv.SetString(k)
				case reflect.Int:
					kv.SetInt(int64(i + 1))
				}
				ev := reflect.New(t.Elem()).Elem()
				fill(ev, mode, r, depth+1)
				mm.SetMapIndex(kv, ev)
			}
			v.Set(mm)
		}
	case reflect.Struct:
		for i := 0; i < v.NumField(); i++ {
			if sf := t.Field(i); sf.Anonymous && !sf.IsExported() && sf.Type.Kind() == reflect.Struct {
				// an embedded struct of an unexported type: not settable itself, its exported fields are (and are promoted by encoding/json)
				for j := 0; j < sf.Type.NumField(); j++ {
					fill(v.Field(i).Field(j), mode, r, depth+1)
				}
				continue
			}
			fill(v.Field(i), mode, r, depth+1)
		}
	case reflect.Interface:
		switch pick {
		case "zero":
		case "empty":
			v.Set(reflect.ValueOf(map[string]interface{}{}))
		case "max":
			v.Set(reflect.ValueOf([]interface{}{"x", 1.5, nil, map[string]interface{}{"k": true}}))
		case "min":
			v.Set(reflect.ValueOf(-3))
		default:
			v.Set(reflect.ValueOf("any"))
		}
	}
}

// tree: the Go value itself (not its encoding), for the model: exported fields in declaration order
func tree(v reflect.Value) interface{} {
	switch v.Kind() {
	case reflect.Bool:
		return map[string]interface{}{"k": "bool", "v": v.Bool()}
	case reflect.String:
		return map[string]interface{}{"k": "str", "v": v.String()}
	case reflect.Int, reflect.Int8, reflect.Int16, reflect.Int32, reflect.Int64:
		return map[string]interface{}{"k": "int", "v": fmt.Sprint(v.Int())}
	case reflect.Uint, reflect.Uint8, reflect.Uint16, reflect.Uint32, reflect.Uint64, reflect.Uintptr:
		return map[string]interface{}{"k": "int", "v": fmt.Sprint(v.Uint())}
	case reflect.Ptr:
		if v.IsNil() {
			return map[string]interface{}{"k": "nil"}
		}
		return map[string]interface{}{"k": "ptr", "e": tree(v.Elem())}
	case reflect.Slice:
		if v.IsNil() {
			return map[string]interface{}{"k": "nil"}
		}
		fallthrough
	case reflect.Array:
		l := make([]interface{}, v.Len())
		for i := range l {
			l[i] = tree(v.Index(i))
		}
		return map[string]interface{}{"k": "list", "l": l}
	case reflect.Map:
		if v.IsNil() {
			return map[string]interface{}{"k": "nil"}
		}
		keys := v.MapKeys()
		sort.Slice(keys, func(i, j int) bool { return fmt.Sprint(keys[i]) < fmt.Sprint(keys[j]) })
		l := make([]interface{}, len(keys))
		for i, k := range keys {
			l[i] = []interface{}{fmt.Sprint(k), tree(v.MapIndex(k))}
		}
		return map[string]interface{}{"k": "map", "m": l}
	case reflect.Struct:
		var l []interface{}
		for i := 0; i < v.NumField(); i++ {
			if v.Type().Field(i).PkgPath == "" {
				l = append(l, tree(v.Field(i)))
			}
		}
		return map[string]interface{}{"k": "struct", "l": l}
	}
	return map[string]interface{}{"k": "other"}
}

func main() {
	names := make([]string, 0, len(types))
	for n := range types {
		names = append(names, n)
	}
	sort.Strings(names)
	w := bufio.NewWriter(os.Stdout)
	defer w.Flush()
	switch os.Args[1] {
	case "encode":
		r := &rnd{s: 12345}
		for _, n := range names {
			modes := []string{"zero", "full", "max", "min", "empty", "random", "random", "random"}
			for _, mode := range modes {
				v := reflect.New(types[n])
				fill(v.Elem(), mode, r, 0)
				b, err := json.Marshal(v.Interface())
				out := map[string]interface{}{"t": n, "k": mode}
				if err != nil {
					out["err"] = err.Error()
				} else {
					out["j"] = json.RawMessage(b)
					out["g"] = tree(v.Elem())
				}
				ob, _ := json.Marshal(out)
				fmt.Fprintln(w, string(ob))
			}
		}
	case "decode":
		f, err := os.Open(os.Args[2])
		if err != nil {
			panic(err)
		}
		sc := bufio.NewScanner(f)
		sc.Buffer(make([]byte, 1<<20), 1<<26)
		for sc.Scan() {
			var in struct {
				T string
				D json.RawMessage
			}
			if err := json.Unmarshal(sc.Bytes(), &in); err != nil {
				fmt.Fprintln(w, "{\"ok\":false,\"err\":\"bad line\"}")
				continue
			}
			v := reflect.New(types[in.T])
			err := json.Unmarshal(in.D, v.Interface())
			out := map[string]interface{}{"ok": err == nil}
			if err != nil {
				out["err"] = err.Error()
			}
			ob, _ := json.Marshal(out)
			fmt.Fprintln(w, string(ob))
		}
	}
}
`

package main

import (
	"fmt"
	"sort"
	"strings"

	"verif/harness/internal/coqpp"
	"verif/harness/internal/rng"
)

// sdecl: a struct declaration with embedded structs (Scan/Embed.v: list sfield). Every declared field carries a json tag.
type sdecl struct {
	TypeName string
	Fields   []sfieldG
}

type sfieldG struct {
	JSON, GoName string
	Omit         bool
	Type         *T
	Emb          *sdecl // non-nil: an embedded struct
	Ignore       bool   // declared with json:"-": not part of the encoding (and not of the model's declaration)
}

// live: the fields encoding/json looks at
func (d *sdecl) live() []sfieldG {
	var out []sfieldG
	for _, f := range d.Fields {
		if !f.Ignore {
			out = append(out, f)
		}
	}
	return out
}

// declSource: the helper types (embedded structs, innermost first) and the body of the model struct itself
func (d *sdecl) helpers(b *strings.Builder) {
	for _, f := range d.Fields {
		if f.Emb != nil {
			f.Emb.helpers(b)
			fmt.Fprintf(b, "// %s is embedded by a generated model\ntype %s struct {\n%s}\n\n", f.Emb.TypeName, f.Emb.TypeName, f.Emb.body())
		}
	}
}

func (d *sdecl) body() string {
	var b strings.Builder
	for _, f := range d.Fields {
		if f.Emb != nil {
			b.WriteString("\t" + f.Emb.TypeName + "\n")
			continue
		}
		tag := f.JSON
		if f.Omit {
			tag += ",omitempty"
		}
		if f.Ignore {
			tag = "-"
		}
		fmt.Fprintf(&b, "\t%s %s `json:\"%s\"`\n", f.GoName, f.Type.Go(), tag)
	}
	return b.String()
}

type dentry struct {
	depth int
	name  string
}

// entries: every reachable field with its depth, in declaration order (encoding/json's index order)
func (d *sdecl) entries(depth int) []dentry {
	var out []dentry
	for _, f := range d.live() {
		if f.Emb != nil {
			out = append(out, f.Emb.entries(depth+1)...)
		} else {
			out = append(out, dentry{depth, f.JSON})
		}
	}
	return out
}

// writes: the order in which the scanner writes properties (embedded members first, then declared fields)
func (d *sdecl) writes(depth int) []dentry {
	var out []dentry
	for _, f := range d.live() {
		if f.Emb != nil {
			out = append(out, f.Emb.writes(depth+1)...)
		}
	}
	for _, f := range d.live() {
		if f.Emb == nil {
			out = append(out, dentry{depth, f.JSON})
		}
	}
	return out
}

func (d *sdecl) names() map[string]bool {
	out := map[string]bool{}
	for _, e := range d.entries(0) {
		out[e.name] = true
	}
	return out
}

// disjoint: two embedded members of one struct never promote the same name and declared names are distinct (ewf of Scan/Embed.v);
// used for finding keys and coverage only — the oracle is the compiled type and the real scanner
func (d *sdecl) disjoint() bool {
	own := map[string]bool{}
	var embs []map[string]bool
	for _, f := range d.live() {
		if f.Emb != nil {
			if !f.Emb.disjoint() {
				return false
			}
			embs = append(embs, f.Emb.names())
			continue
		}
		if own[f.JSON] {
			return false
		}
		own[f.JSON] = true
	}
	for i := range embs {
		for j := i + 1; j < len(embs); j++ {
			for n := range embs[i] {
				if embs[j][n] {
					return false
				}
			}
		}
	}
	return true
}

// deeperAfterShallower: some name whose last write is deeper than its shallowest declaration
func (d *sdecl) deeperAfterShallower() bool {
	minDepth := map[string]int{}
	for _, e := range d.entries(0) {
		if m, ok := minDepth[e.name]; !ok || e.depth < m {
			minDepth[e.name] = e.depth
		}
	}
	last := map[string]int{}
	for _, w := range d.writes(0) {
		last[w.name] = w.depth
	}
	for n, dep := range last {
		if dep > minDepth[n] {
			return true
		}
	}
	return false
}

// tieNames: names declared twice at their least depth (encoding/json hides them)
func (d *sdecl) tieNames() map[string]bool {
	minDepth, count := map[string]int{}, map[string]int{}
	for _, e := range d.entries(0) {
		m, ok := minDepth[e.name]
		switch {
		case !ok || e.depth < m:
			minDepth[e.name], count[e.name] = e.depth, 1
		case e.depth == m:
			count[e.name]++
		}
	}
	out := map[string]bool{}
	for n, c := range count {
		if c > 1 {
			out[n] = true
		}
	}
	return out
}

func (d *sdecl) hasIgnored() bool {
	for _, f := range d.Fields {
		if f.Ignore || (f.Emb != nil && f.Emb.hasIgnored()) {
			return true
		}
	}
	return false
}

// droppedKeys: the JSON names of promoted fields whose Go name an enclosing struct re-declares with json:"-" — the scanner drops
// them from the definition ("field with different name removes tag", pinned by TestOverridingOneIgnore), encoding/json keeps them
func (d *sdecl) droppedKeys() map[string]bool {
	out := map[string]bool{}
	var goNames func(x *sdecl, m map[string]string)
	goNames = func(x *sdecl, m map[string]string) {
		for _, f := range x.live() {
			if f.Emb != nil {
				goNames(f.Emb, m)
			} else {
				m[f.GoName] = f.JSON
			}
		}
	}
	var walk func(x *sdecl)
	walk = func(x *sdecl) {
		promoted := map[string]string{}
		for _, f := range x.live() {
			if f.Emb != nil {
				goNames(f.Emb, promoted)
				walk(f.Emb)
			}
		}
		for _, f := range x.Fields {
			if f.Ignore {
				if j, ok := promoted[f.GoName]; ok {
					out[j] = true
				}
			}
		}
	}
	walk(d)
	return out
}

func (d *sdecl) class() string {
	if d.hasIgnored() {
		return "declared-embedding:promoted-go-name-redeclared-with-json-dash"
	}
	switch {
	case d.disjoint():
		shadow := false
		var walk func(x *sdecl)
		walk = func(x *sdecl) {
			own := map[string]bool{}
			for _, f := range x.live() {
				if f.Emb == nil {
					own[f.JSON] = true
				}
			}
			for _, f := range x.live() {
				if f.Emb != nil {
					for n := range f.Emb.names() {
						shadow = shadow || own[n]
					}
					walk(f.Emb)
				}
			}
		}
		walk(d)
		if shadow {
			return "declared-embedding:disjoint-members-with-shadowing"
		}
		return "declared-embedding:disjoint-members"
	case d.deeperAfterShallower():
		return "declared-embedding:overlapping-members-deeper-written-after-shallower"
	}
	return "declared-embedding:overlapping-members"
}

func (d *sdecl) keys() []string {
	var out []string
	for n := range d.names() {
		out = append(out, n)
	}
	sort.Strings(out)
	return out
}

func (d *sdecl) coq() (string, bool) {
	if d.hasIgnored() {
		return "", false // json:"-" re-declarations are outside the fragment of Scan/Embed.v
	}
	var fs []string
	for _, f := range d.live() {
		if f.Emb != nil {
			e, ok := f.Emb.coq()
			if !ok {
				return "", false
			}
			fs = append(fs, "SE "+e)
			continue
		}
		t, ok := goTypeCoq(f.Type)
		if !ok {
			return "", false
		}
		fs = append(fs, fmt.Sprintf("SF (%s, %s, %s)", coqpp.Str(f.JSON), coqpp.Bool(f.Omit), t))
	}
	return coqpp.List(fs), true
}

// flattenTree: the driver's value tree of the model (nested structs for embedded members) as one value per reachable field
func (d *sdecl) flattenTree(g interface{}) ([]string, bool) {
	m, ok := g.(map[string]interface{})
	if !ok || m["k"] != "struct" {
		return nil, false
	}
	l, _ := m["l"].([]interface{})
	if len(l) != len(d.Fields) {
		return nil, false
	}
	var out []string
	for i, f := range d.Fields {
		if f.Ignore {
			continue
		}
		if f.Emb != nil {
			sub, ok := f.Emb.flattenTree(l[i])
			if !ok {
				return nil, false
			}
			out = append(out, sub...)
			continue
		}
		s, ok := gvalCoq(l[i])
		if !ok {
			return nil, false
		}
		out = append(out, s)
	}
	return out, true
}

var declTypes = []func() *T{
	func() *T { return sc("string") }, func() *T { return sc("bool") }, func() *T { return sc("int8") }, func() *T { return sc("int64") },
	func() *T { return sc("uint16") }, func() *T { return sc("int32") }, func() *T { return slice(sc("string")) }, func() *T { return slice(sc("int32")) },
	func() *T { return mp(sc("bool")) }, func() *T { return array(2, sc("uint8")) },
}

// randomDecl: mode 0 = names unique over the whole declaration; 1 = unique, then declared fields re-use promoted names (shadowing);
// 2 = a pool of four names, anything goes; 3 = unique JSON names, declared fields re-use the Go names of promoted fields
func randomDecl(r *rng.R, prefix string, mode int) *sdecl {
	counter, types := 0, 0
	pool := []string{"v", "w", "x", "y"}
	var gen func(depth int) *sdecl
	gen = func(depth int) *sdecl {
		d := &sdecl{TypeName: fmt.Sprintf("%sE%d", prefix, types)}
		types++
		nEmb := 0
		if depth > 0 {
			nEmb = r.Intn(3)
		}
		if mode == 2 && depth == 2 {
			nEmb = 2 // two members drawing from the same small pool: overlaps are likely
		}
		nOwn := r.Intn(3)
		if nEmb == 0 || depth == 2 {
			nOwn++
		}
		used := map[string]bool{}
		for i := 0; i < nEmb+nOwn; i++ {
			// embedded members and declared fields in any order
			if emb := nEmb > 0 && (nOwn == 0 || r.Chance(1, 2)); emb {
				nEmb--
				d.Fields = append(d.Fields, sfieldG{Emb: gen(depth - 1)})
				continue
			}
			nOwn--
			var name string
			if mode == 2 {
				name = r.Pick(pool)
				if used[name] {
					continue
				}
			} else {
				name = fmt.Sprintf("n%d", counter)
				counter++
			}
			used[name] = true
			d.Fields = append(d.Fields, sfieldG{JSON: name, GoName: "F" + strings.ToUpper(name), Omit: r.Chance(1, 3), Type: declTypes[r.Intn(len(declTypes))]()})
		}
		if mode == 1 {
			// a declared field takes the name of a field promoted by one of the embedded members
			var promoted []string
			for _, f := range d.Fields {
				if f.Emb != nil {
					promoted = append(promoted, f.Emb.keys()...)
				}
			}
			if len(promoted) > 0 {
				n := r.Pick(promoted)
				d.Fields = append(d.Fields, sfieldG{JSON: n, GoName: "S" + strings.ToUpper(n), Omit: r.Chance(1, 3), Type: declTypes[r.Intn(len(declTypes))]()})
			}
		}
		if mode == 3 {
			// a declared field takes the Go name of a promoted field and a JSON name of its own: the Go selector is shadowed,
			// the encoding keeps both members (encoding/json resolves conflicts by JSON name only)
			var promoted []string
			for _, f := range d.Fields {
				if f.Emb != nil {
					promoted = append(promoted, f.Emb.keys()...)
				}
			}
			if len(promoted) > 0 {
				n := r.Pick(promoted)
				d.Fields = append(d.Fields, sfieldG{JSON: fmt.Sprintf("g%d", counter), GoName: "F" + strings.ToUpper(n), Omit: r.Chance(1, 3), Type: declTypes[r.Intn(len(declTypes))]()})
				counter++
			}
		}
		if len(d.Fields) == 0 {
			d.Fields = append(d.Fields, sfieldG{JSON: "only", GoName: "FONLY", Type: sc("string")})
		}
		return d
	}
	return gen(2)
}

// declFeatures: fixed declarations (the ones the theorems' examples name) and random ones
func declFeatures(r *rng.R, first, n int) []feature {
	var out []feature
	add := func(d *sdecl) {
		out = append(out, feature{Decl: d, Class: d.class()})
	}
	leaf := func(tn string, fs ...sfieldG) *sdecl { return &sdecl{TypeName: tn, Fields: fs} }
	own := func(name string, t *T) sfieldG {
		return sfieldG{JSON: name, GoName: "F" + strings.ToUpper(name), Type: t}
	}
	emb := func(d *sdecl) sfieldG { return sfieldG{Emb: d} }
	p := func(i int, s string) string { return fmt.Sprintf("M%d%s", first+i, s) }
	// shadowing (C16_embedding_nonvacuous), both orders of the overlapping declaration (C16_embedding_refuted_overlap), a tie
	add(&sdecl{Fields: []sfieldG{emb(leaf(p(0, "Mid"), emb(leaf(p(0, "Deep"), own("v", sc("int8")), own("w", sc("bool")))), sfieldG{JSON: "u", GoName: "FU", Omit: true, Type: slice(sc("string"))})), own("v", sc("string"))}})
	add(&sdecl{Fields: []sfieldG{emb(leaf(p(1, "Shallow"), own("v", sc("string")))), emb(leaf(p(1, "Mid"), emb(leaf(p(1, "Deep"), own("v", sc("int8")), own("w", sc("bool"))))))}})
	add(&sdecl{Fields: []sfieldG{emb(leaf(p(2, "Mid"), emb(leaf(p(2, "Deep"), own("v", sc("int8")), own("w", sc("bool")))))), emb(leaf(p(2, "Shallow"), own("v", sc("string"))))}})
	add(&sdecl{Fields: []sfieldG{emb(leaf(p(3, "A"), own("v", sc("string")))), emb(leaf(p(3, "B"), own("v", sc("int8")), own("w", sc("bool"))))}})
	// the Go name of a promoted field re-declared under another JSON name, one and two levels up
	add(&sdecl{Fields: []sfieldG{emb(leaf(p(4, "Sensor"), own("value", sc("int32")))), sfieldG{JSON: "calibrated", GoName: "FVALUE", Type: sc("string")}}})
	add(&sdecl{Fields: []sfieldG{emb(leaf(p(5, "Mid"), emb(leaf(p(5, "Deep"), own("v", sc("int8")), own("w", sc("bool")))))), sfieldG{JSON: "other", GoName: "FV", Omit: true, Type: slice(sc("string"))}}})
	// the Go name of a promoted field re-declared with json:"-": encoding/json skips the declared field and still promotes the embedded one
	add(&sdecl{Fields: []sfieldG{emb(leaf(p(6, "Simple"), own("id", sc("int64")), own("age", sc("int32")))), sfieldG{JSON: "-", GoName: "FAGE", Type: sc("int32"), Ignore: true}}})
	for i := 0; i < n; i++ {
		add(randomDecl(r, fmt.Sprintf("M%d", first+len(out)), i%4))
	}
	return out
}

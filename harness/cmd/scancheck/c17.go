package main

import (
	"bytes"
	"encoding/json"
	"flag"
	"fmt"
	"io"
	"os"
	"os/exec"
	"path/filepath"
	"regexp"
	"runtime/debug"
	"sort"
	"strings"
	"time"

	"github.com/go-openapi/loads"
	"github.com/go-openapi/spec"
	"github.com/go-openapi/strfmt"
	"github.com/go-openapi/validate"
	"github.com/go-swagger/go-swagger/codescan"

	"verif/harness/internal/rng"
)

// ---- the annotated program ----

type aparam struct {
	GoName, Name, In string
	Required         bool
	GoType           string // string, int64, int32, bool, float64, []string, []int64, [][]int32, []bool, *string
	Type, Format     string // expected swagger type/format (items: element type at the innermost level)
	Depth            int    // array nesting
	Lines            []string
	Want             map[string]interface{} // expected keywords at parameter level
	WantItems        []map[string]interface{}
}

type aparamset struct {
	GoName string
	OpIDs  []string
	Params []aparam
}

type aroute struct {
	Method, Path, ID string
	Tags             []string
	Summary          string
	Consumes         []string
	Produces         []string
	Schemes          []string
	Responses        [][2]string // code, response name ("" = description only)
	Deprecated       bool
	AsOperation      bool // swagger:operation with a YAML body
	PathParams       []string
}

type aresponse struct {
	GoName, Name string
	Headers      [][2]string // name, go type
	Body         string      // model name or ""
}

type amodel struct {
	Name   string
	Fields [][3]string // go name, go type, json name
}

type aprog struct {
	Title, Version, BasePath string
	Consumes, Produces       []string
	Schemes                  []string
	Models                   []amodel
	Responses                []aresponse
	ParamSets                []aparamset
	Routes                   []aroute
	Junk                     []string // hostile comment blocks attached to extra declarations
	Input                    *spec.Swagger
}

var tagPool = []string{"pets", "users", "orders", "v2", "admin-api", "x_y", "store.items"}
var idPool17 = []string{"listPets", "createPet", "getOrder", "deleteOrder", "updateUser", "findByID", "op-1", "list_things", "fetch2", "headThing", "putIt", "patchIt", "optIt"}
var pathPool17 = []string{"/pets", "/pets/{id}", "/orders", "/orders/{orderID}/items", "/users/{user-id}", "/v1/things.json", "/a_b/c-d", "/", "/files/{name}", "/x/{a}/{b}"}
var methods17 = []string{"GET", "POST", "PUT", "DELETE", "PATCH", "HEAD", "OPTIONS"}

func pathParamsOf(p string) []string {
	var out []string
	for _, m := range regexp.MustCompile(`\{([^}]+)\}`).FindAllStringSubmatch(p, -1) {
		out = append(out, m[1])
	}
	return out
}

func goIdent(s string) string {
	var b strings.Builder
	up := true
	for _, c := range s {
		if (c >= 'a' && c <= 'z') || (c >= 'A' && c <= 'Z') || (c >= '0' && c <= '9') {
			if up && c >= 'a' && c <= 'z' {
				c -= 32
			}
			b.WriteRune(c)
			up = false
		} else {
			up = true
		}
	}
	return "P" + b.String()
}

func genParam(r *rng.R, i int, in string, name string) aparam {
	p := aparam{GoName: fmt.Sprintf("F%d", i), Name: name, In: in, Want: map[string]interface{}{}}
	if name == "" {
		p.Name = fmt.Sprintf("p%d", i)
	}
	p.Required = in == "path" || r.Chance(1, 3)
	kinds := []string{"string", "int64", "int32", "bool", "float64", "[]string", "[]int64", "[][]int32", "[]bool", "[]float64"}
	if in == "path" {
		kinds = []string{"string", "int64", "int32"}
	}
	p.GoType = r.Pick(kinds)
	base := strings.TrimLeft(p.GoType, "[]")
	p.Depth = strings.Count(p.GoType, "[]")
	switch base {
	case "string":
		p.Type = "string"
	case "int64":
		p.Type, p.Format = "integer", "int64"
	case "int32":
		p.Type, p.Format = "integer", "int32"
	case "bool":
		p.Type = "boolean"
	case "float64":
		p.Type, p.Format = "number", "double"
	}
	p.Lines = append(p.Lines, "in: "+in)
	if p.Required {
		p.Lines = append(p.Lines, "required: true")
	}
	// validations at the level of the scalar
	scalar := func(prefix string, want map[string]interface{}) {
		switch base {
		case "string":
			switch r.Intn(5) {
			case 0:
				p.Lines = append(p.Lines, prefix+"min length: 2", prefix+"max length: 9")
				want["minLength"], want["maxLength"] = 2, 9
			case 1:
				p.Lines = append(p.Lines, prefix+"pattern: ^[a-z]+$")
				want["pattern"] = "^[a-z]+$"
			case 2:
				p.Lines = append(p.Lines, prefix+"enum: [\"a\",\"b c\"]")
				want["enum"] = []interface{}{"a", "b c"}
			case 3:
				p.Lines = append(p.Lines, prefix+"default: abc")
				want["default"] = "abc"
			}
		case "int64", "int32":
			switch r.Intn(6) {
			case 0:
				p.Lines = append(p.Lines, prefix+"minimum: 1", prefix+"maximum: 99")
				want["minimum"], want["maximum"] = 1, 99
			case 1:
				p.Lines = append(p.Lines, prefix+"minimum: > 0", prefix+"maximum: < 10")
				want["minimum"], want["maximum"], want["exclusiveMinimum"], want["exclusiveMaximum"] = 0, 10, true, true
			case 2:
				p.Lines = append(p.Lines, prefix+"multiple of: 5")
				want["multipleOf"] = 5
			case 3:
				p.Lines = append(p.Lines, prefix+"default: 3")
				want["default"] = 3
			case 4:
				p.Lines = append(p.Lines, prefix+"enum: [1,2,3]")
				want["enum"] = []interface{}{1, 2, 3}
			case 5:
				p.Lines = append(p.Lines, prefix+"example: 7")
				want["example"] = 7
			}
		case "bool":
			if r.Chance(1, 2) {
				p.Lines = append(p.Lines, prefix+"default: true")
				want["default"] = true
			}
		case "float64":
			switch r.Intn(3) {
			case 0:
				p.Lines = append(p.Lines, prefix+"minimum: 0.5", prefix+"maximum: 9.5")
				want["minimum"], want["maximum"] = 0.5, 9.5
			case 1:
				p.Lines = append(p.Lines, prefix+"default: 1.5")
				want["default"] = 1.5
			}
		}
	}
	if p.Depth == 0 {
		scalar("", p.Want)
	} else {
		if r.Chance(1, 2) {
			p.Lines = append(p.Lines, "min items: 1", "max items: 5")
			p.Want["minItems"], p.Want["maxItems"] = 1, 5
		}
		if r.Chance(1, 3) {
			p.Lines = append(p.Lines, "unique: true")
			p.Want["uniqueItems"] = true
		}
		if r.Chance(1, 3) {
			cf := r.Pick([]string{"csv", "pipes", "ssv"})
			p.Lines = append(p.Lines, "collection format: "+cf)
			p.Want["collectionFormat"] = cf
		}
		prefix := ""
		for d := 0; d < p.Depth; d++ {
			prefix += "items."
			w := map[string]interface{}{}
			if d == p.Depth-1 {
				scalar(prefix, w)
			} else if r.Chance(1, 2) {
				p.Lines = append(p.Lines, prefix+"max items: 3")
				w["maxItems"] = 3
			}
			p.WantItems = append(p.WantItems, w)
		}
	}
	return p
}

func genProgram(r *rng.R, nroutes int, withInput bool) *aprog {
	pg := &aprog{Title: "Verif API", Version: "1.2.3", BasePath: "/api", Consumes: []string{"application/json"}, Produces: []string{"application/json"}, Schemes: []string{"http", "https"}}
	pg.Models = []amodel{
		{Name: "Pet", Fields: [][3]string{{"ID", "int64", "id"}, {"Name", "string", "name"}, {"Tags", "[]string", "tags"}}},
		{Name: "Order", Fields: [][3]string{{"ID", "int64", "id"}, {"Pet", "*Pet", "pet"}, {"Count", "int32", "count"}}},
		{Name: "APIError", Fields: [][3]string{{"Code", "int32", "code"}, {"Message", "string", "message"}}},
		{Name: "Widget", Fields: [][3]string{{"ID", "int64", "id"}, {"Label", "string", "label"}}},
	}
	pg.Responses = []aresponse{
		{GoName: "PetResponse", Name: "petResponse", Body: "Pet", Headers: [][2]string{{"X-Rate-Limit", "int32"}}},
		{GoName: "OrdersResponse", Name: "ordersResponse", Body: "[]Order"},
		{GoName: "GenericError", Name: "genericError", Body: "APIError", Headers: [][2]string{{"X-Request-Id", "string"}, {"X-Retry", "bool"}}},
		{GoName: "EmptyResponse", Name: "emptyResponse"},
		// a response and a model may share a name: #/responses and #/definitions are separate namespaces
		{GoName: "WidgetResponse", Name: "Widget", Body: "Widget", Headers: [][2]string{{"X-Widget-Count", "int32"}}},
	}
	used := map[string]bool{}
	usedID := map[string]bool{}
	for len(pg.Routes) < nroutes {
		rt := aroute{Method: r.Pick(methods17), Path: r.Pick(pathPool17), ID: r.Pick(idPool17)}
		if used[rt.Method+" "+rt.Path] || usedID[rt.ID] {
			continue
		}
		used[rt.Method+" "+rt.Path] = true
		usedID[rt.ID] = true
		for i, n := 0, r.Intn(3); i < n; i++ {
			t := r.Pick(tagPool)
			dup := false
			for _, x := range rt.Tags {
				dup = dup || x == t
			}
			if !dup {
				rt.Tags = append(rt.Tags, t)
			}
		}
		rt.Summary = "Summary of " + rt.ID + "."
		if r.Chance(1, 3) {
			rt.Consumes = []string{"application/json", "application/xml"}
		}
		if r.Chance(1, 3) {
			rt.Produces = []string{"application/json", "text/plain"}
		}
		if r.Chance(1, 4) {
			rt.Schemes = []string{"https", "wss"}
		}
		rt.Deprecated = r.Chance(1, 6)
		rt.Responses = [][2]string{{"200", r.Pick([]string{"petResponse", "ordersResponse", "emptyResponse", "Widget"})}, {"default", "genericError"}}
		if r.Chance(1, 2) {
			rt.Responses = append(rt.Responses, [2]string{"422", "genericError"})
		}
		if r.Chance(1, 4) {
			rt.Responses = append(rt.Responses, [2]string{"204", ""})
		}
		rt.AsOperation = r.Chance(1, 5)
		rt.PathParams = pathParamsOf(rt.Path)
		pg.Routes = append(pg.Routes, rt)
	}
	// one parameter set per route (path parameters are mandatory for validity), some shared by two operations
	for i, rt := range pg.Routes {
		if rt.AsOperation {
			continue // parameters of swagger:operation live in its YAML body
		}
		ps := aparamset{GoName: fmt.Sprintf("Params%d", i), OpIDs: []string{rt.ID}}
		k := 0
		for _, pp := range rt.PathParams {
			ps.Params = append(ps.Params, genParam(r, k, "path", pp))
			k++
		}
		hasBody := false
		for n := r.Intn(4); n > 0; n-- {
			in := r.Pick([]string{"query", "query", "header", "formData", "body"})
			if in == "body" || in == "formData" {
				if hasBody || rt.Method == "GET" || rt.Method == "HEAD" || rt.Method == "DELETE" {
					in = "query"
				} else {
					hasBody = true
				}
			}
			if in == "body" {
				ps.Params = append(ps.Params, aparam{GoName: fmt.Sprintf("F%d", k), Name: fmt.Sprintf("p%d", k), In: "body", Required: true, GoType: "*Pet", Lines: []string{"in: body", "required: true"}, Want: map[string]interface{}{}})
			} else {
				ps.Params = append(ps.Params, genParam(r, k, in, ""))
			}
			k++
		}
		if len(ps.Params) > 0 {
			pg.ParamSets = append(pg.ParamSets, ps)
		}
	}
	// a parameter struct shared by two operations (swagger:parameters id1 id2) whose field one of them also declares in its own
	// struct, identically: the operation has that parameter once
	if len(pg.ParamSets) >= 2 && r.Chance(2, 3) {
		shared := aparam{GoName: "Shared", Name: "shared", In: "query", GoType: "int32", Type: "integer", Format: "int32", Lines: []string{"in: query", "maximum: 9"}, Want: map[string]interface{}{"maximum": 9}}
		a, b := &pg.ParamSets[0], &pg.ParamSets[1]
		a.Params = append(a.Params, shared)
		pg.ParamSets = append(pg.ParamSets, aparamset{GoName: "SharedPaging", OpIDs: []string{a.OpIDs[0], b.OpIDs[0]}, Params: []aparam{shared}})
	}
	if withInput {
		// an input document that already knows one operation per method on /legacy, and one of the routes
		in := &spec.Swagger{SwaggerProps: spec.SwaggerProps{Swagger: "2.0", Info: &spec.Info{InfoProps: spec.InfoProps{Title: "input", Version: "0.1"}},
			Paths: &spec.Paths{Paths: map[string]spec.PathItem{}}, Definitions: spec.Definitions{"Legacy": *spec.StringProperty()}}}
		ok := spec.NewOperation("").RespondsWith(200, spec.NewResponse().WithDescription("ok"))
		pi := spec.PathItem{}
		for _, m := range methods17 {
			o := *ok
			o.ID = "legacy" + strings.Title(strings.ToLower(m))
			if len(m)%2 == 0 {
				// the input document already declares the parameter the code annotates (without its constraint): the annotated one replaces it
				o.Parameters = []spec.Parameter{*spec.QueryParam("limit").Typed("integer", "int32"), *spec.QueryParam("fromInput").Typed("string", "")}
			}
			oo := o
			switch m {
			case "GET":
				pi.Get = &oo
			case "POST":
				pi.Post = &oo
			case "PUT":
				pi.Put = &oo
			case "DELETE":
				pi.Delete = &oo
			case "PATCH":
				pi.Patch = &oo
			case "HEAD":
				pi.Head = &oo
			case "OPTIONS":
				pi.Options = &oo
			}
			// the code adds a query parameter to every legacy operation and re-declares its route
			pg.ParamSets = append(pg.ParamSets, aparamset{GoName: "Legacy" + strings.Title(strings.ToLower(m)) + "Params", OpIDs: []string{o.ID},
				Params: []aparam{{GoName: "Limit", Name: "limit", In: "query", GoType: "int32", Type: "integer", Format: "int32", Lines: []string{"in: query", "maximum: 50"}, Want: map[string]interface{}{"maximum": 50}}}})
			pg.Routes = append(pg.Routes, aroute{Method: m, Path: "/legacy", ID: o.ID, Summary: "Legacy " + m + ".", Responses: [][2]string{{"200", "emptyResponse"}}})
		}
		in.Paths.Paths["/legacy"] = pi
		in.Paths.Paths["/only-in-input"] = spec.PathItem{PathItemProps: spec.PathItemProps{Get: spec.NewOperation("onlyInInput").RespondsWith(200, spec.NewResponse().WithDescription("ok"))}}
		pg.Input = in
	}
	return pg
}

// ---- rendering ----

func (pg *aprog) source() map[string]string {
	files := map[string]string{}
	var d strings.Builder
	fmt.Fprintf(&d, "// Package api %s\n//\n// The description of the API.\n//\n//\tSchemes: %s\n//\tBasePath: %s\n//\tVersion: %s\n//\n//\tConsumes:\n", pg.Title, strings.Join(pg.Schemes, ", "), pg.BasePath, pg.Version)
	for _, c := range pg.Consumes {
		d.WriteString("//\t- " + c + "\n")
	}
	d.WriteString("//\n//\tProduces:\n")
	for _, c := range pg.Produces {
		d.WriteString("//\t- " + c + "\n")
	}
	d.WriteString("//\n// swagger:meta\npackage api\n")
	files["doc.go"] = d.String()
	var m strings.Builder
	m.WriteString("package api\n\n")
	for _, md := range pg.Models {
		fmt.Fprintf(&m, "// %s is a model.\n//\n// swagger:model\ntype %s struct {\n", md.Name, md.Name)
		for _, f := range md.Fields {
			fmt.Fprintf(&m, "\t// %s of the %s\n\t%s %s `json:\"%s\"`\n", f[2], md.Name, f[0], f[1], f[2])
		}
		m.WriteString("}\n\n")
	}
	for _, rs := range pg.Responses {
		fmt.Fprintf(&m, "// %s is a response.\n//\n// swagger:response %s\ntype %s struct {\n", rs.GoName, rs.Name, rs.GoName)
		for _, h := range rs.Headers {
			fmt.Fprintf(&m, "\t// the %s header\n\t%s %s `json:\"%s\"`\n", h[0], goIdent(h[0]), h[1], h[0])
		}
		if rs.Body != "" {
			fmt.Fprintf(&m, "\t// the payload\n\t// in: body\n\tBody %s\n", rs.Body)
		}
		m.WriteString("}\n\n")
	}
	for _, ps := range pg.ParamSets {
		fmt.Fprintf(&m, "// %s are parameters.\n//\n// swagger:parameters %s\ntype %s struct {\n", ps.GoName, strings.Join(ps.OpIDs, " "), ps.GoName)
		for _, p := range ps.Params {
			fmt.Fprintf(&m, "\t// The %s parameter.\n\t//\n", p.Name)
			for _, ln := range p.Lines {
				m.WriteString("\t// " + ln + "\n")
			}
			fmt.Fprintf(&m, "\t%s %s `json:\"%s\"`\n", p.GoName, p.GoType, p.Name)
		}
		m.WriteString("}\n\n")
	}
	for i, jk := range pg.Junk {
		fmt.Fprintf(&m, "%s\ntype Junk%d struct {\n\t%s\n\tX string\n}\n\n", jk, i, jk)
	}
	files["types.go"] = m.String()
	// two packages of the same name (v1/models, v2/models), each with a model type Pet, both used as response bodies
	files["../v1/models/pet.go"] = "// Package models holds the first version.\npackage models\n\n// Pet of version one.\n//\n// swagger:model petV1\ntype Pet struct {\n\t// the id\n\tID int64 `json:\"id\"`\n\t// the name\n\tName string `json:\"name\"`\n}\n"
	files["../v2/models/pet.go"] = "// Package models holds the second version.\npackage models\n\n// Pet of version two.\n//\n// swagger:model petV2\ntype Pet struct {\n\t// the id\n\tID int64 `json:\"id\"`\n\t// the tag\n\tTag string `json:\"tag\"`\n}\n"
	files["versions.go"] = "package api\n\nimport (\n\tv1 \"scratchscan/v1/models\"\n\tv2 \"scratchscan/v2/models\"\n)\n\n// PetV1Response carries a pet of version one.\n//\n// swagger:response petV1Response\ntype PetV1Response struct {\n\t// in: body\n\tBody *v1.Pet\n}\n\n// PetV2Response carries a pet of version two.\n//\n// swagger:response petV2Response\ntype PetV2Response struct {\n\t// in: body\n\tBody *v2.Pet\n}\n"
	var rt strings.Builder
	rt.WriteString("package api\n\n// Mount mounts the routes.\nfunc Mount() {\n")
	for _, x := range pg.Routes {
		kw := "route"
		if x.AsOperation {
			kw = "operation"
		}
		line := fmt.Sprintf("swagger:%s %s %s", kw, x.Method, x.Path)
		if len(x.Tags) > 0 {
			line += " " + strings.Join(x.Tags, " ")
		}
		line += " " + x.ID
		rt.WriteString("\t// " + line + "\n\t//\n")
		if x.AsOperation {
			rt.WriteString("\t// ---\n")
			fmt.Fprintf(&rt, "\t// summary: %s\n", x.Summary)
			if x.Deprecated {
				rt.WriteString("\t// deprecated: true\n")
			}
			if len(x.PathParams) > 0 {
				rt.WriteString("\t// parameters:\n")
				for _, pp := range x.PathParams {
					fmt.Fprintf(&rt, "\t// - name: %s\n\t//   in: path\n\t//   required: true\n\t//   type: string\n", pp)
				}
			}
			rt.WriteString("\t// responses:\n")
			for _, rr := range x.Responses {
				if rr[1] == "" {
					fmt.Fprintf(&rt, "\t//   '%s':\n\t//     description: nothing\n", rr[0])
				} else {
					fmt.Fprintf(&rt, "\t//   '%s':\n\t//     \"$ref\": \"#/responses/%s\"\n", rr[0], rr[1])
				}
			}
		} else {
			rt.WriteString("\t// " + x.Summary + "\n\t//\n")
			if len(x.Consumes) > 0 {
				rt.WriteString("\t// Consumes:\n")
				for _, c := range x.Consumes {
					rt.WriteString("\t// - " + c + "\n")
				}
				rt.WriteString("\t//\n")
			}
			if len(x.Produces) > 0 {
				rt.WriteString("\t// Produces:\n")
				for _, c := range x.Produces {
					rt.WriteString("\t// - " + c + "\n")
				}
				rt.WriteString("\t//\n")
			}
			if len(x.Schemes) > 0 {
				rt.WriteString("\t// Schemes: " + strings.Join(x.Schemes, ", ") + "\n\t//\n")
			}
			if x.Deprecated {
				rt.WriteString("\t// Deprecated: true\n\t//\n")
			}
			rt.WriteString("\t// Responses:\n")
			for _, rr := range x.Responses {
				if rr[1] == "" {
					fmt.Fprintf(&rt, "\t// %s: description: nothing\n", rr[0])
				} else {
					fmt.Fprintf(&rt, "\t// %s: %s\n", rr[0], rr[1])
				}
			}
		}
		fmt.Fprintf(&rt, "\tmount(%q, %q)\n\n", x.Method, x.Path)
	}
	rt.WriteString("}\n\nfunc mount(m, p string) {}\n")
	files["routes.go"] = rt.String()
	return files
}

// ---- hostile comment text ----

var junkLines = []string{
	"swagger:route", "swagger:route GET", "swagger:route GET /x", "swagger:route GET /x y", "swagger:route GET /x a b c d e f", "swagger:route 123 /x ab",
	"swagger:operation", "swagger:operation GET /p op\n// ---\n// : bad yaml [", "swagger:operation POST /q opq\n// ---\n// responses:\n//   200: {", "swagger:operation GET /p2 op2\n// ---",
	"swagger:parameters", "swagger:parameters   ", "swagger:parameters a b c", "swagger:response", "swagger:response 9x", "swagger:model", "swagger:model 1", "swagger:allOf", "swagger:allOf a.b.c",
	"swagger:strfmt", "swagger:strfmt date-time", "swagger:enum", "swagger:enum Nope", "swagger:ignore", "swagger:meta", "swagger:name", "swagger:name x", "swagger:type", "swagger:type array", "swagger:default x", "swagger:discriminated a b",
	"in: nowhere", "in:", "in: body", "in: query", "required: maybe", "required:", "minimum: abc", "maximum: < ", "maximum: <", "minimum: >=1", "multiple of: 0", "multiple of: x",
	"min length: -1", "max length: 99999999999999999999999", "pattern: [", "pattern:", "enum: [", "enum: [1,", "enum: 1,2,,3", "enum:", "default: {", "default: [1,2", "default:", "example: {\"a\":", "example:",
	"items.maximum: 1", "items.items.items.items.items.minimum: 2", "items.: 3", "items.items", "items.enum: [", "items.default: x", "items.items.default: 1", "collection format: nope", "collection format:",
	"min items: x", "max items: 1e9", "unique: yes", "read only: true", "readOnly: TRUE", "discriminator: true", "Extensions:", "Extensions:\n// x-a: [", "Extensions:\n// not-x: 1", "extensions:\n//   x-b:\n//     - 1\n//     -",
	"Extensions:\n// x-a:\n//   - 1\n//   k: v", "Extensions:\n// x-b:\n//   k:\n//     - a\n//   z: 1\n//  y: 2", "Extensions:\n// x-c:\n//     deep: 1\n// shallow: 2", "Extensions:\n// x-d:\n//   - a\n//     - b",
	"Extensions:\n// x-e:\n//   m:\n//     n:\n//       o: 1\n// x-f: 2\n//   p: 3", "Extensions:\n// x-g:\n// - a\n// - b: c", "Extensions:\n// x-h:\n//\n//   k: v", "extensions:\n// x-i:\n// \t- tab", "Extensions:\n// x-j:\n//   k:\n// l: m\n//     n: o",
	"Responses:", "Responses:\n// 200:", "Responses:\n// abc: def", "Responses:\n// : x", "Responses:\n// 200: body:", "Responses:\n// default:   ", "responses:\n// 999999999999: a",
	"Parameters:", "Parameters:\n// + name: x", "Parameters:\n// + name: x\n//   in: query\n//   type: nothing", "Parameters:\n// +", "Security:", "Security:\n// a:\n// b: c, d", "Security:\n// : x",
	"Consumes:", "Consumes:\n// -", "Produces:\n// - \t", "Schemes: ftp", "Schemes:", "Schemes: http,,", "Version:", "Host:", "BasePath: x", "BasePath:", "License: ", "Contact: a<b>c", "TermsOfService:", "Terms Of Service:\n// x",
	"SecurityDefinitions:", "SecurityDefinitions:\n// a:\n//   type: x\n//  bad: indent", "Security Definitions:\n// - 1", "InfoExtensions:\n// x-a: {", "Tags:", "Tags:\n// - name: [",
	"---", "---\n// a: b", "---\n// - x\n// - : y", "\t\t", "//", "/*", "*/", "`", "\"", "\\", "\x00", "\u00a0\u2003", "\u202e", "é世\U0001F600", strings.Repeat("a", 5000), strings.Repeat("x: ", 300),
}

// sectionJunk: a section header of the annotation vocabulary followed by lines assembled from its own tokens in no
// particular order (a forgotten "+", a key before any item, a value where a key is expected, odd indentation)
var sectionHeads = []string{"Parameters:", "Responses:", "Security:", "Extensions:", "Consumes:", "Produces:", "Schemes:", "SecurityDefinitions:", "Tags:", "parameters:", "responses:", "InfoExtensions:", "Deprecated:", "ExternalDocs:"}
var sectionKeys = []string{"name", "in", "type", "required", "description", "format", "default", "enum", "min", "max", "maximum", "minimum", "allowempty", "schema", "items", "200", "default", "x-a", "url", "body", "", "unique", "collectionFormat"}
var sectionVals = []string{"x", "query", "body", "path", "string", "integer", "true", "false", "maybe", "[", "{", "1", "-1", "1e9", "a,b", "[1,2", "", " ", "array", "Pet", "[]Pet", "response:x", "body:Pet", "description: d"}

func sectionJunk(r *rng.R) string {
	var b strings.Builder
	b.WriteString(r.Pick(sectionHeads))
	for i, n := 0, r.Intn(5); i < n; i++ {
		b.WriteString("\n")
		b.WriteString(strings.Repeat(" ", r.Intn(5)))
		switch r.Intn(6) {
		case 0:
			b.WriteString("+ ")
		case 1:
			b.WriteString("- ")
		case 2:
			b.WriteString("+")
		}
		switch r.Intn(5) {
		case 0:
			b.WriteString(r.Pick(sectionVals))
		default:
			b.WriteString(r.Pick(sectionKeys) + ":" + strings.Repeat(" ", r.Intn(3)) + r.Pick(sectionVals))
		}
	}
	return b.String()
}

func junkBlock(r *rng.R) string {
	n := 1 + r.Intn(4)
	var b strings.Builder
	for i := 0; i < n; i++ {
		ln := r.Pick(junkLines)
		if r.Chance(1, 3) {
			ln = sectionJunk(r)
		}
		if r.Chance(1, 5) {
			// random unicode line
			var rs []rune
			for k := 0; k < 1+r.Intn(30); k++ {
				rs = append(rs, rune(r.Intn(0x3000)))
			}
			ln = strings.Map(func(c rune) rune {
				if c == '\n' || c == '\r' || c == 0 {
					return ' '
				}
				return c
			}, string(rs))
		}
		for _, part := range strings.Split(ln, "\n") {
			part = strings.ReplaceAll(strings.ReplaceAll(part, "\r", " "), "\x00", " ")
			if strings.HasPrefix(part, "// ") || part == "//" {
				b.WriteString(part + "\n")
			} else {
				b.WriteString("// " + part + "\n")
			}
		}
	}
	return strings.TrimRight(b.String(), "\n")
}

// ---- running and judging ----

type scanOutcome struct {
	Panic string
	Site  string
	Err   string
	Spec  *spec.Swagger
}

var reFrame = regexp.MustCompile(`github.com/go-swagger/go-swagger/codescan\.([^\s(]+(?:\([^)]*\))?[^\s(]*)\(`)

func runScan(dir string, input *spec.Swagger) (out scanOutcome) {
	defer func() {
		if r := recover(); r != nil {
			st := string(debug.Stack())
			out.Panic = fmt.Sprint(r)
			if m := reFrame.FindStringSubmatch(st); m != nil {
				out.Site = m[1]
			}
			// the frames of the scanner, for the replay file
			var frames []string
			for _, ln := range strings.Split(st, "\n") {
				if strings.Contains(ln, "/codescan/") {
					frames = append(frames, strings.TrimSpace(ln))
				}
			}
			if len(frames) > 6 {
				frames = frames[:6]
			}
			out.Panic += " @ " + strings.Join(frames, " <- ")
		}
	}()
	var in *spec.Swagger
	if input != nil {
		b, _ := json.Marshal(input)
		in = new(spec.Swagger)
		_ = json.Unmarshal(b, in)
	}
	sw, err := codescan.Run(&codescan.Options{Packages: []string{"./..."}, WorkDir: dir, ScanModels: true, InputSpec: in})
	if err != nil {
		out.Err = err.Error()
		return
	}
	out.Spec = sw
	return
}

// runScanIsolated: the scan in a child process, so that a hang or a fatal error is an observation
func runScanIsolated(dir string) scanOutcome {
	self, _ := os.Executable()
	cmd := exec.Command(self, "c17run", dir)
	var ob bytes.Buffer
	cmd.Stdout = &ob
	cmd.Stderr = io.Discard
	if err := cmd.Start(); err != nil {
		die("cannot start the scan worker: %v", err)
	}
	done := make(chan error, 1)
	go func() { done <- cmd.Wait() }()
	select {
	case <-done:
	case <-time.After(30 * time.Second):
		_ = cmd.Process.Kill()
		return scanOutcome{Panic: "no answer within 30 s", Site: "hang"}
	}
	var res struct{ Panic, Site, Err string }
	if err := json.Unmarshal(ob.Bytes(), &res); err != nil {
		return scanOutcome{Panic: "the scan process died: " + tailS(ob.String()), Site: "fatal"}
	}
	return scanOutcome{Panic: res.Panic, Site: res.Site, Err: res.Err}
}

func c17run(args []string) {
	oc := runScan(args[0], nil)
	b, _ := json.Marshal(map[string]string{"Panic": oc.Panic, "Site": oc.Site, "Err": oc.Err})
	fmt.Println(string(b))
}

func writeProgram(dir string, files map[string]string) {
	_ = os.RemoveAll(dir)
	_ = os.MkdirAll(filepath.Join(dir, "api"), 0o755)
	_ = os.WriteFile(filepath.Join(dir, "go.mod"), []byte("module scratchscan\n\ngo 1.21\n"), 0o644)
	for n, c := range files {
		p := filepath.Join(dir, "api", n) // "../v1/models/pet.go" lands beside the api package
		_ = os.MkdirAll(filepath.Dir(p), 0o755)
		_ = os.WriteFile(p, []byte(c), 0o644)
	}
}

func opOf(pi spec.PathItem, method string) *spec.Operation {
	switch method {
	case "GET":
		return pi.Get
	case "POST":
		return pi.Post
	case "PUT":
		return pi.Put
	case "DELETE":
		return pi.Delete
	case "PATCH":
		return pi.Patch
	case "HEAD":
		return pi.Head
	case "OPTIONS":
		return pi.Options
	}
	return nil
}

func sameSet(a, b []string) bool {
	x, y := append([]string{}, a...), append([]string{}, b...)
	sort.Strings(x)
	sort.Strings(y)
	return strings.Join(x, "\x00") == strings.Join(y, "\x00")
}

func keywordsOf(v interface{}) J {
	return toJ(v)
}

// faithful: what the program declares appears in the document
func faithful(pg *aprog, sw *spec.Swagger, add func(key, what string, detail interface{})) int {
	n := 0
	if sw.Info == nil || sw.Info.Title != pg.Title || sw.Info.Version != pg.Version {
		add("c17/meta-differs[info]", "title/version of swagger:meta are not in the document", sw.Info)
	}
	if sw.BasePath != pg.BasePath || !sameSet(sw.Consumes, pg.Consumes) || !sameSet(sw.Produces, pg.Produces) || !sameSet(sw.Schemes, pg.Schemes) {
		add("c17/meta-differs[basePath-consumes-produces-schemes]", "basePath / consumes / produces / schemes of swagger:meta are not in the document",
			J{"basePath": sw.BasePath, "consumes": sw.Consumes, "produces": sw.Produces, "schemes": sw.Schemes})
	}
	n += 2
	for _, md := range pg.Models {
		n++
		d, ok := sw.Definitions[md.Name]
		if !ok {
			add("c17/model-missing", "a swagger:model struct has no definition", md.Name)
			continue
		}
		for _, f := range md.Fields {
			if _, ok := d.Properties[f[2]]; !ok {
				add("c17/model-property-missing", "a field of a swagger:model struct has no property", md.Name+"."+f[2])
			}
		}
	}
	for _, rs := range pg.Responses {
		n++
		r, ok := sw.Responses[rs.Name]
		if !ok {
			add("c17/response-missing", "a swagger:response struct has no response object", rs.Name)
			continue
		}
		for _, h := range rs.Headers {
			hd, ok := r.Headers[h[0]]
			want := map[string]string{"int32": "integer", "string": "string", "bool": "boolean"}[h[1]]
			if !ok || hd.Type != want {
				add("c17/response-header-differs["+h[1]+"]", "a header field of a swagger:response struct is missing or has another type", J{"response": rs.Name, "header": h[0], "got": hd})
			}
		}
		switch {
		case rs.Body == "" && r.Schema != nil:
			add("c17/response-body-differs[unexpected]", "a response without Body field has a schema", rs.Name)
		case strings.HasPrefix(rs.Body, "[]"):
			if r.Schema == nil || r.Schema.Items == nil || r.Schema.Items.Schema == nil || r.Schema.Items.Schema.Ref.String() != "#/definitions/"+rs.Body[2:] {
				add("c17/response-body-differs[array-of-model]", "the Body of a swagger:response struct is not an array of the model", J{"response": rs.Name, "schema": r.Schema})
			}
		case rs.Body != "":
			if r.Schema == nil || r.Schema.Ref.String() != "#/definitions/"+rs.Body {
				add("c17/response-body-differs[model]", "the Body of a swagger:response struct is not a reference to the model", J{"response": rs.Name, "schema": r.Schema})
			}
		}
	}
	if sw.Paths == nil {
		add("c17/route-missing", "no paths at all", nil)
		return n
	}
	for _, rt := range pg.Routes {
		n++
		kind := "route"
		if rt.AsOperation {
			kind = "operation"
		}
		pi, ok := sw.Paths.Paths[rt.Path]
		var op *spec.Operation
		if ok {
			op = opOf(pi, rt.Method)
		}
		if op == nil {
			add("c17/"+kind+"-missing["+rt.Method+"]", "an annotated "+kind+" is not in the document with its method and path", J{"method": rt.Method, "path": rt.Path, "id": rt.ID})
			continue
		}
		if op.ID != rt.ID {
			add("c17/"+kind+"-id-differs", "the operation id differs", J{"want": rt.ID, "got": op.ID})
		}
		if !sameSet(op.Tags, rt.Tags) {
			add("c17/"+kind+"-tags-differ", "the tags differ", J{"route": rt.Method + " " + rt.Path, "want": rt.Tags, "got": op.Tags})
		}
		if op.Summary != strings.TrimSuffix(rt.Summary, ".") && op.Summary != rt.Summary {
			add("c17/"+kind+"-summary-differs", "the summary differs", J{"want": rt.Summary, "got": op.Summary})
		}
		if op.Deprecated != rt.Deprecated {
			add("c17/"+kind+"-deprecated-differs", "the deprecated flag differs", J{"route": rt.Method + " " + rt.Path, "want": rt.Deprecated})
		}
		if !rt.AsOperation {
			if !sameSet(op.Consumes, rt.Consumes) || !sameSet(op.Produces, rt.Produces) || !sameSet(op.Schemes, rt.Schemes) {
				add("c17/route-media-differ", "consumes / produces / schemes of the route differ", J{"route": rt.Method + " " + rt.Path, "got": J{"consumes": op.Consumes, "produces": op.Produces, "schemes": op.Schemes}})
			}
		}
		for _, rr := range rt.Responses {
			var got *spec.Response
			if op.Responses != nil {
				if rr[0] == "default" {
					got = op.Responses.Default
				} else {
					var code int
					fmt.Sscanf(rr[0], "%d", &code)
					if r, ok := op.Responses.StatusCodeResponses[code]; ok {
						got = &r
					}
				}
			}
			switch {
			case got == nil:
				add("c17/"+kind+"-response-missing["+rr[0]+"]", "a declared status code has no response", J{"route": rt.Method + " " + rt.Path, "code": rr[0]})
			case rr[1] != "" && got.Ref.String() != "#/responses/"+rr[1]:
				add("c17/"+kind+"-response-differs", "the response of a status code is not the declared one", J{"route": rt.Method + " " + rt.Path, "code": rr[0], "want": rr[1], "got": got.Ref.String()})
			}
		}
	}
	byID := map[string]*spec.Operation{}
	for _, pi := range sw.Paths.Paths {
		for _, m := range methods17 {
			if o := opOf(pi, m); o != nil {
				byID[o.ID] = o
			}
		}
	}
	for _, ps := range pg.ParamSets {
		for _, id := range ps.OpIDs {
			op := byID[id]
			if op == nil {
				continue // reported as a missing route
			}
			for _, p := range ps.Params {
				n++
				var got *spec.Parameter
				count := 0
				for i := range op.Parameters {
					if op.Parameters[i].Name == p.Name && op.Parameters[i].In == p.In {
						got = &op.Parameters[i]
						count++
					}
				}
				if count > 1 {
					add("c17/parameter-duplicated["+p.In+"]", "an operation lists the same parameter (name and location) more than once", J{"operation": id, "name": p.Name, "in": p.In, "count": count})
				}
				cls := p.In + ":" + p.GoType
				if got == nil {
					add("c17/parameter-missing["+p.In+"]", "a field of a swagger:parameters struct is not a parameter of the operation", J{"operation": id, "name": p.Name, "in": p.In})
					continue
				}
				if got.Required != p.Required {
					add("c17/parameter-required-differs["+p.In+"]", "required differs", J{"operation": id, "name": p.Name, "want": p.Required})
				}
				if p.In == "body" {
					if got.Schema == nil || got.Schema.Ref.String() != "#/definitions/Pet" {
						add("c17/parameter-body-schema-differs", "the schema of a body parameter is not the model", J{"operation": id, "got": got.Schema})
					}
					continue
				}
				g := keywordsOf(got)
				// type chain
				cur := g
				for d := 0; d < p.Depth; d++ {
					if cur["type"] != "array" {
						add("c17/parameter-type-differs["+cls+"]", "the parameter is not an array at a level where the Go type is a slice", J{"operation": id, "name": p.Name, "level": d, "got": cur})
						break
					}
					nx, _ := cur["items"].(J)
					if nx == nil {
						break
					}
					for k, w := range p.WantItems[d] {
						if v, ok := nx[k]; !ok || !sameValue(toJ(J{"v": w})["v"], v) {
							add(fmt.Sprintf("c17/parameter-items-keyword-differs[%s]", k), "a validation declared with an items. prefix is missing or different at its level", J{"operation": id, "name": p.Name, "gotype": p.GoType, "level": d + 1, "keyword": k, "want": w, "got": nx[k], "lines": p.Lines})
						}
					}
					cur = nx
				}
				if cur["type"] != p.Type || (p.Format != "" && cur["format"] != p.Format) {
					add("c17/parameter-type-differs["+cls+"]", "type/format of the parameter differ from the Go type", J{"operation": id, "name": p.Name, "want": p.Type + "/" + p.Format, "got": cur})
				}
				for k, w := range p.Want {
					if v, ok := g[k]; !ok || !sameValue(toJ(J{"v": w})["v"], v) {
						add(fmt.Sprintf("c17/parameter-keyword-differs[%s]", k), "a validation declared on the field is missing or different", J{"operation": id, "name": p.Name, "gotype": p.GoType, "keyword": k, "want": w, "got": g[k], "lines": p.Lines})
					}
				}
			}
		}
	}
	// the two homonymous packages: each response refers to the model of its own package
	for _, v := range [][3]string{{"petV1Response", "petV1", "name"}, {"petV2Response", "petV2", "tag"}} {
		n++
		r, ok := sw.Responses[v[0]]
		switch {
		case !ok || r.Schema == nil:
			add("c17/versioned-response-missing", "a swagger:response whose body is a model of a package that shares its name with another package is missing or has no schema", J{"response": v[0]})
		case r.Schema.Ref.String() != "#/definitions/"+v[1]:
			add("c17/versioned-response-differs", "the body of a response refers to the model of another package of the same name", J{"response": v[0], "want": v[1], "got": r.Schema.Ref.String()})
		default:
			if d, ok := sw.Definitions[v[1]]; !ok || d.Properties == nil {
				add("c17/versioned-model-missing", "the model of a package that shares its name with another package is missing", J{"model": v[1]})
			} else if _, ok := d.Properties[v[2]]; !ok {
				add("c17/versioned-model-differs", "a model was scanned from the declaration of another package of the same name", J{"model": v[1], "missing_property": v[2]})
			}
		}
	}
	if pg.Input != nil {
		n++
		if _, ok := sw.Paths.Paths["/only-in-input"]; !ok {
			add("c17/input-path-lost", "a path of the input document that the code does not mention is gone", nil)
		}
		if _, ok := sw.Definitions["Legacy"]; !ok {
			add("c17/input-definition-lost", "a definition of the input document is gone", nil)
		}
		// a parameter the input document declares for an operation and the code does not mention stays
		for _, m := range methods17 {
			if len(m)%2 != 0 {
				continue
			}
			if op := byID["legacy"+strings.Title(strings.ToLower(m))]; op != nil {
				found := false
				for _, q := range op.Parameters {
					found = found || (q.Name == "fromInput" && q.In == "query")
				}
				if !found {
					add("c17/input-parameter-lost", "a parameter that only the input document declares for an operation is gone", J{"operation": op.ID})
				}
			}
		}
	}
	return n
}

func c17(args []string) {
	fs := flag.NewFlagSet("c17", flag.ExitOnError)
	work := fs.String("work", "", "")
	out := fs.String("out", "", "")
	seed := fs.Uint64("seed", 1, "")
	nprog := fs.Int("programs", 12, "")
	njunk := fs.Int("junk", 40, "programs with hostile comment text")
	_ = fs.Parse(args)
	if *work == "" || *out == "" {
		die("-work, -out required")
	}
	_ = os.MkdirAll(*out, 0o755)
	r := rng.New(*seed)
	cov := map[string]int{}
	var viols []violation
	evals := 0
	var samples []interface{}
	dir := filepath.Join(*work, "c17")
	defer os.RemoveAll(dir)
	okRuns := 0
	for i := 0; i < *nprog; i++ {
		pg := genProgram(r.Fork(), 3+r.Intn(6), i%3 == 2)
		files := pg.source()
		writeProgram(dir, files)
		in := J{"files": files}
		if pg.Input != nil {
			in["input_spec"] = pg.Input
			cov["program:with-input-spec"]++
		}
		cov["programs"]++
		oc := runScan(dir, pg.Input)
		add := func(key, what string, detail interface{}) { viols = append(viols, violation{key, what, in, detail}) }
		switch {
		case oc.Panic != "":
			add("c17/panic["+oc.Site+"]", "the scanner panics on a program that follows the annotation grammar", oc.Panic)
			continue
		case oc.Err != "":
			cov["outcome:error"]++
			add("c17/error-on-documented-grammar", "the scanner rejects a program built from the documented grammar only", oc.Err)
			continue
		}
		okRuns++
		cov["outcome:document"]++
		// as a user sees it
		b, _ := json.Marshal(oc.Spec)
		sw := new(spec.Swagger)
		_ = json.Unmarshal(b, sw)
		if len(samples) < 2 {
			samples = append(samples, J{"routes": len(pg.Routes), "parameter_sets": len(pg.ParamSets), "document_bytes": len(b)})
		}
		evals += faithful(pg, sw, add)
		// validity
		evals++
		doc, err := loads.Analyzed(b, "")
		if err != nil {
			add("c17/document-does-not-load", "the document does not load", err.Error())
			continue
		}
		if err := validate.Spec(doc, strfmt.Default); err != nil {
			msg := err.Error()
			cause := "other"
			switch {
			case strings.Contains(msg, ".example in body is a forbidden property"):
				cause = "example-on-non-body-parameter"
			case strings.Contains(msg, "default value"):
				cause = "default-value-does-not-validate"
			case strings.Contains(msg, "example value"):
				cause = "example-value-does-not-validate"
			case strings.Contains(msg, "path param"):
				cause = "path-parameter"
			case strings.Contains(msg, "enum"):
				cause = "enum"
			}
			add("c17/invalid-document["+cause+"]", "the document does not pass Swagger 2.0 validation", tailS(msg))
		}
		for _, rt := range pg.Routes {
			cov["method:"+rt.Method]++
			if rt.AsOperation {
				cov["annotation:operation"]++
			} else {
				cov["annotation:route"]++
			}
		}
		for _, ps := range pg.ParamSets {
			for _, p := range ps.Params {
				cov["param:"+p.In+":"+p.GoType]++
			}
		}
	}
	// hostile comment text: the only claim is the absence of a crash
	base := genProgram(r.Fork(), 3, false)
	for i := 0; i < *njunk; i++ {
		pg := *base
		pg.Junk = nil
		for k := 0; k < 6; k++ {
			pg.Junk = append(pg.Junk, junkBlock(r))
		}
		files := pg.source()
		// hostile text also inside a route block and in the package comment
		files["routes.go"] = strings.Replace(files["routes.go"], "\t// Responses:\n", "\t"+strings.ReplaceAll(junkBlock(r), "\n", "\n\t")+"\n\t// Responses:\n", 1)
		files["doc.go"] = strings.Replace(files["doc.go"], "// swagger:meta", junkBlock(r)+"\n//\n// swagger:meta", 1)
		writeProgram(dir, files)
		oc := runScanIsolated(dir)
		evals++
		cov["junk-programs"]++
		switch {
		case oc.Panic != "":
			viols = append(viols, violation{"c17/panic[" + oc.Site + "]", "arbitrary comment text makes the scanner crash", J{"files": files}, oc.Panic})
		case oc.Err != "":
			cov["junk-outcome:error"]++
		default:
			cov["junk-outcome:document"]++
		}
	}
	// grammar cases for the model
	coq := c17Grammar(r.Fork(), dir, cov, func(key, what string, in, detail interface{}) {
		viols = append(viols, violation{key, what, in, detail})
	})
	cd := filepath.Join(*out, "coq-c17")
	_ = os.RemoveAll(cd)
	_ = os.MkdirAll(cd, 0o755)
	text := "From GS Require Import Base.Str Scan.Annot Scan.AnnotRun.\nDefinition cases : list acase := [\n" + strings.Join(coq, ";\n") +
		"\n].\nDefinition M := Eval vm_compute in run_cases cases.\nPrint M.\n"
	_ = os.WriteFile(filepath.Join(cd, "cases_00.v"), []byte(text), 0o644)
	cov["model:cases"] = len(coq)
	if okRuns == 0 && *nprog > 0 {
		cov["note:no-program-produced-a-document"]++
	}
	writeReport(*out, "c17.json", evals, cov, viols, samples,
		"annotated programs printed from an abstract description: swagger:meta, 3 models, 4 swagger:response structs (headers, model / array-of-model bodies), 3-8 routes over 7 methods x 10 path shapes x tags x ids (one in five as swagger:operation with a YAML body), one swagger:parameters struct per route with path/query/header/formData/body fields of scalar and (nested) slice types carrying validations, defaults, examples, enums, collection formats and items.-prefixed validations; every third program is merged with an input document that already declares operations for all seven methods. Judged: no panic; document or error; validate.Spec; every declared element present with method, path, id, tags, summary, deprecated, media types, status codes, location, name, required, type chain and keywords. Second stream: the same program with hostile comment blocks (truncated annotations, malformed sections, YAML fragments, control and bidi characters, 5000-byte lines, random unicode) on extra declarations, inside a route block and in the package comment: the only claim is the absence of a crash.")
	fmt.Printf("scancheck c17: %d programs (%d documents), %d hostile programs, %d evaluations, %d violations\n", *nprog, okRuns, *njunk, evals, len(viols))
}

// ---- grammar cases for the model (Scan/Annot.v) ----

type hdrCase struct {
	Multi        bool
	Method, Path string
	Tags         []string
	ID           string
	Line         string
}

func grammarCases(r *rng.R, n int) []hdrCase {
	var out []hdrCase
	methodsOK := []string{"GET", "POST", "PUT", "DELETE", "PATCH", "HEAD", "OPTIONS", "get", "Post"}
	methodsBad := []string{"G3T", "GE-T"}
	tagsOK := [][]string{nil, {"pets"}, {"pets", "users"}, {"a.b", "c-d", "e_f"}, {"v2", "2fast"}, {"x"}}
	tagsBad := [][]string{{"2pets"}, {"pets/cats"}, {"-x"}}
	idsOK := []string{"listPets", "ab", "get-order_2", "A1"}
	idsBad := []string{"x", "1st", "a.b", "with/slash"}
	suffixes := []string{"", "/{id}", "/a-b_c.d", "/x~y", "/q(1)", "/p;v=1", "/"}
	for i := 0; i < n; i++ {
		c := hdrCase{Method: r.Pick(methodsOK), Path: fmt.Sprintf("/g%d%s", i, r.Pick(suffixes)), Tags: tagsOK[r.Intn(len(tagsOK))], ID: r.Pick(idsOK) + fmt.Sprintf("G%d", i)}
		switch r.Intn(10) {
		case 0:
			c.Method = r.Pick(methodsBad)
		case 1:
			c.Tags = tagsBad[r.Intn(len(tagsBad))]
		case 2:
			c.ID = r.Pick(idsBad)
		case 3:
			c.Path = fmt.Sprintf("g%d/noslash", i)
		}
		sep := " "
		if r.Chance(1, 5) {
			sep = "   "
			c.Multi = true
		}
		toks := append([]string{"swagger:route", c.Method, c.Path}, c.Tags...)
		toks = append(toks, c.ID)
		c.Line = strings.Join(toks, sep)
		out = append(out, c)
	}
	return out
}

func coqStrList(xs []string) string {
	ys := make([]string, len(xs))
	for i, x := range xs {
		ys[i] = coqStr(x)
	}
	return "[" + strings.Join(ys, "; ") + "]"
}

type litCase struct {
	GoType string
	Depth  int
	Elem   string // TInt TBool TStr
	Level  int
	Text   string
}

var reDocID = regexp.MustCompile(`^[A-Za-z][A-Za-z0-9_-]*$`)
var reDocTag = regexp.MustCompile(`^[A-Za-z0-9][A-Za-z0-9_.-]*$`)
var reDocPath = regexp.MustCompile(`^/[A-Za-z0-9{}\-._~!$&'()*+,;=:@/%?]*$`)

// documented: is the header line inside "swagger:route [method] [path pattern] [?tag1 tag2 tag3] [operation id]"?
func (h hdrCase) documented() bool {
	ok := false
	for _, m := range methods17 {
		ok = ok || strings.EqualFold(m, h.Method)
	}
	if !ok || !reDocPath.MatchString(h.Path) || !reDocID.MatchString(h.ID) {
		return false
	}
	for i, t := range h.Tags {
		if !reDocTag.MatchString(t) || (i == 0 && !reDocID.MatchString(t[:1])) {
			return false
		}
	}
	return true
}

func c17Grammar(r *rng.R, dir string, cov map[string]int, add func(key, what string, in, detail interface{})) []string {
	hs := grammarCases(r, 40)
	lits := []litCase{{"int64", 0, "TInt", 0, "3"}, {"int32", 0, "TInt", 0, "-12"}, {"bool", 0, "TBool", 0, "true"}, {"string", 0, "TStr", 0, "abc"}, {"string", 0, "TStr", 0, "12"},
		{"[]int64", 1, "TInt", 1, "7"}, {"[]bool", 1, "TBool", 1, "false"}, {"[]string", 1, "TStr", 1, "x y"}, {"[][]int32", 2, "TInt", 2, "41"}, {"[][]bool", 2, "TBool", 2, "true"},
		{"[][]string", 2, "TStr", 2, "true"}, {"[]int32", 1, "TInt", 1, "0"}}
	var src strings.Builder
	src.WriteString("package api\n\n// Grammar holds the header lines under test.\nfunc Grammar() {\n")
	for _, h := range hs {
		src.WriteString("\t// " + h.Line + "\n\t//\n\t// A route.\n\t//\n\t// Responses:\n\t// 200: description: fine\n\tmount(\"\", \"\")\n\n")
	}
	src.WriteString("\t// swagger:route GET /literals literalsOp\n\t//\n\t// Literals.\n\t//\n\t// Responses:\n\t// 200: description: fine\n\tmount(\"\", \"\")\n}\n\nfunc mount(a, b string) {}\n\n")
	src.WriteString("// LiteralParams carry typed literals.\n//\n// swagger:parameters literalsOp\ntype LiteralParams struct {\n")
	for i, l := range lits {
		fmt.Fprintf(&src, "\t// Literal %d.\n\t//\n\t// in: query\n\t// %sdefault: %s\n\tL%d %s `json:\"l%d\"`\n", i, strings.Repeat("items.", l.Level), l.Text, i, l.GoType, i)
	}
	src.WriteString("}\n")
	writeProgram(dir, map[string]string{"doc.go": "// Package api Grammar\n//\n//\tVersion: 1\n//\n// swagger:meta\npackage api\n", "grammar.go": src.String()})
	oc := runScan(dir, nil)
	if oc.Spec == nil {
		cov["grammar:scan-failed"]++
		return nil
	}
	b, _ := json.Marshal(oc.Spec)
	sw := new(spec.Swagger)
	_ = json.Unmarshal(b, sw)
	var coq []string
	for _, h := range hs {
		obs := "None"
		if sw.Paths != nil {
			if pi, ok := sw.Paths.Paths[h.Path]; ok {
				if op := opOf(pi, strings.ToUpper(h.Method)); op != nil {
					obs = fmt.Sprintf("(Some {| r_method := %s; r_path := %s; r_tags := %s; r_id := %s |})", coqStr(h.Method), coqStr(h.Path), coqStrList(op.Tags), coqStr(op.ID))
					cov["grammar:header-read"]++
				}
			}
		}
		if obs == "None" {
			cov["grammar:header-ignored"]++
		}
		if !h.Multi {
			coq = append(coq, fmt.Sprintf("CR (s \"swagger:route\") %s %s", coqStr(h.Line), obs))
		}
		// the documented syntax, judged on the implementation
		if h.documented() {
			var op *spec.Operation
			if sw.Paths != nil {
				if pi, ok := sw.Paths.Paths[h.Path]; ok {
					op = opOf(pi, strings.ToUpper(h.Method))
				}
			}
			cause := ""
			switch {
			case len(h.ID) == 1:
				cause = "one-letter-operation-id"
			case h.Multi:
				cause = "several-blanks-between-fields"
			case len(h.Tags) == 1 && len(h.Tags[0]) == 1:
				cause = "one-letter-single-tag"
			default:
				cause = "documented-header"
			}
			switch {
			case op == nil:
				add("c17/route-missing["+cause+"]", "a swagger:route line inside the documented syntax is not read", J{"line": h.Line}, nil)
			case op.ID != h.ID || !sameSet(op.Tags, h.Tags):
				add("c17/route-header-differs["+cause+"]", "a swagger:route line inside the documented syntax is read with another id or other tags", J{"line": h.Line}, J{"id": op.ID, "tags": op.Tags})
			}
		}
	}
	var lop *spec.Operation
	if sw.Paths != nil {
		if pi, ok := sw.Paths.Paths["/literals"]; ok {
			lop = pi.Get
		}
	}
	for i, l := range lits {
		if lop == nil {
			break
		}
		var got interface{}
		found := false
		for _, p := range lop.Parameters {
			if p.Name == fmt.Sprintf("l%d", i) {
				g := toJ(p)
				for d := 0; d < l.Level; d++ {
					g, _ = g["items"].(J)
					if g == nil {
						break
					}
				}
				if g != nil {
					got, found = g["default"]
				}
			}
		}
		obs := "LFail"
		if found {
			switch x := got.(type) {
			case json.Number:
				obs = "(LInt " + zLit(x.String()) + ")"
			case bool:
				obs = "(LBool " + b2s(x) + ")"
			case string:
				obs = "(LStr " + coqStr(x) + ")"
			}
		}
		cov["grammar:literals"]++
		coq = append(coq, fmt.Sprintf("CL %d %s %d %s %s", l.Depth, l.Elem, l.Level, coqStr(l.Text), obs))
	}
	return coq
}

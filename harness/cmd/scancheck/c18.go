package main

import (
	"encoding/json"
	"flag"
	"fmt"
	"math/big"
	"os"
	"os/exec"
	"path/filepath"
	"sort"
	"strings"

	"github.com/go-swagger/go-swagger/codescan"

	"go/ast"
	"go/parser"
	"go/token"
	"reflect"

	"verif/harness/internal/coqpp"
	"verif/harness/internal/gschema"
	"verif/harness/internal/rng"
)

func coqStr(x string) string { return coqpp.Str(x) }

// fieldDocs: json name -> doc comment lines of every struct field of the generated models package
func fieldDocs(dir string) map[string]map[string][]string {
	out := map[string]map[string][]string{}
	fset := token.NewFileSet()
	pkgs, err := parser.ParseDir(fset, dir, nil, parser.ParseComments)
	if err != nil {
		return out
	}
	for _, pkg := range pkgs {
		for _, f := range pkg.Files {
			for _, d := range f.Decls {
				gd, ok := d.(*ast.GenDecl)
				if !ok || gd.Tok != token.TYPE {
					continue
				}
				for _, sp := range gd.Specs {
					ts := sp.(*ast.TypeSpec)
					st, ok := ts.Type.(*ast.StructType)
					if !ok {
						continue
					}
					m := map[string][]string{}
					for _, fl := range st.Fields.List {
						if fl.Tag == nil || fl.Doc == nil {
							continue
						}
						tag := reflect.StructTag(strings.Trim(fl.Tag.Value, "`")).Get("json")
						name := strings.Split(tag, ",")[0]
						var lines []string
						for _, c := range fl.Doc.List {
							lines = append(lines, strings.TrimPrefix(strings.TrimPrefix(c.Text, "//"), " "))
						}
						m[name] = lines
					}
					out[ts.Name.Name] = m
				}
			}
		}
	}
	return out
}

type J = map[string]interface{}

type c18prop struct {
	Class  string
	Schema J
	Req    bool
}

func num(v interface{}) interface{} { return v }

// c18Catalogue: properties each exercising one construct the doc-comment vocabulary has to carry
func c18Catalogue(r *rng.R) []c18prop {
	var out []c18prop
	add := func(class string, s J) { out = append(out, c18prop{Class: class, Schema: s}) }
	for _, tp := range []struct {
		t, f string
		lo   interface{}
		hi   interface{}
	}{{"integer", "int32", 1, 100}, {"integer", "int64", -5, 5}, {"integer", "", 0, 9}, {"number", "double", 0.5, 99.5}, {"number", "float", -1.5, 2}, {"number", "", 1, 3.25}, {"integer", "uint32", 2, 7}} {
		base := func() J {
			s := J{"type": tp.t}
			if tp.f != "" {
				s["format"] = tp.f
			}
			return s
		}
		name := tp.t + ":" + tp.f
		for _, xm := range []bool{false, true} {
			for _, xn := range []bool{false, true} {
				s := base()
				s["maximum"], s["minimum"] = tp.hi, tp.lo
				if xm {
					s["exclusiveMaximum"] = true
				}
				if xn {
					s["exclusiveMinimum"] = true
				}
				add(fmt.Sprintf("bounds[%s,xmax=%v,xmin=%v]", name, xm, xn), s)
			}
		}
		s := base()
		s["maximum"] = tp.hi
		s["exclusiveMaximum"] = true
		add("maximum-exclusive-only["+name+"]", s)
		s = base()
		s["minimum"] = tp.lo
		s["exclusiveMinimum"] = true
		add("minimum-exclusive-only["+name+"]", s)
		s = base()
		s["minimum"] = tp.lo
		add("minimum-only["+name+"]", s)
		s = base()
		s["maximum"] = tp.hi
		add("maximum-only["+name+"]", s)
		s = base()
		if tp.t == "integer" {
			s["multipleOf"] = 3
		} else {
			s["multipleOf"] = 0.25
		}
		add("multipleOf["+name+"]", s)
	}
	add("integer-bounds-million", J{"type": "integer", "format": "int64", "minimum": 1000000, "maximum": 25000000})
	add("integer-bounds-below-million", J{"type": "integer", "format": "int64", "minimum": 999999, "maximum": 999999})
	add("number-small-fraction", J{"type": "number", "format": "double", "minimum": 0.00001, "maximum": 0.5})
	add("number-many-digits", J{"type": "number", "format": "double", "minimum": 1.123456789, "maximum": 12345.6789})
	add("length-million", J{"type": "string", "maxLength": 1000000})
	add("items-million", J{"type": "array", "items": J{"type": "string"}, "maxItems": 1000000})
	add("multipleOf-small", J{"type": "number", "format": "double", "multipleOf": 0.00001})
	add("integer-negative-bounds", J{"type": "integer", "format": "int64", "minimum": -100, "maximum": -1})
	add("number-zero-maximum", J{"type": "number", "format": "double", "maximum": 0, "exclusiveMaximum": true})
	add("minLength", J{"type": "string", "minLength": 2})
	add("maxLength", J{"type": "string", "maxLength": 7})
	add("lengths", J{"type": "string", "minLength": 1, "maxLength": 3})
	for i, p := range []string{"^[a-z]+$", `^\d{3}-\d{2}$`, "a|b", "^ leading and trailing $", `[^"]*`, `\\path\\`, "[é世]+"} {
		add(fmt.Sprintf("pattern#%d", i), J{"type": "string", "pattern": p})
	}
	add("pattern-with-leading-blank", J{"type": "string", "pattern": " x+"})
	add("enum-plain", J{"type": "string", "enum": []interface{}{"red", "green"}})
	add("enum-with-spaces-and-commas", J{"type": "string", "enum": []interface{}{"a b", "c,d", " lead", "trail "}})
	add("enum-with-json-escapes", J{"type": "string", "enum": []interface{}{"R&D", "<none>", `say "hi"`, `back\slash`, "tab\there"}})
	add("enum-with-unicode", J{"type": "string", "enum": []interface{}{"ünï", "日本", " sep"}})
	add("enum-with-empty-string", J{"type": "string", "enum": []interface{}{"", "x"}})
	add("enum-looks-like-other-types", J{"type": "string", "enum": []interface{}{"1", "true", "null", "[1]"}})
	add("enum-integers", J{"type": "integer", "format": "int32", "enum": []interface{}{1, 2, 3}})
	add("enum-negative-integers", J{"type": "integer", "format": "int64", "enum": []interface{}{-1, 0, 9007199254740993}})
	add("enum-numbers", J{"type": "number", "format": "double", "enum": []interface{}{0.5, 2, -1.25}})
	add("enum-booleans", J{"type": "boolean", "enum": []interface{}{true}})
	// values that are not binary fractions, on every number format (a float32 field holds them rounded; the document holds them as written)
	add("enum-float-decimals", J{"type": "number", "format": "float", "enum": []interface{}{0.1, 0.25, 2.7, 1}})
	add("enum-double-decimals", J{"type": "number", "format": "double", "enum": []interface{}{0.1, 0.3, 1e-7}})
	add("enum-number-decimals", J{"type": "number", "enum": []interface{}{0.1, 123456.789}})
	add("enum-small-integer-formats", J{"type": "integer", "format": "int32", "enum": []interface{}{-2147483648, 2147483647}})
	add("enum-unsigned", J{"type": "integer", "format": "uint64", "enum": []interface{}{0, 4294967296}})
	add("float-bounds-decimals", J{"type": "number", "format": "float", "minimum": 0.1, "maximum": 2.7, "multipleOf": 0.1})
	add("readOnly", J{"type": "string", "readOnly": true})
	add("readOnly-integer", J{"type": "integer", "format": "int32", "readOnly": true, "minimum": 1})
	for _, f := range []string{"date", "date-time", "uuid", "email", "uri", "byte", "password", "hostname", "ipv4", "duration", "binary"} {
		add("string-format["+f+"]", J{"type": "string", "format": f})
	}
	for _, f := range []string{"int32", "int64", "uint8", "uint16", "uint32", "uint64", "int8", "int16"} {
		add("integer-format["+f+"]", J{"type": "integer", "format": f})
	}
	add("integer-without-format", J{"type": "integer"})
	add("number-without-format", J{"type": "number"})
	add("number-format[float]", J{"type": "number", "format": "float"})
	add("boolean", J{"type": "boolean"})
	add("string-with-date-format-and-lengths", J{"type": "string", "format": "hostname", "minLength": 3, "maxLength": 30})
	add("array-minItems", J{"type": "array", "items": J{"type": "string"}, "minItems": 1})
	add("array-maxItems", J{"type": "array", "items": J{"type": "integer", "format": "int32"}, "maxItems": 4})
	add("array-unique", J{"type": "array", "items": J{"type": "string"}, "uniqueItems": true})
	add("array-all-counts", J{"type": "array", "items": J{"type": "number", "format": "double"}, "minItems": 2, "maxItems": 5, "uniqueItems": true})
	add("array-items-bounds", J{"type": "array", "items": J{"type": "integer", "format": "int64", "minimum": 1, "maximum": 9}})
	add("array-items-lengths", J{"type": "array", "items": J{"type": "string", "minLength": 2, "maxLength": 4, "pattern": "^x"}})
	add("array-items-enum", J{"type": "array", "items": J{"type": "string", "enum": []interface{}{"a", "b"}}})
	add("array-items-format", J{"type": "array", "items": J{"type": "string", "format": "date-time"}})
	add("nested-array-counts", J{"type": "array", "maxItems": 3, "items": J{"type": "array", "maxItems": 2, "minItems": 1, "items": J{"type": "integer", "format": "int32", "maximum": 5}}})
	add("array-of-refs", J{"type": "array", "items": J{"$ref": "#/definitions/Leaf"}, "minItems": 1})
	add("ref", J{"$ref": "#/definitions/Leaf"})
	add("ref-to-alias", J{"$ref": "#/definitions/Colour"})
	add("ref-to-array-alias", J{"$ref": "#/definitions/Names"})
	add("map-of-integers", J{"type": "object", "additionalProperties": J{"type": "integer", "format": "int64"}})
	add("map-of-constrained-strings", J{"type": "object", "additionalProperties": J{"type": "string", "minLength": 1, "enum": []interface{}{"x", "yy"}}})
	add("map-of-refs", J{"type": "object", "additionalProperties": J{"$ref": "#/definitions/Leaf"}})
	add("map-of-arrays", J{"type": "object", "additionalProperties": J{"type": "array", "items": J{"type": "string"}, "maxItems": 2}})
	add("nested-object", J{"type": "object", "required": []interface{}{"deep"}, "properties": J{"deep": J{"type": "string", "maxLength": 3}, "n": J{"type": "integer", "format": "int32", "minimum": 0}}})
	add("nullable-string", J{"type": "string", "x-nullable": true, "minLength": 1})
	// several keywords on one property: every subset of the validation vocabulary of each kind (a keyword read back
	// correctly on its own may be lost next to another one)
	for _, tp := range []struct{ t, f string }{{"integer", "int64"}, {"number", "double"}, {"integer", "int32"}} {
		for mask := 0; mask < 32; mask++ {
			if mask&(mask-1) == 0 {
				continue // none or one keyword: catalogued above
			}
			sc := J{"type": tp.t, "format": tp.f}
			var names []string
			if mask&1 != 0 {
				sc["minimum"] = 2
				names = append(names, "minimum")
			}
			if mask&2 != 0 {
				sc["maximum"] = 90
				names = append(names, "maximum")
			}
			if mask&4 != 0 {
				sc["multipleOf"] = 2
				names = append(names, "multipleOf")
			}
			if mask&8 != 0 {
				sc["enum"] = []interface{}{4, 6, 8}
				names = append(names, "enum")
			}
			if mask&16 != 0 {
				sc["readOnly"] = true
				names = append(names, "readOnly")
			}
			add("combination["+tp.t+":"+tp.f+":"+strings.Join(names, "+")+"]", sc)
		}
	}
	for mask := 0; mask < 32; mask++ {
		if mask&(mask-1) == 0 {
			continue
		}
		sc := J{"type": "string"}
		var names []string
		if mask&1 != 0 {
			sc["minLength"] = 1
			names = append(names, "minLength")
		}
		if mask&2 != 0 {
			sc["maxLength"] = 9
			names = append(names, "maxLength")
		}
		if mask&4 != 0 {
			sc["pattern"] = "^[a-z]+$"
			names = append(names, "pattern")
		}
		if mask&8 != 0 {
			sc["enum"] = []interface{}{"ab", "cd"}
			names = append(names, "enum")
		}
		if mask&16 != 0 {
			sc["readOnly"] = true
			names = append(names, "readOnly")
		}
		add("combination[string:"+strings.Join(names, "+")+"]", sc)
	}
	for mask := 0; mask < 32; mask++ {
		if mask&(mask-1) == 0 {
			continue
		}
		items := J{"type": "integer", "format": "int32"}
		sc := J{"type": "array", "items": items}
		var names []string
		if mask&1 != 0 {
			sc["minItems"] = 1
			names = append(names, "minItems")
		}
		if mask&2 != 0 {
			sc["maxItems"] = 6
			names = append(names, "maxItems")
		}
		if mask&4 != 0 {
			sc["uniqueItems"] = true
			names = append(names, "uniqueItems")
		}
		if mask&8 != 0 {
			items["minimum"], items["maximum"] = 1, 50
			names = append(names, "items.bounds")
		}
		if mask&16 != 0 {
			items["multipleOf"] = 5
			names = append(names, "items.multipleOf")
		}
		add("combination[array:"+strings.Join(names, "+")+"]", sc)
	}
	return out
}

func isNumber(v interface{}) (*big.Float, bool) {
	switch x := v.(type) {
	case json.Number:
		f, _, err := big.ParseFloat(x.String(), 10, 200, big.ToNearestEven)
		return f, err == nil
	case float64:
		return big.NewFloat(x), true
	case int:
		return big.NewFloat(float64(x)), true
	case int64:
		return new(big.Float).SetInt64(x), true
	}
	return nil, false
}

func sameValue(a, b interface{}) bool {
	if fa, ok := isNumber(a); ok {
		fb, ok2 := isNumber(b)
		return ok2 && fa.Cmp(fb) == 0
	}
	switch x := a.(type) {
	case []interface{}:
		y, ok := b.([]interface{})
		if !ok || len(x) != len(y) {
			return false
		}
		for i := range x {
			if !sameValue(x[i], y[i]) {
				return false
			}
		}
		return true
	case map[string]interface{}:
		y, ok := b.(map[string]interface{})
		if !ok || len(x) != len(y) {
			return false
		}
		for k, v := range x {
			if w, ok := y[k]; !ok || !sameValue(v, w) {
				return false
			}
		}
		return true
	}
	return a == b
}

var compared = []string{"type", "format", "required", "readOnly", "maximum", "minimum", "exclusiveMaximum", "exclusiveMinimum", "multipleOf",
	"maxLength", "minLength", "pattern", "enum", "maxItems", "minItems", "uniqueItems", "$ref", "discriminator"}

type c18diff struct {
	Kind, Context, Keyword string
	Path                   string
	Want, Got              interface{}
}

func expandRef(s J, defs J, depth int) J {
	for i := 0; i < 8; i++ {
		r, ok := s["$ref"].(string)
		if !ok {
			return s
		}
		t, ok := defs[strings.TrimPrefix(r, "#/definitions/")].(J)
		if !ok {
			return s
		}
		s = t
	}
	return s
}

// diffSchema: the input schema [a] against the scanned schema [b], keyword by keyword, references compared by target and
// then followed on both sides (bounded), context = where in a definition the schema sits
func diffSchema(a, b J, adefs, bdefs J, ctx, path string, depth int, out *[]c18diff) {
	if depth > 6 {
		return
	}
	ra, _ := a["$ref"].(string)
	rb, _ := b["$ref"].(string)
	if ra != rb {
		// a reference on one side only: a difference of $ref structure unless the generator lifted an anonymous object
		if ra == "" && rb != "" {
			if ea := expandRef(b, bdefs, 0); ea != nil {
				if _, anon := a["properties"]; anon {
					*out = append(*out, c18diff{"changed", ctx, "$ref(anonymous-object-lifted-to-definition)", path, nil, rb})
				} else {
					*out = append(*out, c18diff{"added", ctx, "$ref", path, nil, rb})
				}
			}
		} else {
			*out = append(*out, c18diff{"changed", ctx, "$ref", path, ra, rb})
		}
	}
	if ra != "" && ra == rb {
		if tgt := expandRef(a, adefs, 0); tgt != nil {
			if tp, _ := tgt["type"].(string); tp != "object" {
				ctx = "definition"
			}
		}
	}
	a, b = expandRef(a, adefs, 0), expandRef(b, bdefs, 0)
	for _, k := range compared {
		if k == "$ref" {
			continue
		}
		va, oka := a[k]
		vb, okb := b[k]
		if k == "required" {
			va, vb = sortedStrings(va), sortedStrings(vb)
			oka, okb = len(va.([]interface{})) > 0, len(vb.([]interface{})) > 0
		}
		if bv, isb := va.(bool); isb && !bv {
			oka = false
		}
		if bv, isb := vb.(bool); isb && !bv {
			okb = false
		}
		switch {
		case oka && !okb:
			*out = append(*out, c18diff{"lost", ctx, k, path, va, nil})
		case !oka && okb:
			*out = append(*out, c18diff{"added", ctx, k, path, nil, vb})
		case oka && okb && !sameValue(va, vb):
			*out = append(*out, c18diff{"changed", ctx, k, path, va, vb})
		}
	}
	pa, _ := a["properties"].(J)
	pb, _ := b["properties"].(J)
	for k, v := range pa {
		w, ok := pb[k].(J)
		if !ok {
			*out = append(*out, c18diff{"lost", ctx, "property", path + "." + k, k, nil})
			continue
		}
		c := "property"
		if ctx != "definition" {
			c = "nested-property"
		}
		diffSchema(v.(J), w, adefs, bdefs, c, path+"."+k, depth+1, out)
	}
	for k := range pb {
		if _, ok := pa[k]; !ok {
			*out = append(*out, c18diff{"added", ctx, "property", path + "." + k, nil, k})
		}
	}
	if ia, ok := a["items"].(J); ok {
		if ib, ok := b["items"].(J); ok {
			c := "items"
			if strings.HasPrefix(ctx, "items") {
				c = "items.items"
			} else if ctx == "definition" {
				c = "definition-items"
			}
			diffSchema(ia, ib, adefs, bdefs, c, path+"[]", depth+1, out)
		} else {
			*out = append(*out, c18diff{"lost", ctx, "items", path, ia, nil})
		}
	}
	if aa, ok := a["additionalProperties"].(J); ok {
		if ab, ok := b["additionalProperties"].(J); ok {
			diffSchema(aa, ab, adefs, bdefs, "additionalProperties", path+"{}", depth+1, out)
		} else {
			*out = append(*out, c18diff{"lost", ctx, "additionalProperties", path, aa, nil})
		}
	}
	if la, ok := a["allOf"].([]interface{}); ok {
		lb, _ := b["allOf"].([]interface{})
		if len(la) != len(lb) {
			*out = append(*out, c18diff{"changed", ctx, "allOf", path, len(la), len(lb)})
		} else {
			for i := range la {
				diffSchema(la[i].(J), lb[i].(J), adefs, bdefs, "allOf-member", fmt.Sprintf("%s/allOf[%d]", path, i), depth+1, out)
			}
		}
	}
}

func sortedStrings(v interface{}) interface{} {
	var out []string
	switch x := v.(type) {
	case []interface{}:
		for _, e := range x {
			out = append(out, fmt.Sprint(e))
		}
	case []string:
		out = append(out, x...)
	}
	sort.Strings(out)
	r := make([]interface{}, len(out))
	for i, s := range out {
		r[i] = s
	}
	return r
}

func toJ(v interface{}) J {
	b, _ := json.Marshal(v)
	d, _ := parseExact(b)
	m, _ := d.(map[string]interface{})
	return m
}

func c18(args []string) {
	fs := flag.NewFlagSet("c18", flag.ExitOnError)
	bin := fs.String("bin", "", "")
	work := fs.String("work", "", "")
	out := fs.String("out", "", "")
	seed := fs.Uint64("seed", 1, "")
	nrandom := fs.Int("random", 0, "random definitions on top of the catalogue")
	_ = fs.Parse(args)
	if *bin == "" || *work == "" || *out == "" {
		die("-bin, -work, -out required")
	}
	_ = os.MkdirAll(*out, 0o755)
	r := rng.New(*seed)
	cat := c18Catalogue(r)
	cov := map[string]int{}
	var viols []violation
	// the input document: holders of ~12 catalogue properties each, some required; plus aliases
	defs := J{
		"Leaf":   J{"type": "object", "required": []interface{}{"v"}, "properties": J{"v": J{"type": "integer", "format": "uint8", "maximum": 200}, "w": J{"type": "string", "minLength": 1}}},
		"Colour": J{"type": "string", "enum": []interface{}{"red", "green"}},
		"Names":  J{"type": "array", "maxItems": 4, "items": J{"type": "string", "minLength": 1}},
		"Score":  J{"type": "integer", "format": "int32", "minimum": 0, "maximum": 10},
		"Dict":   J{"type": "object", "additionalProperties": J{"type": "string", "maxLength": 5}},
		// definitions whose file name would end in a word go/build reads as a constraint (_test, an operating system, an
		// architecture, of past, present and future ports): the file must be one the go tool (and so the scanner) looks at
		"UltraSparc": J{"type": "object", "required": []interface{}{"cores"}, "properties": J{"cores": J{"type": "integer", "format": "int32", "minimum": 1}}},
		"gnu_hurd":   J{"type": "object", "properties": J{"release": J{"type": "string", "maxLength": 8}}},
		"lab_test":   J{"type": "object", "properties": J{"passed": J{"type": "boolean"}}},
		"cpu_riscv":  J{"type": "string", "enum": []interface{}{"rv32", "rv64"}},
		"DeviceIos":  J{"type": "object", "properties": J{"model": J{"type": "string"}}},
		"Inventory": J{"type": "object", "properties": J{"primary": J{"$ref": "#/definitions/UltraSparc"}, "os": J{"$ref": "#/definitions/gnu_hurd"},
			"machines": J{"type": "array", "items": J{"$ref": "#/definitions/UltraSparc"}}, "arch": J{"$ref": "#/definitions/cpu_riscv"}, "phone": J{"$ref": "#/definitions/DeviceIos"}, "run": J{"$ref": "#/definitions/lab_test"}}},
	}
	classOf := map[string]string{}
	per := 12
	for i := 0; i*per < len(cat); i++ {
		props := J{}
		var req []interface{}
		for j := i * per; j < (i+1)*per && j < len(cat); j++ {
			name := fmt.Sprintf("p%d", j)
			props[name] = cat[j].Schema
			classOf[fmt.Sprintf("Holder%d.%s", i, name)] = cat[j].Class
			if j%3 == 0 {
				req = append(req, name)
			}
			cov["class:"+cat[j].Class]++
		}
		d := J{"type": "object", "properties": props}
		if len(req) > 0 {
			d["required"] = req
		}
		defs[fmt.Sprintf("Holder%d", i)] = d
	}
	if *nrandom > 0 {
		g := &gschema.Gen{R: r.Fork(), Defs: []string{"Leaf"}, Cov: cov}
		for i := 0; i < *nrandom; i++ {
			defs[fmt.Sprintf("Random%d", i)] = toJ(g.Object(3).JSON())
		}
	}
	doc := J{"swagger": "2.0", "info": J{"title": "roundtrip", "version": "1"}, "paths": J{}, "definitions": defs}
	dir := filepath.Join(*work, "c18")
	_ = os.RemoveAll(dir)
	_ = os.MkdirAll(dir, 0o755)
	defer os.RemoveAll(dir)
	_ = os.WriteFile(filepath.Join(dir, "go.mod"), []byte("module scratchgen\n\ngo 1.21\n\nrequire github.com/go-swagger/go-swagger v0.0.0\n\nreplace github.com/go-swagger/go-swagger => /repo\n"), 0o644)
	sum, _ := os.ReadFile("/repo/go.sum")
	_ = os.WriteFile(filepath.Join(dir, "go.sum"), sum, 0o644)
	raw, _ := json.Marshal(doc)
	_ = os.WriteFile(filepath.Join(dir, "spec.json"), raw, 0o644)
	g := exec.Command(*bin, "generate", "model", "-q", "-f", filepath.Join(dir, "spec.json"), "-t", dir)
	g.Dir = dir
	g.Env = goEnv
	if gout, err := g.CombinedOutput(); err != nil {
		viols = append(viols, violation{"c18/generate-model-fails", "swagger generate model fails on the round-trip document", J{"spec": doc}, tailS(string(gout))})
		writeReport(*out, "c18.json", 0, cov, viols, nil, "")
		fmt.Printf("scancheck c18: generation failed\n")
		return
	}
	sw, err := codescan.Run(&codescan.Options{Packages: []string{"./models"}, WorkDir: dir, ScanModels: true})
	if err != nil {
		viols = append(viols, violation{"c18/scan-fails", "codescan.Run fails on generated models", J{"spec": doc}, err.Error()})
		writeReport(*out, "c18.json", 0, cov, viols, nil, "")
		fmt.Printf("scancheck c18: scan failed\n")
		return
	}
	scanned := toJ(sw)
	sdefs, _ := scanned["definitions"].(J)
	adefs := toJ(defs)
	evals := 0
	var samples []interface{}
	seenKey := map[string]bool{}
	var names []string
	for k := range adefs {
		names = append(names, k)
	}
	sort.Strings(names)
	for _, dn := range names {
		a := adefs[dn].(J)
		b, ok := sdefs[dn].(J)
		if !ok {
			viols = append(viols, violation{"c18/definition-lost", "a definition of the input has no counterpart after the round trip", J{"definition": dn, "schema": a}, nil})
			continue
		}
		var ds []c18diff
		diffSchema(a, b, adefs, sdefs, "definition", dn, 0, &ds)
		evals++
		// per property bookkeeping
		if pa, ok := a["properties"].(J); ok {
			evals += len(pa)
		}
		for _, d := range ds {
			class := ""
			// the catalogue class of the holder property the difference belongs to
			parts := strings.SplitN(d.Path, ".", 3)
			if len(parts) >= 2 {
				class = classOf[parts[0]+"."+strings.TrimRight(strings.SplitN(parts[1], "[", 2)[0], "{}")]
			}
			key := fmt.Sprintf("c18/%s[%s:%s]", d.Kind, d.Context, d.Keyword)
			if f, ok := isNumber(d.Want); ok && d.Kind == "lost" {
				if x, _ := f.Float64(); strings.Contains(fmt.Sprint(x), "e") {
					// text/template prints the bound with %v: exponent notation, which the scanner's number syntax excludes
					key = "c18/lost[number-printed-in-exponent-notation]"
				}
			}
			if strings.Contains(d.Keyword, "anonymous-object-lifted") {
				key = "c18/changed[anonymous-object-lifted-to-definition]"
			}
			if d.Kind == "lost" && !strings.Contains(key, "exponent") {
				switch d.Context {
				case "items", "items.items", "definition-items":
					key = "c18/lost[array-item-constraints]"
				case "additionalProperties":
					key = "c18/lost[map-value-constraints]"
				case "definition":
					if d.Keyword != "property" {
						key = "c18/lost[alias-definition-constraints]"
					}
				}
			}
			if d.Keyword == "format" && d.Kind == "added" {
				key = fmt.Sprintf("c18/added[format=%v-where-the-input-has-none]", d.Got)
			}
			if class == "pattern-with-leading-blank" && d.Keyword == "pattern" {
				key = "c18/changed[pattern-with-leading-blank]"
			}
			if class == "string-format[binary]" {
				key = "c18/changed[format-binary-scanned-as-io.ReadCloser]"
			}
			if d.Keyword == "enum" && d.Kind == "changed" && beyond53(d.Want) {
				key = "c18/changed[integer-enum-beyond-2^53]"
			}
			in := J{"definition": dn, "path": d.Path, "catalogue_class": class, "input_schema": a, "scanned_schema": b}
			viols = append(viols, violation{key, fmt.Sprintf("after generate model + generate spec the %s of %s is %s", d.Keyword, d.Path, d.Kind), in, J{"input": d.Want, "scanned": d.Got}})
			if !seenKey[key] {
				seenKey[key] = true
			}
		}
		if len(samples) < 2 && strings.HasPrefix(dn, "Holder") {
			samples = append(samples, J{"definition": dn, "input": a, "scanned": b})
		}
	}
	// model cases
	docs := fieldDocs(filepath.Join(dir, "models"))
	var coq []string
	for _, dn := range names {
		if !strings.HasPrefix(dn, "Holder") {
			continue
		}
		a := adefs[dn].(J)
		b, _ := sdefs[dn].(J)
		pa, _ := a["properties"].(J)
		pb, _ := b["properties"].(J)
		reqA, reqB := map[string]bool{}, map[string]bool{}
		for _, x := range sortedStrings(a["required"]).([]interface{}) {
			reqA[x.(string)] = true
		}
		for _, x := range sortedStrings(b["required"]).([]interface{}) {
			reqB[x.(string)] = true
		}
		for pn, ps := range pa {
			in, ok := valsCoq(ps.(J), reqA[pn])
			sb, ok2 := pb[pn].(J)
			if !ok || !ok2 {
				cov["vocabulary:outside-fragment"]++
				continue
			}
			if _, isRef := ps.(J)["$ref"]; isRef {
				continue
			}
			scn, ok := valsCoq(sb, reqB[pn])
			if !ok {
				scn = "empty_vals"
			}
			var lines []string
			for _, ln := range docs[dn][pn] {
				for _, pre := range vocabPrefixes {
					if strings.HasPrefix(ln, pre) {
						lines = append(lines, coqStr(ln))
						break
					}
				}
			}
			coq = append(coq, fmt.Sprintf("{| c_input := %s; c_lines := [%s]; c_scanned := %s |}", in, strings.Join(lines, "; "), scn))
		}
	}
	cd := filepath.Join(*out, "coq-c18")
	_ = os.RemoveAll(cd)
	_ = os.MkdirAll(cd, 0o755)
	text := "From GS Require Import Base.Str Scan.DocVocab Scan.DocVocabRun.\nDefinition cases : list vcase := [\n" + strings.Join(coq, ";\n") +
		"\n].\nDefinition M := Eval vm_compute in run_cases cases.\nPrint M.\n"
	_ = os.WriteFile(filepath.Join(cd, "cases_00.v"), []byte(text), 0o644)
	cov["model:cases"] = len(coq)
	cov["definitions"] = len(names)
	cov["catalogue-properties"] = len(cat)
	writeReport(*out, "c18.json", evals, cov, viols, samples,
		"one input document whose definitions hold ~150 catalogued properties, one construct each: bounds with every combination of exclusivity for integer/number formats, multipleOf, lengths, patterns with regexp metacharacters, enums of strings (spaces, commas, JSON escapes, unicode, empty, look-alikes), integers, numbers and booleans, readOnly, every string/integer/number format, arrays with item counts / uniqueness / constrained items / nesting, references to objects and aliases, maps, nested objects, required sets; plus alias definitions (string enum, constrained array, bounded integer, map). swagger generate model, then codescan.Run over the generated package; every keyword of every schema is compared (numbers numerically, required as a set, references by target then followed).")
	fmt.Printf("scancheck c18: %d definitions, %d catalogue properties, %d evaluations, %d differences\n", len(names), len(cat), evals, len(viols))
}

func beyond53(v interface{}) bool {
	l, ok := v.([]interface{})
	if !ok {
		return false
	}
	lim := new(big.Float).SetInt64(1 << 53)
	for _, e := range l {
		if f, ok := isNumber(e); ok && new(big.Float).Abs(f).Cmp(lim) > 0 {
			return true
		}
	}
	return false
}

// ---- model cases: the vocabulary ----

var vocabPrefixes = []string{"Required:", "Read Only:", "Maximum:", "Minimum:", "Multiple Of:", "Max Length:", "Min Length:", "Pattern:", "Max Items:", "Min Items:", "Unique:"}

func intOf(v interface{}) (string, bool) {
	f, ok := isNumber(v)
	if !ok || !f.IsInt() {
		return "", false
	}
	z, _ := f.Int(nil)
	if z.CmpAbs(big.NewInt(1000000)) >= 0 {
		return "", false
	}
	return zLit(z.String()), true
}

// valsCoq: the validations of a property schema as a term of type [vals]; false outside the fragment
func valsCoq(s J, required bool) (string, bool) {
	optZ := func(k string) (string, bool) {
		v, ok := s[k]
		if !ok {
			return "None", true
		}
		z, ok := intOf(v)
		if !ok {
			return "", false
		}
		return "(Some " + z + ")", true
	}
	bound := func(k, xk string) (string, bool) {
		v, ok := s[k]
		if !ok {
			return "None", true
		}
		z, ok := intOf(v)
		if !ok {
			return "", false
		}
		x, _ := s[xk].(bool)
		return "(Some (" + b2s(x) + ", " + z + "))", true
	}
	mx, ok1 := bound("maximum", "exclusiveMaximum")
	mn, ok2 := bound("minimum", "exclusiveMinimum")
	mu, ok3 := optZ("multipleOf")
	xl, ok4 := optZ("maxLength")
	nl, ok5 := optZ("minLength")
	xi, ok6 := optZ("maxItems")
	ni, ok7 := optZ("minItems")
	if !(ok1 && ok2 && ok3 && ok4 && ok5 && ok6 && ok7) {
		return "", false
	}
	pt := "None"
	if p, ok := s["pattern"].(string); ok && p != "" {
		pt = "(Some " + coqStr(p) + ")"
	}
	ro, _ := s["readOnly"].(bool)
	un, _ := s["uniqueItems"].(bool)
	return fmt.Sprintf("{| d_required := %s; d_readonly := %s; d_max := %s; d_min := %s; d_mult := %s; d_maxlen := %s; d_minlen := %s; d_pattern := %s; d_maxitems := %s; d_minitems := %s; d_unique := %s |}",
		b2s(required), b2s(ro), mx, mn, mu, xl, nl, pt, xi, ni, b2s(un)), true
}

package main

import (
	"encoding/json"
	"fmt"
	"math/big"
	"sort"
	"strings"

	"github.com/go-openapi/spec"

	"verif/harness/internal/coqpp"
)

func zLit(s string) string {
	if strings.HasPrefix(s, "-") {
		return "(" + s + ")%Z"
	}
	return s + "%Z"
}

var goIntRange = map[string]string{"int": "int64", "int8": "int8", "int16": "int16", "int32": "int32", "int64": "int64", "rune": "int32",
	"uint": "uint64", "uint8": "uint8", "uint16": "uint16", "uint32": "uint32", "uint64": "uint64", "byte": "uint8", "uintptr": "uint64"}

func rangeCoq(format string) string {
	lo, hi := intRange(format)
	return zLit(lo.String()) + " " + zLit(hi.String())
}

func tagParts(tag, goName string) (name string, omit bool, ok bool) {
	parts := strings.Split(tag, ",")
	name = parts[0]
	if name == "" {
		name = goName
	}
	if name == "-" {
		return "", false, false
	}
	for _, o := range parts[1:] {
		switch o {
		case "omitempty":
			omit = true
		case "":
		default:
			return "", false, false // ,string and unknown options are outside the fragment
		}
	}
	return name, omit, true
}

const innerCoq = `(GStruct [(s "a", false, GStr); (s "n", true, GPtr (GInt (-2147483648)%Z 2147483647%Z))])`
const plainCoq = `(GStruct [(s "p", false, GStr); (s "Q", false, GInt (-9223372036854775808)%Z 9223372036854775807%Z)])`

// goTypeCoq: the type as a term of Scan/GoTypes.v, or false outside the fragment
func goTypeCoq(t *T) (string, bool) {
	switch t.Kind {
	case "string":
		return "GStr", true
	case "bool":
		return "GBool", true
	case "ptr", "slice", "map":
		if t.Kind == "slice" && (t.Elem.Kind == "byte" || t.Elem.Kind == "uint8") {
			return "", false
		}
		e, ok := goTypeCoq(t.Elem)
		if !ok {
			return "", false
		}
		c := map[string]string{"ptr": "GPtr", "slice": "GSlice", "map": "GMap"}[t.Kind]
		return "(" + c + " " + e + ")", true
	case "array":
		e, ok := goTypeCoq(t.Elem)
		if !ok {
			return "", false
		}
		return fmt.Sprintf("(GArray %d %s)", t.Len, e), true
	case "model":
		switch t.Name {
		case "Inner":
			return innerCoq, true
		case "Plain":
			return plainCoq, true
		}
		return "", false
	case "struct":
		var fs []string
		for _, f := range t.Fields {
			if f.Embedded {
				return "", false
			}
			name, omit, ok := tagParts(f.Tag, f.Name)
			if !ok {
				return "", false
			}
			e, ok := goTypeCoq(f.Type)
			if !ok {
				return "", false
			}
			fs = append(fs, fmt.Sprintf("(%s, %s, %s)", coqpp.Str(name), coqpp.Bool(omit), e))
		}
		return "(GStruct " + coqpp.List(fs) + ")", true
	}
	if f, ok := goIntRange[t.Kind]; ok {
		return "(GInt " + rangeCoq(f) + ")", true
	}
	return "", false
}

func modelTypeCoq(f feature) (string, bool) {
	if f.Embed || f.Doc != "" {
		return "", false
	}
	name, omit, ok := tagParts(f.Tag, "F")
	if !ok {
		return "", false
	}
	e, ok := goTypeCoq(f.Type)
	if !ok {
		return "", false
	}
	return fmt.Sprintf("(GStruct [(%s, %s, %s); (s \"pad\", false, GStr)])", coqpp.Str(name), coqpp.Bool(omit), e), true
}

// scannedCoq: a scanned definition as a term of type [scanned] (references inlined), or false outside the fragment
func scannedCoq(s *spec.Schema, root *spec.Swagger, depth int) (string, bool) {
	if depth > 8 || s == nil {
		return "", false
	}
	rs := deref(s, root)
	if rs == nil || len(rs.AllOf) > 0 || len(rs.Enum) > 0 || len(rs.Type) != 1 {
		return "", false
	}
	switch rs.Type[0] {
	case "string":
		if rs.Format != "" {
			return "", false
		}
		return "KStr", true
	case "boolean":
		return "KBool", true
	case "integer":
		if lo, _ := intRange(rs.Format); lo == nil {
			return "", false
		}
		return "(KInt " + rangeCoq(rs.Format) + ")", true
	case "array":
		if rs.Items == nil || rs.Items.Schema == nil {
			return "", false
		}
		e, ok := scannedCoq(rs.Items.Schema, root, depth+1)
		if !ok {
			return "", false
		}
		return "(KArr " + e + ")", true
	case "object":
		if rs.AdditionalProperties != nil && rs.AdditionalProperties.Schema != nil && len(rs.Properties) == 0 {
			e, ok := scannedCoq(rs.AdditionalProperties.Schema, root, depth+1)
			if !ok {
				return "", false
			}
			return "(KMap " + e + ")", true
		}
		if rs.AdditionalProperties != nil {
			return "", false
		}
		var names []string
		for k := range rs.Properties {
			names = append(names, k)
		}
		sort.Strings(names)
		var ps []string
		for _, k := range names {
			p := rs.Properties[k]
			e, ok := scannedCoq(&p, root, depth+1)
			if !ok {
				return "", false
			}
			ps = append(ps, fmt.Sprintf("(%s, %s, %s)", coqpp.Str(k), coqpp.Bool(isNullable(&p)), e))
		}
		return "(KObj " + coqpp.List(ps) + ")", true
	}
	return "", false
}

// docCoq: a document (json.Number numbers) as a Base.Json term; false when a number is not an integer
func docCoq(v interface{}) (string, bool) {
	switch x := v.(type) {
	case nil:
		return "JNull", true
	case bool:
		return "(JBool " + coqpp.Bool(x) + ")", true
	case json.Number:
		z, ok := new(big.Int).SetString(x.String(), 10)
		if !ok {
			return "", false
		}
		return "(JNum " + zLit(z.String()) + " 0)", true
	case string:
		return "(JStr " + coqpp.Str(x) + ")", true
	case []interface{}:
		xs := make([]string, len(x))
		for i, e := range x {
			s, ok := docCoq(e)
			if !ok {
				return "", false
			}
			xs[i] = s
		}
		return "(JArr " + coqpp.List(xs) + ")", true
	case map[string]interface{}:
		var ks []string
		for k := range x {
			ks = append(ks, k)
		}
		sort.Strings(ks)
		xs := make([]string, len(ks))
		for i, k := range ks {
			s, ok := docCoq(x[k])
			if !ok {
				return "", false
			}
			xs[i] = "(" + coqpp.Str(k) + ", " + s + ")"
		}
		return "(JObj " + coqpp.List(xs) + ")", true
	}
	return "", false
}

// gvalCoq: the value tree printed by the driver as a term of type [gval]
func gvalCoq(v interface{}) (string, bool) {
	m, ok := v.(map[string]interface{})
	if !ok {
		return "", false
	}
	switch m["k"] {
	case "bool":
		return "(VBool " + coqpp.Bool(m["v"].(bool)) + ")", true
	case "str":
		return "(VStr " + coqpp.Str(m["v"].(string)) + ")", true
	case "int":
		return "(VInt " + zLit(m["v"].(string)) + ")", true
	case "nil":
		return "VNil", true
	case "ptr":
		e, ok := gvalCoq(m["e"])
		return "(VPtr " + e + ")", ok
	case "list", "struct":
		l, _ := m["l"].([]interface{})
		xs := make([]string, len(l))
		for i, e := range l {
			s, ok := gvalCoq(e)
			if !ok {
				return "", false
			}
			xs[i] = s
		}
		if m["k"] == "list" {
			return "(VList " + coqpp.List(xs) + ")", true
		}
		return "(VStruct " + coqpp.List(xs) + ")", true
	case "map":
		l, _ := m["m"].([]interface{})
		xs := make([]string, len(l))
		for i, e := range l {
			kv := e.([]interface{})
			s, ok := gvalCoq(kv[1])
			if !ok {
				return "", false
			}
			xs[i] = "(" + coqpp.Str(kv[0].(string)) + ", " + s + ")"
		}
		return "(VMap " + coqpp.List(xs) + ")", true
	}
	return "", false
}

// scancheck: codescan (generate spec) against Go's own JSON encoding and against the generator.
//
//	c16: generated model packages -> codescan.Run -> definitions vs encoding/json of compiled values of the same types
package main

import (
	"bufio"
	"bytes"
	"encoding/json"
	"flag"
	"fmt"
	"os"
	"os/exec"
	"path/filepath"
	"sort"
	"strings"

	"github.com/go-openapi/spec"
	"github.com/go-openapi/strfmt"
	"github.com/go-openapi/validate"
	"github.com/go-swagger/go-swagger/codescan"

	"verif/harness/internal/coqpp"
	"verif/harness/internal/rng"
)

func die(format string, a ...interface{}) {
	fmt.Fprintf(os.Stderr, "scancheck: "+format+"\n", a...)
	os.Exit(2)
}

type violation struct {
	Key    string      `json:"key"`
	What   string      `json:"what"`
	Input  interface{} `json:"input"`
	Detail interface{} `json:"detail"`
}

func tailS(s string) string {
	if len(s) > 1500 {
		return "…" + s[len(s)-1500:]
	}
	return s
}

var goEnv = append(os.Environ(), "GOFLAGS=-mod=mod", "GOPROXY=off", "GOSUMDB=off", "GOTOOLCHAIN=local")

func main() {
	// packages.Load (inside codescan) runs the go tool with this process's environment
	for _, kv := range []string{"GOFLAGS=-mod=mod", "GOPROXY=off", "GOSUMDB=off", "GOTOOLCHAIN=local"} {
		p := strings.SplitN(kv, "=", 2)
		_ = os.Setenv(p[0], p[1])
	}
	if len(os.Args) < 2 {
		die("usage: scancheck c16|c17|c18 ...")
	}
	switch os.Args[1] {
	case "c16":
		c16(os.Args[2:])
	case "c18":
		c18(os.Args[2:])
	case "c17":
		c17(os.Args[2:])
	case "c17run":
		c17run(os.Args[2:])
	default:
		die("unknown subcommand %s", os.Args[1])
	}
}

// resolve a schema through $ref (x-nullable next to a $ref stays on the referring schema)
func deref(s *spec.Schema, root *spec.Swagger) *spec.Schema {
	for i := 0; i < 10 && s != nil && s.Ref.String() != ""; i++ {
		name := strings.TrimPrefix(s.Ref.String(), "#/definitions/")
		d, ok := root.Definitions[name]
		if !ok {
			return s
		}
		s = &d
	}
	return s
}

func isNullable(s *spec.Schema) bool {
	if s == nil {
		return false
	}
	if v, ok := s.Extensions["x-nullable"]; ok {
		if b, ok := v.(bool); ok && b {
			return true
		}
	}
	return false
}

// dropNullable: x-nullable is go-swagger's way to say null is accepted; the reference validator does not know it, so
// a null under an x-nullable property schema is removed before validation.
func dropNullable(doc interface{}, s *spec.Schema, root *spec.Swagger) interface{} {
	if s == nil {
		return doc
	}
	rs := deref(s, root)
	switch d := doc.(type) {
	case map[string]interface{}:
		out := map[string]interface{}{}
		for k, v := range d {
			var ps *spec.Schema
			if rs != nil {
				if p, ok := rs.Properties[k]; ok {
					ps = &p
				} else if rs.AdditionalProperties != nil && rs.AdditionalProperties.Schema != nil {
					ps = rs.AdditionalProperties.Schema
				}
				for i := range rs.AllOf {
					if ps != nil {
						break
					}
					if p, ok := deref(&rs.AllOf[i], root).Properties[k]; ok {
						ps = &p
					}
				}
			}
			if v == nil && isNullable(ps) {
				continue
			}
			out[k] = dropNullable(v, ps, root)
		}
		return out
	case []interface{}:
		var is *spec.Schema
		if rs != nil && rs.Items != nil {
			is = rs.Items.Schema
		}
		out := make([]interface{}, len(d))
		for i, v := range d {
			out[i] = dropNullable(v, is, root)
		}
		return out
	}
	return doc
}

func accepts(def *spec.Schema, root *spec.Swagger, doc interface{}) []string {
	return refValid(def, root, doc, "$")
}

// libraryAccepts: go-openapi/validate on the same document (null under x-nullable dropped): a second opinion recorded in
// the evidence; it is not the oracle because it skips the type check of typed schemas that carry a numeric or date format
func libraryAccepts(def *spec.Schema, root *spec.Swagger, doc interface{}) bool {
	d2 := dropNullable(toFloat(doc), def, root)
	return len(validate.NewSchemaValidator(def, root, "", strfmt.Default).Validate(d2).Errors) == 0
}

func declaredProps(def *spec.Schema, root *spec.Swagger) map[string]bool {
	out := map[string]bool{}
	d := deref(def, root)
	for k := range d.Properties {
		out[k] = true
	}
	for i := range d.AllOf {
		for k := range declaredProps(&d.AllOf[i], root) {
			out[k] = true
		}
	}
	return out
}

// c16Cause: the identity of a finding — the reason, not the instance
func c16Cause(class string) string {
	switch {
	case strings.Contains(class, "string-option"):
		return "string-option-field-accepts-any-string"
	case strings.HasSuffix(class, ":tag-dash-comma"):
		return "json-tag-dash-comma-treated-as-ignore"
	case strings.HasPrefix(class, "embedded-") && strings.HasSuffix(class, ":renamed"):
		return "embedded-struct-with-json-name-flattened"
	case strings.Contains(class, "deeper-written-after-shallower") || strings.Contains(class, "same-name-at-two-depths-shallow-first") || strings.HasPrefix(class, "embedded-struct-embedding-same-name-at-two-depths"):
		return "deeper-promoted-field-written-after-a-shallower-one-of-the-same-name"
	}
	return class
}

// the JSON keys encoding/json gives the field under test
func featureKeys(f feature) []string {
	if f.Decl != nil {
		return f.Decl.keys()
	}
	name := f.Tag
	if i := strings.Index(name, ","); i >= 0 {
		name = name[:i]
	}
	if f.Tag == "-" {
		return nil
	}
	if f.Embed && name == "" {
		switch f.Type.Go() {
		case "Plain":
			return []string{"p"}
		case "lower":
			return []string{"l"}
		case "Both":
			return []string{"v"}
		default:
			return []string{"a"}
		}
	}
	if name == "" {
		return []string{"F"}
	}
	return []string{name}
}

type alt struct {
	kind string
	val  interface{}
}

var alternatives = []alt{
	{"null", nil}, {"bool", true}, {"int", json.Number("7")}, {"negative-int", json.Number("-1")}, {"fraction", json.Number("1.5")},
	{"string", "s"}, {"numeric-string", "12"}, {"empty-string", ""}, {"date-time-string", "2021-03-04T05:06:07Z"}, {"base64-string", "AQI="},
	{"empty-array", []interface{}{}}, {"int-array", []interface{}{json.Number("1")}}, {"string-array", []interface{}{"a"}}, {"long-int-array", []interface{}{json.Number("1"), json.Number("2"), json.Number("3"), json.Number("4"), json.Number("5")}},
	{"array-of-null", []interface{}{nil}}, {"nested-int-array", []interface{}{[]interface{}{json.Number("1")}}},
	{"empty-object", map[string]interface{}{}}, {"object-of-int", map[string]interface{}{"k": json.Number("1")}}, {"object-of-string", map[string]interface{}{"k": "v"}},
	{"object-of-null", map[string]interface{}{"k": nil}}, {"object-of-object", map[string]interface{}{"k": map[string]interface{}{"a": "x"}}},
	{"int-256", json.Number("256")}, {"int-70000", json.Number("70000")}, {"int-5e9", json.Number("5000000000")}, {"int-1e19", json.Number("10000000000000000000")},
	{"int-2e19", json.Number("20000000000000000000")}, {"float-1e40", json.Number("1e40")}, {"int-minus-200", json.Number("-200")},
}

func parseDoc(b []byte) (interface{}, error) { return parseExact(b) }

// the reference validator wants float64 / int64 numbers
func toFloat(v interface{}) interface{} {
	switch x := v.(type) {
	case json.Number:
		if i, err := x.Int64(); err == nil {
			return i
		}
		if s := x.String(); !strings.ContainsAny(s, ".eE") && !strings.HasPrefix(s, "-") {
			var u uint64
			if _, err := fmt.Sscan(s, &u); err == nil {
				return u
			}
		}
		f, _ := x.Float64()
		return f
	case map[string]interface{}:
		out := map[string]interface{}{}
		for k, e := range x {
			out[k] = toFloat(e)
		}
		return out
	case []interface{}:
		out := make([]interface{}, len(x))
		for i, e := range x {
			out[i] = toFloat(e)
		}
		return out
	}
	return v
}

func cloneDoc(v interface{}) interface{} {
	b, _ := json.Marshal(v)
	d, _ := parseDoc(b)
	return d
}

func c16(args []string) {
	fs := flag.NewFlagSet("c16", flag.ExitOnError)
	work := fs.String("work", "", "")
	out := fs.String("out", "", "")
	seed := fs.Uint64("seed", 1, "")
	extra := fs.Int("extra", 40, "random type compositions on top of the catalogue")
	_ = fs.Parse(args)
	if *work == "" || *out == "" {
		die("-work, -out required")
	}
	_ = os.MkdirAll(*out, 0o755)
	r := rng.New(*seed)
	feats := catalogue(r, *extra)
	dir := filepath.Join(*work, "c16")
	_ = os.RemoveAll(dir)
	_ = os.MkdirAll(filepath.Join(dir, "m"), 0o755)
	_ = os.MkdirAll(filepath.Join(dir, "driver"), 0o755)
	defer os.RemoveAll(dir)
	_ = os.WriteFile(filepath.Join(dir, "go.mod"), []byte("module scratchscan\n\ngo 1.21\n"), 0o644)
	_ = os.WriteFile(filepath.Join(dir, "m", "m.go"), []byte(packageSource(feats)), 0o644)
	var tb strings.Builder
	tb.WriteString(driverSrc)
	tb.WriteString("\nvar types = map[string]reflect.Type{\n")
	for i := range feats {
		fmt.Fprintf(&tb, "\t\"M%d\": reflect.TypeOf(m.M%d{}),\n", i, i)
	}
	tb.WriteString("}\n")
	_ = os.WriteFile(filepath.Join(dir, "driver", "main.go"), []byte(tb.String()), 0o644)
	b := exec.Command("go", "build", "-o", filepath.Join(dir, "drv"), "./driver")
	b.Dir = dir
	b.Env = goEnv
	if bo, err := b.CombinedOutput(); err != nil {
		die("the generated model package does not build (harness fault): %s", tailS(string(bo)))
	}
	enc := exec.Command(filepath.Join(dir, "drv"), "encode")
	eo, err := enc.Output()
	if err != nil {
		die("driver encode: %v", err)
	}
	cov := map[string]int{}
	var viols []violation
	addV := func(key, what string, in, detail interface{}) {
		viols = append(viols, violation{key, what, in, detail})
	}
	sw, err := codescan.Run(&codescan.Options{Packages: []string{"./m"}, WorkDir: dir, ScanModels: true, SetXNullableForPointers: true})
	if err != nil {
		addV("c16/scan-fails", "codescan.Run fails on a well-typed model package", map[string]interface{}{"package": packageSource(feats)}, err.Error())
		writeReport(*out, "c16.json", 0, cov, viols, nil, "")
		return
	}
	// observe the document as a user of `generate spec` would: through its JSON form
	full, _ := json.Marshal(sw)
	sw = new(spec.Swagger)
	if err := json.Unmarshal(full, sw); err != nil {
		die("scanned spec does not reload: %v", err)
	}
	type encLine struct {
		T   string          `json:"t"`
		K   string          `json:"k"`
		J   json.RawMessage `json:"j"`
		G   interface{}     `json:"g"`
		Err string          `json:"err"`
	}
	encCases := map[int][]string{} // model index -> (gval, json, accepted) triples
	evals := 0
	var samples []interface{}
	fullDocs := map[string]interface{}{}
	sc := bufio.NewScanner(bytes.NewReader(eo))
	sc.Buffer(make([]byte, 1<<20), 1<<26)
	for sc.Scan() {
		var ln encLine
		if err := json.Unmarshal(sc.Bytes(), &ln); err != nil {
			die("driver output: %v", err)
		}
		var idx int
		fmt.Sscanf(ln.T, "M%d", &idx)
		f := feats[idx]
		in := map[string]interface{}{"model": ln.T, "field": f.fieldText(), "class": f.Class, "value": ln.K, "encoding": ln.J}
		if ln.Err != "" {
			cov["marshal-error"]++
			continue
		}
		def, ok := sw.Definitions[ln.T]
		if !ok {
			addV("c16/definition-missing["+f.Class+"]", "a type annotated swagger:model has no definition", in, nil)
			continue
		}
		in["definition"] = def
		doc, err := parseDoc(ln.J)
		if err != nil {
			die("encoding does not parse: %v", err)
		}
		evals++
		cov["class:"+f.Class]++
		cov["value:"+ln.K]++
		if len(samples) < 3 && ln.K == "full" {
			samples = append(samples, in)
		}
		errs0 := accepts(&def, sw, doc)
		if f.Decl != nil {
			if vs, ok := f.Decl.flattenTree(ln.G); ok {
				if dj, ok := docCoq(doc); ok {
					encCases[idx] = append(encCases[idx], fmt.Sprintf("(%s, %s, %s)", coqpp.List(vs), dj, b2s(len(errs0) == 0)))
				}
			}
		} else if gv, ok := gvalCoq(ln.G); ok {
			if dj, ok := docCoq(doc); ok {
				encCases[idx] = append(encCases[idx], fmt.Sprintf("(%s, %s, %s)", gv, dj, b2s(len(errs0) == 0)))
			}
		}
		if (len(errs0) == 0) == libraryAccepts(&def, sw, doc) {
			cov["reference-and-go-openapi-validate-agree"]++
		} else {
			cov["reference-and-go-openapi-validate-disagree"]++
		}
		if errs := errs0; len(errs) > 0 {
			cause := c16Cause(f.Class)
			joined := strings.Join(errs, "; ")
			switch {
			case strings.Contains(joined, "null where array is expected") || strings.Contains(joined, "null where object is expected") ||
				(strings.Contains(joined, "null where string is expected") && strings.Contains(f.Class, "byte-slice")):
				cause = "nil-slice-or-map-encoded-as-null"
			case strings.Contains(joined, "null where"):
				cause = "nil-pointer-element-encoded-as-null"
			}
			addV("c16/encoding-rejected-by-definition["+cause+"]", "encoding/json renders a value of the type as a document the scanned definition does not accept", in, errs)
		}
		if ln.K == "full" {
			fullDocs[ln.T] = doc
			// property names
			if dm, ok := doc.(map[string]interface{}); ok {
				decl := declaredProps(&def, sw)
				var extraKeys, missing []string
				for k := range dm {
					if !decl[k] {
						extraKeys = append(extraKeys, k)
					}
				}
				for k := range decl {
					if _, ok := dm[k]; !ok {
						missing = append(missing, k)
					}
				}
				sort.Strings(extraKeys)
				sort.Strings(missing)
				ignoredByAnnotation := strings.Contains(f.Doc, "swagger:ignore")
				if (len(extraKeys) > 0 && !ignoredByAnnotation) || len(missing) > 0 {
					cause := c16Cause(f.Class)
					if f.Decl != nil && len(missing) == 0 && len(extraKeys) > 0 {
						dropped, all := f.Decl.droppedKeys(), true
						for _, k := range extraKeys {
							all = all && dropped[k]
						}
						if all {
							cause = "promoted-field-dropped-when-its-go-name-is-redeclared-with-json-dash"
						}
					}
					if f.Decl != nil && len(extraKeys) == 0 {
						ties, all := f.Decl.tieNames(), true
						for _, k := range missing {
							all = all && ties[k]
						}
						if all {
							cause = "name-promoted-twice-at-the-same-depth-is-hidden-by-encoding/json-but-listed"
						}
					}
					addV("c16/property-names-differ["+cause+"]", "the properties of the definition are not the JSON keys of the encoding of a fully populated value", in,
						map[string]interface{}{"keys_without_property": extraKeys, "properties_without_key": missing})
				}
			}
		}
	}
	// direction 2: what the definition accepts must decode
	type cand struct {
		T string      `json:"T"`
		D interface{} `json:"D"`
	}
	var cands []cand
	var candInfo []map[string]interface{}
	for i, f := range feats {
		tn := fmt.Sprintf("M%d", i)
		base, ok := fullDocs[tn]
		def, ok2 := sw.Definitions[tn]
		if !ok || !ok2 {
			continue
		}
		if len(accepts(&def, sw, base)) > 0 {
			continue
		}
		if strings.Contains(f.Doc, "swagger:ignore") {
			continue // the user asked for the field to be left out of the definition: nothing is claimed about its values
		}
		for _, key := range featureKeys(f) {
			for _, a := range alternatives {
				d := cloneDoc(base).(map[string]interface{})
				d[key] = a.val
				acc := len(accepts(&def, sw, d)) == 0
				if acc {
					cov["mutation-accepted-by-definition"]++
				} else {
					cov["mutation-rejected-by-definition"]++
				}
				cands = append(cands, cand{tn, d})
				candInfo = append(candInfo, map[string]interface{}{"model": tn, "idx": i, "accepted": acc, "class": f.Class, "key": key, "alternative": a.kind,
					"field": f.fieldText(), "definition": def})
			}
		}
	}
	var cb bytes.Buffer
	for _, c := range cands {
		lb, _ := json.Marshal(c)
		cb.Write(lb)
		cb.WriteByte('\n')
	}
	cf := filepath.Join(dir, "cands.jsonl")
	_ = os.WriteFile(cf, cb.Bytes(), 0o644)
	dec := exec.Command(filepath.Join(dir, "drv"), "decode", cf)
	do, err := dec.Output()
	if err != nil {
		die("driver decode: %v", err)
	}
	decCases := map[int][]string{}
	lines := strings.Split(strings.TrimSpace(string(do)), "\n")
	if len(cands) > 0 && len(lines) != len(cands) {
		die("driver decode: %d results for %d documents", len(lines), len(cands))
	}
	for i := range cands {
		var res struct {
			Ok  bool   `json:"ok"`
			Err string `json:"err"`
		}
		_ = json.Unmarshal([]byte(lines[i]), &res)
		evals++
		if dj, ok := docCoq(cands[i].D); ok {
			mi := candInfo[i]["idx"].(int)
			decCases[mi] = append(decCases[mi], fmt.Sprintf("(%s, %s, %s)", dj, b2s(candInfo[i]["accepted"].(bool)), b2s(res.Ok)))
		}
		if !res.Ok && candInfo[i]["accepted"].(bool) {
			info := candInfo[i]
			info["document"] = cands[i].D
			cause := c16Cause(info["class"].(string))
			if cause == info["class"].(string) {
				cause += ":" + info["alternative"].(string)
			}
			if fd := feats[info["idx"].(int)].Decl; fd != nil && fd.droppedKeys()[info["key"].(string)] {
				cause = "promoted-field-dropped-when-its-go-name-is-redeclared-with-json-dash"
			}
			addV("c16/definition-accepts-undecodable["+cause+"]", "the scanned definition accepts a document that encoding/json cannot decode into the type", info, res.Err)
		}
	}
	// model cases
	var coq []string
	for i, f := range feats {
		if f.Decl != nil {
			dc, ok := f.Decl.coq()
			def, ok2 := sw.Definitions[fmt.Sprintf("M%d", i)]
			if !ok || !ok2 {
				continue
			}
			sc, ok := scannedCoq(&def, sw, 0)
			if !ok {
				cov["model:definition-outside-fragment"]++
				sc = "KBool"
			}
			cov["model:declarations"]++
			cov["model:"+f.Class]++
			coq = append(coq, fmt.Sprintf("CS {| s_fields := %s; s_scanned := %s; s_vals := [%s]; s_docs := [%s] |}", dc, sc, strings.Join(encCases[i], "; "), strings.Join(decCases[i], "; ")))
			continue
		}
		tc, ok := modelTypeCoq(f)
		if !ok {
			cov["model:outside-fragment"]++
			continue
		}
		def, ok := sw.Definitions[fmt.Sprintf("M%d", i)]
		if !ok {
			continue
		}
		sc, ok := scannedCoq(&def, sw, 0)
		if !ok {
			cov["model:definition-outside-fragment"]++
			// the type is in the fragment but its definition is not: the model predicts a fragment definition
			sc = "KBool"
		}
		cov["model:types"]++
		coq = append(coq, fmt.Sprintf("CE {| e_type := %s; e_scanned := %s; e_vals := [%s] |}", tc, sc, strings.Join(encCases[i], "; ")))
		if len(decCases[i]) > 0 {
			coq = append(coq, fmt.Sprintf("CD {| d_type := %s; d_docs := [%s] |}", tc, strings.Join(decCases[i], "; ")))
		}
	}
	cd := filepath.Join(*out, "coq-c16")
	_ = os.RemoveAll(cd)
	_ = os.MkdirAll(cd, 0o755)
	shards := 8
	for sh := 0; sh < shards; sh++ {
		var part []string
		for i, c := range coq {
			if i%shards == sh {
				part = append(part, c)
			}
		}
		text := "From GS Require Import Base.Str Base.Json Scan.GoTypes Scan.Embed Scan.GoTypesRun.\nDefinition cases : list anycase := [\n" + strings.Join(part, ";\n") +
			"\n].\nDefinition M := Eval vm_compute in run_cases cases.\nPrint M.\nDefinition W := Eval vm_compute in in_domain cases.\nPrint W.\n"
		_ = os.WriteFile(filepath.Join(cd, fmt.Sprintf("cases_%02d.v", sh)), []byte(text), 0o644)
	}
	cov["model:cases"] = len(coq)
	cov["features"] = len(feats)
	cov["decode-candidates"] = len(cands)
	writeReport(*out, "c16.json", evals, cov, viols, samples,
		"one generated model per feature: the field under test has one of ~150 catalogued shapes (every builtin kind, pointers, slices, arrays, string-keyed / named-string-keyed / int-keyed maps, model and plain structs, anonymous structs, embedded structs, named types, alias, time.Time, interface{}, json.RawMessage, []byte) x json tag (none, rename, omitempty, ,string, -, names equal to an option) plus random compositions to depth 3. The package is compiled; a reflection driver builds zero / full / max / min / empty / random values of every model and marshals them; codescan.Run (x-nullable for pointers) scans the same package; every encoding must be accepted by its definition (go-openapi/validate, null under x-nullable dropped); property names must equal JSON keys; every document obtained by replacing the field's value with one of 28 alternatives and still accepted by the definition must decode.")
	fmt.Printf("scancheck c16: %d features, %d evaluations, %d violations\n", len(feats), evals, len(viols))
}

func b2s(b bool) string {
	if b {
		return "true"
	}
	return "false"
}

func writeReport(out, name string, evals int, cov map[string]int, viols []violation, samples []interface{}, rule string) {
	if viols == nil {
		viols = []violation{}
	}
	sort.SliceStable(viols, func(i, j int) bool { return viols[i].Key < viols[j].Key })
	if samples == nil {
		samples = []interface{}{}
	}
	rep := map[string]interface{}{"evaluations": evals, "distinct_nontrivial": evals, "rule": rule, "samples": samples, "coverage": cov, "violations": viols}
	b, _ := json.MarshalIndent(rep, "", " ")
	_ = os.WriteFile(filepath.Join(out, name), b, 0o644)
}

package main

import (
	"encoding/base64"
	"encoding/json"
	"fmt"
	"math"
	"math/big"
	"strings"
	"time"

	"github.com/go-openapi/spec"
)

// refValid: reference validity of a document against a scanned schema — JSON-schema draft 4 as Swagger 2.0 uses it,
// with the integer/number formats read as the ranges of the Go types they name, date-time as RFC 3339, byte as base64,
// and x-nullable as "null is accepted".  Numbers are json.Number (exact).  Returns the reasons for rejection.
func refValid(s *spec.Schema, root *spec.Swagger, doc interface{}, path string) []string {
	if s == nil {
		return nil
	}
	nullable := isNullable(s)
	rs := deref(s, root)
	if rs == nil {
		return nil
	}
	if doc == nil {
		if nullable || isNullable(rs) || len(rs.Type) == 0 && len(rs.AllOf) == 0 && len(rs.Properties) == 0 {
			return nil
		}
		return []string{path + ": null where " + typeOf(rs) + " is expected"}
	}
	var errs []string
	for i := range rs.AllOf {
		errs = append(errs, refValid(&rs.AllOf[i], root, doc, path)...)
	}
	tp := ""
	if len(rs.Type) > 0 {
		tp = rs.Type[0]
	}
	switch tp {
	case "":
		// untyped: only structural keywords apply
		if m, ok := doc.(map[string]interface{}); ok {
			errs = append(errs, objectValid(rs, root, m, path)...)
		}
	case "string":
		x, ok := doc.(string)
		if !ok {
			return append(errs, fmt.Sprintf("%s: %s where string is expected", path, jsonKind(doc)))
		}
		switch rs.Format {
		case "date-time":
			if _, err := time.Parse(time.RFC3339Nano, x); err != nil {
				errs = append(errs, path+": not a date-time")
			}
		case "byte":
			if _, err := base64.StdEncoding.DecodeString(x); err != nil {
				errs = append(errs, path+": not base64")
			}
		}
	case "boolean":
		if _, ok := doc.(bool); !ok {
			errs = append(errs, fmt.Sprintf("%s: %s where boolean is expected", path, jsonKind(doc)))
		}
	case "integer":
		n, ok := doc.(json.Number)
		if !ok {
			return append(errs, fmt.Sprintf("%s: %s where integer is expected", path, jsonKind(doc)))
		}
		f, _, err := big.ParseFloat(n.String(), 10, 200, big.ToNearestEven)
		if err != nil || !f.IsInt() {
			return append(errs, path+": not an integer")
		}
		z, _ := f.Int(nil)
		lo, hi := intRange(rs.Format)
		if lo != nil && (z.Cmp(lo) < 0 || z.Cmp(hi) > 0) {
			errs = append(errs, fmt.Sprintf("%s: %s outside %s", path, n, rs.Format))
		}
	case "number":
		n, ok := doc.(json.Number)
		if !ok {
			return append(errs, fmt.Sprintf("%s: %s where number is expected", path, jsonKind(doc)))
		}
		f, err := n.Float64()
		if err != nil || math.IsInf(f, 0) {
			errs = append(errs, path+": outside double")
		} else if rs.Format == "float" && math.IsInf(float64(float32(f)), 0) {
			errs = append(errs, path+": outside float")
		}
	case "array":
		l, ok := doc.([]interface{})
		if !ok {
			return append(errs, fmt.Sprintf("%s: %s where array is expected", path, jsonKind(doc)))
		}
		if rs.Items != nil && rs.Items.Schema != nil {
			for i, e := range l {
				errs = append(errs, refValid(rs.Items.Schema, root, e, fmt.Sprintf("%s[%d]", path, i))...)
			}
		}
	case "object":
		m, ok := doc.(map[string]interface{})
		if !ok {
			return append(errs, fmt.Sprintf("%s: %s where object is expected", path, jsonKind(doc)))
		}
		errs = append(errs, objectValid(rs, root, m, path)...)
	}
	return errs
}

func objectValid(rs *spec.Schema, root *spec.Swagger, m map[string]interface{}, path string) []string {
	var errs []string
	for _, rq := range rs.Required {
		if _, ok := m[rq]; !ok {
			errs = append(errs, path+"."+rq+": required")
		}
	}
	for k, v := range m {
		if ps, ok := rs.Properties[k]; ok {
			errs = append(errs, refValid(&ps, root, v, path+"."+k)...)
		} else if rs.AdditionalProperties != nil {
			if rs.AdditionalProperties.Schema != nil {
				errs = append(errs, refValid(rs.AdditionalProperties.Schema, root, v, path+"."+k)...)
			} else if !rs.AdditionalProperties.Allows {
				errs = append(errs, path+"."+k+": additional property")
			}
		}
	}
	return errs
}

func typeOf(s *spec.Schema) string {
	if len(s.Type) > 0 {
		return s.Type[0]
	}
	return "a value"
}

func jsonKind(d interface{}) string {
	switch d.(type) {
	case nil:
		return "null"
	case bool:
		return "boolean"
	case json.Number:
		return "number"
	case string:
		return "string"
	case []interface{}:
		return "array"
	case map[string]interface{}:
		return "object"
	}
	return fmt.Sprintf("%T", d)
}

func intRange(format string) (*big.Int, *big.Int) {
	bits, signed := 0, true
	switch format {
	case "int8":
		bits = 8
	case "int16":
		bits = 16
	case "int32":
		bits = 32
	case "int64":
		bits = 64
	case "uint8":
		bits, signed = 8, false
	case "uint16":
		bits, signed = 16, false
	case "uint32":
		bits, signed = 32, false
	case "uint64":
		bits, signed = 64, false
	default:
		return nil, nil
	}
	one := big.NewInt(1)
	if signed {
		hi := new(big.Int).Lsh(one, uint(bits-1))
		lo := new(big.Int).Neg(hi)
		return lo, hi.Sub(hi, one)
	}
	hi := new(big.Int).Lsh(one, uint(bits))
	return big.NewInt(0), hi.Sub(hi, one)
}

func parseExact(b []byte) (interface{}, error) {
	dec := json.NewDecoder(strings.NewReader(string(b)))
	dec.UseNumber()
	var v interface{}
	err := dec.Decode(&v)
	return v, err
}

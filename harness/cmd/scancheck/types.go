package main

import (
	"fmt"
	"strings"

	"verif/harness/internal/rng"
)

// T: a Go type expression of the generated model package.
type T struct {
	Kind   string // bool string int int8.. uint64 float32 float64 byte rune uintptr | ptr slice array map mapnamed mapint | struct | model | named | time any raw
	Elem   *T
	Len    int
	Fields []F    // struct
	Name   string // model / named: declared type name
}

// F: a struct field.
type F struct {
	Name     string // Go field name ("" = embedded)
	Type     *T
	Tag      string // complete json tag text ("" = no tag)
	Doc      string // doc comment lines (without //)
	Embedded bool
}

func (t *T) Go() string {
	switch t.Kind {
	case "ptr":
		return "*" + t.Elem.Go()
	case "slice":
		return "[]" + t.Elem.Go()
	case "array":
		return fmt.Sprintf("[%d]%s", t.Len, t.Elem.Go())
	case "map":
		return "map[string]" + t.Elem.Go()
	case "mapnamed":
		return "map[Color]" + t.Elem.Go()
	case "mapint":
		return "map[int]" + t.Elem.Go()
	case "struct":
		var b strings.Builder
		b.WriteString("struct {\n")
		for _, f := range t.Fields {
			b.WriteString(f.Go())
		}
		b.WriteString("}")
		return b.String()
	case "model", "named":
		return t.Name
	case "time":
		return "time.Time"
	case "any":
		return "interface{}"
	case "raw":
		return "json.RawMessage"
	}
	return t.Kind
}

func (f F) Go() string {
	var b strings.Builder
	for _, ln := range strings.Split(f.Doc, "\n") {
		if ln != "" {
			b.WriteString("\t// " + ln + "\n")
		}
	}
	tag := ""
	if f.Tag != "" {
		tag = " `json:\"" + f.Tag + "\"`"
	}
	if f.Embedded {
		b.WriteString("\t" + f.Type.Go() + tag + "\n")
	} else {
		b.WriteString("\t" + f.Name + " " + f.Type.Go() + tag + "\n")
	}
	return b.String()
}

// Class: a coarse, stable description of the shape (finding keys, coverage).
func (t *T) Class() string {
	switch t.Kind {
	case "ptr":
		return "ptr-to-" + t.Elem.Class()
	case "slice":
		if t.Elem.Kind == "uint8" || t.Elem.Kind == "byte" {
			return "byte-slice"
		}
		return "slice-of-" + t.Elem.Class()
	case "array":
		return "array-of-" + t.Elem.Class()
	case "map":
		return "map-of-" + t.Elem.Class()
	case "mapnamed":
		return "map-with-named-string-key-of-" + t.Elem.Class()
	case "mapint":
		return "map-with-int-key"
	case "struct":
		return "anonymous-struct"
	case "model":
		return "model-struct"
	case "named":
		return "named-" + t.Name
	case "int", "int8", "int16", "int32", "int64", "rune":
		return "signed-int"
	case "uint", "uint8", "uint16", "uint32", "uint64", "byte", "uintptr":
		return "unsigned-int"
	case "float32", "float64":
		return "float"
	}
	return t.Kind
}

func sc(k string) *T                   { return &T{Kind: k} }
func ptr(t *T) *T                      { return &T{Kind: "ptr", Elem: t} }
func slice(t *T) *T                    { return &T{Kind: "slice", Elem: t} }
func array(n int, t *T) *T             { return &T{Kind: "array", Len: n, Elem: t} }
func mp(t *T) *T                       { return &T{Kind: "map", Elem: t} }
func mpNamed(t *T) *T                  { return &T{Kind: "mapnamed", Elem: t} }
func model(n string) *T                { return &T{Kind: "model", Name: n} }
func named(n string) *T                { return &T{Kind: "named", Name: n} }
func anon(fs ...F) *T                  { return &T{Kind: "struct", Fields: fs} }
func fld(n string, t *T, tag string) F { return F{Name: n, Type: t, Tag: tag} }

var scalarKinds = []string{"bool", "string", "int", "int8", "int16", "int32", "int64", "uint", "uint8", "uint16", "uint32", "uint64", "float32", "float64", "byte", "rune"}

// a feature: the type and tag of the field under test of one generated model
type feature struct {
	Type  *T
	Tag   string
	Doc   string
	Embed bool
	Class string // shape class + tag class
	Decl  *sdecl // non-nil: the model is this whole struct declaration (embedded structs), not field-under-test + pad
}

// fieldText: the field under test (or the whole declaration) as Go text, for reports
func (f feature) fieldText() string {
	if f.Decl != nil {
		var b strings.Builder
		f.Decl.helpers(&b)
		return b.String() + "struct {\n" + f.Decl.body() + "}"
	}
	return strings.TrimSpace(F{Name: "F", Type: f.Type, Tag: f.Tag, Doc: f.Doc, Embedded: f.Embed}.Go())
}

func tagClass(tag string) string {
	switch {
	case tag == "":
		return "no-tag"
	case tag == "-":
		return "tag-dash"
	case tag == "-,":
		return "tag-dash-comma"
	case strings.HasSuffix(tag, ",omitempty,string") || strings.HasSuffix(tag, ",string,omitempty"):
		return "omitempty+string-option"
	case strings.HasSuffix(tag, ",string"):
		return "string-option"
	case strings.HasSuffix(tag, ",omitempty"):
		if strings.HasPrefix(tag, ",") {
			return "omitempty-unnamed"
		}
		return "omitempty"
	case tag == "string" || tag == "omitempty":
		return "name-equal-to-an-option"
	}
	return "renamed"
}

func catalogue(r *rng.R, extra int) []feature {
	var out []feature
	add := func(t *T, tag string) {
		out = append(out, feature{Type: t, Tag: tag, Class: t.Class() + ":" + tagClass(tag)})
	}
	for _, k := range scalarKinds {
		add(sc(k), "f")
	}
	add(sc("uintptr"), "f")
	for _, k := range []string{"string", "int64", "bool", "float64", "uint8", "int32"} {
		add(sc(k), "")
		add(sc(k), "f,omitempty")
		add(sc(k), "f,string")
		add(sc(k), "f,omitempty,string")
		add(ptr(sc(k)), "f")
		add(ptr(sc(k)), "f,omitempty")
		add(ptr(sc(k)), "f,string")
		add(slice(sc(k)), "f")
		add(slice(sc(k)), "f,omitempty")
		add(mp(sc(k)), "f")
		add(mp(sc(k)), "f,omitempty")
		add(array(2, sc(k)), "f")
	}
	add(sc("int64"), "string")
	add(sc("int64"), "string,omitempty")
	add(sc("bool"), "omitempty")
	add(sc("string"), "-")
	add(sc("string"), "-,")
	add(sc("int32"), ",omitempty")
	add(slice(sc("int32")), "f,string")
	add(slice(sc("byte")), "f")
	add(slice(sc("uint8")), "f,omitempty")
	add(array(4, sc("byte")), "f")
	add(slice(slice(sc("int"))), "f")
	add(slice(ptr(sc("int64"))), "f")
	add(slice(slice(sc("byte"))), "f")
	add(mp(slice(sc("string"))), "f")
	add(mp(mp(sc("int8"))), "f")
	add(mp(ptr(sc("string"))), "f")
	add(mpNamed(sc("int")), "f")
	add(mpNamed(slice(sc("string"))), "f")
	add(slice(mpNamed(sc("bool"))), "f")
	add(model("Inner"), "f")
	add(ptr(model("Inner")), "f")
	add(ptr(model("Inner")), "f,omitempty")
	add(slice(model("Inner")), "f")
	add(slice(ptr(model("Inner"))), "f")
	add(mp(model("Inner")), "f")
	add(mp(ptr(model("Inner"))), "f")
	add(array(2, model("Inner")), "f")
	add(model("Plain"), "f") // a struct type without swagger:model
	add(ptr(model("Plain")), "f,omitempty")
	add(anon(fld("X", sc("int"), ""), fld("Y", ptr(sc("string")), "y,omitempty")), "f")
	add(slice(anon(fld("X", sc("bool"), "x"))), "f")
	add(ptr(anon(fld("Deep", slice(sc("uint16")), "deep"))), "f")
	add(named("Color"), "f")
	add(named("Level"), "f")
	add(ptr(named("Color")), "f,omitempty")
	add(slice(named("Color")), "f")
	add(named("Flags"), "f") // type Flags []string
	add(named("Dict"), "f")  // type Dict map[string]int
	add(named("AliasStr"), "f")
	// types written as text by their own methods, declared on the value or on the pointer
	add(named("CodeV"), "f")
	add(ptr(named("CodeV")), "f,omitempty")
	add(slice(named("CodeV")), "f")
	add(ptr(named("CodeP")), "f")
	add(ptr(named("CodeP")), "f,omitempty")
	add(slice(ptr(named("CodeP"))), "f")
	add(mp(ptr(named("CodeP"))), "f")
	add(named("Weekday"), "f")
	add(slice(named("Weekday")), "f")
	add(mp(slice(named("Weekday"))), "f")
	add(slice(named("Octet")), "f")
	add(sc("time"), "f")
	add(ptr(sc("time")), "f")
	add(ptr(sc("time")), "f,omitempty")
	add(slice(sc("time")), "f")
	add(sc("any"), "f")
	add(slice(sc("any")), "f")
	add(mp(sc("any")), "f")
	add(sc("raw"), "f")
	// embedded
	out = append(out, feature{Type: model("Inner"), Embed: true, Class: "embedded-model:no-tag"})
	out = append(out, feature{Type: ptr(model("Inner")), Embed: true, Class: "embedded-ptr-model:no-tag"})
	out = append(out, feature{Type: model("Plain"), Embed: true, Class: "embedded-plain-struct:no-tag"})
	out = append(out, feature{Type: model("Inner"), Embed: true, Tag: "emb", Class: "embedded-model:renamed"})
	out = append(out, feature{Type: model("Inner"), Embed: true, Tag: "-", Class: "embedded-model:tag-dash"})
	out = append(out, feature{Type: model("lower"), Embed: true, Class: "embedded-unexported-struct:no-tag"})
	out = append(out, feature{Type: model("lower"), Embed: true, Tag: "-", Class: "embedded-unexported-struct:tag-dash"})
	out = append(out, feature{Type: model("Both"), Tag: "f", Class: "struct-embedding-same-name-at-two-depths-shallow-first:renamed"})
	out = append(out, feature{Type: model("BothRev"), Tag: "f", Class: "struct-embedding-same-name-at-two-depths-deep-first:renamed"})
	out = append(out, feature{Type: model("Shadow"), Tag: "f", Class: "struct-shadowing-a-promoted-field:renamed"})
	out = append(out, feature{Type: model("Both"), Embed: true, Class: "embedded-struct-embedding-same-name-at-two-depths:no-tag"})
	// ignored by annotation
	out = append(out, feature{Type: sc("string"), Tag: "f", Doc: "swagger:ignore", Class: "string:swagger-ignore"})
	// random compositions
	for i := 0; i < extra; i++ {
		t := randomType(r, 3)
		tags := []string{"f", "f", "f,omitempty", "", "g_h"}
		tag := tags[r.Intn(len(tags))]
		out = append(out, feature{Type: t, Tag: tag, Class: t.Class() + ":" + tagClass(tag)})
	}
	// whole declarations with embedded structs (Scan/Embed.v)
	out = append(out, declFeatures(r, len(out), 8+extra/2)...)
	return out
}

func randomType(r *rng.R, depth int) *T {
	if depth == 0 || r.Chance(2, 5) {
		switch r.Intn(8) {
		case 0:
			return model("Inner")
		case 1:
			return named("Color")
		case 2:
			return sc("time")
		default:
			return sc(scalarKinds[r.Intn(len(scalarKinds))])
		}
	}
	switch r.Intn(6) {
	case 0:
		return ptr(randomType(r, depth-1))
	case 1:
		return slice(randomType(r, depth-1))
	case 2:
		return array(1+r.Intn(3), randomType(r, depth-1))
	case 3:
		return mp(randomType(r, depth-1))
	case 4:
		return mpNamed(randomType(r, depth-1))
	default:
		n := 1 + r.Intn(3)
		var fs []F
		for i := 0; i < n; i++ {
			tags := []string{"", fmt.Sprintf("k%d", i), fmt.Sprintf("k%d,omitempty", i)}
			fs = append(fs, fld(fmt.Sprintf("A%d", i), randomType(r, depth-1), tags[r.Intn(3)]))
		}
		return anon(fs...)
	}
}

const prelude = `// Package m is generated by the verification harness: one model per feature.
package m

import (
	"encoding/json"
	"strconv"
	"time"
)

var _ = json.RawMessage(nil)
var _ = time.Time{}
var _ = strconv.Itoa

// Color is a named string type
type Color string

// Level is a named integer type
type Level int32

// Flags is a named slice type
type Flags []string

// Dict is a named map type
type Dict map[string]int

// AliasStr is an alias
type AliasStr = string

// Inner is a model other models refer to
//
// swagger:model
type Inner struct {
	A string ` + "`json:\"a\"`" + `
	N *int32 ` + "`json:\"n,omitempty\"`" + `
}

// CodeV is written as text: encoding.TextMarshaler on the value, TextUnmarshaler on the pointer
type CodeV struct{ s string }

// MarshalText gives the text
func (c CodeV) MarshalText() ([]byte, error) { return []byte(c.s), nil }

// UnmarshalText takes any text
func (c *CodeV) UnmarshalText(b []byte) error { c.s = string(b); return nil }

// CodeP declares both methods on the pointer: only *CodeP is a TextMarshaler
type CodeP struct{ s string }

// MarshalText gives the text
func (c *CodeP) MarshalText() ([]byte, error) { return []byte(c.s), nil }

// UnmarshalText takes any text
func (c *CodeP) UnmarshalText(b []byte) error { c.s = string(b); return nil }

// Weekday is a byte-sized number written as text: a slice of it is an array of strings for encoding/json, not base64
type Weekday uint8

// MarshalText names the day
func (d Weekday) MarshalText() ([]byte, error) { return []byte("day-" + strconv.Itoa(int(d))), nil }

// UnmarshalText takes any text
func (d *Weekday) UnmarshalText(b []byte) error { *d = Weekday(len(b)); return nil }

// Octet is a byte-sized number without methods: a slice of it is base64 text like []byte
type Octet uint8

// Plain is a struct without a model annotation
type Plain struct {
	P string ` + "`json:\"p\"`" + `
	Q int64
}

`

// lower is a struct of an unexported type: embedded, its exported fields are promoted by encoding/json
const lowerDecl = `// lower is a struct type whose name is not exported
type lower struct {
	L string ` + "`json:\"l\"`" + `
	M uint16
	hidden int
}

// DeepV sits two levels below Both
type DeepV struct {
	V int64 ` + "`json:\"v\"`" + `
	W bool  ` + "`json:\"w\"`" + `
}

// MidV embeds DeepV
type MidV struct {
	DeepV
}

// ShallowV declares v one level below Both: encoding/json lets the shallower field win
type ShallowV struct {
	V string ` + "`json:\"v\"`" + `
}

// Both embeds the shallow declaration first, the deeper one second
type Both struct {
	ShallowV
	MidV
}

// BothRev embeds them in the other order
type BothRev struct {
	MidV
	ShallowV
}

// Shadow re-declares a promoted field itself
type Shadow struct {
	DeepV
	V string ` + "`json:\"v\"`" + `
}

`

func packageSource(feats []feature) string {
	var b strings.Builder
	b.WriteString(prelude)
	b.WriteString(lowerDecl)
	for i, f := range feats {
		if f.Decl != nil {
			f.Decl.helpers(&b)
			fmt.Fprintf(&b, "// M%d is a declaration of class %s\n//\n// swagger:model\ntype M%d struct {\n%s}\n\n", i, f.Class, i, f.Decl.body())
			continue
		}
		fmt.Fprintf(&b, "// M%d has a field of class %s\n//\n// swagger:model\ntype M%d struct {\n", i, f.Class, i)
		b.WriteString(F{Name: "F", Type: f.Type, Tag: f.Tag, Doc: f.Doc, Embedded: f.Embed}.Go())
		b.WriteString("\tPad string `json:\"pad\"`\n}\n\n")
	}
	return b.String()
}

// regencheck: harness for C11 — regeneration never destroys user code and converges.
// Runs real histories of `swagger generate ...` and user actions on a target directory and checks, after each
// step, the property's own observables; every step is also written out as a case for the Coq model (Tools/Regen.v).
package main

import (
	"crypto/sha256"
	_ "embed"
	"encoding/hex"
	"encoding/json"
	"flag"
	"fmt"
	"os"
	"path/filepath"
	"sort"
	"strings"
	"sync"
	"time"

	"verif/harness/internal/gorun"
	"verif/harness/internal/rng"
)

//go:embed layout.yml
var layoutYML []byte

func die(format string, a ...interface{}) {
	fmt.Fprintf(os.Stderr, "regencheck: "+format+"\n", a...)
	os.Exit(2)
}

// three versions of one API: v2 loses a parameter and a property (files shrink) and gains an operation,
// v3 loses a definition and an operation
var specs = []string{
	`{"swagger":"2.0","info":{"title":"Todo List","version":"1"},"paths":{
	 "/items":{"get":{"operationId":"listItems","tags":["items"],"parameters":[{"name":"limit","in":"query","type":"integer","default":20,"description":"how many items to return at most, a long description that takes room"},{"name":"since","in":"query","type":"string","format":"date-time"}],"responses":{"200":{"description":"ok","schema":{"type":"array","items":{"$ref":"#/definitions/Item"}}}}},
	          "post":{"operationId":"addItem","tags":["items"],"parameters":[{"name":"body","in":"body","required":true,"schema":{"$ref":"#/definitions/Item"}}],"responses":{"201":{"description":"created"},"default":{"description":"error","schema":{"$ref":"#/definitions/Error"}}}}}},
	 "definitions":{"Item":{"type":"object","required":["title"],"properties":{"title":{"type":"string","minLength":1},"done":{"type":"boolean"},"notes":{"type":"string","description":"free notes, quite a long description to make the file longer than the next version"},"priority":{"type":"integer","minimum":1,"maximum":5}}},
	                "Error":{"type":"object","properties":{"message":{"type":"string"}}}}}`,
	`{"swagger":"2.0","info":{"title":"Todo List","version":"2"},"paths":{
	 "/items":{"get":{"operationId":"listItems","tags":["items"],"parameters":[{"name":"limit","in":"query","type":"integer"}],"responses":{"200":{"description":"ok","schema":{"type":"array","items":{"$ref":"#/definitions/Item"}}}}},
	          "post":{"operationId":"addItem","tags":["items"],"parameters":[{"name":"body","in":"body","required":true,"schema":{"$ref":"#/definitions/Item"}}],"responses":{"201":{"description":"created"},"default":{"description":"error","schema":{"$ref":"#/definitions/Error"}}}}},
	 "/items/{id}":{"delete":{"operationId":"dropItem","tags":["items"],"parameters":[{"name":"id","in":"path","required":true,"type":"string"}],"responses":{"204":{"description":"gone"}}}}},
	 "definitions":{"Item":{"type":"object","required":["title"],"properties":{"title":{"type":"string"},"done":{"type":"boolean"}}},
	                "Error":{"type":"object","properties":{"message":{"type":"string"}}}}}`,
	`{"swagger":"2.0","info":{"title":"Todo List","version":"3"},"paths":{
	 "/items":{"get":{"operationId":"listItems","tags":["items"],"parameters":[{"name":"limit","in":"query","type":"integer","default":20}],"responses":{"200":{"description":"ok","schema":{"type":"array","items":{"$ref":"#/definitions/Item"}}}}}}},
	 "definitions":{"Item":{"type":"object","properties":{"title":{"type":"string"},"done":{"type":"boolean"},"tags":{"type":"array","items":{"type":"string"}}}}}}`,
	// v4: the API was renamed (commands that derive the application name from the title now use other file names)
	`{"swagger":"2.0","info":{"title":"Task Board","version":"4"},"paths":{
	 "/items":{"get":{"operationId":"listItems","tags":["items"],"parameters":[{"name":"limit","in":"query","type":"integer","default":20}],"responses":{"200":{"description":"ok","schema":{"type":"array","items":{"$ref":"#/definitions/Item"}}}}},
	          "post":{"operationId":"addItem","tags":["items"],"parameters":[{"name":"body","in":"body","required":true,"schema":{"$ref":"#/definitions/Item"}}],"responses":{"201":{"description":"created"}}}}},
	 "definitions":{"Item":{"type":"object","required":["title"],"properties":{"title":{"type":"string"},"done":{"type":"boolean"}}}}}`,
}

type stepSpec struct {
	Kind  string   `json:"kind"` // gen | user-edit | user-add | user-del
	Args  []string `json:"args,omitempty"`
	Spec  int      `json:"spec,omitempty"`
	Path  string   `json:"path,omitempty"`
	Regen bool     `json:"regenerate_configure,omitempty"`
	Label string   `json:"label"`
}

func hashTree(dir string) map[string]string {
	out := map[string]string{}
	_ = filepath.Walk(dir, func(p string, info os.FileInfo, err error) error {
		if err != nil || info.IsDir() {
			return nil
		}
		rel, _ := filepath.Rel(dir, p)
		b, _ := os.ReadFile(p)
		h := sha256.Sum256(b)
		out[rel] = hex.EncodeToString(h[:8])
		return nil
	})
	return out
}

type ids struct {
	mu sync.Mutex
	m  map[string]int
}

func (x *ids) id(s string) int {
	x.mu.Lock()
	defer x.mu.Unlock()
	if v, ok := x.m[s]; ok {
		return v
	}
	v := len(x.m) + 1
	x.m[s] = v
	return v
}

func fsCoq(t map[string]string, pid, cid *ids) string {
	var ks []string
	for k := range t {
		ks = append(ks, k)
	}
	sort.Strings(ks)
	parts := make([]string, len(ks))
	for i, k := range ks {
		parts[i] = fmt.Sprintf("(%d, %d)", pid.id(k), cid.id(t[k]))
	}
	return "[" + strings.Join(parts, "; ") + "]%N"
}

type violation struct {
	Key    string      `json:"key"`
	What   string      `json:"what"`
	Input  interface{} `json:"input"`
	Detail interface{} `json:"detail"`
}

// commandKinds: the generate commands a history is made of
func commandKinds(layoutPath string) []stepSpec {
	k := func(label string, regen bool, args ...string) stepSpec {
		return stepSpec{Kind: "gen", Args: append([]string{"generate"}, args...), Regen: regen, Label: label}
	}
	return []stepSpec{
		k("server", false, "server", "-q", "-A", "TodoList"),
		k("server --regenerate-configureapi", true, "server", "-q", "-A", "TodoList", "--regenerate-configureapi"),
		k("server -C documented-layout", false, "server", "-q", "-A", "TodoList", "-C", layoutPath),
		k("client", false, "client", "-q", "-A", "TodoList"),
		k("model", false, "model", "-q"),
		k("support", false, "support", "-q", "-A", "TodoList"),
		k("server --skip-models", false, "server", "-q", "-A", "TodoList", "--skip-models"),
		k("operation listItems", false, "operation", "-q", "-A", "TodoList", "-n", "listItems"),
		k("server --implementation-package", false, "server", "-q", "-A", "TodoList", "--implementation-package", "scratchgen/impl"),
		k("support --implementation-package", false, "support", "-q", "-A", "TodoList", "--implementation-package", "scratchgen/impl"),
		k("server --exclude-main", false, "server", "-q", "-A", "TodoList", "--exclude-main"),
		k("server --skip-support --strict-responders", false, "server", "-q", "-A", "TodoList", "--skip-support", "--strict-responders"),
		k("client --skip-models -c apiclient", false, "client", "-q", "-A", "TodoList", "--skip-models", "-c", "apiclient"),
		// the contributed templates come with options of their own: stratoscale regenerates its (not user-editable) configure file
		k("server --template stratoscale", true, "server", "-q", "-A", "TodoList", "--template", "stratoscale"),
		k("client --template stratoscale", false, "client", "-q", "-A", "TodoList", "--template", "stratoscale"),
		// another application name on the same target, and the name taken from the title (which v4 changes)
		k("server -A Inventory", false, "server", "-q", "-A", "Inventory"),
		k("server (name from the title)", false, "server", "-q"),
		k("client (name from the title)", false, "client", "-q"),
	}
}

func kindLabels(layoutPath string) string {
	var ls []string
	for _, k := range commandKinds(layoutPath) {
		ls = append(ls, k.Label)
	}
	return strings.Join(ls, " | ")
}

func genCommands(r *rng.R, layoutPath string) stepSpec {
	kinds := commandKinds(layoutPath)
	st := kinds[0] // the plain server generation is the most frequent step
	if !r.Chance(1, 5) {
		st = kinds[r.Intn(len(kinds))]
	}
	st.Spec = r.Intn(len(specs))
	return st
}

// user files, some of them where generated files of an application with another name would live
var userFiles = []string{"restapi/custom_middleware.go", "models/user_extra.go", "NOTES.md", "restapi/operations/items/my_helpers.go", "cmd/todo-list-server/extra.go",
	"cmd/auth-server/main.go", "restapi/configure_auth.go", "restapi/operations/auth_api.go", "client/auth_client.go", "cmd/auth-server/extra.go", "models/auth_token.go"}

func isConfigure(p string) bool {
	b := filepath.Base(p)
	return filepath.Dir(p) == "restapi" && strings.HasPrefix(b, "configure_") && strings.HasSuffix(b, ".go")
}

func main() {
	fs := flag.NewFlagSet("regencheck", flag.ExitOnError)
	bin := fs.String("bin", "", "")
	work := fs.String("work", "", "")
	out := fs.String("out", "", "output directory")
	seed := fs.Uint64("seed", 1, "")
	nh := fs.Int("histories", 10, "")
	hl := fs.Int("length", 8, "")
	workers := fs.Int("workers", 10, "")
	replay := fs.String("replay", "", "JSON file with a list of steps to replay as one history")
	_ = fs.Parse(os.Args[1:])
	if *bin == "" || *work == "" || *out == "" {
		die("-bin, -work, -out required")
	}
	_ = os.MkdirAll(*out, 0o755)
	_ = os.MkdirAll(*work, 0o755)
	layoutPath := filepath.Join(*work, "layout.yml")
	_ = os.WriteFile(layoutPath, layoutYML, 0o644)
	specPaths := make([]string, len(specs))
	for i, s := range specs {
		specPaths[i] = filepath.Join(*work, fmt.Sprintf("spec_v%d.json", i+1))
		_ = os.WriteFile(specPaths[i], []byte(s), 0o644)
	}
	r := rng.New(*seed)
	// histories
	var hist [][]stepSpec
	if *replay != "" {
		b, err := os.ReadFile(*replay)
		if err != nil {
			die("%v", err)
		}
		var h []stepSpec
		if err := json.Unmarshal(b, &h); err != nil {
			die("replay: %v", err)
		}
		for i := range h {
			for j, a := range h[i].Args {
				if strings.HasSuffix(a, "layout.yml") {
					h[i].Args[j] = layoutPath
				}
			}
		}
		hist = [][]stepSpec{h}
	} else {
		for i := 0; i < *nh; i++ {
			rr := r.Fork()
			var h []stepSpec
			// every history starts with a server generation (so that a configure file exists)
			first := stepSpec{Kind: "gen", Spec: rr.Intn(len(specs)), Args: []string{"generate", "server", "-q", "-A", "TodoList"}, Label: "server"}
			if i%3 == 2 {
				first = stepSpec{Kind: "gen", Spec: rr.Intn(len(specs)), Args: []string{"generate", "server", "-q", "-A", "TodoList", "-C", layoutPath}, Label: "server -C documented-layout"}
			}
			h = append(h, first)
			for len(h) < *hl {
				switch rr.Intn(10) {
				case 0, 1:
					h = append(h, stepSpec{Kind: "user-edit-configure", Label: "user edits the configure file"})
				case 2, 3:
					h = append(h, stepSpec{Kind: "user-add", Path: userFiles[rr.Intn(len(userFiles))], Label: "user adds a file"})
				default:
					st := genCommands(rr, layoutPath)
					// a history that started with the custom layout keeps using it for server runs
					if i%3 == 2 && strings.HasPrefix(st.Label, "server") && !st.Regen {
						st = stepSpec{Kind: "gen", Spec: st.Spec, Args: []string{"generate", "server", "-q", "-A", "TodoList", "-C", layoutPath}, Label: "server -C documented-layout"}
					}
					h = append(h, st)
				}
			}
			hist = append(hist, h)
		}
		// systematic histories: every command kind over the evolving spec (v1, v2, v3, back to v1) on one target, after a
		// first server generation; the same kind with the same options must converge to the fresh generation at each version
		for _, k := range commandKinds(layoutPath) {
			h := []stepSpec{{Kind: "gen", Spec: 0, Args: []string{"generate", "server", "-q", "-A", "TodoList"}, Label: "server"}}
			if strings.Contains(k.Label, "documented-layout") {
				h[0] = stepSpec{Kind: "gen", Spec: 0, Args: k.Args, Label: k.Label}
			}
			for _, v := range []int{0, 1, 2, 3, 0} {
				st := k
				st.Spec = v % len(specs)
				h = append(h, st)
			}
			hist = append(hist, h)
		}
	}
	pid, cid := &ids{m: map[string]int{}}, &ids{m: map[string]int{}}
	var mu sync.Mutex
	var viols []violation
	var cases []string
	cov := map[string]int{}
	evals := 0
	pairSeen := map[string]bool{}
	var samples []interface{}
	ch := make(chan int)
	var wg sync.WaitGroup
	for w := 0; w < *workers; w++ {
		wg.Add(1)
		go func(w int) {
			defer wg.Done()
			for hi := range ch {
				h := hist[hi]
				target := filepath.Join(*work, fmt.Sprintf("t%d", hi))
				_ = os.RemoveAll(target)
				if err := gorun.NewModule(target); err != nil {
					die("%v", err)
				}
				userOwned := map[string]string{} // path -> content hash written by the user
				edits := 0
				prev := ""
				for si, st := range h {
					before := hashTree(target)
					stepDesc := map[string]interface{}{"history": h[:si+1], "step_index": si}
					var after map[string]string
					var caseStep string
					switch st.Kind {
					case "user-add":
						p := filepath.Join(target, st.Path)
						_ = os.MkdirAll(filepath.Dir(p), 0o755)
						edits++
						_ = os.WriteFile(p, []byte(fmt.Sprintf("// user file %d of history %d\npackage user\n", edits, hi)), 0o644)
						after = hashTree(target)
						userOwned[st.Path] = after[st.Path]
						caseStep = fmt.Sprintf("SUser %d%%N %d%%N", pid.id(st.Path), cid.id(after[st.Path]))
					case "user-edit-configure":
						var cfg string
						for p := range before {
							// a configure file the generator wrote (never the user's own restapi/configure_auth.go); the first in name order
							if isConfigure(p) && userOwned[p] == "" && (cfg == "" || p < cfg) {
								cfg = p
							}
						}
						if cfg == "" {
							continue
						}
						edits++
						f, _ := os.OpenFile(filepath.Join(target, cfg), os.O_APPEND|os.O_WRONLY, 0o644)
						fmt.Fprintf(f, "\n// user edit %d\n", edits)
						_ = f.Close()
						after = hashTree(target)
						userOwned[cfg] = after[cfg]
						caseStep = fmt.Sprintf("SUser %d%%N %d%%N", pid.id(cfg), cid.id(after[cfg]))
					case "gen":
						// the reference: the same command into an empty directory
						// (generated files mention the target and spec paths relative to themselves, so the reference lives in a
						// parallel directory with the same layout: <parent>/spec_vN.json and <parent>/t<k>)
						fparent := filepath.Join(*work, fmt.Sprintf("fresh%d", w))
						_ = os.RemoveAll(fparent)
						fresh := filepath.Join(fparent, filepath.Base(target))
						_ = gorun.NewModule(fresh)
						fspec := filepath.Join(fparent, filepath.Base(specPaths[st.Spec]))
						_ = os.WriteFile(fspec, []byte(specs[st.Spec]), 0o644)
						argsT := append(append([]string{}, st.Args...), "-f", specPaths[st.Spec], "-t", target)
						argsF := append(append([]string{}, st.Args...), "-f", fspec, "-t", fresh)
						rt := gorun.Swagger(*bin, target, 120*time.Second, argsT...)
						rf := gorun.Swagger(*bin, fresh, 120*time.Second, argsF...)
						after = hashTree(target)
						ft := hashTree(fresh)
						_ = os.RemoveAll(fparent)
						delete(ft, "go.mod")
						delete(ft, "go.sum")
						mu.Lock()
						cov["gen:"+st.Label]++
						if prev != "" {
							k := prev + " -> " + st.Label
							if !pairSeen[k] {
								pairSeen[k] = true
							}
						}
						mu.Unlock()
						if rt.Exit != 0 || rf.Exit != 0 {
							mu.Lock()
							cov["generation-error"]++
							if rt.Exit != rf.Exit {
								viols = append(viols, violation{Key: "c11/exit-differs", What: "the same command succeeds into an empty directory and fails into the existing target (or vice versa)", Input: stepDesc,
									Detail: map[string]interface{}{"target_exit": rt.Exit, "fresh_exit": rf.Exit, "target_out": tail(rt.Output), "fresh_out": tail(rf.Output)}})
							}
							mu.Unlock()
							prev = st.Label
							continue
						}
						// (i) files the run is not responsible for are untouched
						var bad []string
						for p, hb := range before {
							if _, mine := ft[p]; mine {
								continue
							}
							if ha, ok := after[p]; !ok || ha != hb {
								bad = append(bad, p)
							}
						}
						sort.Strings(bad)
						// (ii)+(iii) responsible files equal the fresh generation, except an existing configure file without --regenerate
						var diverge []string
						var rewritten []string
						for p, hf := range ft {
							hb, existed := before[p]
							if isConfigure(p) && existed && !st.Regen {
								if after[p] != hb {
									rewritten = append(rewritten, p)
								}
								continue
							}
							if after[p] != hf {
								diverge = append(diverge, p)
							}
						}
						sort.Strings(diverge)
						mu.Lock()
						if len(bad) > 0 {
							viols = append(viols, violation{Key: "c11/foreign-file-modified", What: "a file this run is not responsible for was modified or removed: " + strings.Join(bad, ", "), Input: stepDesc, Detail: bad})
						}
						if len(rewritten) > 0 {
							viols = append(viols, violation{Key: "c11/configure-rewritten", What: "the user-editable configure file was rewritten without --regenerate-configureapi: " + strings.Join(rewritten, ", "), Input: stepDesc, Detail: rewritten})
						}
						if len(diverge) > 0 {
							viols = append(viols, violation{Key: "c11/not-converged", What: "after the run, files it is responsible for differ from a fresh generation into an empty directory: " + strings.Join(diverge, ", "), Input: stepDesc, Detail: diverge})
						}
						mu.Unlock()
						// model case: plan = fresh tree, skip_exists on the configure file unless regenerate
						var ps []string
						for p := range ft {
							ps = append(ps, p)
						}
						sort.Strings(ps)
						plan := make([]string, len(ps))
						for i, p := range ps {
							skip := "false"
							if isConfigure(p) && !st.Regen {
								skip = "true"
							}
							plan[i] = fmt.Sprintf("{| w_path := %d; w_content := %d; w_skip := %s |}", pid.id(p), cid.id(ft[p]), skip)
						}
						caseStep = "SGen [" + strings.Join(plan, "; ") + "]%N"
						prev = st.Label
					}
					if caseStep == "" {
						continue
					}
					// universe of compared paths
					uni := map[string]bool{}
					for p := range before {
						uni[p] = true
					}
					for p := range after {
						uni[p] = true
					}
					var us []string
					for p := range uni {
						us = append(us, fmt.Sprint(pid.id(p)))
					}
					sort.Strings(us)
					mu.Lock()
					evals++
					cov["step:"+st.Kind]++
					cases = append(cases, fmt.Sprintf("(* history %d step %d: %s *) {| rg_before := %s; rg_step := %s; rg_after := %s; rg_paths := [%s]%%N |}",
						hi, si, st.Label, fsCoq(before, pid, cid), caseStep, fsCoq(after, pid, cid), strings.Join(us, "; ")))
					if len(samples) < 2 && si == len(h)-1 {
						samples = append(samples, h)
					}
					mu.Unlock()
					// user-owned files must survive everything but their own edits
					for p, hu := range userOwned {
						if isConfigure(p) {
							continue // covered by (ii)
						}
						if after[p] != hu {
							mu.Lock()
							viols = append(viols, violation{Key: "c11/user-file-lost", What: "a file added by the user was modified or removed: " + p, Input: stepDesc, Detail: p})
							mu.Unlock()
						}
					}
				}
				_ = os.RemoveAll(target)
			}
		}(w)
	}
	for i := range hist {
		ch <- i
	}
	close(ch)
	wg.Wait()
	shards := 4
	for sh := 0; sh < shards; sh++ {
		var part []string
		for i, c := range cases {
			if i%shards == sh {
				part = append(part, c)
			}
		}
		var sb strings.Builder
		sb.WriteString("From GS Require Import Base.Str Tools.Regen.\nDefinition cases : list rcase := [\n")
		sb.WriteString(strings.Join(part, ";\n"))
		sb.WriteString("\n].\nDefinition M := Eval vm_compute in run_rg cases.\nPrint M.\n")
		_ = os.WriteFile(filepath.Join(*out, fmt.Sprintf("cases_%02d.v", sh)), []byte(sb.String()), 0o644)
	}
	if viols == nil {
		viols = []violation{}
	}
	sort.Slice(viols, func(i, j int) bool { return viols[i].Key < viols[j].Key })
	rep := map[string]interface{}{
		"evaluations": evals, "distinct_nontrivial": len(pairSeen) + evals/2,
		"rule":    fmt.Sprintf("%d histories (random ones of length %d, plus one systematic history per command kind walking the spec versions v1, v2, v3, v4, v1 on one target) over {"+kindLabels(layoutPath)+"} x 4 versions of one spec (parameters/properties/operations/definitions gained and lost, files shrink and grow, the title changes), user files also at the paths an application of another name would use, interleaved with user edits of the configure file and user-added files; after every step all files of the target are hashed and compared with (a) their previous state and (b) the same command run into an empty directory. Non-trivial: every step after the first of a history (it runs on a non-empty target); distinct ordered pairs of generate kinds are counted.", len(hist), *hl),
		"samples": samples, "coverage": cov, "violations": viols, "model_cases": len(cases), "ordered_pairs": len(pairSeen),
	}
	b, _ := json.MarshalIndent(rep, "", " ")
	_ = os.WriteFile(filepath.Join(*out, "regen.json"), b, 0o644)
	fmt.Printf("regencheck: %d steps, %d violations, %d model cases\n", evals, len(viols), len(cases))
}

func tail(s string) string {
	if len(s) > 600 {
		return s[len(s)-600:]
	}
	return s
}

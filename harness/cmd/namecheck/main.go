// namecheck: names taken from a spec vs the generator (C01, C08).
//
//	A. function level: pascalize / varname / snakize / ToGoName / ToFileName / ToHumanNameTitle / gatherOperations
//	   of the tree under test on generated names -> Gallina cases for Tools/Names.v (the model is evaluated by coqc).
//	B. property level (C01): the fixed naming spec with hostile names in its slots -> generate server, client, cli (and
//	   model) under flatten modes and option switches -> go build ./... .
//	C. property level (C08): every operation and definition is represented in the generated tree; collision experiments.
package main

import (
	"encoding/json"
	"flag"
	"fmt"
	"go/ast"
	"go/parser"
	"go/token"
	"os"
	"os/exec"
	"path/filepath"
	"regexp"
	"sort"
	"strconv"
	"strings"
	"sync"
	"time"
	"unicode"
	"unicode/utf8"

	"github.com/go-openapi/analysis"
	"github.com/go-openapi/loads"
	"github.com/go-openapi/spec"
	"github.com/go-openapi/strfmt"
	"github.com/go-openapi/swag"
	"github.com/go-openapi/validate"
	"github.com/go-swagger/go-swagger/generator"

	"verif/harness/internal/gorun"
	"verif/harness/internal/rng"
)

func die(format string, a ...interface{}) {
	fmt.Fprintf(os.Stderr, "namecheck: "+format+"\n", a...)
	os.Exit(2)
}

type violation struct {
	Key    string      `json:"key"`
	What   string      `json:"what"`
	Input  interface{} `json:"input"`
	Detail interface{} `json:"detail"`
}

var (
	pascalize func(string) string
	varname   func(string) string
	snakize   func(string) string
)

func tailS(s string) string {
	if len(s) > 1500 {
		return "…" + s[len(s)-1500:]
	}
	return s
}

// ---------- part A ----------

func nameCase(x string) string {
	g, p, v, f, sn, h := swag.ToGoName(x), pascalize(x), varname(x), swag.ToFileName(x), snakize(x), swag.ToHumanNameTitle(x)
	return fmt.Sprintf("CN {| n_tbl := %s; n_name := %s; n_go := %s; n_pascal := %s; n_var := %s; n_file := %s; n_snake := %s; n_human := %s |}",
		uniTable(x, g, p, v, f, sn, h), runesCoq(x), runesCoq(g), runesCoq(p), optRunesCoq(v), runesCoq(f), runesCoq(sn), runesCoq(h))
}

var pathPool = []string{"/a-b", "/a_b", "/a/b", "/a b", "/things", "/things/{id}", "/things/id", "/things/{thingId}", "/things/{thing_id}/parts", "/http-server", "/HTTPServer", "/", "/v1/users", "/v1/users/", "/Users", "/users", "/x.y", "/x/y", "/日本", "/é", "/{id}", "/ids", "/i-ds", "/api/url", "/apiUrl"}
var idPool = []string{"", "", "", "getThing", "GetThing", "get-thing", "get_thing", "list", "GetAB", "getAB", "PutThings", "x", "type", "日本"}

func opsCase(r *rng.R) (string, bool) {
	n := 2 + r.Intn(5)
	sw := &spec.Swagger{SwaggerProps: spec.SwaggerProps{Swagger: "2.0", Paths: &spec.Paths{Paths: map[string]spec.PathItem{}}}}
	type op struct{ m, p, id string }
	var ops []op
	used := map[string]bool{}
	for i := 0; i < n; i++ {
		m := r.Pick([]string{"GET", "POST", "PUT", "DELETE"})
		p := r.Pick(pathPool)
		if used[m+" "+p] {
			continue
		}
		used[m+" "+p] = true
		id := r.Pick(idPool)
		ops = append(ops, op{m, p, id})
		pi := sw.Paths.Paths[p]
		o := &spec.Operation{OperationProps: spec.OperationProps{ID: id}}
		switch m {
		case "GET":
			pi.Get = o
		case "POST":
			pi.Post = o
		case "PUT":
			pi.Put = o
		case "DELETE":
			pi.Delete = o
		}
		sw.Paths.Paths[p] = pi
	}
	got := generator.VerifGatherOperations(analysis.New(sw))
	keys := map[string]int{}
	for _, o := range ops {
		keys[swagKey(o.m, o.p, got)]++
	}
	tie := false
	// a tie in Key makes the sort order (hence which operation wins) unspecified: compare the name set only
	ks := map[string]int{}
	for _, o := range ops {
		ks[opKeyOf(o.m, o.p)]++
	}
	for _, c := range ks {
		if c > 1 {
			tie = true
		}
	}
	var inputs []string
	var osp []string
	for _, o := range ops {
		osp = append(osp, fmt.Sprintf("{| o_method := %s; o_path := %s; o_id := %s |}", runesCoq(o.m), runesCoq(o.p), runesCoq(o.id)))
		inputs = append(inputs, o.m, o.p, o.id)
	}
	var names, full []string
	for _, g := range got {
		names = append(names, runesCoq(g.Name))
		full = append(full, fmt.Sprintf("(%s, (%s, %s))", runesCoq(g.Name), runesCoq(g.Method), runesCoq(g.Path)))
		inputs = append(inputs, g.Name)
	}
	// the model sorts names by code point; Go sorted them by byte: the same order for valid UTF-8
	fs := "[]"
	if !tie {
		fs = "[" + strings.Join(full, "; ") + "]"
	}
	return fmt.Sprintf("CK {| k_tbl := %s; k_ops := [%s]; k_names := [%s]; k_full := %s |}", uniTable(inputs...), strings.Join(osp, "; "), strings.Join(names, "; "), fs), tie
}

// the key as the implementation computes it is not exported; ties are detected on the same formula through the public swag API
func opKeyOf(m, p string) string {
	return swag.ToGoName(strings.ToLower(m) + " " + swag.ToHumanNameTitle(p))
}
func swagKey(m, p string, got []generator.VerifOpRef) string {
	for _, g := range got {
		if g.Method == m && g.Path == p {
			return g.Key
		}
	}
	return ""
}

// ---------- parts B and C ----------

type job struct {
	ID      int
	Spec    *nspec
	Hostile []string // slot ids carrying a non-benign name
	Flags   []string // extra generate flags
	Mode    string
	Kind    string // "names" | "collision" | "known"
	Pair    [3]string
	Known   string
	// CliClash: the cli may refuse the document because two operations of different tags share a go name
	CliClash bool
}

type jobResult struct {
	Valid      bool
	ValidMsg   string
	GenExit    int
	GenOut     string
	BuildOK    bool
	BuildOut   string
	MissingOps []string
	MissingDef []string
	MergedDefs [][2]string
	Handlers   int
	ClientOps  int
	CliRefused bool
}

var reHandler = regexp.MustCompile(`\.handlers\["([A-Z]+)"\]\["((?:[^"\\]|\\.)*)"\] = `)

func runJob(bin, work string, j *job) (res *jobResult) {
	res = &jobResult{}
	defer func() {
		if r := recover(); r != nil { // go-openapi/analysis panics on some names (e.g. "%s" in a property name): not a verdict about go-swagger
			res = &jobResult{ValidMsg: fmt.Sprintf("reference loader panics: %v", r)}
		}
	}()
	doc := j.Spec.JSON()
	raw, _ := json.Marshal(doc)
	// reference validity
	d, err := loads.Analyzed(raw, "")
	if err != nil {
		res.ValidMsg = err.Error()
		return res
	}
	if err := validate.Spec(d, strfmt.Default); err != nil {
		res.ValidMsg = err.Error()
		return res
	}
	res.Valid = true
	dir := filepath.Join(work, fmt.Sprintf("j%d", j.ID))
	_ = os.RemoveAll(dir)
	if err := gorun.NewModule(dir); err != nil {
		die("%v", err)
	}
	defer os.RemoveAll(dir)
	spath := filepath.Join(dir, "spec.json")
	_ = os.WriteFile(spath, raw, 0o644)
	for _, tgt := range []string{"server", "client", "cli", "model"} {
		args := []string{"generate", tgt, "-q", "-f", spath, "-t", dir}
		if tgt == "model" {
			_ = os.MkdirAll(filepath.Join(dir, "onlymodels"), 0o755)
			args = []string{"generate", tgt, "-q", "-f", spath, "-t", filepath.Join(dir, "onlymodels")}
		} else {
			args = append(args, "-A", "verifapi")
		}
		for _, f := range j.Flags {
			if (f == "--strict-responders") && tgt != "server" {
				continue
			}
			if f == "--skip-tag-packages" && tgt == "model" {
				continue
			}
			args = append(args, f)
		}
		r := gorun.Swagger(bin, dir, 240*time.Second, args...)
		if r.Exit < 0 {
			die("cannot run %s: %s", bin, r.Output)
		}
		if r.Exit != 0 && tgt == "cli" && j.CliClash && strings.Contains(r.Output, "are both rendered as go name") {
			// the cli has one package for the commands of all operations: homonymous operations of different tags are refused there
			// (an error, not code with one command overwritten); server, client and models must still be generated and built
			_ = os.RemoveAll(filepath.Join(dir, "cli"))
			_ = os.RemoveAll(filepath.Join(dir, "cmd", "cli"))
			res.CliRefused = true
			continue
		}
		if r.Exit != 0 {
			res.GenExit = r.Exit
			res.GenOut = tgt + ": " + tailS(r.Output)
			return res
		}
	}
	b := exec.Command("go", "build", "./...")
	b.Dir = dir
	b.Env = append(os.Environ(), "GOFLAGS=-mod=mod", "GOPROXY=off", "GOSUMDB=off", "GOTOOLCHAIN=local")
	bo, err := b.CombinedOutput()
	res.BuildOK = err == nil
	res.BuildOut = tailS(string(bo))
	// representation (C08), from the tree as the go tool sees it
	apiFiles, _ := filepath.Glob(filepath.Join(dir, "restapi", "operations", "*_api.go"))
	registered := map[string]bool{}
	for _, f := range apiFiles {
		src, _ := os.ReadFile(f)
		for _, m := range reHandler.FindAllStringSubmatch(string(src), -1) {
			pth := m[2]
			if u, err := strconv.Unquote(`"` + pth + `"`); err == nil {
				pth = u
			}
			registered[m[1]+" "+pth] = true
			res.Handlers++
		}
	}
	for _, o := range j.Spec.ops() {
		p := o[1]
		if p == "/" {
			p = ""
		}
		if !registered[o[0]+" "+p] {
			res.MissingOps = append(res.MissingOps, o[0]+" "+o[1])
		}
	}
	// model types of the models package as built
	types := builtTypes(filepath.Join(dir, "models"))
	byType := map[string]string{}
	for _, dn := range j.Spec.defs() {
		tn := pascalize(dn)
		if prev, dup := byType[tn]; dup {
			res.MergedDefs = append(res.MergedDefs, [2]string{prev, dn})
			continue
		}
		byType[tn] = dn
		if !types[tn] {
			res.MissingDef = append(res.MissingDef, dn)
		}
	}
	// client methods
	cfiles, _ := filepath.Glob(filepath.Join(dir, "client", "*", "*_client.go"))
	for _, f := range cfiles {
		res.ClientOps += clientMethods(f)
	}
	return res
}

// builtTypes: type names declared in the files `go list` selects for a normal build of the package.
func builtTypes(pkgDir string) map[string]bool {
	out := map[string]bool{}
	c := exec.Command("go", "list", "-json", ".")
	c.Dir = pkgDir
	c.Env = append(os.Environ(), "GOFLAGS=-mod=mod", "GOPROXY=off", "GOSUMDB=off", "GOTOOLCHAIN=local")
	b, err := c.Output()
	if err != nil {
		return out
	}
	var info struct{ GoFiles []string }
	if json.Unmarshal(b, &info) != nil {
		return out
	}
	fset := token.NewFileSet()
	for _, f := range info.GoFiles {
		af, err := parser.ParseFile(fset, filepath.Join(pkgDir, f), nil, parser.SkipObjectResolution)
		if err != nil {
			continue
		}
		for _, d := range af.Decls {
			if gd, ok := d.(*ast.GenDecl); ok && gd.Tok == token.TYPE {
				for _, s := range gd.Specs {
					out[s.(*ast.TypeSpec).Name.Name] = true
				}
			}
		}
	}
	return out
}

func clientMethods(file string) int {
	fset := token.NewFileSet()
	af, err := parser.ParseFile(fset, file, nil, parser.SkipObjectResolution)
	if err != nil {
		return 0
	}
	n := 0
	for _, d := range af.Decls {
		if gd, ok := d.(*ast.GenDecl); ok && gd.Tok == token.TYPE {
			for _, s := range gd.Specs {
				ts := s.(*ast.TypeSpec)
				if it, ok := ts.Type.(*ast.InterfaceType); ok && ts.Name.Name == "ClientService" {
					for _, m := range it.Methods.List {
						for _, nm := range m.Names {
							if nm.Name != "SetTransport" {
								n++
							}
						}
					}
				}
			}
		}
	}
	return n
}

// causeOf: why a (slot kind, name) pair is outside what the generator handles — the identity of a finding.
func causeOf(kind, name string) string {
	p := pascalize(name)
	for _, c := range p {
		if !(unicode.IsLetter(c) || unicode.IsDigit(c) || c == '_') {
			switch {
			case unicode.Is(unicode.M, c):
				return "mangled-name-keeps-mark"
			case unicode.Is(unicode.N, c):
				return "mangled-name-keeps-other-number"
			case unicode.Is(unicode.Pc, c):
				return "mangled-name-keeps-connector-punctuation"
			}
			return "mangled-name-keeps-non-identifier-rune"
		}
	}
	if strings.HasPrefix(kind, "param-") && !utf8.ValidString(varname(name)) {
		return "param-var-name-cuts-utf8"
	}
	if first, _ := utf8.DecodeRuneInString(p); !unicode.IsUpper(first) {
		return kind + ":mangled-name-not-exported"
	}
	if strings.ContainsAny(name, "\\\"`") {
		return kind + ":contains-backslash-or-quote"
	}
	if first, _ := utf8.DecodeRuneInString(name); kind == "definition" && unicode.IsDigit(first) {
		return "definition:digit-first"
	}
	if kind == "tag" {
		for _, c := range name {
			if c >= 128 {
				return "tag:package-path-non-ascii"
			}
		}
	}
	return kind + ":" + strings.ToLower(p)
}

func causeList(key string) []string {
	i, j := strings.Index(key, "["), strings.LastIndex(key, "]")
	if i < 0 || j < i {
		return nil
	}
	return strings.Split(key[i+1:j], ",")
}

type knownEntry struct {
	Property string `json:"property"`
	Status   string `json:"status"`
	Key      string `json:"key"`
	Example  *struct {
		Slot string `json:"slot"`
		Name string `json:"name"`
	} `json:"example"`
}

func main() {
	fs := flag.NewFlagSet("namecheck", flag.ExitOnError)
	bin := fs.String("bin", "", "")
	work := fs.String("work", "", "")
	out := fs.String("out", "", "")
	seed := fs.Uint64("seed", 1, "")
	nnames := fs.Int("names", 1500, "")
	nops := fs.Int("opsets", 150, "")
	nspecs := fs.Int("specs", 4, "")
	allModes := fs.Bool("allmodes", false, "")
	knownPath := fs.String("known", "", "")
	workers := fs.Int("workers", 4, "")
	sweep := fs.Bool("sweep", false, "one single-name spec per (slot kind, representative name)")
	knownRuns := fs.Int("knownruns", 0, "how many listed findings to re-run (0 = all)")
	nreg := fs.Int("regress", 13, "how many single-name regression specs (names the generator handles specially)")
	_ = fs.Parse(os.Args[1:])
	if *bin == "" || *work == "" || *out == "" {
		die("-bin, -work, -out required")
	}
	_ = os.MkdirAll(*out, 0o755)
	_ = os.MkdirAll(*work, 0o755)
	fm := generator.FuncMapFunc(generator.DefaultLanguageFunc())
	pascalize = fm["pascalize"].(func(string) string)
	varname = fm["varname"].(func(string) string)
	snakize = fm["snakize"].(func(string) string)
	r := rng.New(*seed)
	cov := map[string]int{}

	// ---- A ----
	var coq []string
	seen := map[string]bool{}
	addName := func(x string) {
		if x == "" || seen[x] {
			return
		}
		seen[x] = true
		cov["nameclass:"+nameClass(x)]++
		coq = append(coq, nameCase(x))
	}
	for _, pool := range [][]string{asciiWords, initialismTokens, goKeywords, goPredeclared, generatorNames, replacePunct, otherPunct, digitsTok, nonASCII} {
		for _, x := range pool {
			addName(x)
		}
	}
	for _, x := range []string{"+", "-", "#", "_", "*", "/", "=", "+1", "-x", "#tag", "_x", "*p", "/p", "=v", "a+b", " x", "x ", "  ", "a  b", "At", "at", "@", "a@b", "$ref", "x-go-name", "X-Rate-Limit", "findPetsByStatus", "HTTPSIsBetter", "HTTPServerIDs", "IPv6Address", "myIPv4", "Ids", "aID", "IDa", "userIDx", "xHTTP y", "IP", "ip", "Ip", "iP"} {
		addName(x)
	}
	for len(coq) < *nnames {
		addName(randomName(r))
	}
	nameCases := len(coq)
	ties := 0
	for i := 0; i < *nops; i++ {
		c, tie := opsCase(r)
		if tie {
			ties++
		}
		coq = append(coq, c)
	}
	// renameTimeout through paramMappings
	tmoPool := []string{"timeout", "Timeout", "TIMEOUT", "time-out", "time_out", "requestTimeout", "request-timeout", "RequestTimeout", "httpRequestTimeout", "http_request_timeout", "swaggerTimeout", "operationTimeout", "opTimeout", "operTimeout", "operTimeout1", "oper-timeout-1", "operTimeout11", "timeout1", "limit", "x", "id", "Context", "HTTPClient", "time out", "t\u00efmeout"}
	ntmo := *nops
	for i := 0; i < ntmo; i++ {
		k := 1 + r.Intn(6)
		params := map[string]spec.Parameter{}
		var names []string
		used := map[string]bool{}
		for len(names) < k {
			nm := r.Pick(tmoPool)
			if i%4 == 3 {
				nm = randomName(r)
			}
			if nm == "" || used[nm] {
				continue
			}
			used[nm] = true
			names = append(names, nm)
			params[fmt.Sprintf("p%d", len(names))] = *spec.QueryParam(nm)
		}
		_, tmo := generator.VerifParamMappings(params)
		var ns []string
		inputs := []string{tmo}
		for _, nm := range names {
			ns = append(ns, runesCoq(nm))
			inputs = append(inputs, nm, swag.ToGoName(nm), strings.ToLower(swag.ToGoName(nm)))
		}
		coq = append(coq, fmt.Sprintf("CT {| t_tbl := %s; t_params := [%s]; t_timeout := %s |}", uniTable(inputs...), strings.Join(ns, "; "), runesCoq(tmo)))
	}
	cov["timeout-cases"] = ntmo
	cov["opsets"] = *nops
	cov["opsets-with-key-ties"] = ties
	cd := filepath.Join(*out, "coq-names")
	_ = os.RemoveAll(cd)
	_ = os.MkdirAll(cd, 0o755)
	shards := 8
	for sh := 0; sh < shards; sh++ {
		var part []string
		for i, c := range coq {
			if i%shards == sh {
				part = append(part, c)
			}
		}
		text := "From GS Require Import Base.Str Tools.Names Tools.NamesRun.\nDefinition cases : list anycase := [\n" + strings.Join(part, ";\n") +
			"\n].\nDefinition M := Eval vm_compute in run_cases cases.\nPrint M.\n"
		_ = os.WriteFile(filepath.Join(cd, fmt.Sprintf("cases_%02d.v", sh)), []byte(text), 0o644)
	}

	// ---- B, C ----
	knownCombos := map[string]bool{}
	var known []knownEntry
	if *knownPath != "" {
		if b, err := os.ReadFile(*knownPath); err == nil {
			for _, ln := range strings.Split(string(b), "\n") {
				var k knownEntry
				if strings.TrimSpace(ln) != "" && json.Unmarshal([]byte(ln), &k) == nil && k.Status == "known" && (k.Property == "C01" || k.Property == "C08") && k.Example != nil {
					known = append(known, k)
					for _, c := range causeList(k.Key) {
						knownCombos[c] = true
					}
				}
			}
		}
	}
	hostilePool := append([]string{}, goKeywords...)
	hostilePool = append(hostilePool, goPredeclared...)
	hostilePool = append(hostilePool, generatorNames...)
	hostilePool = append(hostilePool, initialismTokens...)
	for _, x := range nonASCII {
		hostilePool = append(hostilePool, x, "a"+x, x+"b")
	}
	for i := 0; i < 200; i++ {
		hostilePool = append(hostilePool, randomName(r))
	}
	distinctIn := func(sp *nspec, id, name string) bool {
		ns := namespace[id]
		pn := strings.ToLower(pascalize(name))
		fn := strings.ToLower(snakize(pascalize(name)))
		for _, other := range slotOrder {
			if other == id || namespace[other] != ns {
				continue
			}
			on := sp.n(other)
			if on == name || strings.ToLower(pascalize(on)) == pn || strings.ToLower(snakize(pascalize(on))) == fn || strings.EqualFold(varname(on), varname(name)) {
				return false
			}
		}
		if ns == "defs" && (pn == "veriferror" || pn == "principal") {
			return false
		}
		return true
	}
	var jobs []*job
	modes := [][]string{{}, {"--with-flatten=full"}, {"--with-expand"}, {"--skip-tag-packages"}, {"--strict-responders"}, {"--struct-tags=json", "--struct-tags=yaml"}}
	mkNames := func(k int) *job {
		sp := newSpec()
		var hostile []string
		order := append([]string{}, slotOrder...)
		for i := len(order) - 1; i > 0; i-- {
			jx := r.Intn(i + 1)
			order[i], order[jx] = order[jx], order[i]
		}
		for _, id := range order {
			if len(hostile) >= k {
				break
			}
			for try := 0; try < 30; try++ {
				nm := r.Pick(hostilePool)
				kind := slotKind[id]
				if !allowedIn(kind, nm) || knownCombos[causeOf(kind, nm)] || !distinctIn(sp, id, nm) {
					continue
				}
				sp.Slots[id].Name = nm
				hostile = append(hostile, id)
				break
			}
		}
		sort.Strings(hostile)
		return &job{Spec: sp, Hostile: hostile, Kind: "names"}
	}
	for i := 0; i < *nspecs; i++ {
		j := mkNames(6 + r.Intn(6))
		if *allModes {
			j.Flags = modes[i%len(modes)]
		} else if i%3 == 1 {
			j.Flags = modes[1+(i/3)%(len(modes)-1)]
		}
		j.Mode = strings.Join(j.Flags, " ")
		jobs = append(jobs, j)
	}
	if *sweep {
		reps := []string{"type", "string", "nil", "error", "len", "init", "main", "Timeout", "context", "HTTPRequest", "params", "o", "r", "err", "res", "result", "data", "values", "body", "payload", "validate", "principal", "rw", "response", "request", "swag", "strfmt", "errors", "models", "runtime", "client", "fmt", "json", "handler", "api", "server", "test", "x_test", "linux", "vendor", "internal",
			"1st", "a b", "a.b", "a-b", "a@b", "$ref", "+plus", "id", "URL", "\u00e9a", "\u00c9a", "a\u00e9", "\u65e5\u672c\u8a9e", "a\u65e5", "\u01c5x", "a\u0301b", "\u0301x", "x\u00b2", "\u2167x", "a\u203fb", "x\u0663", "\u0663x", "a\u00a0b", "a\U0001F600", "\u20acuro", "\u00dfx", "\u0131x", "\u212ax"}
		if only := os.Getenv("NAMECHECK_SWEEP_NAMES"); only != "" {
			reps = strings.Split(only, "\x1f")
		}
		seenKind := map[string]bool{}
		for _, id := range slotOrder {
			if seenKind[slotKind[id]] {
				continue
			}
			seenKind[slotKind[id]] = true
			for _, nm := range reps {
				sp := newSpec()
				if !allowedIn(slotKind[id], nm) || !distinctIn(sp, id, nm) {
					continue
				}
				sp.Slots[id].Name = nm
				jobs = append(jobs, &job{Spec: sp, Hostile: []string{id}, Kind: "names"})
			}
		}
	}
	// names the generator has dedicated code for (renameTimeout, reserved words, go-build suffixes, initialisms): one per spec
	{
		type rg struct{ slot, name string }
		var regs []rg
		for _, slot := range []string{"pq", "ph", "pp", "pb", "pf"} {
			for _, nm := range []string{"Timeout", "timeout", "TIMEOUT", "requestTimeout", "time-out"} {
				regs = append(regs, rg{slot, nm})
			}
		}
		for _, nm := range []string{"type", "func", "default", "range", "string", "error", "int", "lab_test", "node_js", "linux", "amd64", "x-windows", "vendor", "internal", "id", "URL", "HTTPServer", "1st", "$ref", "+1", "a b", "a.b", "v1", "V3", "v10", "x_riscv", "x_hurd", "x_wasm", "x_ppc"} {
			for _, slot := range []string{"def0", "prop0", "pq", "op0", "enum0", "tag0", "sec", "rh", "ph", "pb"} {
				regs = append(regs, rg{slot, nm})
			}
		}
		for i := len(regs) - 1; i > 0; i-- {
			jx := r.Intn(i + 1)
			regs[i], regs[jx] = regs[jx], regs[i]
		}
		// the first two are fixed: a capitalised timeout parameter and a definition ending in a go-build suffix
		// ... and a tag shaped like a major-version suffix with a capital V (its package must not be called v2), an operation id and a
		// definition ending in words go build knows but no current port uses
		// ... and definitions that are referred to ($ref) under names a URL fragment has to escape: a blank, a non-ASCII letter
		regs = append([]rg{{"pq", "Timeout"}, {"def0", "lab_test"}, {"tag0", "V2"}, {"op0", "rebootZos"}, {"def0", "host_sparc"}, {"def0", "order line"}, {"def2", "caf\u00e9 au lait"}}, regs...)
		cnt := 0
		for _, g := range regs {
			if cnt >= *nreg {
				break
			}
			sp := newSpec()
			kind := slotKind[g.slot]
			if !allowedIn(kind, g.name) || knownCombos[causeOf(kind, g.name)] || !distinctIn(sp, g.slot, g.name) {
				continue
			}
			sp.Slots[g.slot].Name = g.name
			jobs = append(jobs, &job{Spec: sp, Hostile: []string{g.slot}, Kind: "names"})
			cnt++
		}
	}
	// definitions nothing refers to whose file name would end in a go-build suffix: they must still be part of the built package
	{
		sp := newSpec()
		sp.ExtraDefs = []string{"lab_test", "node_js", "x-windows", "DeviceIos", "robotArm", "cpu amd64"}
		// every word go/build knows as an operating system or an architecture (go/build/syslist.go: past, present and future ports),
		// as the last word of a definition name
		for i, w := range goBuildWords {
			sp.ExtraDefs = append(sp.ExtraDefs, fmt.Sprintf("part%d_%s", i, w))
		}
		jobs = append(jobs, &job{Spec: sp, Kind: "names"})
	}
	// operations of different tags whose ids give the same Go name (legal: each lives in the package of its tag), each with
	// anonymous body and response schemas (rendered as types next to the operation), under the pre-processing modes
	for _, fl := range [][]string{{}, {"--with-expand"}, {"--with-flatten=full"}} {
		sp := newSpec()
		sp.ExtraTagged = [][4]string{{"POST", "/orders/search", "search-items", "orders"}, {"POST", "/products/search", "search_items", "products"},
			{"POST", "/orders/find", "findThings", "orders"}, {"PUT", "/stock/find", "FindThings", "stock"}}
		jobs = append(jobs, &job{Spec: sp, Kind: "names", Flags: fl, Mode: strings.Join(fl, " "), CliClash: true})
	}
	// dedicated single-name specs for the listed findings
	if *knownRuns > 0 && len(known) > *knownRuns {
		off := r.Intn(len(known))
		sel := make([]knownEntry, 0, *knownRuns)
		for i := 0; i < *knownRuns; i++ {
			sel = append(sel, known[(off+i*7)%len(known)])
		}
		known = sel
	}
	for _, k := range known {
		if strings.HasPrefix(k.Key, "c01/") || strings.HasPrefix(k.Key, "c08/name") {
			sp := newSpec()
			sp.Slots[k.Example.Slot].Name = k.Example.Name
			jobs = append(jobs, &job{Spec: sp, Hostile: []string{k.Example.Slot}, Kind: "known", Known: k.Key})
		}
	}
	// collision experiments
	type coll struct{ kind, a, b, class string }
	colls := []coll{
		{"definition", "a-b", "a_b", "punctuation-variant"}, {"definition", "foo bar", "fooBar", "space-vs-camel"}, {"definition", "http_server", "HTTPServer", "initialism-case"},
		{"definition", "thing", "Thing", "case-only"}, {"definition", "lab_test", "LabTest", "build-suffix-variant"},
		{"property", "a-b", "a_b", "punctuation-variant"}, {"property", "thing", "Thing", "case-only"}, {"property", "user id", "userId", "space-vs-camel"},
		{"path-no-id", "/a-b", "/a_b", "punctuation-variant"}, {"path-no-id", "/a/b", "/a-b", "slash-vs-punctuation"}, {"path-no-id", "/stuff/{id}", "/stuff/id", "parameter-vs-literal"},
		{"operation-id", "get-thing", "get_thing", "punctuation-variant"}, {"operation-id", "getThing", "GetThing", "case-only"},
		{"param-query", "x-id", "x_id", "punctuation-variant"}, {"param-query", "order", "Order", "case-only"},
		{"tag", "pet store", "pet-store", "punctuation-variant"},
		// a definition renamed with x-go-name onto the go name of another one
		{"definition-x-go-name", "widget", "legacy_widget=Widget", "x-go-name-onto-another-definition"},
		{"definition-x-go-name", "first_thing=Gadgetry", "second_thing=Gadgetry", "same-x-go-name-twice"},
	}
	for _, c := range colls {
		sp := newSpec()
		switch c.kind {
		case "definition":
			sp.ExtraDefs = []string{c.a, c.b}
		case "definition-x-go-name":
			sp.GoNames = map[string]string{}
			for _, x := range []string{c.a, c.b} {
				nm := x
				if i := strings.Index(x, "="); i >= 0 {
					nm = x[:i]
					sp.GoNames[nm] = x[i+1:]
				}
				sp.ExtraDefs = append(sp.ExtraDefs, nm)
			}
		case "property":
			sp.ExtraProps = []string{c.a, c.b}
		case "path-no-id":
			sp.ExtraOps = [][3]string{{"GET", c.a, ""}, {"GET", c.b, ""}}
		case "operation-id":
			sp.ExtraOps = [][3]string{{"GET", "/one", c.a}, {"GET", "/two", c.b}}
		case "param-query":
			sp.ExtraQuery = []string{c.a, c.b}
		case "tag":
			sp.Slots["tag0"].Name, sp.Slots["tag1"].Name = c.a, c.b
		}
		jobs = append(jobs, &job{Spec: sp, Kind: "collision", Pair: [3]string{c.kind, c.a + " | " + c.b, c.class}})
	}
	for i, j := range jobs {
		j.ID = i
	}
	results := make([]*jobResult, len(jobs))
	var wg sync.WaitGroup
	ch := make(chan int)
	for w := 0; w < *workers; w++ {
		wg.Add(1)
		go func() {
			defer wg.Done()
			for i := range ch {
				results[i] = runJob(*bin, *work, jobs[i])
			}
		}()
	}
	for i := range jobs {
		ch <- i
	}
	close(ch)
	wg.Wait()

	viols := map[string][]violation{"C01": {}, "C08": {}}
	var samples []interface{}
	evals := 0
	builds := 0
	nextID := len(jobs)
	// attribution: which hostile names alone make the run fail in the same way
	attribute := func(j *job, fails func(*jobResult) bool) []string {
		if len(j.Hostile) <= 1 {
			return j.Hostile
		}
		var single []string
		for _, h := range j.Hostile {
			sp := newSpec()
			sp.Slots[h].Name = j.Spec.n(h)
			nj := &job{ID: nextID, Spec: sp, Hostile: []string{h}, Flags: j.Flags}
			nextID++
			builds++
			if fails(runJob(*bin, *work, nj)) {
				single = append(single, h)
			}
		}
		if len(single) == 0 {
			return j.Hostile
		}
		return single
	}
	for i, j := range jobs {
		res := results[i]
		doc := j.Spec.JSON()
		in := map[string]interface{}{"spec": doc, "flags": j.Flags, "hostile": func() map[string]string {
			m := map[string]string{}
			for _, h := range j.Hostile {
				m[h] = j.Spec.n(h)
			}
			return m
		}()}
		if !res.Valid {
			cov["spec-rejected-by-reference-validator:"+j.Kind]++
			if j.Kind != "collision" {
				// a naming spec the reference validator rejects is a harness fault, not a verdict
				cov["note:"+tailS(res.ValidMsg)]++
			}
			continue
		}
		evals++
		builds++
		cov["job:"+j.Kind]++
		if j.Mode != "" {
			cov["mode:"+j.Mode]++
		}
		for _, h := range j.Hostile {
			cov["slot:"+slotKind[h]]++
			cov["slotclass:"+slotKind[h]+":"+nameClass(j.Spec.n(h))]++
		}
		if len(samples) < 3 {
			samples = append(samples, map[string]interface{}{"hostile": in["hostile"], "flags": j.Flags, "generate_exit": res.GenExit, "build_ok": res.BuildOK, "handlers": res.Handlers, "client_methods": res.ClientOps})
		}
		keyOf := func(prefix string, hs []string) string {
			var parts []string
			for _, h := range hs {
				parts = append(parts, causeOf(slotKind[h], j.Spec.n(h)))
			}
			sort.Strings(parts)
			return prefix + "[" + strings.Join(parts, ",") + "]"
		}
		switch j.Kind {
		case "names", "known":
			if res.GenExit != 0 {
				hs := attribute(j, func(r *jobResult) bool { return r.Valid && r.GenExit != 0 })
				in["attributed_to"] = hs
				viols["C01"] = append(viols["C01"], violation{keyOf("c01/generation-fails", hs), "swagger generate fails on a valid document whose only unusual feature is a name", in, res.GenOut})
				continue
			}
			if !res.BuildOK {
				hs := attribute(j, func(r *jobResult) bool { return r.Valid && r.GenExit == 0 && !r.BuildOK })
				in["attributed_to"] = hs
				viols["C01"] = append(viols["C01"], violation{keyOf("c01/build-fails", hs), "swagger generate exits 0 and leaves Go packages that do not compile", in, res.BuildOut})
			}
			if len(res.MissingOps) > 0 || len(res.MissingDef) > 0 || len(res.MergedDefs) > 0 {
				viols["C08"] = append(viols["C08"], violation{keyOf("c08/name-not-represented", j.Hostile), "an operation or definition of the document has no handler registration / model type in the generated code",
					in, map[string]interface{}{"missing_operations": res.MissingOps, "missing_definitions": res.MissingDef, "merged_definitions": res.MergedDefs}})
			}
			if res.Handlers != len(j.Spec.ops()) || res.ClientOps != len(j.Spec.ops()) {
				viols["C08"] = append(viols["C08"], violation{keyOf("c08/operation-count", j.Hostile), "the number of registered handlers or client methods differs from the number of operations",
					in, map[string]interface{}{"operations": len(j.Spec.ops()), "handlers": res.Handlers, "client_methods": res.ClientOps}})
			}
		case "collision":
			cov["collision:"+j.Pair[0]+":"+j.Pair[2]]++
			in["pair"] = j.Pair
			tag := j.Pair[0] + ":" + j.Pair[2]
			if res.GenExit != 0 {
				if strings.Contains(res.GenOut, "both rendered") || strings.Contains(res.GenOut, "same name as another operation") {
					cov["collision-outcome:generation-error"]++
				} else {
					cov["collision-outcome:unrelated-generation-error"]++
					viols["C01"] = append(viols["C01"], violation{"c01/generation-fails[collision:" + tag + "]", "generation fails on a collision experiment for a reason other than the collision", in, res.GenOut})
				}
				continue
			}
			if !res.BuildOK {
				viols["C01"] = append(viols["C01"], violation{"c01/build-fails[collision:" + tag + "]", "two names of the document collide after mangling; swagger generate exits 0 and leaves code that does not compile", in, res.BuildOut})
				cov["collision-outcome:build-failure"]++
				continue
			}
			bad := false
			if len(res.MissingOps) > 0 || res.Handlers != len(j.Spec.ops()) || res.ClientOps != len(j.Spec.ops()) {
				bad = true
				viols["C08"] = append(viols["C08"], violation{"c08/operations-merged[" + tag + "]", "two operations collide after mangling: generation succeeds, the code builds and one of them has no handler / client method of its own",
					in, map[string]interface{}{"missing_operations": res.MissingOps, "operations": len(j.Spec.ops()), "handlers": res.Handlers, "client_methods": res.ClientOps}})
			}
			if len(res.MissingDef) > 0 || len(res.MergedDefs) > 0 {
				bad = true
				viols["C08"] = append(viols["C08"], violation{"c08/definitions-merged[" + tag + "]", "two definitions collide after mangling: generation succeeds, the code builds and they share one model type / file",
					in, map[string]interface{}{"missing_definitions": res.MissingDef, "merged_definitions": res.MergedDefs}})
			}
			if bad {
				cov["collision-outcome:silently-merged"]++
			} else {
				cov["collision-outcome:both-represented"]++
			}
		}
	}
	// plan verdicts for the model
	planCases := 0
	var pc []string
	for i, j := range jobs {
		res := results[i]
		if !res.Valid {
			continue
		}
		collisionErr := strings.Contains(res.GenOut, "both rendered") || strings.Contains(res.GenOut, "same name as another operation")
		if res.GenExit != 0 && !collisionErr {
			continue
		}
		var osp, inputs []string
		for _, o := range j.Spec.opsWithIDs() {
			osp = append(osp, fmt.Sprintf("{| o_method := %s; o_path := %s; o_id := %s |}", runesCoq(o[0]), runesCoq(o[1]), runesCoq(o[2])))
			inputs = append(inputs, o[0], o[1], o[2])
		}
		var ds, ps []string
		for _, d := range j.Spec.defs() {
			if gn, ok := j.Spec.GoNames[d]; ok {
				d = gn // the naming plan starts from x-go-name where a definition carries one
			}
			ds = append(ds, runesCoq(d))
			inputs = append(inputs, d, pascalize(d), snakize(pascalize(d)))
		}
		for _, q := range j.Spec.props0() {
			ps = append(ps, runesCoq(q))
			inputs = append(inputs, q, pascalize(q))
		}
		for _, o := range j.Spec.opsWithIDs() {
			inputs = append(inputs, opKeyOf(o[0], o[1]), pascalize(o[2]))
		}
		// the package of each operation (one per tag; every operation in one package under --skip-tag-packages); the verdict of the
		// cli is taken apart: it compares go names across packages
		var pk []string
		skipTags := false
		for _, f := range j.Flags {
			skipTags = skipTags || f == "--skip-tag-packages"
		}
		if !skipTags {
			for _, o := range j.Spec.opPackages() {
				pk = append(pk, fmt.Sprintf("((%s, %s), %s)", runesCoq(o[0]), runesCoq(o[1]), runesCoq(o[2])))
			}
		}
		okPkg := res.GenExit == 0 || strings.HasPrefix(res.GenOut, "cli:")
		okCli := res.GenExit == 0 && !res.CliRefused
		pc = append(pc, fmt.Sprintf("CP {| p_tbl := %s; p_ops := [%s]; p_defs := [%s]; p_props := [%s]; p_ok := %s; p_pkgs := [%s]; p_cli_ok := %s |}", uniTable(inputs...), strings.Join(osp, "; "), strings.Join(ds, "; "), strings.Join(ps, "; "), b2(okPkg), strings.Join(pk, "; "), b2(okCli)))
		planCases++
	}
	if len(pc) > 0 {
		text := "From GS Require Import Base.Str Tools.Names Tools.NamesRun.\nDefinition cases : list anycase := [\n" + strings.Join(pc, ";\n") +
			"\n].\nDefinition M := Eval vm_compute in run_cases cases.\nPrint M.\n"
		_ = os.WriteFile(filepath.Join(cd, "cases_plan.v"), []byte(text), 0o644)
	}
	cov["plan-cases"] = planCases
	for _, prop := range []string{"C01", "C08"} {
		vs := viols[prop]
		sort.Slice(vs, func(i, j int) bool { return vs[i].Key < vs[j].Key })
		rep := map[string]interface{}{
			"evaluations": evals, "distinct_nontrivial": evals,
			"rule":    "a fixed API (3 operations, 4 definitions, every parameter location, enum, response header, security scheme, 2 tags) whose 25 spec-provided names are slots; each spec puts 6-11 names drawn from Go keywords, predeclared identifiers, names the generator itself declares, initialisms in every case, non-ASCII text of every general category and random compositions into random slots (kept pairwise distinct after mangling and valid for the slot), is validated by go-openapi/validate, then generate server+client+cli+model (flatten/expand/skip-tag-packages/strict-responders/struct-tags variants) and go build ./...; failures are attributed to single names by re-running with one hostile name. 16 collision experiments (definitions, properties, id-less paths, operation ids, query parameters, tags that collide after mangling): outcome must be a generation error or distinct representation. Representation: handler registrations in the API builder, ClientService methods, model types of the models package as go list builds it.",
			"samples": samples, "coverage": cov, "violations": vs, "builds": builds, "model_cases": len(coq) + planCases, "name_cases": nameCases,
		}
		b, _ := json.MarshalIndent(rep, "", " ")
		_ = os.WriteFile(filepath.Join(*out, strings.ToLower(prop)+"n.json"), b, 0o644)
	}
	fmt.Printf("namecheck: %d name cases, %d op sets (%d with ties), %d generation jobs, C01 %d violations, C08 %d violations\n", nameCases, *nops, ties, evals, len(viols["C01"]), len(viols["C08"]))
}

// goBuildWords: knownOS and knownArch of go/build (syslist.go)
var goBuildWords = []string{"aix", "android", "darwin", "dragonfly", "freebsd", "hurd", "illumos", "ios", "js", "linux", "nacl", "netbsd", "openbsd", "plan9", "solaris", "wasip1", "windows", "zos",
	"386", "amd64", "amd64p32", "arm", "armbe", "arm64", "arm64be", "loong64", "mips", "mipsle", "mips64", "mips64le", "mips64p32", "mips64p32le", "ppc", "ppc64", "ppc64le", "riscv", "riscv64", "s390", "s390x", "sparc", "sparc64", "wasm"}

package main

import (
	"sort"
	"strings"
)

// A naming spec: a fixed small API whose every spec-provided name is a slot.
type slot struct {
	Kind string // definition, property, enum-value, operation-id, tag, param-query, param-header, param-path, param-body, param-formData, response-header, security-scheme
	Name string
}

type nspec struct {
	Slots map[string]*slot // slot id -> name
	// collision experiments (C08): extra members
	ExtraDefs  []string    // additional definitions (object with one property)
	GoNames    map[string]string // definition name -> x-go-name
	ExtraProps []string    // additional properties of def0
	ExtraOps   [][3]string // additional operations: method, path, operationId ("" = none)
	ExtraQuery []string    // additional query parameters of op0
	// additional operations in a tag of their own, with an inline (anonymous) body schema and inline response schemas:
	// method, path, operationId, tag
	ExtraTagged [][4]string
	NoIDs      bool        // base operations without operationId
}

var slotOrder = []string{"def0", "def1", "def2", "prop0", "prop1", "prop2", "prop3", "prop4", "enum0", "enum1", "enum2", "enum3",
	"op0", "op1", "op2", "tag0", "tag1", "pq", "pq2", "ph", "pp", "pb", "pf", "rh", "sec"}

var slotKind = map[string]string{"def0": "definition", "def1": "definition", "def2": "definition",
	"prop0": "property", "prop1": "property", "prop2": "property", "prop3": "property", "prop4": "property",
	"enum0": "enum-value", "enum1": "enum-value", "enum2": "enum-value", "enum3": "enum-value",
	"op0": "operation-id", "op1": "operation-id", "op2": "operation-id", "tag0": "tag", "tag1": "tag",
	"pq": "param-query", "pq2": "param-query", "ph": "param-header", "pp": "param-path", "pb": "param-body", "pf": "param-formData",
	"rh": "response-header", "sec": "security-scheme"}

var benign = map[string]string{"def0": "Gadget", "def1": "Widget", "def2": "Colour", "prop0": "alpha", "prop1": "beta", "prop2": "gamma", "prop3": "delta", "prop4": "epsilon",
	"enum0": "red", "enum1": "green", "enum2": "asc", "enum3": "desc", "op0": "listGadgets", "op1": "createGadget", "op2": "uploadWidget", "tag0": "gadgets", "tag1": "widgets",
	"pq": "sort", "pq2": "limit", "ph": "X-Trace", "pp": "gadgetKey", "pb": "gadget", "pf": "label", "rh": "X-Total", "sec": "keyAuth"}

// namespace: slots whose names must stay distinct (as strings and after mangling)
var namespace = map[string]string{"def0": "defs", "def1": "defs", "def2": "defs", "prop0": "props0", "prop1": "props0", "prop2": "props0", "prop3": "props0", "prop4": "props1",
	"enum0": "enumA", "enum1": "enumA", "enum2": "enumB", "enum3": "enumB", "op0": "ops", "op1": "ops", "op2": "ops", "tag0": "tags", "tag1": "tags",
	"pq": "params0", "pq2": "params0", "ph": "params0", "pp": "params0", "pb": "params1", "pf": "params2", "rh": "rh", "sec": "sec"}

func newSpec() *nspec {
	sp := &nspec{Slots: map[string]*slot{}}
	for _, id := range slotOrder {
		sp.Slots[id] = &slot{Kind: slotKind[id], Name: benign[id]}
	}
	return sp
}

// allowedIn: can this text be used in this kind of slot while the document stays a valid Swagger 2.0 spec?
func allowedIn(kind, name string) bool {
	if !hasLetter(name) || strings.TrimSpace(name) != name && kind != "enum-value" {
		return false
	}
	for _, c := range name {
		if c < 0x20 || c == 0x7f || c == 0x85 || c == '%' {
			return false
		}
	}
	switch kind {
	case "param-path":
		return !strings.ContainsAny(name, "/{}?#%\\ ")
	case "definition":
		return !strings.ContainsAny(name, "/~%#\\\"")
	case "param-header", "response-header":
		for _, c := range name {
			if c > 0x7e || strings.ContainsRune(" \t()<>@,;:\\\"/[]?={}", c) {
				return false
			}
		}
	case "tag":
		return !strings.ContainsAny(name, "/\\")
	}
	return true
}

func (sp *nspec) n(id string) string { return sp.Slots[id].Name }

type M = map[string]interface{}

func ref(def string) M { return M{"$ref": "#/definitions/" + def} }

func (sp *nspec) JSON() M {
	n := sp.n
	errSchema := M{"type": "object", "required": []string{"message"}, "properties": M{"message": M{"type": "string"}, "code": M{"type": "integer", "format": "int32"}}}
	props0 := M{
		n("prop0"): M{"type": "string", "minLength": 1},
		n("prop1"): M{"type": "integer", "format": "int64", "minimum": 0},
		n("prop2"): ref(n("def1")),
		n("prop3"): M{"type": "string", "enum": []string{n("enum2"), n("enum3")}},
	}
	for _, p := range sp.ExtraProps {
		props0[p] = M{"type": "string"}
	}
	defs := M{
		"VerifError": errSchema,
		n("def0"):    M{"type": "object", "required": []string{n("prop0")}, "properties": props0},
		n("def1"):    M{"type": "object", "properties": M{n("prop4"): M{"type": "array", "items": ref(n("def2"))}}},
		n("def2"):    M{"type": "string", "enum": []string{n("enum0"), n("enum1")}},
	}
	for i, d := range sp.ExtraDefs {
		defs[d] = M{"type": "object", "properties": M{"extra" + string(rune('a'+i)): M{"type": "string"}}}
		if gn, ok := sp.GoNames[d]; ok {
			defs[d].(M)["x-go-name"] = gn
		}
	}
	for k, v := range kindDefs {
		defs[k] = v
	}
	id := func(slot string) M {
		if sp.NoIDs {
			return M{}
		}
		return M{"operationId": n(slot)}
	}
	merge := func(a, b M) M {
		for k, v := range b {
			a[k] = v
		}
		return a
	}
	q0 := []interface{}{
		M{"name": n("pp"), "in": "path", "required": true, "type": "string"},
		M{"name": n("pq"), "in": "query", "type": "string", "enum": []string{n("enum2"), n("enum3")}, "default": n("enum2")},
		M{"name": n("pq2"), "in": "query", "type": "integer", "format": "int32", "minimum": 1, "default": 10},
		M{"name": n("ph"), "in": "header", "type": "string"},
	}
	for _, p := range sp.ExtraQuery {
		q0 = append(q0, M{"name": p, "in": "query", "type": "string"})
	}
	op0 := merge(id("op0"), M{"tags": []string{n("tag0")}, "parameters": q0,
		"responses": M{"200": M{"description": "ok", "schema": M{"type": "array", "items": ref(n("def0"))}, "headers": M{n("rh"): M{"type": "integer", "format": "int64"}}},
			"default": M{"description": "error", "schema": ref("VerifError")}}})
	op1 := merge(id("op1"), M{"tags": []string{n("tag0")}, "parameters": []interface{}{M{"name": n("pb"), "in": "body", "required": true, "schema": ref(n("def0"))}},
		"responses": M{"201": M{"description": "created", "schema": ref(n("def0"))}, "422": M{"description": "invalid", "schema": ref("VerifError")}}})
	op2 := merge(id("op2"), M{"tags": []string{n("tag1")}, "consumes": []string{"application/x-www-form-urlencoded"},
		"parameters": []interface{}{M{"name": n("pf"), "in": "formData", "type": "string", "required": true}},
		"security":   []interface{}{}, "responses": M{"204": M{"description": "done"}}})
	paths := M{
		"/gadgets/{" + n("pp") + "}": M{"get": op0},
		"/gadgets":                   M{"post": op1},
		"/widgets":                   M{"put": op2},
	}
	for i, eo := range sp.ExtraOps {
		o := M{"responses": M{"200": M{"description": "ok " + string(rune('a'+i))}}}
		var pps []interface{}
		for _, seg := range strings.Split(eo[1], "/") {
			if strings.HasPrefix(seg, "{") && strings.HasSuffix(seg, "}") {
				pps = append(pps, M{"name": seg[1 : len(seg)-1], "in": "path", "required": true, "type": "string"})
			}
		}
		if len(pps) > 0 {
			o["parameters"] = pps
		}
		if eo[2] != "" {
			o["operationId"] = eo[2]
		}
		pi, _ := paths[eo[1]].(M)
		if pi == nil {
			pi = M{}
		}
		pi[strings.ToLower(eo[0])] = o
		paths[eo[1]] = pi
	}
	for i, eo := range sp.ExtraTagged {
		o := M{"operationId": eo[2], "tags": []string{eo[3]},
			"parameters": []interface{}{M{"name": "body", "in": "body", "required": true, "schema": M{"type": "object", "required": []string{"query"},
				"properties": M{"query": M{"type": "string"}, "page": M{"type": "integer", "format": "int32", "minimum": i}}}}},
			"responses": M{"200": M{"description": "found " + string(rune('a'+i)), "schema": M{"type": "object", "properties": M{"hits": M{"type": "array", "items": M{"type": "string"}}, "total": M{"type": "integer"}}}},
				"default": M{"description": "error", "schema": M{"type": "object", "properties": M{"message": M{"type": "string"}}}}}}
		pi, _ := paths[eo[1]].(M)
		if pi == nil {
			pi = M{}
		}
		pi[strings.ToLower(eo[0])] = o
		paths[eo[1]] = pi
	}
	return M{
		"swagger": "2.0", "info": M{"title": "names", "version": "1.0"}, "basePath": "/api",
		"consumes": []string{"application/json"}, "produces": []string{"application/json"}, "schemes": []string{"http"},
		"securityDefinitions": M{n("sec"): M{"type": "apiKey", "in": "header", "name": "X-Api-Key"}},
		"security":            []interface{}{M{n("sec"): []string{}}},
		"paths":               paths, "definitions": defs,
	}
}

// operations of the document: method, path
func (sp *nspec) ops() [][2]string {
	out := [][2]string{{"GET", "/gadgets/{" + sp.n("pp") + "}"}, {"POST", "/gadgets"}, {"PUT", "/widgets"}}
	for _, eo := range sp.ExtraOps {
		out = append(out, [2]string{strings.ToUpper(eo[0]), eo[1]})
	}
	for _, eo := range sp.ExtraTagged {
		out = append(out, [2]string{strings.ToUpper(eo[0]), eo[1]})
	}
	return out
}

func (sp *nspec) defs() []string {
	out := []string{"VerifError", sp.n("def0"), sp.n("def1"), sp.n("def2")}
	for k := range kindDefs {
		out = append(out, k)
	}
	sort.Strings(out[4:])
	return append(out, sp.ExtraDefs...)
}

// kindDefs: one definition of every kind of schema (plainly named): each must get a model type of its own, whatever it is made of
var kindDefs = map[string]M{
	"KindBinary":      {"type": "string", "format": "binary"},
	"KindDate":        {"type": "string", "format": "date-time"},
	"KindInteger":     {"type": "integer", "format": "int32", "minimum": 1},
	"KindNumber":      {"type": "number"},
	"KindBoolean":     {"type": "boolean"},
	"KindArray":       {"type": "array", "items": M{"type": "string"}},
	"KindNestedArray": {"type": "array", "items": M{"type": "array", "items": M{"type": "integer"}}},
	"KindMap":         {"type": "object", "additionalProperties": M{"type": "integer"}},
	"KindMapOfRefs":   {"type": "object", "additionalProperties": M{"$ref": "#/definitions/VerifError"}},
	"KindEmpty":       {"type": "object"},
	"KindUntyped":     {},
	"KindAllOf":       {"allOf": []interface{}{M{"$ref": "#/definitions/VerifError"}, M{"type": "object", "properties": M{"more": M{"type": "string"}}}}},
	"KindRefOnly":     {"$ref": "#/definitions/VerifError"},
	"KindTuple":       {"type": "array", "items": []interface{}{M{"type": "string"}, M{"type": "integer"}}},
}

// opsWithIDs: method, path, operationId of every operation of the document
func (sp *nspec) opsWithIDs() [][3]string {
	id := func(slot string) string {
		if sp.NoIDs {
			return ""
		}
		return sp.n(slot)
	}
	out := [][3]string{{"GET", "/gadgets/{" + sp.n("pp") + "}", id("op0")}, {"POST", "/gadgets", id("op1")}, {"PUT", "/widgets", id("op2")}}
	for _, eo := range sp.ExtraOps {
		out = append(out, [3]string{strings.ToUpper(eo[0]), eo[1], eo[2]})
	}
	for _, eo := range sp.ExtraTagged {
		out = append(out, [3]string{strings.ToUpper(eo[0]), eo[1], eo[2]})
	}
	return out
}

func (sp *nspec) props0() []string {
	return append([]string{sp.n("prop0"), sp.n("prop1"), sp.n("prop2"), sp.n("prop3")}, sp.ExtraProps...)
}

// opPackages: method, path and package of every operation that carries a tag (the generator puts an operation into the package of
// its first tag; tags are compared as the generator mangles them into package names: case-insensitively after pascalize)
func (sp *nspec) opPackages() [][3]string {
	pkg := func(tag string) string { return strings.ToLower(pascalize(tag)) }
	out := [][3]string{{"GET", "/gadgets/{" + sp.n("pp") + "}", pkg(sp.n("tag0"))}, {"POST", "/gadgets", pkg(sp.n("tag0"))}, {"PUT", "/widgets", pkg(sp.n("tag1"))}}
	for _, eo := range sp.ExtraTagged {
		out = append(out, [3]string{strings.ToUpper(eo[0]), eo[1], pkg(eo[3])})
	}
	return out
}

package main

import (
	"fmt"
	"sort"
	"strings"
	"unicode"
	"unicode/utf8"

	"verif/harness/internal/rng"
)

// ---- name pools (generator quality bounds the correspondence: every class below is counted in the evidence) ----

var asciiWords = []string{"pet", "Pet", "PET", "store", "order", "item", "user", "name", "value", "list", "a", "b", "x", "Z", "ab", "fooBar", "FooBar", "foo", "bar", "baz", "thing", "Thing"}
var initialismTokens = []string{"id", "Id", "ID", "iD", "http", "Http", "HTTP", "https", "HTTPS", "Https", "url", "URL", "Url", "ip", "IP", "IPv4", "ipv4", "IPV4", "ipv6", "api", "API", "json", "JSON", "Json", "uuid", "UUID", "ui", "UI", "uid", "vm", "VM", "xml", "ascii", "ASCII", "utf8", "UTF8", "sql", "tls", "eof", "oai", "OAI", "xss", "xsrf", "acl", "cpu", "ttl", "HTTPServer", "HTTPSserver", "userID", "userId", "UserIDs", "IDs", "ids", "URLs", "APIKey", "apiKEY"}
var goKeywords = []string{"break", "default", "func", "interface", "select", "case", "defer", "go", "map", "struct", "chan", "else", "goto", "package", "switch", "const", "fallthrough", "if", "range", "type", "continue", "for", "import", "return", "var"}
var goPredeclared = []string{"string", "error", "nil", "true", "false", "len", "int", "int64", "bool", "byte", "any", "new", "make", "append", "float64", "uint", "iota", "cap", "copy", "panic", "print", "rune", "init", "main"}
var generatorNames = []string{"timeout", "Timeout", "TIMEOUT", "time-out", "context", "Context", "HTTPRequest", "http request", "HTTPClient", "httpClient", "params", "Params", "o", "r", "err", "res", "result", "data", "i", "values", "body", "Body", "formats", "route", "m", "payload", "Payload", "validate", "Validate", "principal", "rw", "producer", "response", "Response", "request", "reader", "writer", "swag", "strfmt", "errors", "models", "operations", "runtime", "client", "fmt", "json", "handler", "Handler", "api", "server", "test", "linux", "windows", "arm", "js", "x_test", "lab test", "node-js", "amd64", "vendor", "internal",
	// tags shaped like a Go major-version suffix, in any case; words go build reads as GOOS / GOARCH at the end of a file name
	"v1", "V2", "v10", "V1beta1", "version1", "hurd", "nacl", "zos", "riscv", "sparc", "ppc", "s390", "amd64p32", "wasm", "wasip1", "plan9", "aix", "ios", "loong64", "mips64le", "arm64be", "sparc64", "s390x", "darwin", "freebsd", "android", "illumos", "solaris", "386"}
var replacePunct = []string{"@", "&", "|", "$", "!", "-", "_"}
var otherPunct = []string{".", ",", ":", ";", "+", "#", "*", "=", "(", ")", "[", "]", "<", ">", "'", "\"", "`", "^", "?", " ", "\t", "\\", "/", "~", "%", "{", "}"}
var digitsTok = []string{"0", "1", "9", "42", "007", "2fa", "3d"}
var nonASCII = []string{
	"\u00e9", "\u00c9", "\u00df", "\u00f1", "\u00dc", "na\u00efve", "\u00c9a", "\u00e9a", "\u00d8re", // Latin-1 cased
	"\u03c3", "\u03a3", "\u03c2", "\u03bbx", "\u03a9mega", // Greek
	"\u0436", "\u0416", "\u0438\u043c\u044f", "\u0418\u043c\u044f", // Cyrillic
	"\u65e5\u672c\u8a9e", "\u540d", "\u05e9\u05dc\u05d5\u05dd", "\u0639\u0631\u0628\u0649", "\ud55c\uae00", // caseless letters
	"\u01c5", "\u01c5x", "\u1f88", // titlecase
	"a\u0301", "\u0301x", "e\u0308", // combining marks (M)
	"\u0663", "\u0663x", "x\u0663", "\u096b", // Nd non-ASCII
	"\u00b2", "x\u00b2", "\u00bd", "\u2167", "\u2177x", // No / Nl
	"\u203f", "a\u203fb", "\uff3f", // Pc
	"\u00a0", "a\u00a0b", "\u2003", "\u0085", // spaces
	"\u20ac", "\u20acuro", "\u00a9", "\u2192", "\U0001F600", "a\U0001F600", "\U0001F600a", "\u24d0", // symbols
	"\u0131", "\u0130", "\u017f", "\u212a", "\u01c6", // case-mapping oddities (dotless i, dotted I, long s, Kelvin sign)
}

// randomName composes 1..5 tokens from the pools with separators.
func randomName(r *rng.R) string {
	n := 1 + r.Intn(5)
	var b strings.Builder
	for i := 0; i < n; i++ {
		switch r.Intn(14) {
		case 0, 1, 2, 3:
			b.WriteString(r.Pick(asciiWords))
		case 4, 5, 6:
			b.WriteString(r.Pick(initialismTokens))
		case 7:
			b.WriteString(r.Pick(goKeywords))
		case 8:
			b.WriteString(r.Pick(goPredeclared))
		case 9:
			b.WriteString(r.Pick(generatorNames))
		case 10:
			b.WriteString(r.Pick(digitsTok))
		case 11, 12:
			b.WriteString(r.Pick(nonASCII))
		case 13:
			// random ASCII letters
			k := 1 + r.Intn(4)
			for j := 0; j < k; j++ {
				if r.Chance(1, 2) {
					b.WriteByte(byte('a' + r.Intn(26)))
				} else {
					b.WriteByte(byte('A' + r.Intn(26)))
				}
			}
		}
		if i < n-1 || r.Chance(1, 8) {
			switch r.Intn(6) {
			case 0, 1:
				b.WriteString(r.Pick(replacePunct))
			case 2:
				b.WriteString(r.Pick(otherPunct))
			case 3:
				b.WriteString(" ")
			default:
			}
		}
	}
	if r.Chance(1, 12) {
		return r.Pick(append(replacePunct, otherPunct...)) + b.String()
	}
	return b.String()
}

func hasLetter(x string) bool {
	for _, c := range x {
		if unicode.IsLetter(c) {
			return true
		}
	}
	return false
}

// nameClass: a stable, coarse description of what makes a name unusual (used in finding keys and coverage).
func nameClass(x string) string {
	lx := strings.ToLower(strings.TrimSpace(x))
	for _, k := range goKeywords {
		if lx == k {
			return "go-keyword"
		}
	}
	for _, k := range goPredeclared {
		if lx == k {
			return "go-predeclared"
		}
	}
	feats := map[string]bool{}
	first := true
	for _, c := range x {
		switch {
		case c < 128:
			switch {
			case c >= '0' && c <= '9':
				if first {
					feats["digit-first"] = true
				}
			case c >= 'a' && c <= 'z', c >= 'A' && c <= 'Z':
			case c == ' ' || c == '\t':
				feats["space"] = true
			default:
				if first {
					feats["punct-first"] = true
				} else {
					feats["punct"] = true
				}
			}
		case unicode.IsLetter(c):
			switch {
			case unicode.IsUpper(c) || unicode.IsLower(c):
				if first {
					feats["nonascii-cased-first"] = true
				} else {
					feats["nonascii-cased"] = true
				}
			case unicode.IsTitle(c):
				feats["titlecase-letter"] = true
			default:
				if first {
					feats["caseless-letter-first"] = true
				} else {
					feats["caseless-letter"] = true
				}
			}
		case unicode.Is(unicode.M, c):
			feats["mark"] = true
		case unicode.IsDigit(c):
			feats["nonascii-digit"] = true
		case unicode.Is(unicode.N, c):
			feats["other-number"] = true
		case unicode.Is(unicode.Pc, c):
			feats["connector-punct"] = true
		case unicode.IsSpace(c):
			feats["nonascii-space"] = true
		default:
			feats["symbol"] = true
		}
		first = false
	}
	for _, k := range generatorNames {
		if lx == strings.ToLower(k) {
			feats["generator-name:"+lx] = true
		}
	}
	if len(feats) == 0 {
		if x != strings.ToLower(x) && x != strings.ToUpper(x) {
			return "ascii-mixed-case"
		}
		return "ascii-plain"
	}
	var fs []string
	for f := range feats {
		fs = append(fs, f)
	}
	sort.Strings(fs)
	return strings.Join(fs, "+")
}

// ---- Gallina rendering ----

func runesCoq(x string) string {
	rs := []rune(x)
	if len(rs) == 0 {
		return "[]"
	}
	plain := true
	for _, c := range rs {
		if c < 0x20 || c > 0x7e || c == '"' {
			plain = false
		}
	}
	if plain {
		return `(s "` + x + `")`
	}
	parts := make([]string, len(rs))
	for i, c := range rs {
		parts[i] = fmt.Sprintf("%d", c)
	}
	return "([" + strings.Join(parts, ";") + "]%N)"
}

func optRunesCoq(x string) string {
	if !utf8.ValidString(x) {
		return "None"
	}
	return "(Some " + runesCoq(x) + ")"
}

func b2(b bool) string {
	if b {
		return "true"
	}
	return "false"
}

// uniTable: every non-ASCII rune of the inputs, closed under ToUpper/ToLower, with Go's classification.
func uniTable(inputs ...string) string {
	seen := map[rune]bool{}
	var todo []rune
	add := func(c rune) {
		if c >= 128 && !seen[c] {
			seen[c] = true
			todo = append(todo, c)
		}
	}
	for _, x := range inputs {
		for _, c := range x {
			add(c)
		}
	}
	for len(todo) > 0 {
		c := todo[0]
		todo = todo[1:]
		add(unicode.ToUpper(c))
		add(unicode.ToLower(c))
	}
	var rs []rune
	for c := range seen {
		rs = append(rs, c)
	}
	sort.Slice(rs, func(i, j int) bool { return rs[i] < rs[j] })
	parts := make([]string, len(rs))
	for i, c := range rs {
		parts[i] = fmt.Sprintf("(%d%%N, {| i_upper := %s; i_lower := %s; i_letter := %s; i_digit := %s; i_lmnpc := %s; i_space := %s; i_up := %d%%N; i_lo := %d%%N |})",
			c, b2(unicode.IsUpper(c)), b2(unicode.IsLower(c)), b2(unicode.IsLetter(c)), b2(unicode.IsDigit(c)),
			b2(unicode.In(c, unicode.L, unicode.M, unicode.N, unicode.Pc)), b2(unicode.IsSpace(c)), unicode.ToUpper(c), unicode.ToLower(c))
	}
	return "[" + strings.Join(parts, "; ") + "]"
}

// rangesites: translator for C07 — inventory of every `range` over a map in the anchored packages, typed with
// go/types (through go/packages), classified by the syntactic pattern that makes the loop order-independent.
// Writes coq/Gen/GenRangeSites.v and coq/Gen/GenMediaTable.v.
package main

import (
	"bytes"
	"fmt"
	"go/ast"
	"go/printer"
	"go/token"
	"go/types"
	"os"
	"path/filepath"
	"regexp/syntax"
	"sort"
	"strconv"
	"strings"

	"golang.org/x/tools/go/packages"
)

func die(format string, a ...interface{}) {
	fmt.Fprintf(os.Stderr, "rangesites: "+format+"\n", a...)
	os.Exit(2)
}

func coqStr(x string) string {
	plain := true
	for i := 0; i < len(x); i++ {
		if x[i] < 0x20 || x[i] > 0x7e || x[i] == '"' {
			plain = false
		}
	}
	if plain {
		return `(s "` + x + `")`
	}
	var b strings.Builder
	b.WriteString("([")
	for i := 0; i < len(x); i++ {
		if i > 0 {
			b.WriteString(";")
		}
		fmt.Fprintf(&b, "%d", x[i])
	}
	b.WriteString("]%N)")
	return b.String()
}

func exprString(fset *token.FileSet, e ast.Expr) string {
	var b bytes.Buffer
	_ = printer.Fprint(&b, fset, e)
	return b.String()
}

type site struct {
	file, fn, expr, pattern string
	line                    int
}

// classify the loop body
func classify(fset *token.FileSet, rs *ast.RangeStmt, fn *ast.FuncDecl) string {
	appended := map[string]bool{}
	onlyCommutative := true
	hasExit := false
	hasCall := false
	var walk func(stmts []ast.Stmt)
	walkStmt := func(s ast.Stmt) {}
	walkStmt = func(s ast.Stmt) {
		switch x := s.(type) {
		case *ast.AssignStmt:
			// x = append(x, ...)
			if len(x.Lhs) == 1 && len(x.Rhs) == 1 {
				if call, ok := x.Rhs[0].(*ast.CallExpr); ok {
					if id, ok := call.Fun.(*ast.Ident); ok && id.Name == "append" {
						appended[exprString(fset, x.Lhs[0])] = true
						return
					}
				}
			}
			for _, l := range x.Lhs {
				switch l.(type) {
				case *ast.IndexExpr: // m[k] = v : insertion keyed by the loop key
				case *ast.Ident: // scalar accumulation / flags / local temporaries
				default:
					onlyCommutative = false
				}
			}
			for _, r := range x.Rhs {
				ast.Inspect(r, func(n ast.Node) bool {
					if c, ok := n.(*ast.CallExpr); ok {
						if id, ok := c.Fun.(*ast.Ident); !ok || (id.Name != "len" && id.Name != "append" && id.Name != "string" && id.Name != "make") {
							hasCall = true
						}
					}
					return true
				})
			}
		case *ast.IncDecStmt:
		case *ast.DeclStmt:
		case *ast.ExprStmt:
			if c, ok := x.X.(*ast.CallExpr); ok {
				if id, ok := c.Fun.(*ast.Ident); ok && id.Name == "delete" {
					return
				}
			}
			hasCall = true
		case *ast.IfStmt:
			if x.Init != nil {
				walkStmt(x.Init)
			}
			walk(x.Body.List)
			if x.Else != nil {
				walkStmt(x.Else)
			}
		case *ast.BlockStmt:
			walk(x.List)
		case *ast.ReturnStmt:
			hasExit = true
		case *ast.BranchStmt:
			if x.Tok == token.BREAK {
				hasExit = true
			}
		case *ast.SwitchStmt:
			for _, c := range x.Body.List {
				walk(c.(*ast.CaseClause).Body)
			}
		case *ast.TypeSwitchStmt:
			for _, c := range x.Body.List {
				walk(c.(*ast.CaseClause).Body)
			}
		case *ast.RangeStmt:
			walk(x.Body.List)
		case *ast.ForStmt:
			walk(x.Body.List)
		default:
			onlyCommutative = false
		}
	}
	walk = func(stmts []ast.Stmt) {
		for _, s := range stmts {
			walkStmt(s)
		}
	}
	walk(rs.Body.List)
	if hasExit {
		return "FirstMatch"
	}
	if len(appended) > 0 {
		// every appended slice must be sorted later in the same function
		allSorted := true
		for sl := range appended {
			sorted := false
			ast.Inspect(fn.Body, func(n ast.Node) bool {
				c, ok := n.(*ast.CallExpr)
				if !ok || c.Pos() < rs.End() {
					return true
				}
				if sel, ok := c.Fun.(*ast.SelectorExpr); ok {
					if id, ok := sel.X.(*ast.Ident); ok && (id.Name == "sort" || id.Name == "slices") {
						for _, a := range c.Args {
							if strings.Contains(exprString(fset, a), sl) {
								sorted = true
							}
						}
					}
				}
				return true
			})
			if !sorted {
				allSorted = false
			}
		}
		if allSorted && !hasCall {
			return "CollectThenSort"
		}
		if allSorted {
			return "CollectThenSortWithCalls"
		}
		return "CollectUnsorted"
	}
	if onlyCommutative && !hasCall {
		return "CommutativeUpdate"
	}
	if onlyCommutative {
		return "UpdateWithCalls"
	}
	return "Other"
}

func main() {
	if len(os.Args) < 3 {
		die("usage: rangesites <repo> <coq/Gen dir>")
	}
	repo, out := os.Args[1], os.Args[2]
	cfg := &packages.Config{Mode: packages.NeedName | packages.NeedFiles | packages.NeedSyntax | packages.NeedTypes | packages.NeedTypesInfo | packages.NeedImports | packages.NeedDeps,
		Dir: repo, Env: append(os.Environ(), "GOFLAGS=-mod=mod", "GOPROXY=off", "GOSUMDB=off", "GOTOOLCHAIN=local")}
	pkgs, err := packages.Load(cfg, "./generator", "./cmd/swagger/commands/diff", "./codescan")
	if err != nil {
		die("load: %v", err)
	}
	var sites []site
	for _, p := range pkgs {
		if len(p.Errors) > 0 {
			die("package %s does not type-check: %v", p.PkgPath, p.Errors[0])
		}
		for _, f := range p.Syntax {
			fname := p.Fset.Position(f.Pos()).Filename
			if strings.HasSuffix(fname, "_test.go") || strings.HasSuffix(fname, "verif_export.go") {
				continue
			}
			rel, _ := filepath.Rel(repo, fname)
			for _, d := range f.Decls {
				fn, ok := d.(*ast.FuncDecl)
				if !ok || fn.Body == nil {
					continue
				}
				ast.Inspect(fn.Body, func(n ast.Node) bool {
					rs, ok := n.(*ast.RangeStmt)
					if !ok {
						return true
					}
					t := p.TypesInfo.TypeOf(rs.X)
					if t == nil {
						return true
					}
					if _, isMap := t.Underlying().(*types.Map); !isMap {
						return true
					}
					name := fn.Name.Name
					if fn.Recv != nil && len(fn.Recv.List) > 0 {
						name = strings.TrimPrefix(exprString(p.Fset, fn.Recv.List[0].Type), "*") + "." + name
					}
					sites = append(sites, site{file: rel, fn: name, expr: exprString(p.Fset, rs.X), pattern: classify(p.Fset, rs, fn), line: p.Fset.Position(rs.Pos()).Line})
					return true
				})
			}
		}
	}
	sort.Slice(sites, func(i, j int) bool {
		if sites[i].file != sites[j].file {
			return sites[i].file < sites[j].file
		}
		return sites[i].line < sites[j].line
	})
	var b strings.Builder
	b.WriteString("(* GENERATED by harness/cmd/rangesites (go/packages + go/types) from generator, cmd/swagger/commands/diff, codescan — do not edit *)\n")
	b.WriteString("From GS Require Import Base.Str Tools.Order.\n\nDefinition range_sites : list rsite := [\n")
	for i, s := range sites {
		sep := ";"
		if i == len(sites)-1 {
			sep = ""
		}
		fmt.Fprintf(&b, "  {| rs_file := %s; rs_func := %s; rs_expr := %s; rs_pattern := %s |}%s  (* line %d *)\n", coqStr(s.file), coqStr(s.fn), coqStr(s.expr), s.pattern, sep, s.line)
	}
	b.WriteString("].\n")
	writeIfChanged(filepath.Join(out, "GenRangeSites.v"), b.String())

	// media type table: regexp -> serializer name, patterns restricted to (alt|alt)? literal ( .* literal? )?
	var mt strings.Builder
	mt.WriteString("(* GENERATED by harness/cmd/rangesites from generator/media.go (mediaTypeNames) — do not edit *)\n")
	mt.WriteString("From GS Require Import Base.Str Tools.Order.\n\nDefinition media_table : list (mpattern * str) := [\n")
	var entries []string
	for _, p := range pkgs {
		if !strings.HasSuffix(p.PkgPath, "/generator") {
			continue
		}
		for _, f := range p.Syntax {
			ast.Inspect(f, func(n ast.Node) bool {
				vs, ok := n.(*ast.ValueSpec)
				if !ok || len(vs.Names) != 1 || vs.Names[0].Name != "mediaTypeNames" || len(vs.Values) != 1 {
					return true
				}
				cl := vs.Values[0].(*ast.CompositeLit)
				for _, e := range cl.Elts {
					kv := e.(*ast.KeyValueExpr)
					call, ok := kv.Key.(*ast.CallExpr)
					if !ok || len(call.Args) != 1 {
						die("media table: key is not regexp.MustCompile(literal)")
					}
					lit, ok := call.Args[0].(*ast.BasicLit)
					if !ok {
						die("media table: pattern is not a literal")
					}
					pat, _ := strconv.Unquote(lit.Value)
					var val string
					switch v := kv.Value.(type) {
					case *ast.BasicLit:
						val, _ = strconv.Unquote(v.Value)
					case *ast.Ident:
						if v.Name != "jsonSerializer" {
							die("media table: unknown constant %s", v.Name)
						}
						val = "json"
					default:
						die("media table: value is neither literal nor constant")
					}
					entries = append(entries, fmt.Sprintf("  (%s, %s)", patternCoq(pat), coqStr(val)))
				}
				return true
			})
		}
	}
	if len(entries) < 10 {
		die("media table: only %d entries recognised", len(entries))
	}
	mt.WriteString(strings.Join(entries, ";\n"))
	mt.WriteString("\n].\n")
	writeIfChanged(filepath.Join(out, "GenMediaTable.v"), mt.String())
}

// patternCoq translates the restricted regexp grammar of the table: a concatenation of literals, alternations of
// literals and `.*`, searched unanchored.  Anything else is rejected loudly.
func patternCoq(pat string) string {
	re, err := syntax.Parse(pat, syntax.Perl)
	if err != nil {
		die("media table: %q: %v", pat, err)
	}
	re = re.Simplify()
	var parts []string
	var conv func(r *syntax.Regexp)
	conv = func(r *syntax.Regexp) {
		switch r.Op {
		case syntax.OpLiteral:
			parts = append(parts, "PLit "+coqStr(string(r.Rune)))
		case syntax.OpConcat:
			for _, s := range r.Sub {
				conv(s)
			}
		case syntax.OpStar:
			if len(r.Sub) == 1 && (r.Sub[0].Op == syntax.OpAnyCharNotNL || r.Sub[0].Op == syntax.OpAnyChar) {
				parts = append(parts, "PAny")
				return
			}
			die("media table: %q: unsupported repetition", pat)
		case syntax.OpAlternate:
			var alts []string
			for _, s := range r.Sub {
				if s.Op != syntax.OpLiteral {
					die("media table: %q: alternation of non-literals", pat)
				}
				alts = append(alts, coqStr(string(s.Rune)))
			}
			parts = append(parts, "PAlt ["+strings.Join(alts, "; ")+"]")
		case syntax.OpCapture:
			conv(r.Sub[0])
		case syntax.OpCharClass:
			// Simplify may turn (?:a|b) single-rune alternations into classes: not used by the table
			die("media table: %q: character class", pat)
		default:
			die("media table: %q: unsupported construct %v", pat, r.Op)
		}
	}
	conv(re)
	return "[" + strings.Join(parts, "; ") + "]"
}

func writeIfChanged(path, text string) {
	old, err := os.ReadFile(path)
	if err == nil && string(old) == text {
		return
	}
	if err := os.WriteFile(path, []byte(text), 0o644); err != nil {
		die("%v", err)
	}
}

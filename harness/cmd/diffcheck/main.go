// diffcheck: correspondence and property-level harness for the diff cluster (C12–C15).
package main

import (
	"encoding/json"
	"flag"
	"fmt"
	"os"
	"path/filepath"
	"sort"
	"strings"

	"verif/harness/internal/dimpl"
	"verif/harness/internal/dspec"
	"verif/harness/internal/rng"
)

func die(format string, a ...interface{}) {
	fmt.Fprintf(os.Stderr, "diffcheck: "+format+"\n", a...)
	os.Exit(2)
}

type pairRec struct {
	Index int             `json:"index"`
	Kind  string          `json:"kind"`
	Edits []string        `json:"edits"`
	A     json.RawMessage `json:"a"`
	B     json.RawMessage `json:"b"`
	Impl  []string        `json:"impl"`
}

// after this many fatal crashes / timeouts of the implementation a run stops generating (the evidence is in)
const maxCrashes = 3

const header = "From GS Require Import Base.Str Gen.GenDiffTables Tools.DiffTypes Tools.DiffSpec Tools.DiffModel Tools.DiffReport Tools.DiffExt Tools.DiffRun.\n"

// genPair produces one (A,B) pair with its description.
func genPair(g *dspec.Gen, i int) (a, b *dspec.Spec, kind string, edits []string) {
	a = g.Spec()
	switch i % 8 {
	case 0:
		return a, a.Clone(), "identity", nil
	case 1:
		return a, g.Spec(), "unrelated", nil
	default:
		b = a.Clone()
		k := 1 + g.R.Intn(4)
		for j := 0; j < k; j++ {
			if e := g.Mutate(b); e != "" {
				edits = append(edits, e)
			}
		}
		if i%8 == 2 {
			return b, a, "edited-reverse", edits
		}
		return a, b, "edited", edits
	}
}

func cmdCorr(args []string) {
	fs := flag.NewFlagSet("corr", flag.ExitOnError)
	seed := fs.Uint64("seed", 1, "")
	n := fs.Int("n", 200, "")
	shards := fs.Int("shards", 8, "")
	out := fs.String("out", "", "output directory")
	lenient := fs.Bool("lenient", true, "")
	proj := fs.String("proj", "PFull", "projection compared: PFull | PTotal | PBreaking | PCodes")
	_ = fs.Parse(args)
	if *out == "" {
		die("corr: -out required")
	}
	_ = os.MkdirAll(*out, 0o755)
	r := rng.New(*seed)
	cov := map[string]int{}
	pool := dimpl.NewPool()
	defer pool.Close()
	var recs []pairRec
	bufs := make([][]string, *shards)
	for i := 0; i < *n; i++ {
		if pool.Crashes >= maxCrashes {
			cov["stopped-early-after-crashes"]++
			*n = i
			break
		}
		g := &dspec.Gen{R: r.Fork(), Lenient: *lenient && i%4 == 3, Cov: cov}
		a, b, kind, edits := genPair(g, i)
		res := pool.Compare(a.JSON(), b.JSON())
		if res.Err != "" {
			die("case %d: loader error %s", i, res.Err)
		}
		for _, e := range edits {
			cov["edit:"+e]++
		}
		cov["kind:"+kind]++
		if res.Panic != "" {
			cov["impl:panic"]++
		}
		recs = append(recs, pairRec{Index: i, Kind: kind, Edits: edits, A: a.JSON(), B: b.JSON(), Impl: dimpl.Lines(res)})
		sh := i % *shards
		bufs[sh] = append(bufs[sh], fmt.Sprintf("(* case %d *) {| c_a := %s; c_b := %s; c_obs := %s; c_xa := %s; c_xb := %s |}", i, a.Coq(), b.Coq(), dimpl.ObservedCoq(res), a.XCoq(), b.XCoq()))
	}
	for sh := 0; sh < *shards; sh++ {
		var sb strings.Builder
		sb.WriteString(header)
		sb.WriteString("Definition cases : list case := [\n")
		sb.WriteString(strings.Join(bufs[sh], ";\n"))
		sb.WriteString("\n].\nDefinition M := Eval vm_compute in run_cases_p " + *proj + " cases.\nPrint M.\n")
		if *proj == "PTotal" {
			// how many of the documents are in the domain of C12_identity / C12_total (distinct keys; closed)
			sb.WriteString("From GS Require Import Tools.DiffIdentity Tools.DiffTotal Tools.DiffExtLemmas.\nDefinition W := Eval vm_compute in (length (filter (fun c => wf_swaggerb (c_a c) && wf_xdoc (c_xa c) && closed_swaggerb (c_a c) && closed_swaggerb (c_b c)) cases), length cases).\nPrint W.\n")
		}
		if err := os.WriteFile(filepath.Join(*out, fmt.Sprintf("cases_%02d.v", sh)), []byte(sb.String()), 0o644); err != nil {
			die("%v", err)
		}
	}
	meta := map[string]interface{}{"seed": *seed, "n": *n, "shards": *shards, "coverage": cov, "cases": recs}
	mb, _ := json.Marshal(meta)
	_ = os.WriteFile(filepath.Join(*out, "cases.json"), mb, 0o644)
	keys := make([]string, 0, len(cov))
	for k := range cov {
		keys = append(keys, k)
	}
	sort.Strings(keys)
	fmt.Printf("corr: %d cases in %d shards, %d coverage cells\n", *n, *shards, len(keys))
}

// cmdShow writes a .v file printing the model output of one case (for the replay file).
func cmdShow(args []string) {
	fs := flag.NewFlagSet("show", flag.ExitOnError)
	dir := fs.String("dir", "", "")
	idx := fs.Int("index", 0, "")
	_ = fs.Parse(args)
	b, err := os.ReadFile(filepath.Join(*dir, "cases.json"))
	if err != nil {
		die("%v", err)
	}
	var meta struct {
		Shards int `json:"shards"`
	}
	_ = json.Unmarshal(b, &meta)
	sh := *idx % meta.Shards
	pos := *idx / meta.Shards
	src, err := os.ReadFile(filepath.Join(*dir, fmt.Sprintf("cases_%02d.v", sh)))
	if err != nil {
		die("%v", err)
	}
	text := string(src)
	text = text[:strings.Index(text, "Definition M :=")]
	text += fmt.Sprintf("Definition S := Eval vm_compute in match nth_error cases %d with Some c => show_model c | None => [] end.\nPrint S.\n", pos)
	if err := os.WriteFile(filepath.Join(*dir, "show.v"), []byte(text), 0o644); err != nil {
		die("%v", err)
	}
}

func main() {
	if len(os.Args) < 2 {
		die("usage: diffcheck <corr|show|props|c15> ...")
	}
	switch os.Args[1] {
	case "worker":
		dimpl.WorkerMain()
	case "corr":
		cmdCorr(os.Args[2:])
	case "show":
		cmdShow(os.Args[2:])
	case "props":
		cmdProps(os.Args[2:])
	case "c15":
		cmdC15(os.Args[2:])
	default:
		die("unknown subcommand %s", os.Args[1])
	}
}

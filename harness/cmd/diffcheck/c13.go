package main

// C13 oracle: catalogue of elementary request-narrowing (and response-breaking) edits, each with a concrete
// witness validated by the reference validator (go-openapi/validate) against the old and the new spec;
// diff.Compare(A,B) must then contain at least one Breaking entry.

import (
	"encoding/json"
	"fmt"
	"strings"

	"github.com/go-openapi/spec"
	"github.com/go-openapi/strfmt"
	"github.com/go-openapi/validate"
	"github.com/go-swagger/go-swagger/cmd/swagger/commands/diff"

	"verif/harness/internal/dimpl"
	"verif/harness/internal/dspec"
)

type omit struct{ name string } // marker: the enclosing object must not carry this property

// sample builds an instance of x valid for the *old* document; at node `target` it returns `w` instead.
func sample(x *dspec.Schema, defs map[string]*dspec.Schema, target *dspec.Schema, w interface{}, depth int) (interface{}, bool) {
	if x == target {
		if o, ok := w.(omit); ok {
			v, ok2 := sampleObj(x, defs, target, w, depth, o.name)
			return v, ok2
		}
		return w, true
	}
	if x.Ref != "" {
		d, ok := defs[x.Ref]
		if !ok || depth > 5 {
			return nil, false
		}
		return sample(d, defs, target, w, depth+1)
	}
	t := ""
	if len(x.Type) > 0 {
		t = x.Type[0]
	}
	switch t {
	case "string":
		return sampleString(x.Format, &x.V), true
	case "integer", "number":
		return sampleInt(&x.V), true
	case "boolean":
		return true, true
	case "array":
		n := 1
		if x.V.MinItems != nil && int(*x.V.MinItems) > n {
			n = int(*x.V.MinItems)
		}
		if x.V.MaxItems != nil && int(*x.V.MaxItems) < n {
			n = int(*x.V.MaxItems)
		}
		out := []interface{}{}
		for i := 0; i < n; i++ {
			if x.Items == nil {
				return nil, false
			}
			v, ok := sample(x.Items, defs, target, w, depth+1)
			if !ok {
				return nil, false
			}
			out = append(out, v)
		}
		if n == 0 && containsNode(x.Items, target, defs, 0) {
			return nil, false
		}
		return out, true
	default:
		return sampleObj(x, defs, target, w, depth, "")
	}
}

func sampleObj(x *dspec.Schema, defs map[string]*dspec.Schema, target *dspec.Schema, w interface{}, depth int, omitName string) (interface{}, bool) {
	out := map[string]interface{}{}
	for _, a := range x.AllOf {
		v, ok := sample(a, defs, target, w, depth+1)
		if !ok {
			return nil, false
		}
		if m, ok := v.(map[string]interface{}); ok {
			for k, vv := range m {
				out[k] = vv
			}
		}
	}
	req := map[string]bool{}
	for _, r := range x.Required {
		req[r] = true
	}
	for _, p := range x.Props {
		if p.Name == omitName {
			continue
		}
		onPath := containsNode(p.Schema, target, defs, 0)
		if depth > 3 && !req[p.Name] && !onPath {
			continue
		}
		v, ok := sample(p.Schema, defs, target, w, depth+1)
		if !ok {
			if req[p.Name] || onPath {
				return nil, false
			}
			continue
		}
		out[p.Name] = v
	}
	return out, true
}

func containsNode(x, target *dspec.Schema, defs map[string]*dspec.Schema, depth int) bool {
	if x == nil || depth > 6 {
		return false
	}
	if x == target {
		return true
	}
	if x.Ref != "" {
		return containsNode(defs[x.Ref], target, defs, depth+1)
	}
	if containsNode(x.Items, target, defs, depth+1) {
		return true
	}
	for _, p := range x.Props {
		if containsNode(p.Schema, target, defs, depth+1) {
			return true
		}
	}
	for _, a := range x.AllOf {
		if containsNode(a, target, defs, depth+1) {
			return true
		}
	}
	return false
}

func strOfLen(n int64) string { return strings.Repeat("a", int(n)) }

func sampleString(format string, v *dspec.Vals) interface{} {
	if len(v.Enum) > 0 {
		return v.Enum[0].JSON()
	}
	switch format {
	case "date":
		return "2020-01-02"
	case "date-time":
		return "2020-01-02T03:04:05Z"
	case "uuid":
		return "123e4567-e89b-12d3-a456-426614174000"
	case "byte":
		return "YWJj"
	}
	switch v.Pattern {
	case "^\\d+$":
		n := int64(3)
		if v.MinLen != nil && *v.MinLen > n {
			n = *v.MinLen
		}
		if v.MaxLen != nil && *v.MaxLen < n {
			n = *v.MaxLen
		}
		return strings.Repeat("1", int(n))
	case "x.*":
		return "xaaa"
	}
	n := int64(4)
	if v.MinLen != nil && *v.MinLen > n {
		n = *v.MinLen
	}
	if v.MaxLen != nil && *v.MaxLen < n {
		n = *v.MaxLen
	}
	return strOfLen(n)
}

func sampleInt(v *dspec.Vals) interface{} {
	if len(v.Enum) > 0 {
		return v.Enum[0].JSON()
	}
	x := int64(1)
	if v.Min != nil {
		x = *v.Min
		if v.XMin {
			x++
		}
	}
	if v.Max != nil {
		hi := *v.Max
		if v.XMax {
			hi--
		}
		if x > hi {
			x = hi
		}
	}
	return x
}

type edit struct {
	kind    string
	apply   func(n *dspec.Schema) // on the clone's node
	witness func(old *dspec.Schema) (interface{}, bool)
}

func i64p(v int64) *int64 { return &v }

// value-level narrowing edits of a schema node, by type
func schemaEdits(x *dspec.Schema) []edit {
	var es []edit
	if x.Ref != "" {
		return nil
	}
	t := ""
	if len(x.Type) > 0 {
		t = x.Type[0]
	}
	plain := x.Format == "" && x.V.Pattern == "" && len(x.V.Enum) == 0
	switch t {
	case "string":
		if plain {
			cur := sampleString("", &x.V).(string)
			n := int64(len(cur))
			es = append(es, edit{"maxLength.narrow", func(b *dspec.Schema) { b.V.MaxLen = i64p(n - 1) }, func(o *dspec.Schema) (interface{}, bool) {
				return cur, n >= 1 && (o.V.MinLen == nil || *o.V.MinLen <= n-1)
			}})
			es = append(es, edit{"minLength.narrow", func(b *dspec.Schema) { b.V.MinLen = i64p(n + 1) }, func(o *dspec.Schema) (interface{}, bool) { return cur, o.V.MaxLen == nil || *o.V.MaxLen >= n+1 }})
			es = append(es, edit{"pattern.add", func(b *dspec.Schema) { b.V.Pattern = "^\\d+$" }, func(o *dspec.Schema) (interface{}, bool) { return cur, n > 0 }})
			es = append(es, edit{"enum.add-constraint", func(b *dspec.Schema) { b.V.Enum = []dspec.EnumV{{Kind: 0, S: cur + "z"}} }, func(o *dspec.Schema) (interface{}, bool) { return cur, true }})
			es = append(es, edit{"type.string-to-integer", func(b *dspec.Schema) { b.Type = []string{"integer"}; b.V = dspec.Vals{} }, func(o *dspec.Schema) (interface{}, bool) { return "a" + cur, true }})
			es = append(es, edit{"format.add-date", func(b *dspec.Schema) { b.Format = "date" }, func(o *dspec.Schema) (interface{}, bool) { return cur, true }})
		}
		if len(x.V.Enum) > 1 && x.Format == "" && x.V.Pattern == "" {
			last := x.V.Enum[len(x.V.Enum)-1]
			es = append(es, edit{"enum.del-value", func(b *dspec.Schema) { b.V.Enum = b.V.Enum[:len(b.V.Enum)-1] }, func(o *dspec.Schema) (interface{}, bool) { return last.JSON(), true }})
		}
	case "integer", "number":
		if len(x.V.Enum) == 0 {
			cur := sampleInt(&x.V).(int64)
			es = append(es, edit{"maximum.narrow", func(b *dspec.Schema) {
				if b.V.XMax {
					b.V.Max = i64p(cur)
				} else {
					b.V.Max = i64p(cur - 1)
				}
			}, func(o *dspec.Schema) (interface{}, bool) {
				return cur, o.V.Min == nil || *o.V.Min < cur-1
			}})
			es = append(es, edit{"minimum.narrow", func(b *dspec.Schema) {
				if b.V.XMin {
					b.V.Min = i64p(cur)
				} else {
					b.V.Min = i64p(cur + 1)
				}
			}, func(o *dspec.Schema) (interface{}, bool) {
				return cur, o.V.Max == nil || *o.V.Max > cur+1
			}})
			if x.V.Max != nil && !x.V.XMax {
				m := *x.V.Max
				es = append(es, edit{"exclusiveMaximum.add", func(b *dspec.Schema) { b.V.XMax = true }, func(o *dspec.Schema) (interface{}, bool) {
					return m, o.V.Min == nil || *o.V.Min < m
				}})
			}
			if x.V.Max != nil && x.V.XMax {
				m := *x.V.Max
				es = append(es, edit{"exclusiveMaximum.del+maximum.narrow", func(b *dspec.Schema) { b.V.XMax = false; b.V.Max = i64p(m - 3) }, func(o *dspec.Schema) (interface{}, bool) {
					return m - 1, o.V.Min == nil || *o.V.Min < m-3
				}})
			}
			if t == "integer" {
				es = append(es, edit{"enum.add-constraint", func(b *dspec.Schema) { b.V.Enum = []dspec.EnumV{{Kind: 1, I: cur + 1000}} }, func(o *dspec.Schema) (interface{}, bool) { return cur, true }})
			}
		} else if len(x.V.Enum) > 1 {
			last := x.V.Enum[len(x.V.Enum)-1]
			es = append(es, edit{"enum.del-value", func(b *dspec.Schema) { b.V.Enum = b.V.Enum[:len(b.V.Enum)-1] }, func(o *dspec.Schema) (interface{}, bool) { return last.JSON(), true }})
		}
	}
	return es
}

type c13site struct {
	where string
	node  *dspec.Schema // body schema node (old side)
	root  *dspec.Schema // body root
	param *dspec.Param
}

// simple -> schema (so that the same edits and the same validator apply to non-body parameters)
func simpleToSchema(x *dspec.Simple) *dspec.Schema {
	sc := &dspec.Schema{Type: []string{x.Type}, Format: x.Format, V: x.V}
	if x.Items != nil {
		sc.Items = simpleToSchema(x.Items)
	}
	return sc
}

func toSpecSchema(x *dspec.Schema) *spec.Schema {
	b, _ := json.Marshal(x.JSON())
	var sc spec.Schema
	_ = json.Unmarshal(b, &sc)
	return &sc
}

func validAgainst(sc *dspec.Schema, root *spec.Swagger, v interface{}) bool {
	// round-trip the instance through JSON so that numbers are float64 as a decoder would give
	b, _ := json.Marshal(v)
	var data interface{}
	_ = json.Unmarshal(b, &data)
	res := validate.NewSchemaValidator(toSpecSchema(sc), root, "", strfmt.Default).Validate(data)
	return res == nil || res.IsValid()
}

func hasBreaking(r dimpl.Result) bool {
	for _, d := range r.Diffs {
		if d.Compatibility == diff.Breaking {
			return true
		}
	}
	return false
}

func defsMap(sp *dspec.Spec) map[string]*dspec.Schema {
	m := map[string]*dspec.Schema{}
	for _, d := range sp.Defs {
		m[d.Name] = d.Schema
	}
	return m
}

// collect nodes of a body schema reachable from root, following $ref into definitions (each definition once);
// viaAllOf[i] tells whether node i sits under an allOf member
func bodyNodes(root *dspec.Schema, defs map[string]*dspec.Schema) ([]*dspec.Schema, []bool) {
	var out []*dspec.Schema
	var via []bool
	seen := map[*dspec.Schema]bool{}
	var walk func(x *dspec.Schema, d int, a bool)
	walk = func(x *dspec.Schema, d int, a bool) {
		if x == nil || seen[x] || d > 5 {
			return
		}
		seen[x] = true
		out = append(out, x)
		via = append(via, a)
		if x.Ref != "" {
			walk(defs[x.Ref], d+1, a)
			return
		}
		walk(x.Items, d+1, a)
		for _, p := range x.Props {
			walk(p.Schema, d+1, a)
		}
		for _, m := range x.AllOf {
			walk(m, d+1, true)
		}
	}
	walk(root, 0, false)
	return out, via
}

type c13case struct {
	class       string // known-gap class this case falls in, "" if none
	kind, where string
	b           *dspec.Spec
	witness     interface{}
	validated   bool // witness checked by the reference validator (old accepts, new rejects)
	response    bool
}

// enumerate catalogue entries for spec a
func c13Catalogue(a *dspec.Spec, aDoc *spec.Swagger) []c13case {
	var out []c13case
	defs := defsMap(a)
	// indices to find the same node in a clone: walk clone in the same order
	for pi, pit := range a.Paths {
		allParams := func(sp *dspec.Spec, oi int) []*dspec.Param {
			if oi < 0 {
				return sp.Paths[pi].Params
			}
			return sp.Paths[pi].Ops[oi].Params
		}
		for oi := -1; oi < len(pit.Ops); oi++ {
			for pj, p := range allParams(a, oi) {
				where := p.In
				if oi < 0 {
					where = "pathlevel-" + p.In
				}
				if p.Schema != nil {
					nodes, via := bodyNodes(p.Schema, defs)
					for ni, nd := range nodes {
						for ei, e := range schemaEdits(nd) {
							w, ok := e.witness(nd)
							if !ok {
								continue
							}
							inst, ok := sample(p.Schema, defs, nd, w, 0)
							if !ok {
								continue
							}
							b := a.Clone()
							bp := allParams(b, oi)[pj]
							bns, _ := bodyNodes(bp.Schema, defsMap(b))
							bn := bns[ni]
							schemaEdits(bn)[ei].apply(bn)
							bDoc, err := dimpl.Load(b.JSON())
							if err != nil {
								continue
							}
							if validAgainst(p.Schema, aDoc, inst) && !validAgainst(bp.Schema, bDoc, inst) {
								dep := "depth0"
								if ni > 0 {
									dep = "nested"
								}
								out = append(out, c13case{class: gapClass(e.kind, nd, via[ni], false), kind: e.kind, where: where + "/" + dep, b: b, witness: inst, validated: true})
							}
						}
						// property-level edits on object nodes
						if nd.Ref == "" && len(nd.Props) > 0 {
							for pk, pr := range nd.Props {
								isReq := false
								for _, r := range nd.Required {
									if r == pr.Name {
										isReq = true
									}
								}
								if isReq {
									continue
								}
								inst, ok := sample(p.Schema, defs, nd, omit{pr.Name}, 0)
								if !ok {
									continue
								}
								b := a.Clone()
								bp := allParams(b, oi)[pj]
								bns, _ := bodyNodes(bp.Schema, defsMap(b))
								bn := bns[ni]
								bn.Required = append(bn.Required, bn.Props[pk].Name)
								bDoc, err := dimpl.Load(b.JSON())
								if err != nil {
									continue
								}
								if validAgainst(p.Schema, aDoc, inst) && !validAgainst(bp.Schema, bDoc, inst) {
									out = append(out, c13case{class: gapClass("property.optional-to-required", nd, via[ni], false), kind: "property.optional-to-required", where: where, b: b, witness: inst, validated: true})
								}
								break
							}
						}
					}
					continue
				}
				if oi < 0 && shadowed(pit, p) {
					continue // an operation re-declares this path-level parameter: editing it changes nothing for that operation
				}
				// non-body parameter: value-level edits on the parameter (and its items)
				sc := simpleToSchema(&p.Simple)
				var chain []*dspec.Schema
				for x := sc; x != nil; x = x.Items {
					chain = append(chain, x)
				}
				for ci, nd := range chain {
					for ei, e := range schemaEdits(nd) {
						w, ok := e.witness(nd)
						if !ok {
							continue
						}
						inst, ok := sample(sc, nil, nd, w, 0)
						if !ok {
							continue
						}
						b := a.Clone()
						bp := allParams(b, oi)[pj]
						bsc := simpleToSchema(&bp.Simple)
						bn := bsc
						for k := 0; k < ci; k++ {
							bn = bn.Items
						}
						schemaEdits(bn)[ei].apply(bn)
						// write the edited validations/type back into the simple chain
						sx := &bp.Simple
						for x := bsc; x != nil && sx != nil; x, sx = x.Items, sx.Items {
							sx.Type, sx.Format, sx.V = x.Type[0], x.Format, x.V
							if sx.Type != "array" {
								sx.Items = nil
							}
							sx.Default = dspec.DVal{}
						}
						if validAgainst(sc, aDoc, inst) && !validAgainst(bsc, aDoc, inst) {
							dep := "depth0"
							if ci > 0 {
								dep = "items"
							}
							out = append(out, c13case{class: gapClass(e.kind, nd, false, ci > 0), kind: e.kind, where: where + "/" + dep, b: b, witness: inst, validated: true})
						}
					}
				}
				if oi < 0 && shadowed(pit, p) {
					continue // an operation re-declares this path-level parameter: editing it changes nothing for that operation
				}
				if !p.Required && p.In != "path" {
					b := a.Clone()
					allParams(b, oi)[pj].Required = true
					out = append(out, c13case{kind: "param.optional-to-required", where: where, b: b, witness: "request without parameter " + p.Name})
				}
				if p.Simple.Type == "array" {
					b := a.Clone()
					bp := allParams(b, oi)[pj]
					if bp.Simple.CFmt == "pipes" {
						bp.Simple.CFmt = "csv"
					} else {
						bp.Simple.CFmt = "pipes"
					}
					out = append(out, c13case{kind: "collectionFormat.change", where: where, b: b, witness: "a|b or a,b"})
				}
				if p.In == "query" && p.Required {
					b := a.Clone()
					allParams(b, oi)[pj].In = "header"
					out = append(out, c13case{kind: "param.location-change", where: where, b: b, witness: "request carrying " + p.Name + " in the query"})
				}
			}
		}
		for oi, op := range pit.Ops {
			// added required parameter
			b := a.Clone()
			b.Paths[pi].Ops[oi].Params = append(b.Paths[pi].Ops[oi].Params, &dspec.Param{Name: "zzrequired", In: "query", Required: true, Simple: dspec.Simple{Type: "string"}})
			out = append(out, c13case{kind: "param.add-required", where: "query", b: b, witness: "any request valid before"})
			// endpoint removed (removing a deprecated endpoint is deliberately classified NonBreaking by the policy table)
			if len(pit.Ops) > 1 && !op.Deprecated && !optionsDeprecated(pit) {
				b := a.Clone()
				b.Paths[pi].Ops = append(b.Paths[pi].Ops[:oi:oi], b.Paths[pi].Ops[oi+1:]...)
				out = append(out, c13case{kind: "endpoint.del", where: "paths", b: b, witness: op.Method + " " + pit.URL})
			}
			// response side
			for ri, r := range op.Responses {
				if len(op.Responses) > 1 {
					b := a.Clone()
					bo := b.Paths[pi].Ops[oi]
					bo.Responses = append(bo.Responses[:ri:ri], bo.Responses[ri+1:]...)
					out = append(out, c13case{kind: "response.del", where: "response", b: b, witness: fmt.Sprint(r.Code), response: true})
				}
				if len(r.Headers) > 0 {
					b := a.Clone()
					br := b.Paths[pi].Ops[oi].Responses[ri]
					br.Headers = br.Headers[1:]
					out = append(out, c13case{kind: "respheader.del", where: "response", b: b, witness: r.Headers[0].Name, response: true})
				}
				if r.Schema != nil && r.Schema.Ref == "" && len(r.Schema.Props) > 0 {
					b := a.Clone()
					bs := b.Paths[pi].Ops[oi].Responses[ri].Schema
					name := bs.Props[0].Name
					bs.Props = bs.Props[1:]
					var req []string
					for _, q := range bs.Required {
						if q != name {
							req = append(req, q)
						}
					}
					bs.Required = req
					out = append(out, c13case{kind: "response.property-del", where: "response", b: b, witness: name, response: true})
				}
				if r.Schema != nil && r.Schema.Ref == "" && len(r.Schema.Type) > 0 && r.Schema.Type[0] == "string" && len(r.Schema.V.Enum) > 0 {
					b := a.Clone()
					bs := b.Paths[pi].Ops[oi].Responses[ri].Schema
					bs.V.Enum = append(bs.V.Enum, dspec.EnumV{Kind: 0, S: "zznew"})
					out = append(out, c13case{kind: "response.enum-add-value", where: "response", b: b, witness: "zznew", response: true})
				}
			}
		}
	}
	if a.HasConsumes && len(a.Consumes) > 1 {
		b := a.Clone()
		b.Consumes = b.Consumes[1:]
		out = append(out, c13case{kind: "consumes.del", where: "spec", b: b, witness: a.Consumes[0]})
	}
	return out
}

// shadowed: some operation of the path item declares a parameter with the same name and location
func shadowed(pit *dspec.PathItem, p *dspec.Param) bool {
	for _, op := range pit.Ops {
		for _, q := range op.Params {
			if q.Name == p.Name && q.In == p.In {
				return true
			}
		}
	}
	return false
}

// gapClass names the documented gap of the analyser a catalogue case falls into (KNOWN_FINDINGS keys), "" if none.
func gapClass(kind string, nd *dspec.Schema, viaAllOf bool, paramItems bool) string {
	switch {
	case paramItems:
		return "array-param-items"
	case viaAllOf:
		return "allOf-member"
	case kind == "enum.add-constraint":
		return "enum.add-constraint"
	case kind == "enum.del-value" && len(nd.Type) > 0 && nd.Type[0] != "string":
		return "enum.del-value:non-string"
	case kind == "exclusiveMaximum.del+maximum.narrow":
		return "exclusive-removed+bound-narrowed"
	}
	return ""
}

func optionsDeprecated(pit *dspec.PathItem) bool {
	for _, op := range pit.Ops {
		if op.Method == "options" && op.Deprecated {
			return true
		}
	}
	return false
}

package main

func cmdProps(args []string) { die("props: not yet implemented") }
func cmdC15(args []string)   { die("c15: not yet implemented") }

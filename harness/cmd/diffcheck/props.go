package main

import (
	"crypto/sha256"
	"encoding/hex"
	"encoding/json"
	"flag"
	"fmt"
	"os"
	"path/filepath"
	"sort"
	"strings"

	"github.com/go-openapi/loads"
	"github.com/go-openapi/strfmt"
	"github.com/go-openapi/validate"
	"github.com/go-swagger/go-swagger/cmd/swagger/commands/diff"
	"gopkg.in/yaml.v3"

	"verif/harness/internal/coqpp"
	"verif/harness/internal/dimpl"
	"verif/harness/internal/dspec"
	"verif/harness/internal/rng"
)

type violation struct {
	Key    string      `json:"key"`    // narrow identity, matched against KNOWN_FINDINGS.jsonl
	What   string      `json:"what"`   // one line
	Input  interface{} `json:"input"`  // replayable input
	Detail interface{} `json:"detail"` // observed vs expected
}

type report struct {
	Evaluations        int            `json:"evaluations"`
	DistinctNontrivial int            `json:"distinct_nontrivial"`
	Rule               string         `json:"rule"`
	Samples            []interface{}  `json:"samples"`
	Coverage           map[string]int `json:"coverage"`
	Violations         []violation    `json:"violations"`
	Skipped            map[string]int `json:"skipped"`
}

func (r *report) write(path string) {
	if r.Violations == nil {
		r.Violations = []violation{}
	}
	b, _ := json.MarshalIndent(r, "", " ")
	if err := os.WriteFile(path, b, 0o644); err != nil {
		die("%v", err)
	}
}

func hashOf(b ...[]byte) string {
	h := sha256.New()
	for _, x := range b {
		h.Write(x)
		h.Write([]byte{0})
	}
	return hex.EncodeToString(h.Sum(nil))[:16]
}

func isValidSpec(b []byte) bool {
	doc, err := loads.Analyzed(json.RawMessage(b), "")
	if err != nil {
		return false
	}
	return validate.Spec(doc, strfmt.Default) == nil
}

// reserialise: same document as YAML, with parameter, enum, required, tag and consumes/produces lists in reverse order.
func reserialise(sp *dspec.Spec) *dspec.Spec {
	c := sp.Clone()
	rev := func(xs []string) {
		for i, j := 0, len(xs)-1; i < j; i, j = i+1, j-1 {
			xs[i], xs[j] = xs[j], xs[i]
		}
	}
	var revSchema func(x *dspec.Schema)
	revVals := func(v *dspec.Vals) {
		for i, j := 0, len(v.Enum)-1; i < j; i, j = i+1, j-1 {
			v.Enum[i], v.Enum[j] = v.Enum[j], v.Enum[i]
		}
	}
	revSchema = func(x *dspec.Schema) {
		if x == nil {
			return
		}
		revVals(&x.V)
		rev(x.Required)
		for i, j := 0, len(x.Props)-1; i < j; i, j = i+1, j-1 {
			x.Props[i], x.Props[j] = x.Props[j], x.Props[i]
		}
		for _, p := range x.Props {
			revSchema(p.Schema)
		}
		revSchema(x.Items)
		for _, a := range x.AllOf {
			revSchema(a)
		}
	}
	var revSimple func(x *dspec.Simple)
	revSimple = func(x *dspec.Simple) {
		revVals(&x.V)
		if x.Items != nil {
			revSimple(x.Items)
		}
	}
	revParams := func(ps []*dspec.Param) {
		for i, j := 0, len(ps)-1; i < j; i, j = i+1, j-1 {
			ps[i], ps[j] = ps[j], ps[i]
		}
		for _, p := range ps {
			revSchema(p.Schema)
			revSimple(&p.Simple)
		}
	}
	rev(c.Consumes)
	rev(c.Produces)
	rev(c.Schemes)
	for _, pi := range c.Paths {
		revParams(pi.Params)
		for _, op := range pi.Ops {
			rev(op.Tags)
			revParams(op.Params)
			for _, r := range op.Responses {
				revSchema(r.Schema)
				for i := range r.Headers {
					revSimple(&r.Headers[i].S)
				}
			}
		}
	}
	for _, d := range c.Defs {
		revSchema(d.Schema)
	}
	return c
}

func toYAML(jsonDoc []byte) []byte {
	var v interface{}
	if err := json.Unmarshal(jsonDoc, &v); err != nil {
		panic(err)
	}
	b, err := yaml.Marshal(v)
	if err != nil {
		panic(err)
	}
	return b
}

// mirror of a change code under argument swap
var mirrorCode = map[diff.SpecChangeCode]diff.SpecChangeCode{
	diff.DeletedProperty: diff.AddedProperty, diff.AddedProperty: diff.DeletedProperty,
	diff.AddedDescripton: diff.DeletedDescripton, diff.DeletedDescripton: diff.AddedDescripton,
	diff.AddedTag: diff.DeletedTag, diff.DeletedTag: diff.AddedTag,
	diff.DeletedResponse: diff.AddedResponse, diff.AddedResponse: diff.DeletedResponse,
	diff.DeletedEndpoint: diff.AddedEndpoint, diff.AddedEndpoint: diff.DeletedEndpoint,
	diff.WidenedType: diff.NarrowedType, diff.NarrowedType: diff.WidenedType,
	diff.AddedEnumValue: diff.DeletedEnumValue, diff.DeletedEnumValue: diff.AddedEnumValue,
	diff.ChangedOptionalToRequired: diff.ChangedRequiredToOptional, diff.ChangedRequiredToOptional: diff.ChangedOptionalToRequired,
	diff.AddedConsumesFormat: diff.DeletedConsumesFormat, diff.DeletedConsumesFormat: diff.AddedConsumesFormat,
	diff.AddedProducesFormat: diff.DeletedProducesFormat, diff.DeletedProducesFormat: diff.AddedProducesFormat,
	diff.AddedSchemes: diff.DeletedSchemes, diff.DeletedSchemes: diff.AddedSchemes,
	diff.AddedResponseHeader: diff.DeletedResponseHeader, diff.DeletedResponseHeader: diff.AddedResponseHeader,
	diff.DeletedConstraint: diff.AddedConstraint, diff.AddedConstraint: diff.DeletedConstraint,
	diff.DeletedDefinition: diff.AddedDefinition, diff.AddedDefinition: diff.DeletedDefinition,
	diff.AddedDefault: diff.DeletedDefault, diff.DeletedDefault: diff.AddedDefault,
	diff.AddedExample: diff.DeletedExample, diff.DeletedExample: diff.AddedExample,
	diff.DeletedExtension: diff.AddedExtension, diff.AddedExtension: diff.DeletedExtension,
	diff.AddedRequiredProperty: diff.DeletedProperty, // a required property added one way is a property deleted the other way
}

// field-path of a location without type annotations (types legitimately differ between the two directions)
func locPath(d diff.SpecDifference) string {
	var parts []string
	for n := d.DifferenceLocation.Node; n != nil; n = n.ChildNode {
		parts = append(parts, n.Field)
	}
	return fmt.Sprintf("%s|%s|%d|%s", d.DifferenceLocation.URL, d.DifferenceLocation.Method, d.DifferenceLocation.Response, strings.Join(parts, "."))
}

func mirrorKey(d diff.SpecDifference, mirrored bool) string {
	c := d.Code
	if c == diff.DeletedDeprecatedEndpoint {
		c = diff.DeletedEndpoint // same direction, different severity
	}
	if mirrored {
		if m, ok := mirrorCode[c]; ok {
			c = m
		}
	}
	// AddedRequiredProperty and AddedProperty both mirror DeletedProperty: normalise
	if c == diff.AddedRequiredProperty {
		c = diff.AddedProperty
	}
	// deleting a parameter is DeletedOptionalParam/DeletedRequiredParam; adding is AddedOptionalParam/AddedRequiredParam
	switch c {
	case diff.DeletedOptionalParam:
		if mirrored {
			c = diff.AddedOptionalParam
		}
	case diff.DeletedRequiredParam:
		if mirrored {
			c = diff.AddedRequiredParam
		}
	case diff.AddedOptionalParam:
		if mirrored {
			c = diff.DeletedOptionalParam
		}
	case diff.AddedRequiredParam:
		if mirrored {
			c = diff.DeletedRequiredParam
		}
	}
	return fmt.Sprintf("%s#%d", locPath(d), int(c))
}

func multiset(keys []string) map[string]int {
	m := map[string]int{}
	for _, k := range keys {
		m[k]++
	}
	return m
}

func msDiff(a, b map[string]int) (onlyA, onlyB []string) {
	for k, n := range a {
		for i := b[k]; i < n; i++ {
			onlyA = append(onlyA, k)
		}
	}
	for k, n := range b {
		for i := a[k]; i < n; i++ {
			onlyB = append(onlyB, k)
		}
	}
	sort.Strings(onlyA)
	sort.Strings(onlyB)
	return
}

func codeName(c int) string {
	// stable names independent of the (mutable) string tables: use the Go constant's JSON via a fixed table of indices
	return fmt.Sprintf("code%d", c)
}

// cmdProps: property-level oracles run directly on the implementation (C12 identity/totality, C14 mirror).
func cmdProps(args []string) {
	fs := flag.NewFlagSet("props", flag.ExitOnError)
	seed := fs.Uint64("seed", 1, "")
	n := fs.Int("n", 300, "")
	out := fs.String("out", "", "output directory")
	which := fs.String("prop", "C12", "C12 | C14")
	pairsFile := fs.String("pairs", "", "JSON file with a list of {a,b} documents to evaluate instead of generating")
	_ = fs.Parse(args)
	if *out == "" {
		die("props: -out required")
	}
	var fixed []struct {
		A json.RawMessage `json:"a"`
		B json.RawMessage `json:"b"`
	}
	if *pairsFile != "" {
		b, err := os.ReadFile(*pairsFile)
		if err != nil {
			die("%v", err)
		}
		if err := json.Unmarshal(b, &fixed); err != nil {
			die("pairs file: %v", err)
		}
		*n = len(fixed)
	}
	_ = os.MkdirAll(*out, 0o755)
	r := rng.New(*seed)
	pool := dimpl.NewPool()
	defer pool.Close()
	rep := &report{Coverage: map[string]int{}, Skipped: map[string]int{}}
	seen := map[string]bool{}
	switch *which {
	case "C12":
		rep.Rule = "specs from the dspec generator (valid per validate.Spec); identity: Compare(A,A), Compare(A, YAML re-serialisation of A with reversed parameter/enum/required/tag lists) through loads.Spec + DiffCommand; totality: Compare(A,B) for B = A with 1-4 edits or an unrelated spec, run in a child process (panic, fatal stack overflow and 20 s timeout observed). A case is non-trivial when A has at least one definition and one operation with parameters or a response schema; distinct by sha256 of the documents."
		for i := 0; i < *n; i++ {
			if pool.Crashes >= maxCrashes {
				rep.Skipped["stopped-early-after-crashes"]++
				break
			}
			g := &dspec.Gen{R: r.Fork(), Cov: rep.Coverage}
			a, b, kind, edits := genPair(g, i)
			aj, bj := a.JSON(), b.JSON()
			if fixed != nil {
				aj, bj, kind, edits = fixed[i].A, fixed[i].B, "replayed", nil
			}
			if !isValidSpec(aj) {
				rep.Skipped["invalid-A"]++
				continue
			}
			rep.Evaluations++
			h := hashOf(aj, bj)
			if !seen[h] && len(a.Defs) > 0 && len(a.Paths) > 0 {
				seen[h] = true
				rep.DistinctNontrivial++
			}
			// identity on A
			res := pool.Compare(aj, aj)
			if res.Panic != "" {
				rep.Violations = append(rep.Violations, violation{Key: "c12/identity-panic", What: "diff.Compare(A,A) crashed: " + res.Panic, Input: map[string]interface{}{"a": json.RawMessage(aj), "b": json.RawMessage(aj)}, Detail: res.Panic})
			} else if len(res.Diffs) != 0 {
				rep.Violations = append(rep.Violations, violation{Key: "c12/identity-nonempty", What: "diff.Compare(A,A) reports differences", Input: map[string]interface{}{"a": json.RawMessage(aj), "b": json.RawMessage(aj)}, Detail: dimpl.Lines(res)})
			}
			// identity on the re-serialised copy through the command (JSON file vs YAML file)
			if i%3 == 0 && fixed == nil {
				rs := reserialise(a).JSON()
				p1 := filepath.Join(*out, "id_a.json")
				p2 := filepath.Join(*out, "id_b.yaml")
				_ = os.WriteFile(p1, aj, 0o644)
				_ = os.WriteFile(p2, toYAML(rs), 0o644)
				c := pool.CLI(p1, p2, "json", false, "", filepath.Join(*out, "id_out.txt"))
				rep.Coverage["identity:reserialised-yaml"]++
				var ds []json.RawMessage
				_ = json.Unmarshal([]byte(c.Output), &ds)
				if c.Panic != "" || c.Failed || len(ds) != 0 || strings.TrimSpace(c.Output) != "[]" {
					rep.Violations = append(rep.Violations, violation{Key: "c12/reserialised-differs", What: "swagger diff A.json A-reordered.yaml reports a change, fails or crashes",
						Input: map[string]interface{}{"a": json.RawMessage(aj), "b_yaml": string(toYAML(rs))}, Detail: map[string]interface{}{"output": c.Output, "failed": c.Failed, "panic": c.Panic, "err": c.ErrMsg}})
				}
				ct := pool.CLI(p1, p2, "txt", false, "", filepath.Join(*out, "id_out.txt"))
				if ct.Panic != "" || ct.Failed || strings.TrimSpace(ct.Output) != "No changes identified" {
					rep.Violations = append(rep.Violations, violation{Key: "c12/reserialised-differs-text", What: "swagger diff (text) A.json A-reordered.yaml does not say 'No changes identified' with exit 0",
						Input: map[string]interface{}{"a": json.RawMessage(aj), "b_yaml": string(toYAML(rs))}, Detail: map[string]interface{}{"output": ct.Output, "failed": ct.Failed, "panic": ct.Panic}})
				}
			}
			// totality on the pair
			if kind != "identity" && isValidSpec(bj) {
				rep.Coverage["totality:"+kind]++
				for _, e := range edits {
					rep.Coverage["edit:"+e]++
				}
				for dir, pr := range [][2][]byte{{aj, bj}, {bj, aj}} {
					res := pool.Compare(pr[0], pr[1])
					if res.Panic != "" {
						key := "c12/totality-panic"
						if strings.HasPrefix(res.Panic, "CRASH") {
							key = "c12/totality-crash-or-hang"
						}
						rep.Violations = append(rep.Violations, violation{Key: key, What: "diff.Compare(A,B) did not terminate normally: " + res.Panic,
							Input: map[string]interface{}{"a": json.RawMessage(pr[0]), "b": json.RawMessage(pr[1]), "direction": dir, "edits": edits}, Detail: res.Panic})
					}
				}
			}
			if len(rep.Samples) < 3 && kind == "edited" {
				rep.Samples = append(rep.Samples, map[string]interface{}{"kind": kind, "edits": edits, "a": json.RawMessage(aj), "b": json.RawMessage(bj)})
			}
		}
	case "C14":
		rep.Rule = "pairs (A,B) of valid specs: B = A with 1-4 elementary edits, or unrelated; observable: multiset of (url, method, response, field path, change code) of diff.Compare(A,B) vs the mirrored multiset of diff.Compare(B,A), and the two counts. Non-trivial when the report has at least one entry; distinct by sha256 of the pair."
		for i := 0; i < *n; i++ {
			if pool.Crashes >= maxCrashes {
				rep.Skipped["stopped-early-after-crashes"]++
				break
			}
			g := &dspec.Gen{R: r.Fork(), Cov: rep.Coverage}
			a, b, kind, edits := genPair(g, i*8+3+i%5) // skip identity/unrelated-only slots mostly
			aj, bj := a.JSON(), b.JSON()
			if fixed != nil {
				aj, bj, kind, edits = fixed[i].A, fixed[i].B, "replayed", nil
			} else if i < len(c14Crafted) {
				aj, bj, kind, edits = []byte(c14Crafted[i][0]), []byte(c14Crafted[i][1]), "crafted", nil
			}
			if !isValidSpec(aj) || !isValidSpec(bj) {
				rep.Skipped["invalid"]++
				continue
			}
			ab := pool.Compare(aj, bj)
			ba := pool.Compare(bj, aj)
			rep.Evaluations++
			if ab.Panic != "" || ba.Panic != "" {
				rep.Skipped["panic (C12's business)"]++
				continue
			}
			h := hashOf(aj, bj)
			if !seen[h] && len(ab.Diffs) > 0 {
				seen[h] = true
				rep.DistinctNontrivial++
			}
			for _, e := range edits {
				rep.Coverage["edit:"+e]++
			}
			var k1, k2 []string
			for _, d := range ab.Diffs {
				k1 = append(k1, mirrorKey(d, false))
			}
			for _, d := range ba.Diffs {
				k2 = append(k2, mirrorKey(d, true))
			}
			onlyAB, onlyBA := msDiff(multiset(k1), multiset(k2))
			if len(onlyAB) > 0 || len(onlyBA) > 0 {
				// one record per location, keyed by the codes that do not mirror there
				locs := map[string][2][]string{}
				for _, k := range onlyAB {
					l := k[:strings.LastIndex(k, "#")]
					e := locs[l]
					e[0] = append(e[0], k)
					locs[l] = e
				}
				for _, k := range onlyBA {
					l := k[:strings.LastIndex(k, "#")]
					e := locs[l]
					e[1] = append(e[1], k)
					locs[l] = e
				}
				var ls []string
				for l := range locs {
					ls = append(ls, l)
				}
				sort.Strings(ls)
				for _, l := range ls {
					key := classifyMirror(ab.Diffs, ba.Diffs, locs[l][0], locs[l][1])
					rep.Violations = append(rep.Violations, violation{Key: key, What: "diff(A,B) is not the mirror of diff(B,A) at " + l,
						Input:  map[string]interface{}{"a": json.RawMessage(aj), "b": json.RawMessage(bj), "kind": kind, "edits": edits},
						Detail: map[string]interface{}{"location": l, "only_in_AB": locs[l][0], "only_in_mirrored_BA": locs[l][1], "AB": dimpl.Lines(ab), "BA": dimpl.Lines(ba)}})
				}
			}
			if len(rep.Samples) < 3 && len(ab.Diffs) > 0 {
				rep.Samples = append(rep.Samples, map[string]interface{}{"edits": edits, "AB": dimpl.Lines(ab), "BA": dimpl.Lines(ba)})
			}
		}
	case "C13":
		rep.Rule = "base specs from the dspec generator (valid per validate.Spec) x the catalogue of elementary request-narrowing / response-breaking edits (cmd/diffcheck/c13.go) at every site: non-body parameters incl. path-level and items, body schema nodes at any depth through properties, items, allOf and $ref. Value-level edits carry a witness instance that go-openapi/validate accepts under the old schema and rejects under the new one; oracle: diff.Compare(A,B) contains a Breaking entry. Non-trivial: every catalogue case (each is one narrowing edit with its witness); distinct by sha256 of (A,B)."
		if fixed != nil {
			for i := range fixed {
				res := pool.Compare(fixed[i].A, fixed[i].B)
				rep.Evaluations++
				if res.Panic == "" && !hasBreaking(res) {
					rep.Violations = append(rep.Violations, violation{Key: "c13/unreported[replayed]", What: "replayed pair: no Breaking entry", Input: map[string]interface{}{"a": fixed[i].A, "b": fixed[i].B}, Detail: dimpl.Lines(res)})
				}
			}
			break
		}
		// crafted pairs: one request-narrowing edit each, in a place the random bases reach rarely
		for _, cp := range c13Crafted {
			res := pool.Compare([]byte(cp[1]), []byte(cp[2]))
			rep.Evaluations++
			rep.DistinctNontrivial++
			rep.Coverage["crafted:"+cp[0]]++
			if res.Panic == "" && !hasBreaking(res) {
				rep.Violations = append(rep.Violations, violation{Key: "c13/unreported[" + cp[0] + "]", What: "a breaking edit (" + cp[0] + ") is reported without any Breaking entry",
					Input: map[string]interface{}{"a": json.RawMessage(cp[1]), "b": json.RawMessage(cp[2]), "edit": cp[0]}, Detail: dimpl.Lines(res)})
			}
		}
		for i := 0; rep.Evaluations < *n && i < *n && pool.Crashes < maxCrashes; i++ {
			g := &dspec.Gen{R: r.Fork(), Cov: map[string]int{}}
			a := g.Spec()
			aj := a.JSON()
			if !isValidSpec(aj) {
				rep.Skipped["invalid-A"]++
				continue
			}
			aDoc, _ := dimpl.Load(aj)
			for _, c := range c13Catalogue(a, aDoc) {
				bj := c.b.JSON()
				res := pool.Compare(aj, bj)
				if res.Panic == "" && !hasBreaking(res) && !isValidSpec(bj) {
					rep.Skipped["invalid-B"]++
					continue
				}
				rep.Evaluations++
				cell := c.kind + "@" + c.where
				rep.Coverage[cell]++
				h := hashOf(aj, bj)
				if !seen[h] {
					seen[h] = true
					rep.DistinctNontrivial++
				}
				if res.Panic != "" {
					rep.Skipped["panic (C12's business)"]++
					continue
				}
				if !hasBreaking(res) {
					key := cell
					if c.class != "" {
						key = c.class
					} else if len(res.Diffs) > 0 && !c.response {
						onlyResp := true
						for _, d := range res.Diffs {
							if d.DifferenceLocation.Response == 0 {
								onlyResp = false
							}
						}
						if onlyResp {
							key = "definition-shared-with-response"
						}
					}
					rep.Violations = append(rep.Violations, violation{Key: "c13/unreported[" + key + "]", What: "a breaking edit (" + cell + ") is reported without any Breaking entry",
						Input:  map[string]interface{}{"a": json.RawMessage(aj), "b": json.RawMessage(bj), "edit": cell, "witness": c.witness, "witness_validated_by_reference_validator": c.validated},
						Detail: dimpl.Lines(res)})
				}
				if len(rep.Samples) < 3 && c.validated {
					rep.Samples = append(rep.Samples, map[string]interface{}{"edit": cell, "witness": c.witness, "report": dimpl.Lines(res)})
				}
			}
		}
	default:
		die("props: unknown property %s", *which)
	}
	rep.write(filepath.Join(*out, "props.json"))
	fmt.Printf("props %s: %d evaluations, %d distinct non-trivial, %d violations\n", *which, rep.Evaluations, rep.DistinctNontrivial, len(rep.Violations))
}

// classifyMirror gives an asymmetry a narrow key: the set of (code, direction) involved.
func classifyMirror(ab, ba diff.SpecDifferences, onlyAB, onlyBA []string) string {
	codes := map[string]bool{}
	for _, k := range onlyAB {
		codes["ab:"+k[strings.LastIndex(k, "#")+1:]] = true
	}
	for _, k := range onlyBA {
		codes["ba:"+k[strings.LastIndex(k, "#")+1:]] = true
	}
	var ks []string
	for k := range codes {
		ks = append(ks, k)
	}
	sort.Strings(ks)
	return "c14/asym[" + strings.Join(ks, ",") + "]"
}

// ---------- C15 ----------

var textHeaders = map[string]bool{
	"NON-BREAKING CHANGES:": true, "=====================": true, "NON-BREAKING CHANGES WITH WARNING:": true,
	"==================================": true, "BREAKING CHANGES:": true, "=================": true, "": true,
	"No changes identified": true, "compatibility test OK. No breaking changes identified.": true,
}

func entryLines(out string) []string {
	var ls []string
	for _, l := range strings.Split(out, "\n") {
		if textHeaders[l] || strings.HasPrefix(l, "compatibility test FAILED:") {
			continue
		}
		ls = append(ls, l)
	}
	return ls
}

func strsCoq(xs []string) string { return coqpp.StrList(xs) }

func cmdC15(args []string) {
	fs := flag.NewFlagSet("c15", flag.ExitOnError)
	seed := fs.Uint64("seed", 1, "")
	n := fs.Int("n", 120, "")
	out := fs.String("out", "", "output directory")
	shards := fs.Int("shards", 8, "")
	_ = fs.Parse(args)
	if *out == "" {
		die("c15: -out required")
	}
	_ = os.MkdirAll(*out, 0o755)
	r := rng.New(*seed)
	pool := dimpl.NewPool()
	defer pool.Close()
	rep := &report{Coverage: map[string]int{}, Skipped: map[string]int{}}
	rep.Rule = "pairs (A,B) from the dspec generator; for each: `swagger diff` (DiffCommand.Execute, the function main() calls) with -f json, text, -b; the JSON report fed back verbatim as ignore file (all entries / a random subset / none) in all three formats. Non-trivial: the report has at least 2 entries and the ignore subset is a proper non-empty subset; distinct by sha256 of (pair, subset)."
	seen := map[string]bool{}
	bufs := make([][]string, *shards)
	ncase := 0
	oldP, newP := filepath.Join(*out, "old.json"), filepath.Join(*out, "new.json")
	ignP, dst := filepath.Join(*out, "ignore.json"), filepath.Join(*out, "out.txt")
	addV := func(key, what string, aj, bj []byte, ignore string, detail interface{}) {
		rep.Violations = append(rep.Violations, violation{Key: key, What: what,
			Input: map[string]interface{}{"a": json.RawMessage(aj), "b": json.RawMessage(bj), "ignore_file": ignore}, Detail: detail})
	}
	for i := 0; i < *n; i++ {
		g := &dspec.Gen{R: r.Fork(), Cov: rep.Coverage, Lenient: i%4 == 3}
		a, b, kind, _ := genPair(g, i*8+4+i%3)
		if i%10 == 0 {
			a, b, kind, _ = genPair(g, 0) // identity
		}
		aj, bj := a.JSON(), b.JSON()
		if i < len(c15Crafted) {
			aj, bj, kind = []byte(c15Crafted[i][0]), []byte(c15Crafted[i][1]), "crafted"
		}
		_ = os.WriteFile(oldP, aj, 0o644)
		_ = os.WriteFile(newP, bj, 0o644)
		js := pool.CLI(oldP, newP, "json", false, "", dst)
		if js.Panic != "" {
			rep.Skipped["panic (C12's business)"]++
			continue
		}
		var all diff.SpecDifferences
		if err := json.Unmarshal([]byte(js.Output), &all); err != nil {
			addV("c15/json-report-unreadable", "the JSON report cannot be read back as an ignore file: "+err.Error(), aj, bj, "", js.Output)
			continue
		}
		rep.Coverage["kind:"+kind]++
		// ignore sets: none, all, random subset
		subset := diff.SpecDifferences{}
		for _, d := range all {
			if g.R.Chance(1, 2) {
				subset = append(subset, d)
			}
		}
		sets := map[string]diff.SpecDifferences{"none": nil, "all": all, "subset": subset}
		if (i%3 == 0 || i < len(c15Crafted)) && len(all) >= 2 && len(all) <= 10 {
			// every single entry on its own: an ignore entry must remove its own line and no other (entries that differ only
			// in how deep their node is, or only in their info text, are different entries)
			for k := range all {
				sets[fmt.Sprintf("single-%02d", k)] = diff.SpecDifferences{all[k]}
			}
		}
		whichs := make([]string, 0, len(sets))
		for w := range sets {
			whichs = append(whichs, w)
		}
		sort.Strings(whichs)
		for _, which := range whichs {
			ig := sets[which]
			subset := subset
			if strings.HasPrefix(which, "single-") {
				subset = ig
			}
			ignore := ""
			igText := ""
			if which != "none" {
				var rawAll []json.RawMessage
				_ = json.Unmarshal([]byte(js.Output), &rawAll)
				// the ignore file is the verbatim JSON report, or the verbatim entries of the subset
				if which == "all" {
					igText = js.Output
				} else {
					var keep []json.RawMessage
					ki := 0
					for idx, d := range all {
						if ki < len(subset) && d.Matches(subset[ki]) && dimpl.Key(d) == dimpl.Key(subset[ki]) {
							keep = append(keep, rawAll[idx])
							ki++
						}
					}
					if keep == nil {
						keep = []json.RawMessage{}
					}
					bb, _ := json.MarshalIndent(keep, "", "  ")
					igText = string(bb)
				}
				_ = os.WriteFile(ignP, []byte(igText), 0o644)
				ignore = ignP
			}
			rj := pool.CLI(oldP, newP, "json", false, ignore, dst)
			rt := pool.CLI(oldP, newP, "txt", false, ignore, dst)
			rb := pool.CLI(oldP, newP, "txt", true, ignore, dst)
			rep.Evaluations++
			h := hashOf(aj, bj, []byte(igText))
			if !seen[h] && len(all) >= 2 && (which != "subset" || (len(subset) > 0 && len(subset) < len(all))) {
				seen[h] = true
				rep.DistinctNontrivial++
			}
			if strings.HasPrefix(which, "single-") {
				rep.Coverage["ignore:single"]++
			} else {
				rep.Coverage["ignore:"+which]++
			}
			if rj.Panic != "" || rt.Panic != "" || rb.Panic != "" {
				addV("c15/panic", "swagger diff panicked in report mode", aj, bj, igText, []string{rj.Panic, rt.Panic, rb.Panic})
				continue
			}
			// expected remaining entries: all minus the ignored ones (exact, order kept)
			var expect diff.SpecDifferences
			for _, d := range all {
				ignored := false
				for _, x := range ig {
					if dimpl.Key(x) == dimpl.Key(d) {
						ignored = true
					}
				}
				if !ignored {
					expect = append(expect, d)
				}
			}
			var got diff.SpecDifferences
			if err := json.Unmarshal([]byte(rj.Output), &got); err != nil {
				addV("c15/json-report-unreadable", "JSON report with ignore file unreadable", aj, bj, igText, rj.Output)
				continue
			}
			var ke, kg []string
			for _, d := range expect {
				ke = append(ke, dimpl.Key(d))
			}
			for _, d := range got {
				kg = append(kg, dimpl.Key(d))
			}
			if strings.Join(ke, "\n") != strings.Join(kg, "\n") {
				key := "c15/ignore-subset-inexact"
				if which == "all" {
					key = "c15/ignore-all-not-empty"
				}
				addV(key, "ignoring "+which+" of the reported differences does not remove exactly those entries", aj, bj, igText,
					map[string]interface{}{"expected": ke, "got": kg})
			}
			// exit status
			breaking := 0
			for _, d := range expect {
				if d.Compatibility == diff.Breaking {
					breaking++
				}
			}
			if rt.Failed != (breaking > 0) {
				addV("c15/exit-status-text", fmt.Sprintf("text mode: exit non-zero=%v with %d non-ignored breaking differences", rt.Failed, breaking), aj, bj, igText, rt.Output)
			}
			if rb.Failed != (breaking > 0) {
				addV("c15/exit-status-breaking-only", fmt.Sprintf("-b mode: exit non-zero=%v with %d non-ignored breaking differences", rb.Failed, breaking), aj, bj, igText, rb.Output)
			}
			if rj.Failed != (breaking > 0) {
				addV("c15/exit-status-json", fmt.Sprintf("-f json: exit non-zero=%v with %d non-ignored breaking differences", rj.Failed, breaking), aj, bj, igText, nil)
			}
			// reports describe the same set
			var es, bs []string
			for _, d := range expect {
				es = append(es, d.String())
				if d.Compatibility == diff.Breaking {
					bs = append(bs, d.String())
				}
			}
			tl, bl := entryLines(rt.Output), entryLines(rb.Output)
			oa, ob := msDiff(multiset(es), multiset(tl))
			if len(oa)+len(ob) > 0 {
				addV("c15/text-report-differs-from-json", "text report and JSON report describe different sets", aj, bj, igText, map[string]interface{}{"only_json": oa, "only_text": ob})
			}
			oa, ob = msDiff(multiset(bs), multiset(bl))
			if len(oa)+len(ob) > 0 {
				addV("c15/breaking-report-differs", "breaking-only report is not the Breaking subset", aj, bj, igText, map[string]interface{}{"only_json": oa, "only_b": ob})
			}
			if len(expect) == 0 && which == "all" && (strings.TrimSpace(rt.Output) != "No changes identified" || strings.TrimSpace(rj.Output) != "[]") {
				addV("c15/ignore-all-not-empty", "ignoring everything does not yield an empty report", aj, bj, igText, map[string]interface{}{"text": rt.Output, "json": rj.Output})
			}
			// model correspondence case
			sh := ncase % *shards
			bufs[sh] = append(bufs[sh], fmt.Sprintf("(* rcase %d *) {| rc_ds := %s; rc_ig := %s; rc_text := %s; rc_breaking := %s; rc_njson := %d; rc_exit_text := %s; rc_exit_break := %s; rc_exit_json := %s |}",
				ncase, dimpl.DiffsCoq(all), dimpl.DiffsCoq(ig), strsCoq(tl), strsCoq(bl), len(got), coqpp.Bool(rt.Failed), coqpp.Bool(rb.Failed), coqpp.Bool(rj.Failed)))
			ncase++
			if len(rep.Samples) < 3 && which == "subset" && len(all) > 1 {
				rep.Samples = append(rep.Samples, map[string]interface{}{"report_entries": len(all), "ignored": len(subset), "text_report": rt.Output, "exit_text": rt.Failed, "exit_json": rj.Failed})
			}
		}
	}
	for sh := 0; sh < *shards; sh++ {
		var sb strings.Builder
		sb.WriteString(header)
		sb.WriteString("Definition cases : list rcase := [\n")
		sb.WriteString(strings.Join(bufs[sh], ";\n"))
		sb.WriteString("\n].\nDefinition M := Eval vm_compute in run_reports cases.\nPrint M.\n")
		_ = os.WriteFile(filepath.Join(*out, fmt.Sprintf("cases_%02d.v", sh)), []byte(sb.String()), 0o644)
	}
	rep.Coverage["model-cases"] = ncase
	rep.write(filepath.Join(*out, "props.json"))
	fmt.Printf("c15: %d evaluations, %d distinct non-trivial, %d violations, %d model cases\n", rep.Evaluations, rep.DistinctNontrivial, len(rep.Violations), ncase)
}

// c13Crafted: (edit, old, new). A request body composed of a base (allOf) and own properties beside it: a property of the
// base becomes required / has its upper bound lowered / loses an enum value; the composed schema requires a new own property
var c13Crafted = func() [][3]string {
	doc := func(base, own string) string {
		return `{"swagger":"2.0","info":{"title":"t","version":"1"},"paths":{"/pets":{"post":{"operationId":"addPet","parameters":[{"name":"pet","in":"body","required":true,"schema":{"$ref":"#/definitions/NewPet"}}],"responses":{"201":{"description":"created"}}}}},"definitions":{"PetBase":` + base + `,"NewPet":{"type":"object","allOf":[{"$ref":"#/definitions/PetBase"}],` + own + `}}}`
	}
	b0 := `{"type":"object","properties":{"name":{"type":"string","maxLength":20,"enum":["a","b","c"]},"age":{"type":"integer","maximum":30}}}`
	o0 := `"properties":{"tag":{"type":"string"}}`
	return [][3]string{
		{"allOf-base-beside-properties:property-becomes-required", doc(b0, o0), doc(`{"type":"object","required":["name"],"properties":{"name":{"type":"string","maxLength":20,"enum":["a","b","c"]},"age":{"type":"integer","maximum":30}}}`, o0)},
		{"allOf-base-beside-properties:maximum-lowered", doc(b0, o0), doc(`{"type":"object","properties":{"name":{"type":"string","maxLength":20,"enum":["a","b","c"]},"age":{"type":"integer","maximum":10}}}`, o0)},
		{"allOf-base-beside-properties:enum-value-removed", doc(b0, o0), doc(`{"type":"object","properties":{"name":{"type":"string","maxLength":20,"enum":["a","b"]},"age":{"type":"integer","maximum":30}}}`, o0)},
		{"allOf-base-beside-properties:own-property-becomes-required", doc(b0, o0), doc(b0, `"required":["tag"],"properties":{"tag":{"type":"string"}}`)},
	}
}()

// c14Crafted: pairs built around the bookkeeping of the analyser rather than around one edit: a base definition that only an
// allOf of an unreferenced definition names is renamed (the composing definition sorts before its base and after it);
// a definition used by a request body and by a response; a parameter moved from the path item to the operation
var c14Crafted = [][2]string{{
	`{"swagger":"2.0","info":{"title":"t","version":"1"},"paths":{},"definitions":{"Cat":{"allOf":[{"$ref":"#/definitions/Pet"}],"properties":{"claws":{"type":"integer"}}},"Pet":{"type":"object","properties":{"name":{"type":"string"}}},"Zebra":{"allOf":[{"$ref":"#/definitions/Horse"},{"type":"object","properties":{"stripes":{"type":"integer"}}}]},"Horse":{"type":"object","properties":{"name":{"type":"string"}}}}}`,
	`{"swagger":"2.0","info":{"title":"t","version":"1"},"paths":{},"definitions":{"Cat":{"allOf":[{"$ref":"#/definitions/Animal"}],"properties":{"claws":{"type":"integer"}}},"Animal":{"type":"object","properties":{"name":{"type":"string"}}},"Zebra":{"allOf":[{"$ref":"#/definitions/Equid"},{"type":"object","properties":{"stripes":{"type":"integer"}}}]},"Equid":{"type":"object","properties":{"name":{"type":"string"}}}}}`,
}, {
	`{"swagger":"2.0","info":{"title":"t","version":"1"},"paths":{"/pets/{id}":{"parameters":[{"name":"id","in":"path","required":true,"type":"string"},{"name":"trace","in":"header","type":"string"}],"get":{"operationId":"getPet","responses":{"200":{"description":"ok","schema":{"$ref":"#/definitions/Pet"}}}},"put":{"operationId":"putPet","parameters":[{"name":"body","in":"body","schema":{"$ref":"#/definitions/Pet"}}],"responses":{"204":{"description":"done"}}}}},"definitions":{"Pet":{"type":"object","properties":{"name":{"type":"string"},"tag":{"type":"string"}}}}}`,
	`{"swagger":"2.0","info":{"title":"t","version":"1"},"paths":{"/pets/{id}":{"parameters":[{"name":"id","in":"path","required":true,"type":"string"}],"get":{"operationId":"getPet","parameters":[{"name":"trace","in":"header","type":"string"}],"responses":{"200":{"description":"ok","schema":{"$ref":"#/definitions/Pet"}}}},"put":{"operationId":"putPet","parameters":[{"name":"body","in":"body","schema":{"$ref":"#/definitions/Pet"}}],"responses":{"204":{"description":"done"}}}}},"definitions":{"Pet":{"type":"object","required":["name"],"properties":{"name":{"type":"string"}}}}}`,
}}

// c15Crafted: pairs whose reports hold entries that agree in everything but the depth of their node (a property and a
// property of it both become required; a description added to an operation and to one of its parameters)
var c15Crafted = [][2]string{{
	`{"swagger":"2.0","info":{"title":"t","version":"1"},"paths":{"/pets":{"post":{"operationId":"addPet","parameters":[{"name":"limit","in":"query","type":"integer"},{"name":"pet","in":"body","schema":{"type":"object","properties":{"owner":{"type":"object","properties":{"email":{"type":"string"},"address":{"type":"object","properties":{"zip":{"type":"string"}}}}},"name":{"type":"string"}}}}],"responses":{"200":{"description":"ok"}}}}}}`,
	`{"swagger":"2.0","info":{"title":"t","version":"1"},"paths":{"/pets":{"post":{"operationId":"addPet","description":"adds a pet","parameters":[{"name":"limit","in":"query","type":"integer","description":"how many"},{"name":"pet","in":"body","schema":{"type":"object","required":["owner"],"properties":{"owner":{"type":"object","required":["email","address"],"properties":{"email":{"type":"string"},"address":{"type":"object","required":["zip"],"properties":{"zip":{"type":"string"}}}}},"name":{"type":"string"}}}}],"responses":{"200":{"description":"ok"}}}}}}`,
}, {
	// entries that agree in every field: two headers of one response change their type the same way (the location of a header
	// difference does not name the header), the same extension is added to two tags, to two security definitions
	`{"swagger":"2.0","info":{"title":"t","version":"1"},"tags":[{"name":"a"},{"name":"b"}],"securityDefinitions":{"k1":{"type":"apiKey","in":"header","name":"X-K1"},"k2":{"type":"apiKey","in":"header","name":"X-K2"}},"paths":{"/pets":{"get":{"operationId":"listPets","responses":{"200":{"description":"ok","headers":{"X-Rate-Limit":{"type":"integer"},"X-Rate-Remaining":{"type":"integer"}}}}}}}}`,
	`{"swagger":"2.0","info":{"title":"t","version":"1"},"tags":[{"name":"a","x-owner":"team"},{"name":"b","x-owner":"team"}],"securityDefinitions":{"k1":{"type":"apiKey","in":"header","name":"X-K1","x-internal":true},"k2":{"type":"apiKey","in":"header","name":"X-K2","x-internal":true}},"paths":{"/pets":{"get":{"operationId":"listPets","responses":{"200":{"description":"ok","headers":{"X-Rate-Limit":{"type":"boolean"},"X-Rate-Remaining":{"type":"boolean"}}}}}}}}`,
}}

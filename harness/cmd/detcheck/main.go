// detcheck: harness for C07 — every command's output depends only on its inputs.
//
//	detcheck runs  : repeats every command N times in fresh processes and compares outputs byte for byte
//	detcheck conc  : (built with -race) K concurrent library generations on distinct targets vs sequential results
package main

import (
	"crypto/sha256"
	"encoding/hex"
	"encoding/json"
	"flag"
	"fmt"
	"io"
	"log"
	"os"
	"os/exec"
	"path/filepath"
	"sort"
	"strings"
	"sync"
	"time"

	"github.com/go-swagger/go-swagger/generator"

	"verif/harness/internal/gorun"
)

func die(format string, a ...interface{}) {
	fmt.Fprintf(os.Stderr, "detcheck: "+format+"\n", a...)
	os.Exit(2)
}

type violation struct {
	Key    string      `json:"key"`
	What   string      `json:"what"`
	Input  interface{} `json:"input"`
	Detail interface{} `json:"detail"`
}

// wideSpec: every Go map the commands range over gets several entries (definitions, operations, tags, parameters,
// responses, headers, security schemes and scopes, media types - including ones several table entries match)
func wideSpec(variant int) []byte {
	defs := map[string]interface{}{}
	names := []string{"Alpha", "beta", "Gamma_delta", "epsilon-zeta", "Eta", "theta", "Iota", "kappa", "Lambda", "mu", "Nu", "xi"}
	for i, n := range names {
		props := map[string]interface{}{}
		for j, p := range []string{"id", "name", "tags", "created_at", "kind", "parent", "score", "meta"} {
			switch j % 4 {
			case 0:
				props[p] = map[string]interface{}{"type": "integer", "format": "int64", "minimum": i}
			case 1:
				props[p] = map[string]interface{}{"type": "string", "maxLength": 10 + i + variant, "enum": []string{"a", "b", "c"}}
			case 2:
				// references form a chain, not a ring: go-openapi/validate is exponential on rings of array references
				if i+1 < len(names) && j == 2 {
					props[p] = map[string]interface{}{"type": "array", "items": map[string]interface{}{"$ref": "#/definitions/" + names[i+1]}}
				} else {
					props[p] = map[string]interface{}{"type": "array", "items": map[string]interface{}{"type": "string"}}
				}
			default:
				props[p] = map[string]interface{}{"type": "object", "additionalProperties": map[string]interface{}{"type": "string"}}
			}
		}
		defs[n] = map[string]interface{}{"type": "object", "required": []string{"id", "name"}, "properties": props}
	}
	defs["Poly"] = map[string]interface{}{"type": "object", "discriminator": "kind", "required": []string{"kind"}, "properties": map[string]interface{}{"kind": map[string]interface{}{"type": "string"}}}
	for _, sub := range []string{"PolyA", "PolyB", "PolyC"} {
		defs[sub] = map[string]interface{}{"allOf": []interface{}{map[string]interface{}{"$ref": "#/definitions/Poly"}, map[string]interface{}{"type": "object", "properties": map[string]interface{}{"x" + sub: map[string]interface{}{"type": "string"}}}}}
	}
	paths := map[string]interface{}{}
	medias := []string{"application/json", "application/xml", "text/plain", "application/gzip", "application/x-gzip", "application/x-tar", "application/octet-stream", "application/vnd.api+json", "text/csv", "application/x-yaml"}
	for i := 0; i < 10; i++ {
		ops := map[string]interface{}{}
		for k, m := range []string{"get", "post", "put", "delete"} {
			if (i+k)%3 == 0 {
				continue
			}
			params := []interface{}{
				map[string]interface{}{"name": "limit", "in": "query", "type": "integer", "default": 10},
				map[string]interface{}{"name": "Limit-Rate", "in": "header", "type": "string"},
				map[string]interface{}{"name": "sort", "in": "query", "type": "array", "items": map[string]interface{}{"type": "string"}, "collectionFormat": "csv"},
				map[string]interface{}{"name": "q", "in": "query", "type": "string", "enum": []string{"x", "y"}},
			}
			if m == "post" || m == "put" {
				params = append(params, map[string]interface{}{"name": "body", "in": "body", "schema": map[string]interface{}{"$ref": "#/definitions/" + names[i%len(names)]}})
			}
			op := map[string]interface{}{
				"operationId": fmt.Sprintf("%sThing%d", m, i), "tags": []string{[]string{"things", "stuff", "admin"}[(i+k)%3]},
				"parameters": params,
				"produces":   []string{medias[(i+k)%len(medias)], medias[(i+k+3)%len(medias)], medias[(i+k+4)%len(medias)]},
				"consumes":   []string{medias[(i+2*k)%len(medias)], medias[(i+k+4)%len(medias)]},
				"security":   []interface{}{map[string]interface{}{"key": []string{}, "basic": []string{}}, map[string]interface{}{"oauth": []string{"read", "write"}}},
				"responses": map[string]interface{}{
					"200":     map[string]interface{}{"description": "ok", "schema": map[string]interface{}{"$ref": "#/definitions/" + names[(i+k)%len(names)]}, "headers": map[string]interface{}{"X-A": map[string]interface{}{"type": "string"}, "X-B": map[string]interface{}{"type": "integer"}, "X-C": map[string]interface{}{"type": "string"}}},
					"404":     map[string]interface{}{"description": "nf"},
					"422":     map[string]interface{}{"description": "bad", "schema": map[string]interface{}{"$ref": "#/definitions/Poly"}},
					"default": map[string]interface{}{"description": "err", "schema": map[string]interface{}{"$ref": "#/definitions/Alpha"}},
				},
			}
			ops[m] = op
		}
		if len(ops) > 0 {
			paths[fmt.Sprintf("/r%d/{id}", i)] = func() map[string]interface{} {
				ops["parameters"] = []interface{}{map[string]interface{}{"name": "id", "in": "path", "required": true, "type": "string"}}
				return ops
			}()
		}
	}
	doc := map[string]interface{}{
		"swagger": "2.0", "info": map[string]interface{}{"title": "wide", "version": fmt.Sprint(variant)},
		"consumes": []string{"application/json", "application/gzip"}, "produces": []string{"application/json", "application/x-gzip", "text/plain"},
		"securityDefinitions": map[string]interface{}{
			"key":   map[string]interface{}{"type": "apiKey", "in": "header", "name": "X-Key"},
			"basic": map[string]interface{}{"type": "basic"},
			"oauth": map[string]interface{}{"type": "oauth2", "flow": "accessCode", "authorizationUrl": "http://e/a", "tokenUrl": "http://e/t", "scopes": map[string]interface{}{"read": "r", "write": "w", "admin": "a"}},
		},
		"paths": paths, "definitions": defs,
		"x-one": 1, "x-two": map[string]interface{}{"a": 1, "b": 2, "c": 3},
	}
	b, _ := json.Marshal(doc)
	return b
}

func hashTree(dir string, skip map[string]bool) (string, map[string]string) {
	files := map[string]string{}
	_ = filepath.Walk(dir, func(p string, info os.FileInfo, err error) error {
		if err != nil || info.IsDir() {
			return nil
		}
		rel, _ := filepath.Rel(dir, p)
		if skip[rel] {
			return nil
		}
		b, _ := os.ReadFile(p)
		h := sha256.Sum256(b)
		files[rel] = hex.EncodeToString(h[:8])
		return nil
	})
	var ks []string
	for k := range files {
		ks = append(ks, k)
	}
	sort.Strings(ks)
	h := sha256.New()
	for _, k := range ks {
		fmt.Fprintf(h, "%s=%s\n", k, files[k])
	}
	return hex.EncodeToString(h.Sum(nil))[:16], files
}

var skipFiles = map[string]bool{"go.mod": true, "go.sum": true, "spec.json": true}

const scanPkg = `// Package scanme API.
//
//	Schemes: http, https
//	Host: localhost
//	Consumes:
//	- application/json
//	- application/xml
//	Produces:
//	- application/json
//	- text/plain
//
// swagger:meta
package scanme

// A is a model
// swagger:model
type A struct {
	ID   int64             ` + "`json:\"id\"`" + `
	Name string            ` + "`json:\"name\"`" + `
	M    map[string]string ` + "`json:\"m\"`" + `
	B    *B                ` + "`json:\"b\"`" + `
}

// B is a model
// swagger:model
type B struct {
	X []A     ` + "`json:\"x\"`" + `
	Y float64 ` + "`json:\"y\"`" + `
	Z C       ` + "`json:\"z\"`" + `
}

// C is a model
// swagger:model
type C struct{ V string }

// Wide has many required, read-only and constrained fields: every list the scanner assembles from them must come out in one order
// swagger:model
type Wide struct {
	// required: true
	F01 string ` + "`json:\"f01\"`" + `
	// required: true
	// enum: red,green,blue,black
	F02 string ` + "`json:\"f02\"`" + `
	// required: true
	F03 int32 ` + "`json:\"f03\"`" + `
	// required: true
	// read only: true
	F04 int64 ` + "`json:\"f04\"`" + `
	// required: true
	F05 bool ` + "`json:\"f05\"`" + `
	// required: true
	F06 []string ` + "`json:\"f06\"`" + `
	// required: true
	F07 float64 ` + "`json:\"f07\"`" + `
	// required: true
	F08 *C ` + "`json:\"f08\"`" + `
	// required: true
	F09 map[string]int ` + "`json:\"f09\"`" + `
	// required: true
	F10 string ` + "`json:\"f10\"`" + `
	// required: true
	F11 string ` + "`json:\"f11\"`" + `
	// required: true
	F12 string ` + "`json:\"f12\"`" + `
	Embedded
}

// Embedded brings required fields of its own
type Embedded struct {
	// required: true
	E1 string ` + "`json:\"e1\"`" + `
	// required: true
	E2 string ` + "`json:\"e2\"`" + `
	// required: true
	E3 string ` + "`json:\"e3\"`" + `
}

// WideIface is an interface model with required methods
// swagger:model
type WideIface interface {
	// required: true
	Alpha() string
	// required: true
	Beta() int64
	// required: true
	Gamma() bool
	// required: true
	Delta() string
	// required: true
	Epsilon() string
}

// swagger:parameters wideOp
type WideParams struct {
	// in: query
	// required: true
	// enum: a,b,c,d
	Q1 string ` + "`json:\"q1\"`" + `
	// in: query
	// required: true
	Q2 []int64 ` + "`json:\"q2\"`" + `
	// in: query
	Q3 string ` + "`json:\"q3\"`" + `
	// in: header
	H1 string ` + "`json:\"X-H1\"`" + `
	// in: header
	H2 string ` + "`json:\"X-H2\"`" + `
	// every keyword of an array parameter in one comment (the scanner applies the matching taggers in the order of a map):
	// whatever one tagger leaves behind must not change what another one reads
	//
	// in: query
	// collection format: pipes
	// default: new|featured|sale
	// example: a|b
	// min items: 1
	// max items: 9
	// unique: true
	// items.enum: new,featured,sale,a,b
	// items.min length: 1
	// items.max length: 12
	// items.pattern: ^[a-z]+$
	A1 []string ` + "`json:\"a1\"`" + `
	// in: query
	// collection format: ssv
	// default: 10 20 30
	// example: 1 2
	// items.minimum: 1
	// items.maximum: 99
	// items.multiple of: 1
	// items.default: 7
	// items.example: 8
	A2 []int32 ` + "`json:\"a2\"`" + `
	// in: header
	// collection format: tsv
	// default: x	y
	// items.collection format: pipes
	// items.default: p|q
	// items.items.enum: p,q,x,y
	// items.items.default: p
	A3 [][]string ` + "`json:\"X-A3\"`" + `
	// in: query
	// minimum: 1
	// maximum: 10
	// multiple of: 1
	// default: 3
	// example: 4
	// enum: 1,2,3,4,5
	N1 int64 ` + "`json:\"n1\"`" + `
	// in: query
	// min length: 2
	// max length: 8
	// pattern: ^\w+$
	// default: ab
	// example: abc
	// enum: ab,abc,abcd
	S1 string ` + "`json:\"s1\"`" + `
	// in: body
	Body Wide
}

// swagger:route POST /wide things stuff more-stuff wideOp
//
// Consumes:
// - application/json
// - application/xml
// - text/plain
//
// Produces:
// - application/json
// - text/csv
//
// Schemes: http, https, ws, wss
//
// responses:
//   200: aResp
//   201: aResp
//   400: aResp
//   404: aResp
//   409: aResp
//   default: aResp

// swagger:parameters listA getA
type ListParams struct {
	// in: query
	Limit int32 ` + "`json:\"limit\"`" + `
	// in: header
	Trace string ` + "`json:\"X-Trace\"`" + `
}

// swagger:response aResp
type AResp struct {
	// in: body
	Body A
	// in: header
	Rate int ` + "`json:\"X-Rate\"`" + `
	// in: header
	// collection format: pipes
	// default: 1|2|3
	// example: 4|5
	// items.minimum: 1
	// items.enum: 1,2,3,4,5
	Steps []int64 ` + "`json:\"X-Steps\"`" + `
}

// swagger:route GET /a things listA
// responses:
//   200: aResp
//   404: aResp
//   default: aResp

// swagger:route GET /a/{id} things getA
// responses:
//   200: aResp
//   500: aResp
func Handlers() {}
`

type command struct {
	name string
	// run executes the command once in dir (a fresh scratch module holding spec.json, spec2.json, scanme/) and returns
	// (exit, identity of what it produced)
	run func(bin, dir string) (int, string, map[string]string)
}

func gen(args ...string) func(bin, dir string) (int, string, map[string]string) {
	return func(bin, dir string) (int, string, map[string]string) {
		a := append(append([]string{}, args...), "-f", filepath.Join(dir, "spec.json"), "-t", dir)
		r := gorun.Swagger(bin, dir, 180*time.Second, a...)
		h, files := hashTree(dir, map[string]bool{"go.mod": true, "go.sum": true, "spec.json": true, "spec2.json": true, "mix1.json": true, "mix2.json": true, "mix3.json": true, "mix4.json": true, "scanme/doc.go": true})
		return r.Exit, h, files
	}
}

func stdout(args func(dir string) []string) func(bin, dir string) (int, string, map[string]string) {
	return func(bin, dir string) (int, string, map[string]string) {
		r := gorun.Swagger(bin, dir, 120*time.Second, args(dir)...)
		// log lines carry timestamps: keep the document only (everything from the first { or [ or key line)
		out := r.Output
		h := sha256.Sum256([]byte(stripLog(out)))
		return r.Exit, hex.EncodeToString(h[:8]), map[string]string{"stdout": stripLog(out)}
	}
}

func stripLog(s string) string {
	var keep []string
	for _, l := range strings.Split(s, "\n") {
		if len(l) > 20 && l[4] == '/' && l[7] == '/' && l[10] == ' ' { // 2006/01/02 15:04:05 log prefix
			continue
		}
		keep = append(keep, l)
	}
	return strings.Join(keep, "\n")
}

func outfile(name string, args func(dir, out string) []string) func(bin, dir string) (int, string, map[string]string) {
	return func(bin, dir string) (int, string, map[string]string) {
		o := filepath.Join(dir, name)
		r := gorun.Swagger(bin, dir, 120*time.Second, args(dir, o)...)
		b, _ := os.ReadFile(o)
		h := sha256.Sum256(b)
		return r.Exit, hex.EncodeToString(h[:8]), map[string]string{name: string(b)}
	}
}

var commands = []command{
	{"generate server", gen("generate", "server", "-q", "-A", "wide")},
	{"generate server --keep-spec-order --skip-tag-packages", gen("generate", "server", "-q", "-A", "wide", "--keep-spec-order", "--skip-tag-packages")},
	{"generate client", gen("generate", "client", "-q", "-A", "wide")},
	{"generate cli", gen("generate", "cli", "-q", "-A", "wide")},
	{"generate model", gen("generate", "model", "-q")},
	{"generate markdown", outfile("api.md", func(dir, o string) []string {
		return []string{"generate", "markdown", "-q", "-f", filepath.Join(dir, "spec.json"), "-t", dir, "--output", o}
	})},
	{"generate spec", outfile("scanned.json", func(dir, o string) []string {
		return []string{"generate", "spec", "-m", "-w", filepath.Join(dir, "scanme"), "-o", o}
	})},
	{"generate spec (yaml)", outfile("scanned.yml", func(dir, o string) []string {
		return []string{"generate", "spec", "-m", "-w", filepath.Join(dir, "scanme"), "-o", o}
	})},
	{"diff (text)", stdout(func(dir string) []string {
		return []string{"diff", filepath.Join(dir, "spec.json"), filepath.Join(dir, "spec2.json")}
	})},
	{"diff -f json", stdout(func(dir string) []string {
		return []string{"diff", "-f", "json", filepath.Join(dir, "spec.json"), filepath.Join(dir, "spec2.json")}
	})},
	{"flatten", outfile("flat.json", func(dir, o string) []string {
		return []string{"flatten", filepath.Join(dir, "spec.json"), "-o", o}
	})},
	{"flatten --with-flatten=full --format yaml", outfile("flat.yml", func(dir, o string) []string {
		return []string{"flatten", filepath.Join(dir, "spec.json"), "--with-flatten=full", "--format", "yaml", "-o", o}
	})},
	{"expand", outfile("expanded.json", func(dir, o string) []string {
		return []string{"expand", filepath.Join(dir, "spec.json"), "-o", o}
	})},
	{"mixin", outfile("mixed.json", func(dir, o string) []string {
		return []string{"mixin", filepath.Join(dir, "spec.json"), filepath.Join(dir, "spec2.json"), "-o", o}
	})},
	// several mixed-in documents that collide with one another (a definition, a path, a response) and each add array entries:
	// the result depends on their order, which is the order of the command line
	{"mixin (five documents)", outfile("mixed5.json", func(dir, o string) []string {
		return []string{"mixin", filepath.Join(dir, "spec.json"), filepath.Join(dir, "mix1.json"), filepath.Join(dir, "mix2.json"), filepath.Join(dir, "mix3.json"), filepath.Join(dir, "mix4.json"), "-o", o}
	})},
}

func mixDoc(i int) []byte {
	typ := []string{"string", "integer", "boolean", "number"}[i%4]
	doc := map[string]interface{}{"swagger": "2.0", "info": map[string]interface{}{"title": fmt.Sprintf("mix %d", i), "version": "1"},
		"consumes": []string{fmt.Sprintf("application/x-mix%d", i)}, "produces": []string{fmt.Sprintf("application/x-mix%d", i)}, "schemes": []string{[]string{"http", "https", "ws", "wss"}[i%4]},
		"tags": []interface{}{map[string]interface{}{"name": fmt.Sprintf("mix%d", i)}},
		"paths": map[string]interface{}{
			"/shared":               map[string]interface{}{"get": map[string]interface{}{"operationId": "sharedOp", "responses": map[string]interface{}{"200": map[string]interface{}{"description": fmt.Sprintf("from mix %d", i)}}}},
			fmt.Sprintf("/mix%d", i): map[string]interface{}{"get": map[string]interface{}{"operationId": "listAlpha", "responses": map[string]interface{}{"200": map[string]interface{}{"description": "ok"}}}}},
		"definitions": map[string]interface{}{"SharedThing": map[string]interface{}{"type": typ, "description": fmt.Sprintf("from mix %d", i)}},
		"responses":   map[string]interface{}{"SharedResponse": map[string]interface{}{"description": fmt.Sprintf("from mix %d", i)}},
		"parameters":  map[string]interface{}{"sharedParam": map[string]interface{}{"name": "p", "in": "query", "type": typ}}}
	b, _ := json.Marshal(doc)
	return b
}

func prepare(dir string) {
	_ = os.RemoveAll(dir)
	if err := gorun.NewModule(dir); err != nil {
		die("%v", err)
	}
	_ = os.WriteFile(filepath.Join(dir, "spec.json"), wideSpec(1), 0o644)
	_ = os.WriteFile(filepath.Join(dir, "spec2.json"), wideSpec(2), 0o644)
	for i := 1; i <= 4; i++ {
		_ = os.WriteFile(filepath.Join(dir, fmt.Sprintf("mix%d.json", i)), mixDoc(i), 0o644)
	}
	_ = os.MkdirAll(filepath.Join(dir, "scanme"), 0o755)
	_ = os.WriteFile(filepath.Join(dir, "scanme", "doc.go"), []byte(scanPkg), 0o644)
}

func cmdRuns(args []string) {
	fs := flag.NewFlagSet("runs", flag.ExitOnError)
	bin := fs.String("bin", "", "")
	work := fs.String("work", "", "")
	out := fs.String("out", "", "")
	n := fs.Int("n", 5, "repetitions per command")
	workers := fs.Int("workers", 14, "")
	_ = fs.Parse(args)
	if *bin == "" || *work == "" || *out == "" {
		die("runs: -bin, -work, -out required")
	}
	type res struct {
		exit  int
		hash  string
		files map[string]string
	}
	results := make([][]res, len(commands))
	for i := range results {
		results[i] = make([]res, *n)
	}
	type job struct{ c, k int }
	ch := make(chan job)
	var wg sync.WaitGroup
	for w := 0; w < *workers; w++ {
		wg.Add(1)
		go func(w int) {
			defer wg.Done()
			for j := range ch {
				// the same directory name for every repetition of a command: generated files mention their target
				dir := filepath.Join(*work, fmt.Sprintf("w%d", w), fmt.Sprintf("c%d", j.c), "target")
				prepare(dir)
				e, h, f := commands[j.c].run(*bin, dir)
				results[j.c][j.k] = res{e, h, f}
				_ = os.RemoveAll(filepath.Join(*work, fmt.Sprintf("w%d", w), fmt.Sprintf("c%d", j.c)))
			}
		}(w)
	}
	for c := range commands {
		for k := 0; k < *n; k++ {
			ch <- job{c, k}
		}
	}
	close(ch)
	wg.Wait()
	var viols []violation
	cov := map[string]int{}
	var samples []interface{}
	for c, cmd := range commands {
		cov["command:"+cmd.name] = *n
		base := results[c][0]
		if base.exit != 0 {
			cov["command-error:"+cmd.name]++
		}
		for k := 1; k < *n; k++ {
			r := results[c][k]
			if r.exit != base.exit || r.hash != base.hash {
				var differing []string
				for f, h := range base.files {
					if r.files[f] != h {
						differing = append(differing, f)
					}
				}
				for f := range r.files {
					if _, ok := base.files[f]; !ok {
						differing = append(differing, f)
					}
				}
				sort.Strings(differing)
				detail := map[string]interface{}{"run_0_exit": base.exit, "run_k_exit": r.exit, "k": k, "differing": differing}
				if len(differing) > 0 && len(base.files[differing[0]]) > 16 {
					detail["run_0"] = clip(base.files[differing[0]])
					detail["run_k"] = clip(r.files[differing[0]])
				}
				viols = append(viols, violation{Key: "c07/output-varies[" + cmd.name + "]", What: "two runs of `swagger " + cmd.name + "` on the same input produced different output: " + strings.Join(differing, ", "),
					Input: map[string]interface{}{"command": cmd.name, "spec": "wideSpec(1) (embedded in harness/cmd/detcheck)"}, Detail: detail})
				break
			}
		}
		if len(samples) < 3 {
			samples = append(samples, map[string]interface{}{"command": cmd.name, "exit": base.exit, "hash": base.hash, "files": len(base.files)})
		}
	}
	if viols == nil {
		viols = []violation{}
	}
	rep := map[string]interface{}{
		"evaluations": len(commands) * *n, "distinct_nontrivial": len(commands),
		"rule":    fmt.Sprintf("%d commands (generate server/client/cli/model/markdown/spec, diff txt/json, flatten, expand, mixin, with option variants) each run %d times in fresh processes on a fixed wide input (12+ definitions, 25+ operations, 3 tags, 3 security schemes, 10 media types incl. several matched by more than one table entry, extensions) — Go re-randomises map iteration per run; the outputs (tree hash / stdout / file) must be byte-identical. Each command is one distinct non-trivial case.", len(commands), *n),
		"samples": samples, "coverage": cov, "violations": viols,
	}
	b, _ := json.MarshalIndent(rep, "", " ")
	_ = os.WriteFile(*out, b, 0o644)
	fmt.Printf("runs: %d commands x %d, %d violations\n", len(commands), *n, len(viols))
}

func clip(s string) string {
	if len(s) > 1500 {
		return s[:1500]
	}
	return s
}

// ---- concurrency through the library API ----
func newOpts(spec, target string, keepOrder bool) *generator.GenOpts {
	g := &generator.GenOpts{}
	g.Spec = spec
	g.Target = target
	g.APIPackage = "operations"
	g.ModelPackage = "models"
	g.ServerPackage = "restapi"
	g.ClientPackage = "client"
	g.IncludeModel = true
	g.IncludeValidator = true
	g.IncludeHandler = true
	g.IncludeParameters = true
	g.IncludeResponses = true
	g.IncludeSupport = true
	g.IncludeURLBuilder = true
	g.ValidateSpec = false
	g.PropertiesSpecOrder = keepOrder
	if err := g.EnsureDefaults(); err != nil {
		die("EnsureDefaults: %v", err)
	}
	return g
}

// houseDocstring: a custom template directory that overrides one definition of the embedded templates
const houseDocstring = `{{ define "docstring" }}
  {{- if .Description }}
    {{- blockcomment (comment .Description) }} (house style)
  {{- else }}
    {{- humanize .Name }} (house style)
  {{- end }}
{{- end }}
`

func mixOpts(spec, target, tdir, variant string) *generator.GenOpts {
	g := &generator.GenOpts{}
	g.Spec = spec
	g.Target = target
	g.ModelPackage = "models"
	g.APIPackage = "operations"
	g.ServerPackage = "restapi"
	g.ClientPackage = "client"
	g.IncludeModel = true
	g.IncludeValidator = true
	g.ValidateSpec = false
	switch variant {
	case "house":
		g.TemplateDir = tdir
		g.AllowTemplateOverride = true
	case "stratoscale":
		g.Template = "stratoscale"
	}
	if err := g.EnsureDefaults(); err != nil {
		die("EnsureDefaults: %v", err)
	}
	return g
}

// cmdOne: one generation in this (new) process; prints the hash of the tree
func cmdOne(args []string) {
	log.SetOutput(io.Discard)
	sp, t, tdir, v := args[0], args[1], args[2], args[3]
	_ = os.RemoveAll(filepath.Dir(t))
	if err := gorun.NewModule(t); err != nil {
		die("%v", err)
	}
	if err := generator.GenerateModels(nil, mixOpts(sp, t, tdir, v)); err != nil {
		fmt.Println("ERROR", strings.ReplaceAll(err.Error(), " ", "_"))
		return
	}
	h, _ := hashTree(t, skipFiles)
	fmt.Println(h)
	_ = os.RemoveAll(filepath.Dir(t))
}

// cmdSeq: several generations one after the other in this (new) process, each into the target its variant has everywhere
func cmdSeq(args []string) {
	log.SetOutput(io.Discard)
	sp, _, tdir := args[0], args[1], args[2]
	for _, v := range args[3:] {
		t := filepath.Join(filepath.Dir(filepath.Dir(sp)), "mix-"+v, "target")
		_ = os.RemoveAll(filepath.Dir(t))
		if err := gorun.NewModule(t); err != nil {
			die("%v", err)
		}
		if err := generator.GenerateModels(nil, mixOpts(sp, t, tdir, v)); err != nil {
			fmt.Println("ERROR_" + strings.ReplaceAll(err.Error(), " ", "_"))
			continue
		}
		h, _ := hashTree(t, skipFiles)
		fmt.Println(h)
		_ = os.RemoveAll(filepath.Dir(t))
	}
}

func cmdConc(args []string) {
	fs := flag.NewFlagSet("conc", flag.ExitOnError)
	work := fs.String("work", "", "")
	out := fs.String("out", "", "")
	k := fs.Int("k", 4, "concurrent generations")
	rounds := fs.Int("rounds", 2, "")
	modesSel := fs.String("modes", "all", "all | quick")
	_ = fs.Parse(args)
	if *work == "" || *out == "" {
		die("conc: -work, -out required")
	}
	log.SetOutput(io.Discard)
	// K services: distinct documents that share the base name swagger.json in distinct directories, distinct targets
	type svc struct{ spec, target string }
	mk := func(i int, tag string) svc {
		d := filepath.Join(*work, fmt.Sprintf("svc%d", i))
		_ = os.MkdirAll(d, 0o755)
		sp := filepath.Join(d, "swagger.json")
		_ = os.WriteFile(sp, wideSpec(10+i), 0o644)
		t := filepath.Join(*work, fmt.Sprintf("%s%d", tag, i), "target")
		_ = os.RemoveAll(filepath.Dir(t))
		if err := gorun.NewModule(t); err != nil {
			die("%v", err)
		}
		return svc{sp, t}
	}
	var viols []violation
	evals := 0
	modes := []struct {
		name string
		run  func(s svc, keep bool) error
	}{
		{"GenerateModels", func(s svc, keep bool) error { return generator.GenerateModels(nil, newOpts(s.spec, s.target, keep)) }},
		{"GenerateServer", func(s svc, keep bool) error {
			return generator.GenerateServer("wide", nil, nil, newOpts(s.spec, s.target, keep))
		}},
		{"GenerateClient", func(s svc, keep bool) error {
			return generator.GenerateClient("wide", nil, nil, newOpts(s.spec, s.target, keep))
		}},
	}
	for mi, m := range modes {
		for _, keep := range []bool{false, true} {
			if *modesSel == "quick" && !(mi == 0 || (mi == 1 && keep)) {
				continue // quick: models with and without keep-spec-order, server with keep-spec-order
			}
			// sequential baseline
			base := make([]string, *k)
			for i := 0; i < *k; i++ {
				s := mk(i, "seq")
				if err := m.run(s, keep); err != nil {
					base[i] = "ERROR " + err.Error()
					continue
				}
				base[i], _ = hashTree(s.target, skipFiles)
				_ = os.RemoveAll(filepath.Dir(s.target))
			}
			for r := 0; r < *rounds; r++ {
				got := make([]string, *k)
				svcs := make([]svc, *k)
				for i := range svcs {
					svcs[i] = mk(i, "seq") // same target path as the baseline: generated files mention it
				}
				var wg sync.WaitGroup
				for i := 0; i < *k; i++ {
					wg.Add(1)
					go func(i int) {
						defer wg.Done()
						if err := m.run(svcs[i], keep); err != nil {
							got[i] = "ERROR " + err.Error()
							return
						}
						got[i], _ = hashTree(svcs[i].target, skipFiles)
					}(i)
				}
				wg.Wait()
				evals += *k
				for i := 0; i < *k; i++ {
					if got[i] != base[i] {
						viols = append(viols, violation{Key: "c07/concurrent-differs[" + m.name + "]", What: fmt.Sprintf("%s run concurrently with %d other generations on distinct targets differs from the same generation run alone (keep-spec-order=%v)", m.name, *k-1, keep),
							Input: map[string]interface{}{"api": m.name, "k": *k, "keep_spec_order": keep, "service": i}, Detail: map[string]interface{}{"alone": base[i], "concurrent": got[i]}})
						break
					}
				}
				for i := range svcs {
					_ = os.RemoveAll(filepath.Dir(svcs[i].target))
				}
			}
		}
	}
	// generations with different template options in one process (documented: custom template directory overriding a definition,
	// contributed templates): each must equal the same generation run alone in a NEW process, whatever ran before or beside it
	{
		tdir := filepath.Join(*work, "house-templates")
		_ = os.MkdirAll(tdir, 0o755)
		_ = os.WriteFile(filepath.Join(tdir, "docstring.gotmpl"), []byte(houseDocstring), 0o644)
		sp := filepath.Join(*work, "mixspec", "swagger.json")
		_ = os.MkdirAll(filepath.Dir(sp), 0o755)
		_ = os.WriteFile(sp, wideSpec(7), 0o644)
		variants := []string{"default", "house", "stratoscale"}
		target := func(v string) string { return filepath.Join(*work, "mix-"+v, "target") }
		runV := func(v string) string {
			t := target(v)
			_ = os.RemoveAll(filepath.Dir(t))
			if err := gorun.NewModule(t); err != nil {
				die("%v", err)
			}
			if err := generator.GenerateModels(nil, mixOpts(sp, t, tdir, v)); err != nil {
				return "ERROR " + err.Error()
			}
			h, _ := hashTree(t, skipFiles)
			return h
		}
		// baselines: one fresh process per variant
		alone := map[string]string{}
		for _, v := range variants {
			o, err := exec.Command(os.Args[0], "one", sp, target(v), tdir, v).Output()
			if err != nil {
				die("detcheck one %s: %v", v, err)
			}
			alone[v] = strings.TrimSpace(string(o))
		}
		report := func(kind, v, got string, order []string) {
			viols = append(viols, violation{Key: "c07/depends-on-other-generations-in-the-process[" + kind + "]",
				What:   fmt.Sprintf("GenerateModels with the %s templates, run %s in a process that also generates with other template options, differs from the same generation run alone in a new process", v, kind),
				Input:  map[string]interface{}{"variant": v, "order": order, "house_template": houseDocstring},
				Detail: map[string]interface{}{"alone": alone[v], "in_shared_process": got}})
		}
		// sequentially: every rotation of the variants needs its own process to start from a clean state, so the rotations run in
		// children; this process runs the first one itself
		orders := [][]string{{"default", "house", "stratoscale", "default"}, {"house", "default", "house"}, {"stratoscale", "house", "default"}}
		for oi, order := range orders {
			var got []string
			if oi == 0 {
				for _, v := range order {
					got = append(got, runV(v))
				}
			} else {
				o, err := exec.Command(os.Args[0], append([]string{"seq", sp, filepath.Join(*work, "mixseq"), tdir}, order...)...).Output()
				if err != nil {
					die("detcheck seq: %v", err)
				}
				got = strings.Fields(strings.TrimSpace(string(o)))
			}
			evals += len(order)
			for i, v := range order {
				if i < len(got) && got[i] != alone[v] {
					report("after", v, got[i], order)
					break
				}
			}
		}
		// concurrently
		for r := 0; r < *rounds; r++ {
			got := make([]string, len(variants))
			var wg sync.WaitGroup
			for i, v := range variants {
				wg.Add(1)
				go func(i int, v string) { defer wg.Done(); got[i] = runV(v) }(i, v)
			}
			wg.Wait()
			evals += len(variants)
			for i, v := range variants {
				if got[i] != alone[v] {
					report("beside", v, got[i], variants)
					break
				}
			}
		}
		for _, v := range variants {
			_ = os.RemoveAll(filepath.Dir(target(v)))
		}
	}
	// the pre-processing step of keep-spec-order writes a re-ordered copy of its input: two inputs must never share that file
	{
		a, b := mk(0, "scratch"), mk(1, "scratch")
		pa := generator.WithAutoXOrder(a.spec)
		ca, _ := os.ReadFile(pa)
		pb := generator.WithAutoXOrder(b.spec)
		ca2, _ := os.ReadFile(pa)
		evals++
		if pa == pb || string(ca) != string(ca2) {
			viols = append(viols, violation{Key: "c07/scratch-file-shared-between-inputs", What: "WithAutoXOrder (keep-spec-order) gives two different documents with the same base name the same scratch file: a generation running at the same time reads the other one's document",
				Input: map[string]interface{}{"spec_a": a.spec, "spec_b": b.spec}, Detail: map[string]interface{}{"scratch_a": pa, "scratch_b": pb, "a_overwritten": string(ca) != string(ca2)}})
		}
		_ = os.RemoveAll(filepath.Dir(a.target))
		_ = os.RemoveAll(filepath.Dir(b.target))
	}
	if viols == nil {
		viols = []violation{}
	}
	rep := map[string]interface{}{"evaluations": evals, "violations": viols, "k": *k, "rounds": *rounds,
		"rule": "generations with the embedded, a custom-directory and the contributed stratoscale templates, one after the other (three orders) and side by side in one process, each compared with the same generation alone in a new process; K concurrent library calls (GenerateModels / GenerateServer / GenerateClient, with and without PropertiesSpecOrder) on K distinct documents that share the base name swagger.json, into K distinct targets, under the race detector; every tree must equal the tree of the same generation run alone"}
	b, _ := json.MarshalIndent(rep, "", " ")
	_ = os.WriteFile(*out, b, 0o644)
	fmt.Printf("conc: %d concurrent generations, %d violations\n", evals, len(viols))
}

func main() {
	if len(os.Args) < 2 {
		die("usage: detcheck <runs|conc> ...")
	}
	switch os.Args[1] {
	case "runs":
		cmdRuns(os.Args[2:])
	case "conc":
		cmdConc(os.Args[2:])
	case "one":
		cmdOne(os.Args[2:])
	case "seq":
		cmdSeq(os.Args[2:])
	case "dumpspec":
		os.Stdout.Write(wideSpec(1))
	default:
		die("unknown subcommand")
	}
}

package main

import (
	"encoding/json"
	"fmt"

	"github.com/go-openapi/spec"
	"github.com/go-swagger/go-swagger/cmd/swagger/commands/diff"
)

func load(s string) *spec.Swagger {
	var sw spec.Swagger
	if err := json.Unmarshal([]byte(s), &sw); err != nil {
		panic(err)
	}
	return &sw
}

func try(name, a, b string) {
	defer func() {
		if r := recover(); r != nil {
			fmt.Printf("%s: PANIC %v\n", name, r)
		}
	}()
	ds, err := diff.Compare(load(a), load(b))
	fmt.Printf("%s: %d diffs err=%v\n", name, len(ds), err)
	for _, d := range ds {
		fmt.Printf("   %s [%v]\n", d.String(), d.Compatibility)
	}
}

func main() {
	a := `{"swagger":"2.0","info":{"title":"t","version":"1"},"paths":{"/a":{"get":{"responses":{"200":{"description":"ok"}}}}}}`
	b := `{"swagger":"2.0","info":{"title":"t","version":"1"},"paths":{"/a":{"get":{"responses":{"200":{"description":"ok"},"204":{"description":"nc"}}}}}}`
	try("added-response-noschema", a, b)
	try("deleted-response-noschema", b, a)
	c := `{"swagger":"2.0","info":{"title":"t","version":"1"},"paths":{"/a":{"get":{"responses":{"200":{"description":"ok","schema":{"properties":{"x":{"type":"string"}}}}}}}}}`
	try("untyped-inline-identity", c, c)
	d := `{"swagger":"2.0","info":{"title":"t","version":"1"},"paths":{"/a":{"get":{"parameters":[{"name":"q","in":"query","type":"array","items":{"type":"string"},"default":["a"]}],"responses":{"200":{"description":"ok"}}}}}}`
	try("array-default-identity", d, d)
	e1 := `{"swagger":"2.0","info":{"title":"t","version":"1"},"paths":{"/a":{"get":{"responses":{"200":{"description":"ok","schema":{"type":"object","properties":{"x":{"$ref":"#/definitions/X"}}}}}}}},"definitions":{"X":{"type":"object"}}}`
	e2 := `{"swagger":"2.0","info":{"title":"t","version":"1"},"paths":{"/a":{"get":{"responses":{"200":{"description":"ok","schema":{"type":"object","properties":{"x":{"properties":{"y":{"type":"string"}}}}}}}}}},"definitions":{"X":{"type":"object"}}}`
	try("ref-to-untyped", e1, e2)
	try("untyped-to-ref", e2, e1)
}

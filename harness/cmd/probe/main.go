package main

import (
	"fmt"

	"github.com/go-openapi/swag"
	"gopkg.in/yaml.v3"
)

func main() {
	for _, s := range []string{"\nleading newline", ".inf", ".NaN", "<<", "=", "2001-12-14", "block\ntrailing\n"} {
		b, _ := yaml.Marshal(map[string]interface{}{"k": s})
		var v map[string]interface{}
		err := yaml.Unmarshal(b, &v)
		j, err2 := swag.YAMLToJSON(func() interface{} { var n yaml.Node; _ = yaml.Unmarshal(b, &n); return &n }())
		fmt.Printf("%q -> %q -> %#v err=%v | swag: %s err=%v\n", s, string(b), v["k"], err, string(j), err2)
	}
}

package main

import (
	"encoding/json"
	"fmt"
	"os"
	"runtime/debug"

	"github.com/go-swagger/go-swagger/cmd/swagger/commands/diff"
	"verif/harness/internal/dimpl"
)

func main() {
	b, _ := os.ReadFile(os.Args[1])
	var o struct {
		Input struct {
			A, B  json.RawMessage
			Edits []string
		}
	}
	_ = json.Unmarshal(b, &o)
	fmt.Println("edits:", o.Input.Edits)
	defer func() {
		if r := recover(); r != nil {
			fmt.Println("PANIC", r)
			fmt.Println(string(debug.Stack()))
		}
	}()
	sa, _ := dimpl.Load(o.Input.A)
	sb, _ := dimpl.Load(o.Input.B)
	ds, err := diff.Compare(sa, sb)
	fmt.Println(len(ds), err)
}

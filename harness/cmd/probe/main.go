package main

import (
	"encoding/json"
	"fmt"
	"os"

	"github.com/go-openapi/spec"
	"github.com/go-openapi/strfmt"
	"github.com/go-openapi/validate"
	"github.com/go-swagger/go-swagger/codescan"
)

func main() {
	sw, err := codescan.Run(&codescan.Options{Packages: []string{"./..."}, WorkDir: os.Args[1], ScanModels: true, SetXNullableForPointers: true})
	if err != nil {
		fmt.Println("ERR", err)
		return
	}
	b, _ := json.MarshalIndent(sw.Definitions, "", " ")
	fmt.Println(string(b))
	full, _ := json.Marshal(sw)
	sw = new(spec.Swagger)
	_ = json.Unmarshal(full, sw)
	for _, doc := range os.Args[2:] {
		var v interface{}
		_ = json.Unmarshal([]byte(doc), &v)
		sch := sw.Definitions["M0"]
		fmt.Println(doc)
		_ = spec.Schema{}
		r := validate.NewSchemaValidator(&sch, sw, "", strfmt.Default).Validate(v)
		fmt.Println("  with root:", r.Errors)
	}
}

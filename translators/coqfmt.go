package main

import (
	"fmt"
	"strings"
)

// coqStr renders a Go string as a Gallina term of type str (list N of bytes).
func coqStr(x string) string {
	plain := true
	for i := 0; i < len(x); i++ {
		c := x[i]
		if c < 0x20 || c > 0x7e || c == '"' {
			plain = false
			break
		}
	}
	if plain {
		return `(s "` + x + `")`
	}
	var b strings.Builder
	b.WriteString("[")
	for i := 0; i < len(x); i++ {
		if i > 0 {
			b.WriteString(";")
		}
		fmt.Fprintf(&b, "%d", x[i])
	}
	b.WriteString("]%N")
	return "(" + b.String() + ")"
}

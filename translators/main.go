// gstrans: translators from /repo source (data parts) to Coq definition files (coq/Gen/*.v).
// Every translator fails loudly (exit 2) on a construct outside its grammar.
package main

import (
	"fmt"
	"os"
)

func die(format string, a ...interface{}) {
	fmt.Fprintf(os.Stderr, "gstrans: "+format+"\n", a...)
	os.Exit(2)
}

func main() {
	if len(os.Args) < 4 {
		die("usage: gstrans <translator> <repo> <out.v>")
	}
	name, repo, out := os.Args[1], os.Args[2], os.Args[3]
	var text string
	switch name {
	case "difftables":
		text = diffTables(repo)
	case "textsites":
		text = textSites(repo)
	case "sections":
		text = sections(repo)
	case "taggers":
		text = taggers(repo)
	case "language":
		text = language(repo)
	default:
		die("unknown translator %q", name)
	}
	// write only when changed, so that make does not rebuild needlessly
	old, err := os.ReadFile(out)
	if err == nil && string(old) == text {
		return
	}
	if err := os.WriteFile(out, []byte(text), 0o644); err != nil {
		die("%v", err)
	}
}

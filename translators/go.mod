module verif/translators

go 1.21

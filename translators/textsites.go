package main

import (
	"fmt"
	"os"
	"path/filepath"
	"sort"
	"strings"
	"text/template/parse"
)

// textsites: inventory of template actions that print a free-text field of the spec, with the helper
// functions applied and the Go lexical context the output lands in.

var freeLast = map[string]bool{"Description": true, "Summary": true, "Title": true, "TermsOfService": true, "Version": true,
	"Host": true, "BasePath": true, "Example": true, "Default": true, "Pattern": true, "Copyright": true, "URL": true, "Email": true,
	"LongDescription": true}

type lexState int

const (
	lxCode lexState = iota
	lxLine
	lxBlock
	lxRaw
	lxStr
	lxRune
)

func (s lexState) coq() string {
	return [...]string{"CCode", "CLineComment", "CBlockComment", "CRawString", "CInterpString", "CCode"}[s]
}

// advance the Go lexer state over a piece of template text
func advance(st lexState, text string) lexState {
	for i := 0; i < len(text); i++ {
		c := text[i]
		var next byte
		if i+1 < len(text) {
			next = text[i+1]
		}
		switch st {
		case lxCode:
			switch {
			case c == '/' && next == '/':
				st = lxLine
				i++
			case c == '/' && next == '*':
				st = lxBlock
				i++
			case c == '`':
				st = lxRaw
			case c == '"':
				st = lxStr
			case c == '\'':
				st = lxRune
			}
		case lxLine:
			if c == '\n' {
				st = lxCode
			}
		case lxBlock:
			if c == '*' && next == '/' {
				st = lxCode
				i++
			}
		case lxRaw:
			if c == '`' {
				st = lxCode
			}
		case lxStr:
			if c == '\\' {
				i++
			} else if c == '"' || c == '\n' {
				st = lxCode
			}
		case lxRune:
			if c == '\\' {
				i++
			} else if c == '\'' || c == '\n' {
				st = lxCode
			}
		}
	}
	return st
}

type taint struct {
	field  string
	funcs  []string
	printf string
}

type siteRec struct {
	file   string
	line   int
	field  string
	ctx    lexState
	funcs  []string
	printf string
}

type walker struct {
	file  string
	text  string
	st    lexState
	vars  map[string]*taint
	dot   []*taint
	sites []siteRec
	calls map[string]map[lexState]bool // template name -> contexts it is called in
}

func lineOf(text string, pos parse.Pos) int {
	p := int(pos)
	if p > len(text) {
		p = len(text)
	}
	return 1 + strings.Count(text[:p], "\n")
}

// analyse a pipeline: which free-text field (if any) flows into its output, through which functions
func (w *walker) pipeTaint(p *parse.PipeNode) *taint {
	if p == nil {
		return nil
	}
	var t *taint
	var funcs []string
	printfFmt := ""
	var visit func(n parse.Node)
	visit = func(n parse.Node) {
		switch x := n.(type) {
		case *parse.PipeNode:
			for _, c := range x.Cmds {
				visit(c)
			}
		case *parse.CommandNode:
			for i, a := range x.Args {
				if id, ok := a.(*parse.IdentifierNode); ok && id.Ident == "printf" && i+1 < len(x.Args) {
					if sn, ok := x.Args[i+1].(*parse.StringNode); ok {
						printfFmt = sn.Text
					}
				}
				visit(a)
			}
		case *parse.IdentifierNode:
			funcs = append(funcs, x.Ident)
		case *parse.FieldNode:
			if freeLast[x.Ident[len(x.Ident)-1]] || isPersonName(x.Ident) {
				t = &taint{field: strings.Join(x.Ident, ".")}
			}
		case *parse.ChainNode:
			visit(x.Node)
			if len(x.Field) > 0 && freeLast[x.Field[len(x.Field)-1]] {
				t = &taint{field: strings.Join(x.Field, ".")}
			}
		case *parse.VariableNode:
			if v, ok := w.vars[x.Ident[0]]; ok && len(x.Ident) == 1 {
				t = &taint{field: v.field, funcs: v.funcs, printf: v.printf}
			} else if len(x.Ident) > 1 && freeLast[x.Ident[len(x.Ident)-1]] {
				t = &taint{field: strings.Join(x.Ident[1:], ".")}
			}
		case *parse.DotNode:
			if len(w.dot) > 0 && w.dot[len(w.dot)-1] != nil {
				d := w.dot[len(w.dot)-1]
				t = &taint{field: d.field, funcs: d.funcs, printf: d.printf}
			}
		}
	}
	visit(p)
	if t == nil {
		return nil
	}
	t.funcs = append(append([]string{}, t.funcs...), funcs...)
	if printfFmt != "" {
		t.printf = printfFmt
	}
	return t
}

func (w *walker) list(l *parse.ListNode) {
	if l == nil {
		return
	}
	for _, n := range l.Nodes {
		switch x := n.(type) {
		case *parse.TextNode:
			w.st = advance(w.st, string(x.Text))
		case *parse.ActionNode:
			t := w.pipeTaint(x.Pipe)
			if len(x.Pipe.Decl) > 0 {
				for _, d := range x.Pipe.Decl {
					if t != nil {
						w.vars[d.Ident[0]] = t
					} else {
						delete(w.vars, d.Ident[0])
					}
				}
				continue
			}
			if t != nil {
				w.sites = append(w.sites, siteRec{file: w.file, line: lineOf(w.text, x.Pos), field: t.field, ctx: w.st, funcs: t.funcs, printf: t.printf})
			}
			w.st = advance(w.st, "X")
		case *parse.IfNode:
			save := w.st
			w.list(x.List)
			after := w.st
			w.st = save
			w.list(x.ElseList)
			w.st = after
		case *parse.RangeNode:
			save := w.st
			w.dot = append(w.dot, nil)
			w.list(x.List)
			w.dot = w.dot[:len(w.dot)-1]
			after := w.st
			w.st = save
			w.list(x.ElseList)
			w.st = after
		case *parse.WithNode:
			save := w.st
			w.dot = append(w.dot, w.pipeTaint(x.Pipe))
			w.list(x.List)
			w.dot = w.dot[:len(w.dot)-1]
			after := w.st
			w.st = save
			w.list(x.ElseList)
			w.st = after
		case *parse.TemplateNode:
			if w.calls != nil {
				if w.calls[x.Name] == nil {
					w.calls[x.Name] = map[lexState]bool{}
				}
				w.calls[x.Name][w.st] = true
			}
			w.st = advance(w.st, "X")
		case *parse.CommentNode, *parse.BreakNode, *parse.ContinueNode:
		default:
			die("textsites: %s: unhandled template node %T", w.file, n)
		}
	}
}

func textSites(repo string) string {
	root := filepath.Join(repo, "generator/templates")
	var files []string
	_ = filepath.Walk(root, func(p string, info os.FileInfo, err error) error {
		if err == nil && !info.IsDir() && strings.HasSuffix(p, ".gotmpl") {
			rel, _ := filepath.Rel(root, p)
			if strings.HasPrefix(rel, "markdown") || strings.HasPrefix(rel, "contrib") {
				return nil // markdown output is not Go source; contrib layouts are opt-in
			}
			files = append(files, rel)
		}
		return nil
	})
	sort.Strings(files)
	var all []siteRec
	type unit struct {
		file, text, name string
		tree             *parse.Tree
	}
	var units []unit
	for _, f := range files {
		b, err := os.ReadFile(filepath.Join(root, f))
		if err != nil {
			die("%v", err)
		}
		text := string(b)
		tr := parse.New(f)
		tr.Mode = parse.SkipFuncCheck
		set := map[string]*parse.Tree{}
		if _, err := tr.Parse(text, "{{", "}}", set); err != nil {
			die("textsites: cannot parse %s: %v", f, err)
		}
		var names []string
		for n := range set {
			names = append(names, n)
		}
		sort.Strings(names)
		for _, n := range names {
			units = append(units, unit{f, text, n, set[n]})
		}
	}
	// pass 1: in which lexical context is each named template called?
	calls := map[string]map[lexState]bool{}
	for _, u := range units {
		w := &walker{file: u.file, text: u.text, st: lxCode, vars: map[string]*taint{}, calls: calls}
		w.list(u.tree.Root)
	}
	// pass 2: a definition starts in the context of its call sites when they all agree
	for _, u := range units {
		var starts []lexState
		for c := range calls[u.name] {
			starts = append(starts, c)
		}
		if len(starts) == 0 {
			starts = []lexState{lxCode}
		}
		sort.Slice(starts, func(i, j int) bool { return starts[i] < starts[j] })
		for _, start := range starts { // a definition called from several contexts is inventoried once per context
			w := &walker{file: u.file, text: u.text, st: start, vars: map[string]*taint{}}
			w.list(u.tree.Root)
			all = append(all, w.sites...)
		}
	}
	sort.Slice(all, func(i, j int) bool {
		if all[i].file != all[j].file {
			return all[i].file < all[j].file
		}
		if all[i].line != all[j].line {
			return all[i].line < all[j].line
		}
		return all[i].field < all[j].field
	})
	var b strings.Builder
	b.WriteString("(* GENERATED by translators/gstrans textsites from generator/templates/**/*.gotmpl — do not edit *)\n")
	b.WriteString("From GS Require Import Base.Str Tools.Escape.\n\nDefinition text_sites : list site := [\n")
	for i, s := range all {
		fs := make([]string, len(s.funcs))
		for k, f := range s.funcs {
			fs[k] = coqStr(f)
		}
		sep := ";"
		if i == len(all)-1 {
			sep = ""
		}
		fmt.Fprintf(&b, "  {| st_file := %s; st_line := %d; st_field := %s; st_ctx := %s; st_funcs := [%s]; st_printf := %s |}%s\n",
			coqStr(s.file), s.line, coqStr(s.field), s.ctx.coq(), strings.Join(fs, "; "), coqStrE(s.printf), sep)
	}
	b.WriteString("].\n")
	return b.String()
}

func coqStrE(x string) string {
	if x == "" {
		return "[]"
	}
	return coqStr(x)
}

// Contact.Name and License.Name are free text too (other .Name fields are identifiers handled by C01)
func isPersonName(ident []string) bool {
	n := len(ident)
	return n >= 2 && ident[n-1] == "Name" && (ident[n-2] == "Contact" || ident[n-2] == "License")
}

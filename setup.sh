#!/bin/bash
# MANIFEST.setup_cmd: build everything from files on disk (offline).
set -e
cd "$(dirname "$0")"
export GOFLAGS=-mod=mod GOPROXY=off GOSUMDB=off GOTOOLCHAIN=local CGO_ENABLED=0
mkdir -p .work/bin evidence replays
(cd translators && go build -o ../.work/bin/gstrans .)
cp /repo/go.sum harness/go.sum
(cd harness && for c in cmd/*/; do n=$(basename $c); [ "$n" = probe ] && continue; go build -tags verif -o ../.work/bin/$n ./cmd/$n; done)
(cd /repo && go build -o /verif/.work/bin/swagger ./cmd/swagger; git checkout -- go.sum 2>/dev/null || true)
for t in difftables:GenDiffTables.v textsites:GenTextSites.v sections:GenSections.v taggers:GenTaggers.v language:GenLanguage.v; do .work/bin/gstrans ${t%%:*} /repo coq/Gen/${t##*:}; done
.work/bin/rangesites /repo coq/Gen
(cd harness && CGO_ENABLED=1 go build -race -tags verif -o ../.work/bin/detcheck-race ./cmd/detcheck) || echo "race build unavailable"
(cd coq && coq_makefile -f _CoqProject -o Makefile >/dev/null && timeout 3000 make -j16 >/dev/null)
echo "setup ok"

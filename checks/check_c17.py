import scancluster
run = scancluster.run
replay = scancluster.replay

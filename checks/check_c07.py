"""C07 — every command's output depends only on its inputs."""
import os, json, subprocess
import common
from common import VERIF, COQ, BIN, REPO, CheckError

CONE = ["Base/Str.v", "Tools/Order.v", "Tools/OrderLemmas.v", "Tools/OrderSites.v", "Gen/GenRangeSites.v", "Gen/GenMediaTable.v", "Props/C07.v"]


def run(ctx):
    quick = ctx.tier != "thorough"
    ctx.build_tools(["detcheck", "rangesites"])
    ctx.build_swagger()
    # race-enabled build of the concurrency harness (cgo is needed by the race detector)
    env = dict(ctx.env, CGO_ENABLED="1")
    with ctx.lock("gobuild"):
        p = ctx.sh(["go", "build", "-race", "-tags", "verif", "-o", os.path.join(BIN, "detcheck-race"), "./cmd/detcheck"],
                   cwd=os.path.join(VERIF, "harness"), check=False, env=env)
    race_ok = p.returncode == 0
    # translator: typed inventory of map-range sites + media table
    p = ctx.sh([os.path.join(BIN, "rangesites"), REPO, os.path.join(COQ, "Gen")], check=False)
    if p.returncode != 0:
        raise CheckError("rangesites translator cannot read the current source: " + p.stdout[-1500:])
    cq = common.coq_phase(ctx, "Props/C07.v", CONE, [])
    broken = []
    # N runs in fresh processes
    out = os.path.join(ctx.work, "runs.json")
    ctx.sh([os.path.join(BIN, "detcheck"), "runs", "-bin", os.path.join(BIN, "swagger"), "-work", os.path.join(ctx.work, "runs"),
            "-out", out, "-n", "5" if quick else "30"], timeout=6000)
    rep = json.load(open(out))
    viols = list(rep["violations"])
    # K concurrent library calls under the race detector
    conc = {"evaluations": 0, "violations": []}
    race_report = ""
    if race_ok:
        cout = os.path.join(ctx.work, "conc.json")
        p = ctx.sh([os.path.join(BIN, "detcheck-race"), "conc", "-work", os.path.join(ctx.work, "conc"), "-out", cout,
                    "-k", "3" if quick else "8", "-rounds", "1" if quick else "4", "-modes", "quick" if quick else "all"],
                   check=False, timeout=6000, env=dict(env, GORACE="halt_on_error=0 exitcode=66"))
        if "WARNING: DATA RACE" in p.stdout:
            race_report = p.stdout[p.stdout.find("WARNING: DATA RACE"):][:3000]
            viols.append({"key": "c07/data-race", "what": "the race detector reports a data race during concurrent library generations",
                          "input": {"harness": "detcheck conc (K concurrent GenerateModels/GenerateServer/GenerateClient)"}, "detail": race_report})
        elif p.returncode != 0 and not os.path.exists(cout):
            raise CheckError("concurrency harness failed: " + p.stdout[-1500:])
        if os.path.exists(cout):
            conc = json.load(open(cout))
            viols += conc["violations"]
    else:
        ctx.notes.append("race-enabled build unavailable (cgo): concurrency oracle skipped")
    coverage = {
        "evaluations": rep["evaluations"] + conc["evaluations"], "distinct_nontrivial": rep["distinct_nontrivial"],
        "rule": rep["rule"] + " Plus: " + conc.get("rule", "concurrency oracle not run"),
        "samples": rep["samples"][:3], "input_distribution": rep["coverage"],
        "concurrent_generations": conc["evaluations"], "race_detector": "on" if race_ok else "unavailable",
    }
    return common.conclude(ctx, cq, viols, broken, coverage,
                           ["that a Go loop matches its detected pattern is decided syntactically by the translator (trusted, exercised by the N-run comparison)",
                            "data-race freedom is only exhibited by -race runs; the Go memory model is not modelled",
                            "the media-type catalogue is a finite list; ambiguity outside it is not excluded"],
                           "make -C coq Props/C07.vo (coqc 8.16.1) + coqc Props/C07.v for Print Assumptions",
                           "loop patterns as folds over permutations (Tools/Order.v); site inventory and media table regenerated with go/packages + go/types",
                           )


def replay(ctx, path):
    return run(ctx)

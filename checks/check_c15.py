import diffcluster
run = diffcluster.run
replay = diffcluster.replay

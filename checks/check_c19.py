"""C19 — JSON and YAML renderings of a spec are interchangeable."""
import os, json
import common
from common import VERIF, COQ, BIN, CheckError

CONE = ["Base/Str.v", "Tools/Decimal.v", "Props/C19.v"]


def run(ctx):
    quick = ctx.tier != "thorough"
    ctx.build_tools(["yamlcheck"])
    ctx.build_swagger()
    cq = common.coq_phase(ctx, "Props/C19.v", CONE, ["Tools/Decimal.vo"])
    broken = []
    odir = os.path.join(ctx.work, "c19")
    ctx.sh([os.path.join(BIN, "yamlcheck"), "-bin", os.path.join(BIN, "swagger"), "-work", os.path.join(ctx.work, "y"), "-out", odir,
            "-seed", str(ctx.seed), "-n", "56" if quick else "600"], timeout=6000)
    rep = json.load(open(os.path.join(odir, "yaml.json")))
    mism = []
    if cq["ok_model"]:
        mism = common.parse_case_mismatches(ctx.run_case_shards(odir))
        if mism:
            broken.append({"kind": "correspondence", "where": "Go decimal rendering of integers vs Tools/Decimal.v",
                           "error": f"{len(mism)} integer cases disagree: {mism[:5]}"})
    coverage = {
        "evaluations": rep["evaluations"], "distinct_nontrivial": rep["distinct_nontrivial"], "rule": rep["rule"],
        "samples": rep["samples"][:3] or [{"note": "none"}], "input_distribution": rep["coverage"],
        "model_cases": rep["model_cases"], "model_mismatches": len(mism),
    }
    return common.conclude(ctx, cq, rep["violations"], broken, coverage,
                           ["gopkg.in/yaml.v2/v3, swag.JSONMapSlice and swag.YAMLDoc are dependencies: exercised, not modelled",
                            "the loader used to read YAML outputs back is the one go-swagger itself uses (swag.YAMLDoc)"],
                           "make -C coq Props/C19.vo (coqc 8.16.1) + coqc Props/C19.v for Print Assumptions",
                           "decimal text of integers (Coq standard library Decimal conversions, round-trip lemmas DecimalString.NilZero.isi and DecimalZ.of_to)",
                           mismatch_input={"model_mismatches": mism[:5]} if mism else None)


def replay(ctx, path):
    return run(ctx)

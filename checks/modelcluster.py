"""C02 / C05 — generated models: validation agrees with the schema; JSON round trip."""
import os, json
import common
from common import VERIF, COQ, BIN, CheckError

CONE = ["Base/Str.v", "Base/Json.v", "Sem/Schema.v", "Sem/SchemaLemmas.v", "Sem/PropCount.v", "Sem/SchemaRun.v"]
CFG = {
    "C02": dict(props="Props/C02.v", report="c02.json", cases="", where="compiled generated models (Unmarshal+Validate) vs gen_accepts / go-openapi/validate vs ref_valid"),
    "C05": dict(props="Props/C05.v", report="c05.json", cases="rt", where="json.Marshal(json.Unmarshal(doc)) of the compiled generated models vs rt"),
}


def run(ctx):
    cfg = CFG[ctx.pid]
    quick = ctx.tier != "thorough"
    ctx.build_tools(["modelcheck"])
    ctx.build_swagger()
    cq = common.coq_phase(ctx, cfg["props"], CONE + [cfg["props"]], ["Sem/SchemaRun.vo"])
    broken = []
    odir = os.path.join(ctx.work, "models")
    ctx.sh([os.path.join(BIN, "modelcheck"), "-bin", os.path.join(BIN, "swagger"), "-work", os.path.join(ctx.work, "gen"), "-out", odir,
            "-seed", str(ctx.seed), "-specs", "6" if quick else "80"], timeout=6000)
    rep = json.load(open(os.path.join(odir, cfg["report"])))
    mism = []
    if cq["ok_model"]:
        cdir = os.path.join(odir, cfg["cases"]) if cfg["cases"] else odir
        res = ctx.run_case_shards(cdir)
        for f, txt in sorted(res.items()):
            if txt != "[]":
                mism.append((os.path.basename(f), txt[:300]))
        if mism:
            broken.append({"kind": "correspondence", "where": cfg["where"], "error": f"cases on which model and implementation differ: {mism[:4]}"})
    coverage = {
        "evaluations": rep["evaluations"], "distinct_nontrivial": rep["distinct_nontrivial"], "rule": rep["rule"],
        "samples": rep["samples"][:3] or [{"note": "none"}], "input_distribution": rep["coverage"], "go_builds": rep["builds"],
        "model_cases": rep["model_cases"] if ctx.pid == "C02" else rep.get("rt_model_cases", 0), "model_mismatches": len(mism),
    }
    return common.conclude(ctx, cq, rep["violations"], broken, coverage,
                           ["the Gallina model covers the fragment of Sem/Schema.v; formats, patterns, allOf, additionalProperties next to properties, property counts are compared with the reference validator only",
                            "go-openapi/validate (reference validator), encoding/json and the Go compiler are oracles/dependencies",
                            "the documented exceptions are implemented once in Go (erase) and once in Gallina (erase); the two are compared through the cases"],
                           f"make -C coq {cfg['props'].replace('.v', '.vo')} (coqc 8.16.1) + coqc {cfg['props']} for Print Assumptions",
                           "hand-written Gallina model of the generated Go model types: decoding, Validate, marshalling, and of reference validity (Sem/Schema.v)",
                           mismatch_input={"model_mismatches": mism[:4]} if mism else None)


def replay(ctx, path):
    return run(ctx)

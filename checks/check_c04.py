import servercluster
run = servercluster.run
replay = servercluster.replay

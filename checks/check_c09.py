"""C09 — free text from the spec never becomes code."""
import os, json
import common
from common import VERIF, COQ, BIN, CheckError

CONE = ["Base/Str.v", "Tools/Escape.v", "Tools/EscapeLemmas.v", "Tools/EscapeRun.v", "Gen/GenTextSites.v", "Props/C09.v"]


def run(ctx, only=None, klass=None):
    quick = ctx.tier != "thorough"
    ctx.build_tools(["textcheck"])
    ctx.build_swagger()
    ctx.translate([("textsites", "GenTextSites.v")])
    cq = common.coq_phase(ctx, "Props/C09.v", CONE, ["Tools/EscapeRun.vo"])
    broken = []
    # helper functions: implementation (the generator's own FuncMap) vs model, plus the theorems' promises re-checked on the outputs
    fdir = os.path.join(ctx.work, "funcs")
    ctx.sh([os.path.join(BIN, "textcheck"), "funcs", "-seed", str(ctx.seed), "-n", "3000" if quick else "40000", "-shards", "4" if quick else "16", "-out", fdir])
    frep = json.load(open(os.path.join(fdir, "funcs.json")))
    mism = []
    if cq["ok_model"]:
        mism = common.parse_case_mismatches(ctx.run_case_shards(fdir))
        if mism:
            broken.append({"kind": "correspondence", "where": "comment/blockcomment/escapeBackticks vs Tools/Escape.v",
                           "error": f"{len(mism)} of {frep['evaluations']} cases disagree (1 = output differs, 2-5 = a promise of the theorems fails on the observed output): {mism[:5]}"})
    # hostile rendering oracle (the property's own observable)
    out = os.path.join(ctx.work, "inject.json")
    cmd = [os.path.join(BIN, "textcheck"), "inject", "-bin", os.path.join(BIN, "swagger"), "-work", os.path.join(ctx.work, "render"),
           "-out", out, "-tier", ctx.tier]
    if only:
        cmd += ["-only", only]
    if klass:
        cmd += ["-class", klass]
    ctx.sh(cmd, timeout=6000)
    rep = json.load(open(out))
    coverage = {
        "evaluations": rep["evaluations"] + frep["evaluations"], "distinct_nontrivial": rep["distinct_nontrivial"],
        "rule": rep["rule"], "samples": rep["samples"][:3],
        "hostile_renderings": rep["evaluations"], "generation_errors_accepted": rep["generation_errors"],
        "positions": rep["positions"], "sparse_positions": rep.get("sparse_positions", 0), "hostile_classes": rep["classes"], "input_distribution": rep["coverage"],
        "helper_cases": frep["evaluations"], "helper_cases_distinct": frep["distinct_nontrivial"], "helper_mismatches": len(mism),
    }
    return common.conclude(ctx, cq, rep["violations"], broken, coverage,
                           ["the template-site inventory (context detection, helper chains) is computed by the translator and trusted; it is cross-checked by the hostile renderings",
                            "humanize/pascalize/... are assumed to emit only identifier-like text; encoding/json is assumed to escape control characters",
                            "go/parser is the oracle for what a generated file declares"],
                           "make -C coq Props/C09.vo (coqc 8.16.1) + coqc Props/C09.v for Print Assumptions",
                           "hand-written Gallina model of padComment/blockComment/escapeBackticks and of the Go comment / raw-string lexical rules (Tools/Escape.v)",
                           mismatch_input={"helper_mismatches": mism[:5]} if mism else None)


def replay(ctx, path):
    obj = json.load(open(path))
    inp = obj.get("input") or {}
    if "position" in inp:
        return run(ctx, only=inp["position"], klass=inp.get("class"))
    return run(ctx)

"""C03 / C04 / C06 — generated server binding, client/server interop, security gate."""
import os, json
import common
from common import VERIF, COQ, BIN, CheckError

CONE = ["Base/Str.v", "Tools/Decimal.v", "Tools/GenServer.v", "Tools/GenServerLemmas.v", "Tools/IntText.v", "Tools/ClientServer.v", "Tools/GenServerRun.v"]
CFG = {
    "C03": dict(props="Props/C03.v", where="compiled generated server (bind<Param> via the in-process driver) and swag.SplitByFormat vs bind / split_by"),
    "C04": dict(props="Props/C04.v", where="compiled generated client against compiled generated server, swag.JoinByFormat/SplitByFormat vs client_read / join_by / split_by"),
    "C06": dict(props="Props/C06.v", where="compiled generated server with per-scheme authenticators vs serve/authenticate"),
}
N_SPECS = {"C03": (3, 30), "C04": (3, 30), "C06": (3, 30)}


def run(ctx):
    cfg = CFG[ctx.pid]
    quick = ctx.tier != "thorough"
    ctx.build_tools(["servercheck"])
    ctx.build_swagger()
    cq = common.coq_phase(ctx, cfg["props"], CONE + [cfg["props"]], ["Tools/GenServerRun.vo"])
    broken = []
    odir = os.path.join(ctx.work, "server")
    n = N_SPECS[ctx.pid][0 if quick else 1]
    ctx.sh([os.path.join(BIN, "servercheck"), "-bin", os.path.join(BIN, "swagger"), "-work", os.path.join(ctx.work, "gen"), "-out", odir,
            "-seed", str(ctx.seed), "-specs", str(n)], timeout=9000)
    rep = json.load(open(os.path.join(odir, ctx.pid.lower() + ".json")))
    mism = []
    if cq["ok_model"]:
        res = ctx.run_case_shards(os.path.join(odir, "coq-" + ctx.pid))
        for f, txt in sorted(res.items()):
            if txt != "[]":
                mism.append((os.path.basename(f), txt[:300]))
        if mism:
            broken.append({"kind": "correspondence", "where": cfg["where"], "error": f"cases on which model and implementation differ: {mism[:4]}"})
    coverage = {
        "evaluations": rep["evaluations"], "distinct_nontrivial": rep["distinct_nontrivial"], "rule": rep["rule"],
        "samples": rep["samples"][:3] if rep.get("samples") else [{"note": "none"}], "input_distribution": rep["coverage"], "go_builds": rep["builds"],
        "model_cases": rep["model_cases"], "model_mismatches": len(mism),
    }
    return common.conclude(ctx, cq, rep["violations"], broken, coverage,
                           ["the Gallina model covers scalar non-body parameters, collection-format split/join, response-code dispatch and the security gate; routing, multipart, strfmt formats, payload codecs and HTTP transport are exercised on the compiled generated code only",
                            "go-openapi/runtime, go-openapi/validate, go-openapi/swag and the Go compiler are dependencies; the harness's reference binder (refBind/refAuth) is the oracle for what the model does not cover",
                            "the in-process reflection driver (harness/cmd/servercheck/driver.go) that wires handlers, authenticators and the generated client"],
                           f"make -C coq {cfg['props'].replace('.v', '.vo')} (coqc 8.16.1) + coqc {cfg['props']} for Print Assumptions",
                           "hand-written Gallina model of server/parameter.gotmpl binding ladder, swag.SplitByFormat/JoinByFormat, client/response.gotmpl dispatch, builder.gotmpl/runtime security gate (Tools/GenServer.v)",
                           mismatch_input={"model_mismatches": mism[:4]} if mism else None)


def replay(ctx, path):
    return run(ctx)

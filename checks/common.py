"""Shared machinery of ./check: tool builds, translators, Coq build + audit, case evaluation, findings, evidence."""
import os, sys, json, subprocess, time, re, hashlib, shutil, glob, fcntl

VERIF = os.path.dirname(os.path.dirname(os.path.abspath(__file__)))
REPO = os.environ.get("VERIF_REPO", "/repo")
COQ = os.path.join(VERIF, "coq")
BIN = os.path.join(VERIF, ".work", "bin")

FORBIDDEN = re.compile(r"\b(Admitted|admit|Axiom|Axioms|Parameter|Parameters|Conjecture|Hypothesis|Variable)\b|Unset\s+Guard|bypass_check|type-in-type|impredicative-set|Admit\s+Obligations")
ALLOWED_AXIOMS = set()  # none needed so far; stdlib axioms would be listed here and in DESIGN.md section 7


class CheckError(Exception):
    pass


class Ctx:
    def __init__(self, pid, tier, seed):
        self.pid, self.tier, self.seed = pid, tier, seed
        self.t0 = time.time()
        self.work = os.environ.get("VERIF_WORK") or os.path.join(VERIF, ".work", f"{pid}-{os.getpid()}")
        os.makedirs(self.work, exist_ok=True)
        os.makedirs(BIN, exist_ok=True)
        os.makedirs(os.path.join(VERIF, "evidence"), exist_ok=True)
        os.makedirs(os.path.join(VERIF, "replays"), exist_ok=True)
        self.env = dict(os.environ, GOFLAGS="-mod=mod", GOPROXY="off", GOSUMDB="off", GOTOOLCHAIN="local",
                        CGO_ENABLED=os.environ.get("CGO_ENABLED", "0"))
        self.known_lines = []
        self.violations = []   # (key, what, replay_path, no_input)
        self.notes = []

    # ---------- processes ----------
    def sh(self, cmd, cwd=None, timeout=1800, check=True, env=None):
        p = subprocess.run(cmd, cwd=cwd, env=env or self.env, stdout=subprocess.PIPE, stderr=subprocess.STDOUT,
                           timeout=timeout, text=True, errors="replace")
        if check and p.returncode != 0:
            raise CheckError(f"command failed ({p.returncode}): {' '.join(map(str, cmd))}\n{p.stdout[-3000:]}")
        return p

    def lock(self, name):
        f = open(os.path.join(VERIF, ".work", name + ".lock"), "w")
        fcntl.flock(f, fcntl.LOCK_EX)
        return f

    def cleanup(self):
        if not os.environ.get("VERIF_KEEP"):
            shutil.rmtree(self.work, ignore_errors=True)

    # ---------- builds ----------
    def build_tools(self, harness_cmds=("diffcheck",)):
        """(Re)build translator and harness binaries from the current /repo working tree."""
        with self.lock("gobuild"):
            self.sh(["go", "build", "-o", os.path.join(BIN, "gstrans"), "."], cwd=os.path.join(VERIF, "translators"))
            hd = os.path.join(VERIF, "harness")
            shutil.copyfile(os.path.join(REPO, "go.sum"), os.path.join(hd, "go.sum"))
            for c in harness_cmds:
                p = self.sh(["go", "build", "-tags", "verif", "-o", os.path.join(BIN, c), "./cmd/" + c], cwd=hd, check=False)
                if p.returncode != 0:
                    raise CheckError("harness does not build against the current /repo tree:\n" + p.stdout[-3000:])

    def build_swagger(self):
        """Build the swagger command from the current /repo working tree (what a user would run)."""
        with self.lock("gobuild"):
            p = self.sh(["go", "build", "-o", os.path.join(BIN, "swagger"), "./cmd/swagger"], cwd=REPO, check=False)
            self.sh(["git", "-C", REPO, "checkout", "--", "go.sum"], check=False)
            if p.returncode != 0:
                raise CheckError("cmd/swagger does not build from the current tree:\n" + p.stdout[-3000:])

    def translate(self, names):
        for n, out in names:
            p = self.sh([os.path.join(BIN, "gstrans"), n, REPO, os.path.join(COQ, "Gen", out)], check=False)
            if p.returncode != 0:
                raise CheckError(f"translator {n} cannot read the current source: {p.stdout[-2000:]}")

    def coq_make(self, targets, timeout=3000):
        """Full .vo build of the given targets (and their cone). Returns (ok, log)."""
        with self.lock("coq"):
            if not os.path.exists(os.path.join(COQ, "Makefile")) or \
               os.path.getmtime(os.path.join(COQ, "Makefile")) < os.path.getmtime(os.path.join(COQ, "_CoqProject")):
                self.sh(["coq_makefile", "-f", "_CoqProject", "-o", "Makefile"], cwd=COQ)
            p = self.sh(["timeout", str(timeout), "make", "-j16"] + list(targets), cwd=COQ, check=False, timeout=timeout + 60)
            return p.returncode == 0, p.stdout

    def coq_assumptions(self, props_file):
        """Recompile the property file alone and collect what Print Assumptions says under every theorem."""
        with self.lock("coq"):
            p = self.sh(["timeout", "900", "coqc", "-Q", ".", "GS", props_file], cwd=COQ, check=False)
        if p.returncode != 0:
            return False, [], p.stdout
        out = p.stdout
        closed = len(re.findall(r"Closed under the global context", out))
        axioms = re.findall(r"^Axioms:\n((?:.+\n)+)", out, flags=re.M)
        names = []
        for blk in axioms:
            for ln in blk.splitlines():
                m = re.match(r"^(\S+)\s*:", ln)
                if m:
                    names.append(m.group(1))
        return True, (closed, names), out

    def audit_sources(self, files):
        bad = []
        for f in files:
            txt = open(os.path.join(COQ, f)).read()
            txt_nc = re.sub(r"\(\*.*?\*\)", "", txt, flags=re.S)
            txt_nc = re.sub(r'"[^"]*"', '""', txt_nc)   # string literals are data (a tagger is called "Parameters")
            for m in FORBIDDEN.finditer(txt_nc):
                # Section variables/hypotheses are allowed only inside a Section
                word = m.group(0)
                if word in ("Variable", "Hypothesis"):
                    before = txt_nc[:m.start()]
                    if before.count("Section ") > before.count("\nEnd "):
                        continue
                bad.append(f"{f}: {word}")
        return bad

    def count_qed(self, files):
        n = 0
        for f in files:
            txt = open(os.path.join(COQ, f)).read()
            n += len(re.findall(r"\b(Qed|Defined)\.", txt))
        return n

    # ---------- evaluating cases.v shards ----------
    domain = [0, 0]

    def run_case_shards(self, d, timeout=1500):
        files = sorted(glob.glob(os.path.join(d, "cases_*.v")))
        # at most 8 evaluations at a time: a shard of several hundred documents can take gigabytes under vm_compute
        outs = []
        for i in range(0, len(files), 8):
            procs = [(f, subprocess.Popen(["timeout", str(timeout), "coqc", "-Q", COQ, "GS", f], cwd=d,
                                          stdout=subprocess.PIPE, stderr=subprocess.STDOUT, text=True)) for f in files[i:i + 8]]
            for f, p in procs:
                out, _ = p.communicate()
                outs.append((f, p.returncode, out))
        results = {}
        for f, rc, out in outs:
            if rc != 0:
                raise CheckError(f"model evaluation failed on {os.path.basename(f)} (exit {rc}):\n{out[-2000:]}")
            m = re.search(r"M\s*=\s*(.*?)\n\s*:", out, flags=re.S)
            if not m:
                raise CheckError(f"cannot parse model output of {f}: {out[-500:]}")
            results[f] = re.sub(r"\s+", " ", m.group(1)).strip()
            w = re.search(r"W\s*=\s*\((\d+),\s*(\d+)\)", out)
            if w:
                self.domain = [self.domain[0] + int(w.group(1)), self.domain[1] + int(w.group(2))]
        return results

    # ---------- findings ----------
    def known_findings(self):
        out = []
        p = os.path.join(VERIF, "KNOWN_FINDINGS.jsonl")
        if os.path.exists(p):
            for ln in open(p):
                ln = ln.strip()
                if ln:
                    out.append(json.loads(ln))
        return out

    def classify(self, viols):
        """Split harness violations into known findings (status known, same property, same key) and new ones."""
        known = [k for k in self.known_findings() if k["property"] == self.pid and k["status"] == "known"]
        new, seen_known = [], {}
        for v in viols:
            hit = next((k for k in known if k["key"] == v["key"]), None)
            if hit:
                seen_known.setdefault(hit["key"], (hit, 0))
                seen_known[hit["key"]] = (hit, seen_known[hit["key"]][1] + 1)
            else:
                new.append(v)
        return new, seen_known

    def write_replay(self, name, obj):
        h = hashlib.sha256(json.dumps(obj, sort_keys=True).encode()).hexdigest()[:12]
        path = os.path.join(VERIF, "replays", f"{self.pid}-{name}-{h}.json")
        obj = dict(obj, property=self.pid, how=f"./check {self.pid} --replay {path}")
        with open(path, "w") as f:
            json.dump(obj, f, indent=1)
        return path

    def write_evidence(self, coverage, assumptions, violations, level="proof"):
        ev = {"property_id": self.pid, "tier": self.tier, "seed": self.seed, "level": level,
              "coverage": coverage, "assumptions": assumptions, "wall_s": round(time.time() - self.t0, 1),
              "violations": violations}
        with open(os.path.join(VERIF, "evidence", f"{self.pid}.json"), "w") as f:
            json.dump(ev, f, indent=1)

    def repo_rev(self):
        p = self.sh(["git", "-C", REPO, "rev-parse", "--short", "HEAD"], check=False)
        d = self.sh(["git", "-C", REPO, "status", "--porcelain"], check=False)
        return p.stdout.strip() + ("+dirty" if d.stdout.strip() else "")


TRUSTED_BASE_COMMON = [
    "Coq 8.16.1 kernel and its vm_compute reduction (used for finite-domain lemmas and for evaluating the model on cases.v); no native_compute",
    "translators/gstrans (Go, go/parser): regenerates coq/Gen/*.v from /repo on every run",
    "Go harness (generators, canonicalisers, worker process) and ./check (Python)",
]


# ---------------------------------------------------------------------------------------------
# shared phases for the per-property check modules
# ---------------------------------------------------------------------------------------------
def coq_phase(ctx, props_file, cone_files, model_targets):
    """Build the model targets and the property file; audit. Returns dict(broken, closed, axioms, n_qed, ok_model, ok_props)."""
    import re as _re
    broken = []
    ok_model, log_model = (True, "")
    if model_targets:
        ok_model, log_model = ctx.coq_make(model_targets)
        if not ok_model:
            broken.append({"kind": "model-build", "where": ", ".join(model_targets), "error": log_model[-600:]})
    ok_props, log_props = ctx.coq_make([props_file.replace(".v", ".vo")])
    closed, axioms = 0, []
    if not ok_props:
        m = _re.search(r'File "\./([^"]+)", line (\d+)', log_props)
        where = f"{m.group(1)}:{m.group(2)}" if m else props_file
        err = log_props[log_props.find("Error"):][:700] if "Error" in log_props else log_props[-700:]
        broken.append({"kind": "proof-obligation", "where": where, "error": err})
    else:
        ok_a, res, out_a = ctx.coq_assumptions(props_file)
        if not ok_a:
            broken.append({"kind": "proof-obligation", "where": props_file, "error": out_a[-600:]})
        else:
            closed, axioms = res
            bad_ax = [a for a in axioms if a not in ALLOWED_AXIOMS]
            if bad_ax:
                broken.append({"kind": "axiom-audit", "where": props_file, "error": "theorems depend on axioms: " + ", ".join(bad_ax)})
    coqchk = "not run (quick tier)"
    if ok_props and ctx.tier == "thorough":
        # independent re-check of the compiled property module and everything it depends on
        mod = "GS." + props_file[:-2].replace("/", ".")
        p = ctx.sh(["coqchk", "-silent", "-o", "-Q", COQ, "GS", mod], check=False, timeout=3000)
        outc = p.stdout or ""
        if p.returncode != 0 or "* Axioms: <none>" not in outc or "type-in-type: <none>" not in outc or "unsafe (co)fixpoints: <none>" not in outc or "positivity is assumed: <none>" not in outc:
            broken.append({"kind": "axiom-audit", "where": mod, "error": "coqchk does not confirm an axiom-free, fully checked module: " + outc[-600:]})
            coqchk = "FAILED"
        else:
            coqchk = "coqchk -silent -o: Axioms <none>, no type-in-type, no unsafe fixpoints, no assumed positivity"
    cone = [f for f in cone_files if os.path.exists(os.path.join(COQ, f))]
    bad = ctx.audit_sources(cone)
    if bad:
        broken.append({"kind": "source-audit", "where": ", ".join(bad), "error": "forbidden vernacular in the development"})
    return dict(broken=broken, closed=closed, axioms=axioms, n_qed=ctx.count_qed(cone), ok_model=ok_model, ok_props=ok_props, coqchk=coqchk)


def parse_case_mismatches(results):
    import re as _re
    out = []
    for f, txt in sorted(results.items()):
        if txt == "[]":
            continue
        for m in _re.finditer(r"\(\s*(\d+)\s*,\s*(\[[^\]]*\]|[^()\[\]]*?)\s*\)", txt):
            out.append((os.path.basename(f), int(m.group(1)), m.group(2).strip()))
    return out


def conclude(ctx, cq, violations, broken_extra, coverage, assumptions, checker_cmd, model_note, mismatch_input=None, max_lines=5):
    """Common verdict: known findings, VIOLATION lines, evidence. Returns the exit code."""
    broken = cq["broken"] + broken_extra
    new, known_seen = ctx.classify(violations)
    for k in [k for k in ctx.known_findings() if k["property"] == ctx.pid and k["status"] == "known"]:
        cnt = known_seen.get(k["key"], (None, 0))[1]
        print(f"KNOWN-FINDING: property={ctx.pid} {k['what']} [key {k['key']}; seen {cnt}x in this run; replay {k.get('replay', '-')}]")
    rc, nviol = 0, 0
    if new:
        bykey = {}
        for v in new:
            sz = len(json.dumps(v["input"]))
            if v["key"] not in bykey or sz < bykey[v["key"]][0]:
                bykey[v["key"]] = (sz, v)
        for key, (_, v) in sorted(bykey.items())[:max_lines]:
            name = re.sub(r"[^A-Za-z0-9_.-]+", "_", key.split("/", 1)[-1])[:60]
            path = ctx.write_replay(name, {"kind": "counterexample", "key": key, "what": v["what"], "input": v["input"],
                                           "observed": v.get("detail"), "expected": {"by": "the property's own oracle run on the implementation"},
                                           "broken": broken, "seed": ctx.seed})
            print(f"VIOLATION property={ctx.pid} replay={path}")
            nviol += 1
        rc = 1
    elif broken:
        path = ctx.write_replay("broken", {"kind": "broken-obligation", "broken": broken, "seed": ctx.seed, "input": mismatch_input,
                                           "note": "the property is no longer shown to hold; the search over the property's oracle found no failing input"})
        print(f"VIOLATION property={ctx.pid} replay={path} no-failing-input-found")
        rc, nviol = 1, 1
    proof_broken = any(b["kind"] in ("proof-obligation", "axiom-audit", "source-audit") for b in broken)
    cov = dict(coverage)
    cov.update({
        "obligations": max(cq["n_qed"], 1), "discharged": 0 if proof_broken else max(cq["n_qed"], 1),
        "checker_cmd": checker_cmd,
        "trusted_base": TRUSTED_BASE_COMMON + [model_note,
                                               f"Print Assumptions: {cq['closed']} theorems closed under the global context, axioms: {cq['axioms'] or 'none'}"],
        "property_theorems": cq["closed"], "axioms": cq["axioms"], "coqchk": cq.get("coqchk", "not run"), "broken": broken,
        "known_findings_seen": {k: c for k, (_, c) in known_seen.items()}, "repo": ctx.repo_rev(),
    })
    ctx.write_evidence(cov, assumptions, nviol)
    return rc

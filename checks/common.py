"""Shared machinery of ./check: tool builds, translators, Coq build + audit, case evaluation, findings, evidence."""
import os, sys, json, subprocess, time, re, hashlib, shutil, glob, fcntl

VERIF = os.path.dirname(os.path.dirname(os.path.abspath(__file__)))
REPO = os.environ.get("VERIF_REPO", "/repo")
COQ = os.path.join(VERIF, "coq")
BIN = os.path.join(VERIF, ".work", "bin")

FORBIDDEN = re.compile(r"\b(Admitted|admit|Axiom|Axioms|Parameter|Parameters|Conjecture|Hypothesis|Variable)\b|Unset\s+Guard|bypass_check|type-in-type|impredicative-set|Admit\s+Obligations")
ALLOWED_AXIOMS = set()  # none needed so far; stdlib axioms would be listed here and in DESIGN.md section 7


class CheckError(Exception):
    pass


class Ctx:
    def __init__(self, pid, tier, seed):
        self.pid, self.tier, self.seed = pid, tier, seed
        self.t0 = time.time()
        self.work = os.environ.get("VERIF_WORK") or os.path.join(VERIF, ".work", f"{pid}-{os.getpid()}")
        os.makedirs(self.work, exist_ok=True)
        os.makedirs(BIN, exist_ok=True)
        os.makedirs(os.path.join(VERIF, "evidence"), exist_ok=True)
        os.makedirs(os.path.join(VERIF, "replays"), exist_ok=True)
        self.env = dict(os.environ, GOFLAGS="-mod=mod", GOPROXY="off", GOSUMDB="off", GOTOOLCHAIN="local",
                        CGO_ENABLED=os.environ.get("CGO_ENABLED", "0"))
        self.known_lines = []
        self.violations = []   # (key, what, replay_path, no_input)
        self.notes = []

    # ---------- processes ----------
    def sh(self, cmd, cwd=None, timeout=1800, check=True, env=None):
        p = subprocess.run(cmd, cwd=cwd, env=env or self.env, stdout=subprocess.PIPE, stderr=subprocess.STDOUT,
                           timeout=timeout, text=True, errors="replace")
        if check and p.returncode != 0:
            raise CheckError(f"command failed ({p.returncode}): {' '.join(map(str, cmd))}\n{p.stdout[-3000:]}")
        return p

    def lock(self, name):
        f = open(os.path.join(VERIF, ".work", name + ".lock"), "w")
        fcntl.flock(f, fcntl.LOCK_EX)
        return f

    def cleanup(self):
        if not os.environ.get("VERIF_KEEP"):
            shutil.rmtree(self.work, ignore_errors=True)

    # ---------- builds ----------
    def build_tools(self, harness_cmds=("diffcheck",)):
        """(Re)build translator and harness binaries from the current /repo working tree."""
        with self.lock("gobuild"):
            self.sh(["go", "build", "-o", os.path.join(BIN, "gstrans"), "."], cwd=os.path.join(VERIF, "translators"))
            hd = os.path.join(VERIF, "harness")
            shutil.copyfile(os.path.join(REPO, "go.sum"), os.path.join(hd, "go.sum"))
            for c in harness_cmds:
                p = self.sh(["go", "build", "-tags", "verif", "-o", os.path.join(BIN, c), "./cmd/" + c], cwd=hd, check=False)
                if p.returncode != 0:
                    raise CheckError("harness does not build against the current /repo tree:\n" + p.stdout[-3000:])

    def translate(self, names):
        for n, out in names:
            p = self.sh([os.path.join(BIN, "gstrans"), n, REPO, os.path.join(COQ, "Gen", out)], check=False)
            if p.returncode != 0:
                raise CheckError(f"translator {n} cannot read the current source: {p.stdout[-2000:]}")

    def coq_make(self, targets, timeout=3000):
        """Full .vo build of the given targets (and their cone). Returns (ok, log)."""
        with self.lock("coq"):
            if not os.path.exists(os.path.join(COQ, "Makefile")) or \
               os.path.getmtime(os.path.join(COQ, "Makefile")) < os.path.getmtime(os.path.join(COQ, "_CoqProject")):
                self.sh(["coq_makefile", "-f", "_CoqProject", "-o", "Makefile"], cwd=COQ)
            p = self.sh(["timeout", str(timeout), "make", "-j16"] + list(targets), cwd=COQ, check=False, timeout=timeout + 60)
            return p.returncode == 0, p.stdout

    def coq_assumptions(self, props_file):
        """Recompile the property file alone and collect what Print Assumptions says under every theorem."""
        with self.lock("coq"):
            p = self.sh(["timeout", "900", "coqc", "-Q", ".", "GS", props_file], cwd=COQ, check=False)
        if p.returncode != 0:
            return False, [], p.stdout
        out = p.stdout
        closed = len(re.findall(r"Closed under the global context", out))
        axioms = re.findall(r"^Axioms:\n((?:.+\n)+)", out, flags=re.M)
        names = []
        for blk in axioms:
            for ln in blk.splitlines():
                m = re.match(r"^(\S+)\s*:", ln)
                if m:
                    names.append(m.group(1))
        return True, (closed, names), out

    def audit_sources(self, files):
        bad = []
        for f in files:
            txt = open(os.path.join(COQ, f)).read()
            txt_nc = re.sub(r"\(\*.*?\*\)", "", txt, flags=re.S)
            for m in FORBIDDEN.finditer(txt_nc):
                # Section variables/hypotheses are allowed only inside a Section
                word = m.group(0)
                if word in ("Variable", "Hypothesis"):
                    before = txt_nc[:m.start()]
                    if before.count("Section ") > before.count("\nEnd "):
                        continue
                bad.append(f"{f}: {word}")
        return bad

    def count_qed(self, files):
        n = 0
        for f in files:
            txt = open(os.path.join(COQ, f)).read()
            n += len(re.findall(r"\b(Qed|Defined)\.", txt))
        return n

    # ---------- evaluating cases.v shards ----------
    def run_case_shards(self, d, timeout=1500):
        files = sorted(glob.glob(os.path.join(d, "cases_*.v")))
        procs = []
        for f in files:
            procs.append((f, subprocess.Popen(["timeout", str(timeout), "coqc", "-Q", COQ, "GS", f], cwd=d,
                                              stdout=subprocess.PIPE, stderr=subprocess.STDOUT, text=True)))
        results = {}
        for f, p in procs:
            out, _ = p.communicate()
            if p.returncode != 0:
                raise CheckError(f"model evaluation failed on {os.path.basename(f)}:\n{out[-2000:]}")
            m = re.search(r"M\s*=\s*(.*?)\n\s*:", out, flags=re.S)
            if not m:
                raise CheckError(f"cannot parse model output of {f}: {out[-500:]}")
            results[f] = re.sub(r"\s+", " ", m.group(1)).strip()
        return results

    # ---------- findings ----------
    def known_findings(self):
        out = []
        p = os.path.join(VERIF, "KNOWN_FINDINGS.jsonl")
        if os.path.exists(p):
            for ln in open(p):
                ln = ln.strip()
                if ln:
                    out.append(json.loads(ln))
        return out

    def classify(self, viols):
        """Split harness violations into known findings (status known, same property, same key) and new ones."""
        known = [k for k in self.known_findings() if k["property"] == self.pid and k["status"] == "known"]
        new, seen_known = [], {}
        for v in viols:
            hit = next((k for k in known if k["key"] == v["key"]), None)
            if hit:
                seen_known.setdefault(hit["key"], (hit, 0))
                seen_known[hit["key"]] = (hit, seen_known[hit["key"]][1] + 1)
            else:
                new.append(v)
        return new, seen_known

    def write_replay(self, name, obj):
        h = hashlib.sha256(json.dumps(obj, sort_keys=True).encode()).hexdigest()[:12]
        path = os.path.join(VERIF, "replays", f"{self.pid}-{name}-{h}.json")
        obj = dict(obj, property=self.pid, how=f"./check {self.pid} --replay {path}")
        with open(path, "w") as f:
            json.dump(obj, f, indent=1)
        return path

    def write_evidence(self, coverage, assumptions, violations, level="proof"):
        ev = {"property_id": self.pid, "tier": self.tier, "seed": self.seed, "level": level,
              "coverage": coverage, "assumptions": assumptions, "wall_s": round(time.time() - self.t0, 1),
              "violations": violations}
        with open(os.path.join(VERIF, "evidence", f"{self.pid}.json"), "w") as f:
            json.dump(ev, f, indent=1)

    def repo_rev(self):
        p = self.sh(["git", "-C", REPO, "rev-parse", "--short", "HEAD"], check=False)
        d = self.sh(["git", "-C", REPO, "status", "--porcelain"], check=False)
        return p.stdout.strip() + ("+dirty" if d.stdout.strip() else "")


TRUSTED_BASE_COMMON = [
    "Coq 8.16.1 kernel and its vm_compute reduction (used for finite-domain lemmas and for evaluating the model on cases.v); no native_compute",
    "translators/gstrans (Go, go/parser): regenerates coq/Gen/*.v from /repo on every run",
    "Go harness (generators, canonicalisers, worker process) and ./check (Python)",
]

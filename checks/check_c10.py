"""C10 — the spec embedded in a generated server is the input spec."""
import os, json
import common
from common import VERIF, COQ, BIN, CheckError

CONE = ["Base/Str.v", "Tools/Escape.v", "Tools/EscapeLemmas.v", "Tools/EscapeRun.v", "Props/C10.v"]


def run(ctx):
    ctx.build_tools(["textcheck"])
    ctx.build_swagger()
    cq = common.coq_phase(ctx, "Props/C10.v", CONE, ["Tools/EscapeRun.vo"])
    broken = []
    odir = os.path.join(ctx.work, "c10")
    os.makedirs(odir, exist_ok=True)
    out = os.path.join(odir, "embed.json")
    ctx.sh([os.path.join(BIN, "textcheck"), "embed", "-bin", os.path.join(BIN, "swagger"), "-work", os.path.join(ctx.work, "gen"),
            "-out", out, "-tier", ctx.tier, "-seed", str(ctx.seed)], timeout=6000)
    rep = json.load(open(out))
    mism = []
    if cq["ok_model"]:
        mism = common.parse_case_mismatches(ctx.run_case_shards(rep["cases_dir"]))
        if mism:
            broken.append({"kind": "correspondence", "where": "generateReadableSpec / embedded literals vs Tools/Escape.v",
                           "error": f"{len(mism)} cases disagree (1 = text differs from the model's escaping, 4/5 = the literal does not evaluate to the document): {mism[:5]}"})
    coverage = {
        "evaluations": rep["evaluations"] + rep["function_cases"], "distinct_nontrivial": rep["distinct_nontrivial"],
        "rule": rep["rule"], "samples": rep["samples"][:3] or [{"note": "no generation succeeded"}],
        "generations": rep["evaluations"], "generation_errors": rep["generation_errors"], "input_distribution": rep["coverage"],
        "embedded_literal_cases": rep["literal_cases"], "function_cases": rep["function_cases"], "model_mismatches": len(mism),
    }
    return common.conclude(ctx, cq, rep["violations"], broken, coverage,
                           ["analysis.Flatten / spec.ExpandSpec (go-openapi) are dependencies: the flattened document is validated per run, not modelled",
                            "encoding/json output contains no raw carriage return (control characters are escaped)",
                            "go/parser + strconv.Unquote evaluate the embedded literals as the compiler does"],
                           "make -C coq Props/C10.vo (coqc 8.16.1) + coqc Props/C10.v for Print Assumptions",
                           "hand-written Gallina model of generateReadableSpec (= escape_backticks) and of Go raw-string concatenation (Tools/Escape.v)",
                           mismatch_input={"model_mismatches": mism[:5]} if mism else None)


def replay(ctx, path):
    return run(ctx)

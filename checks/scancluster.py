"""C16 / C17 / C18 — codescan (generate spec) against encoding/json, the annotation grammar and the model generator."""
import os, json
import common
from common import VERIF, COQ, BIN, CheckError

CFG = {
    "C16": dict(props="Props/C16.v", cone=["Base/Str.v", "Base/Json.v", "Scan/GoTypes.v", "Scan/GoTypesLemmas.v", "Scan/Embed.v", "Scan/EmbedLemmas.v", "Scan/GoTypesRun.v"], target="Scan/GoTypesRun.vo",
                sub="c16", report="c16.json", cases="coq-c16", quick=["-extra", "40"], thorough=["-extra", "1200"],
                where="codescan.Run definitions, encoding/json encodings and decoding verdicts of compiled model types vs scan / encode / sval / decodes",
                model="hand-written Gallina model of encoding/json Marshal/Unmarshal acceptance for the fragment, of codescan's type walk (buildFromType, buildFromStruct, parseJSONTag) and of reference validity of scanned definitions (Scan/GoTypes.v); of field promotion through embedded structs by encoding/json (depth rule, ties hidden) and of the order in which buildFromStruct writes embedded members and declared fields (Scan/Embed.v)",
                assumptions=["the reference reading of a scanned definition: JSON-schema draft 4 with integer formats as Go ranges, float as single precision, date-time as RFC 3339, byte as base64, x-nullable as 'null accepted' (harness/cmd/scancheck/refvalid.go = sval on the fragment, compared every run); go-openapi/validate is recorded as a second opinion only (it skips the type check of typed schemas with numeric/date formats)",
                             "encoding/json and the Go compiler are the implementation's side of the comparison; values are built by a reflection driver (zero/full/max/min/empty/random)",
                             "floats, time.Time, named types, ',string', embedded pointers, embeddings with a json name, what an overwritten property leaves behind (x-nullable, $ref siblings), interface{}, json.RawMessage, []byte are decided on the implementation only"]),
    "C18": dict(props="Props/C18.v", cone=["Base/Str.v", "Tools/Decimal.v", "Gen/GenTaggers.v", "Scan/Taggers.v", "Scan/DocVocab.v", "Scan/DocVocabLemmas.v", "Scan/DocVocabRun.v"], target="Scan/DocVocabRun.vo",
                sub="c18", report="c18.json", cases="coq-c18", quick=["-random", "20"], thorough=["-random", "400"], needs_swagger=True,
                where="doc-comment lines of generated struct fields vs emit; scanned validations vs parse of those lines",
                model="hand-written Gallina model of propertyValidationDocString (generator/templates/validation/structfield.gotmpl) and of the scanner's recognisers for the same keywords (codescan/regexprs.go, set* parsers) on emitted lines (Scan/DocVocab.v)",
                assumptions=["the whole-document comparison (input definitions vs codescan.Run over the models generated from them) is the property's own observable and runs on the implementation; the model covers the property-level validation vocabulary with integer values below 10^6",
                             "go/parser reads the generated field comments; swagger generate model and codescan.Run are the two halves under test",
                             "enums, formats, $ref structure, alias / item / map-value constraints are compared on the implementation only"]),
    "C17": dict(props="Props/C17.v", cone=["Base/Str.v", "Tools/GenServer.v", "Tools/GenServerLemmas.v", "Tools/Decimal.v", "Gen/GenTaggers.v", "Scan/Taggers.v", "Scan/Annot.v", "Scan/AnnotLemmas.v", "Scan/AnnotRun.v"], target="Scan/AnnotRun.vo",
                sub="c17", report="c17.json", cases="coq-c17", quick=["-programs", "12", "-junk", "60"], thorough=["-programs", "300", "-junk", "1500"],
                where="swagger:route header lines and items.-level default literals scanned by codescan.Run vs parse_route / typed_literal",
                model="hand-written Gallina model of the swagger:route / swagger:operation header grammar (rxRoute + parsePathAnnotation) on single-blank ASCII lines and of the level at which default / example / enum literals are typed (Scan/Annot.v)",
                assumptions=["PARTIAL: go/packages loading, the YAML decoder of swagger:operation bodies and ~40 regular expressions are dependencies; only the header-line grammar and literal typing are modelled, on the lines the documented syntax produces",
                             "validity is go-openapi/validate.Spec on the JSON form of the scanned document; faithfulness is a field-by-field comparison with the abstract program the Go source was printed from (harness/cmd/scancheck/c17.go)",
                             "absence of crashes is a search, not a theorem: hostile comment text (truncated annotations, malformed sections, YAML fragments, control characters, long lines, random unicode) is scanned in a child process (panic, fatal error and 30 s hang are observed)"]),
}


def run(ctx):
    cfg = CFG[ctx.pid]
    quick = ctx.tier != "thorough"
    ctx.build_tools(["scancheck"])
    if cfg.get("needs_swagger"):
        ctx.build_swagger()
    if ctx.pid in ("C17", "C18"):
        ctx.translate([("taggers", "GenTaggers.v")])
    cq = common.coq_phase(ctx, cfg["props"], cfg["cone"] + [cfg["props"]], [cfg["target"]])
    broken = []
    odir = os.path.join(ctx.work, "scan")
    args = [os.path.join(BIN, "scancheck"), cfg["sub"], "-work", os.path.join(ctx.work, "w"), "-out", odir, "-seed", str(ctx.seed)] + (cfg["quick"] if quick else cfg["thorough"])
    if cfg.get("needs_swagger"):
        args += ["-bin", os.path.join(BIN, "swagger")]
    ctx.sh(args, timeout=9000)
    rep = json.load(open(os.path.join(odir, cfg["report"])))
    mism = []
    if cq["ok_model"]:
        res = ctx.run_case_shards(os.path.join(odir, cfg["cases"]))
        for f, txt in sorted(res.items()):
            if txt != "[]":
                mism.append((os.path.basename(f), txt[:300]))
        if mism:
            broken.append({"kind": "correspondence", "where": cfg["where"], "error": f"cases on which model and implementation differ: {mism[:4]}"})
    coverage = {
        "evaluations": rep["evaluations"], "distinct_nontrivial": rep["distinct_nontrivial"], "rule": rep["rule"],
        "samples": rep["samples"][:3] or [{"note": "none"}], "input_distribution": rep["coverage"], "model_cases": rep["coverage"].get("model:cases", 0), "model_mismatches": len(mism),
    }
    if ctx.pid == "C16":
        coverage["declarations_in_theorem_domain"] = f"{ctx.domain[0]} of {ctx.domain[1]} struct declarations with embedded members satisfy ewf (hypothesis of C16_embedding_agree); the model is compared with the implementation on all of them"
    return common.conclude(ctx, cq, rep["violations"], broken, coverage, cfg["assumptions"],
                           f"make -C coq {cfg['props'].replace('.v', '.vo')} (coqc 8.16.1) + coqc {cfg['props']} for Print Assumptions",
                           cfg["model"], mismatch_input={"model_mismatches": mism[:4]} if mism else None, max_lines=8)


def replay(ctx, path):
    return run(ctx)

"""C01 / C08 — names taken from the spec: generated code builds; nothing is dropped or merged."""
import os, json
import common
from common import VERIF, COQ, BIN, CheckError

CONE = ["Gen/GenLanguage.v", "Base/Str.v", "Tools/Names.v", "Tools/NamesLemmas.v", "Tools/NamesRun.v"]
CFG = {
    "C01": dict(props="Props/C01.v", nrep="c01n.json", srep="c01.json",
                where="pascalize / varname / snakize / swag.ToGoName / ToFileName / ToHumanNameTitle / paramMappings of the tree under test vs Tools/Names.v"),
    "C08": dict(props="Props/C08.v", nrep="c08n.json", srep="c08.json",
                where="gatherOperations (verif hook) and generation verdicts on collision experiments vs gather_operations / plan_ops / plan_defs / plan_props"),
}


def run(ctx):
    cfg = CFG[ctx.pid]
    quick = ctx.tier != "thorough"
    ctx.build_tools(["namecheck", "servercheck"])
    ctx.build_swagger()
    ctx.translate([("language", "GenLanguage.v")])
    cq = common.coq_phase(ctx, cfg["props"], CONE + [cfg["props"]], ["Tools/NamesRun.vo"])
    broken = []
    ndir = os.path.join(ctx.work, "names")
    args = [os.path.join(BIN, "namecheck"), "-bin", os.path.join(BIN, "swagger"), "-work", os.path.join(ctx.work, "ngen"), "-out", ndir, "-seed", str(ctx.seed),
            "-known", os.path.join(VERIF, "KNOWN_FINDINGS.jsonl"), "-workers", "8"]
    if quick:
        args += ["-names", "1500", "-opsets", "150", "-specs", "3", "-knownruns", "8", "-regress", "13"]
    else:
        args += ["-names", "12000", "-opsets", "1500", "-specs", "36", "-allmodes", "-sweep", "-regress", "60"]
    ctx.sh(args, timeout=14000)
    nrep = json.load(open(os.path.join(ndir, cfg["nrep"])))
    sdir = os.path.join(ctx.work, "server")
    ctx.sh([os.path.join(BIN, "servercheck"), "-bin", os.path.join(BIN, "swagger"), "-work", os.path.join(ctx.work, "sgen"), "-out", sdir,
            "-seed", str(ctx.seed), "-specs", "3" if quick else "24"], timeout=9000)
    srep = json.load(open(os.path.join(sdir, cfg["srep"])))
    mism = []
    if cq["ok_model"]:
        res = ctx.run_case_shards(os.path.join(ndir, "coq-names"))
        for f, txt in sorted(res.items()):
            if txt != "[]":
                mism.append((os.path.basename(f), txt[:300]))
        if mism:
            broken.append({"kind": "correspondence", "where": cfg["where"], "error": f"cases on which model and implementation differ: {mism[:4]}"})
    dist = dict(nrep["coverage"])
    for k, v in srep["coverage"].items():
        dist["servercheck:" + k] = v
    coverage = {
        "evaluations": nrep["evaluations"] + srep["evaluations"], "distinct_nontrivial": nrep["distinct_nontrivial"] + srep["distinct_nontrivial"],
        "rule": nrep["rule"] + " || servercheck: " + srep["rule"],
        "samples": (nrep["samples"][:2] + (srep.get("samples") or [])[:1]) or [{"note": "none"}], "input_distribution": dist,
        "go_builds": nrep["builds"] + srep["builds"], "model_cases": nrep["model_cases"], "name_cases": nrep["name_cases"], "model_mismatches": len(mism),
    }
    return common.conclude(ctx, cq, nrep["violations"] + srep["violations"], broken, coverage,
                           ["Go's unicode tables are a parameter of the model; the laws the theorems assume of them (ASCII agreement, letters in L/M/N/Pc, case closure, upper-case fixed points) are checked on every rune the cases mention",
                            "go-openapi/swag (split, ToGoName, ToVarName, ToFileName) is a dependency modelled by hand and validated by the cases; go-openapi/validate decides which naming specs are valid",
                            "typing of the emitted Go text (pointer/alias agreement, imports, scopes) is not modelled: it is exercised by go build on generated trees (namecheck slots x flatten modes x option switches; servercheck operation shapes)",
                            "the Go compiler and go list decide what builds and which files are part of a package"],
                           f"make -C coq {cfg['props'].replace('.v', '.vo')} (coqc 8.16.1) + coqc {cfg['props']} for Print Assumptions",
                           "hand-written Gallina model of swag's splitter and name functions, pascalize/prefixForName, MangleVarName/MangleFileName, gatherOperations, the collision checks and renameTimeout (Tools/Names.v)",
                           mismatch_input={"model_mismatches": mism[:4]} if mism else None, max_lines=8)


def replay(ctx, path):
    return run(ctx)

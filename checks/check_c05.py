import modelcluster
run = modelcluster.run
replay = modelcluster.replay

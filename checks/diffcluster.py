"""Checks of the diff cluster (C12-C15): one Coq model (Tools/Diff*.v), per-property theorems, projections and oracles."""
import os, json, re, time
import common
from common import VERIF, COQ, BIN, CheckError

MODEL_FILES = ["Base/Str.v", "Base/Json.v", "Gen/GenDiffTables.v", "Tools/DiffTypes.v", "Tools/DiffReport.v",
               "Tools/DiffSpec.v", "Tools/DiffModel.v", "Tools/DiffExt.v", "Tools/DiffRun.v"]

CFG = {
    "C12": dict(props="Props/C12.v", lemmas=["Tools/DiffModelLemmas.v", "Tools/DiffIdentity.v", "Tools/DiffTotal.v", "Tools/DiffExtLemmas.v", "Tools/DiffCycle.v", "Tools/DiffExtTotal.v"], proj="PTotal", oracle="C12",
                n_quick=(400, 240), n_thorough=(6000, 3000)),
    "C13": dict(props="Props/C13.v", lemmas=["Tools/DiffModelLemmas.v", "Tools/DiffSound.v", "Tools/DiffParams.v", "Tools/DiffIdentity.v", "Tools/DiffDocSound.v"], proj="PBreaking", oracle="C13",
                n_quick=(900, 1200), n_thorough=(10000, 12000)),
    "C14": dict(props="Props/C14.v", lemmas=["Tools/DiffModelLemmas.v", "Tools/DiffIdentity.v", "Tools/DiffExtLemmas.v", "Tools/DiffDocMirror.v"], proj="PCodes", oracle="C14",
                n_quick=(1500, 360), n_thorough=(12000, 6000)),
    "C15": dict(props="Props/C15.v", lemmas=["Tools/DiffReportLemmas.v"], proj=None, oracle="C15",
                n_quick=(0, 100), n_thorough=(0, 1500)),
}


def parse_mismatches(results):
    """results: file -> 'M' text. Returns list of (shard_file, position, verdict_text)."""
    out = []
    for f, txt in sorted(results.items()):
        if txt == "[]":
            continue
        for m in re.finditer(r"\(\s*(\d+)\s*,\s*([^()]*?|\[[^\]]*\])\s*\)", txt):
            out.append((f, int(m.group(1)), m.group(2).strip()))
    return out


def run_props_parallel(ctx, prop, n, pdir, workers=6):
    """Run the property oracle in several processes (independent PRNG streams derived from the seed) and merge."""
    import subprocess
    procs = []
    per = max(1, n // workers)
    for w in range(workers):
        d = os.path.join(pdir, f"w{w}")
        cmd = [os.path.join(BIN, "diffcheck"), "props", "-prop", prop, "-seed", str(ctx.seed * 100 + w), "-n", str(per), "-out", d]
        procs.append((d, subprocess.Popen(cmd, env=ctx.env, stdout=subprocess.PIPE, stderr=subprocess.STDOUT, text=True)))
    rep = None
    for d, p in procs:
        out, _ = p.communicate(timeout=3000)
        if p.returncode != 0:
            raise CheckError(f"property oracle failed: {out[-1500:]}")
        r = json.load(open(os.path.join(d, "props.json")))
        for k, dflt in (("samples", []), ("violations", []), ("coverage", {}), ("skipped", {})):
            if r.get(k) is None:
                r[k] = dflt
        if rep is None:
            rep = r
        else:
            rep["evaluations"] += r["evaluations"]
            rep["distinct_nontrivial"] += r["distinct_nontrivial"]
            rep["violations"] += r["violations"]
            rep["samples"] = (rep["samples"] + r["samples"])[:3]
            for k in ("coverage", "skipped"):
                for kk, vv in (r.get(k) or {}).items():
                    rep[k][kk] = rep[k].get(kk, 0) + vv
    return rep


def run(ctx):
    cfg = CFG[ctx.pid]
    quick = ctx.tier != "thorough"
    n_corr, n_props = cfg["n_quick"] if quick else cfg["n_thorough"]
    ctx.build_tools(["diffcheck"])
    ctx.translate([("difftables", "GenDiffTables.v")])

    broken = []          # broken obligations / correspondences (names)
    # 1. model must build (needed to run it); proofs may break independently
    ok_model, log_model = ctx.coq_make(["Tools/DiffRun.vo"])
    targets = [cfg["props"].replace(".v", ".vo")]
    ok_props, log_props = ctx.coq_make(targets)
    if not ok_props:
        m = re.search(r'File "\./([^"]+)", line (\d+)', log_props)
        where = f"{m.group(1)}:{m.group(2)}" if m else "?"
        err = log_props[log_props.find("Error"):][:600] if "Error" in log_props else log_props[-600:]
        broken.append({"kind": "proof-obligation", "where": where, "error": err})
    closed, axioms = 0, []
    if ok_props:
        ok_a, (closed, axioms), out_a = ctx.coq_assumptions(cfg["props"])
        if not ok_a:
            broken.append({"kind": "proof-obligation", "where": cfg["props"], "error": out_a[-600:]})
        bad_ax = [a for a in axioms if a not in common.ALLOWED_AXIOMS]
        if bad_ax:
            broken.append({"kind": "axiom-audit", "where": cfg["props"], "error": "theorems depend on axioms: " + ", ".join(bad_ax)})
    cone = MODEL_FILES + cfg["lemmas"] + [cfg["props"]]
    cone = [f for f in cone if os.path.exists(os.path.join(COQ, f))]
    bad = ctx.audit_sources(cone)
    if bad:
        broken.append({"kind": "source-audit", "where": ", ".join(bad), "error": "forbidden vernacular in the development"})
    n_qed = ctx.count_qed(cone)

    # 2. property-level oracle on the implementation (also the search space for a failing input)
    pdir = os.path.join(ctx.work, "props")
    if cfg["oracle"] == "C15":
        ctx.sh([os.path.join(BIN, "diffcheck"), "c15", "-seed", str(ctx.seed), "-n", str(n_props), "-out", pdir, "-shards", "8"], timeout=3000)
        rep = json.load(open(os.path.join(pdir, "props.json")))
        for k, dflt in (("samples", []), ("violations", []), ("coverage", {}), ("skipped", {})):
            if rep.get(k) is None:
                rep[k] = dflt
    else:
        rep = run_props_parallel(ctx, cfg["oracle"], n_props, pdir)

    # 3. model <-> implementation correspondence on the property's projection
    corr = {"cases": 0, "mismatches": []}
    if ok_model:
        if cfg["proj"]:
            cdir = os.path.join(ctx.work, "corr")
            ctx.sh([os.path.join(BIN, "diffcheck"), "corr", "-seed", str(ctx.seed + 1000), "-n", str(n_corr), "-shards", str(16 if n_corr <= 2000 else 64),
                    "-out", cdir, "-proj", cfg["proj"]], timeout=3000)
            res = ctx.run_case_shards(cdir)
            meta = json.load(open(os.path.join(cdir, "cases.json")))
            corr["cases"] = n_corr
            corr["coverage"] = meta["coverage"]
            for f, pos, verdict in parse_mismatches(res):
                sh = int(re.search(r"cases_(\d+)\.v", f).group(1))
                idx = pos * meta["shards"] + sh
                corr["mismatches"].append({"index": idx, "verdict": verdict, "case": meta["cases"][idx]})
        else:
            res = ctx.run_case_shards(pdir)
            corr["cases"] = rep["coverage"].get("model-cases", 0)
            for f, pos, verdict in parse_mismatches(res):
                corr["mismatches"].append({"shard": os.path.basename(f), "position": pos, "failed_observables": verdict})
    else:
        broken.append({"kind": "model-build", "where": "Tools/DiffRun.vo", "error": log_model[-600:]})
    if corr["mismatches"]:
        broken.append({"kind": "correspondence", "where": f"diff model vs diff.Compare, projection {cfg['proj'] or 'reports'}",
                       "error": f"{len(corr['mismatches'])} of {corr['cases']} cases disagree"})

    # 4. when the correspondence broke: run the property's own oracle on the disagreeing inputs too (search)
    extra = []
    if corr["mismatches"] and cfg["proj"]:
        pairs = [{"a": m["case"]["a"], "b": m["case"]["b"]} for m in corr["mismatches"][:40]]
        pf = os.path.join(ctx.work, "pairs.json")
        json.dump(pairs, open(pf, "w"))
        sdir = os.path.join(ctx.work, "search")
        ctx.sh([os.path.join(BIN, "diffcheck"), "props", "-prop", cfg["oracle"], "-pairs", pf, "-out", sdir], timeout=1500)
        extra = json.load(open(os.path.join(sdir, "props.json")))["violations"]

    # 5. verdict
    new, known_seen = ctx.classify(rep["violations"] + extra)
    for k in [k for k in ctx.known_findings() if k["property"] == ctx.pid and k["status"] == "known"]:
        cnt = known_seen.get(k["key"], (None, 0))[1]
        print(f"KNOWN-FINDING: property={ctx.pid} {k['what']} [key {k['key']}; seen {cnt}x in this run; replay {k.get('replay','-')}]")
    rc = 0
    nviol = 0
    if new:
        # group by key, report the smallest input of each class
        bykey = {}
        for v in new:
            sz = len(json.dumps(v["input"]))
            if v["key"] not in bykey or sz < bykey[v["key"]][0]:
                bykey[v["key"]] = (sz, v)
        for key, (_, v) in sorted(bykey.items())[:5]:   # at most five classes are reported per run
            path = ctx.write_replay(key.split("/")[-1].replace("[", "_").replace("]", "").replace(":", "").replace(",", "_"),
                                    {"kind": "counterexample", "key": key, "what": v["what"], "input": v["input"],
                                     "observed": v["detail"], "expected": {"by": "property oracle run on the implementation (diff.Compare / DiffCommand.Execute)"},
                                     "broken": broken, "seed": ctx.seed})
            print(f"VIOLATION property={ctx.pid} replay={path}")
            nviol += 1
        rc = 1
    elif broken:
        obj = {"kind": "broken-obligation", "broken": broken, "seed": ctx.seed,
               "input": corr["mismatches"][0] if corr["mismatches"] else None,
               "note": "the property is no longer shown to hold; the search over the property's oracle found no failing input"}
        path = ctx.write_replay("broken", obj)
        print(f"VIOLATION property={ctx.pid} replay={path} no-failing-input-found")
        nviol = 1
        rc = 1

    # 6. evidence
    obligations = n_qed
    discharged = n_qed if (ok_props and not any(b["kind"] in ("proof-obligation", "axiom-audit", "source-audit") for b in broken)) else 0
    cov = {
        "obligations": max(obligations, 1), "discharged": discharged,
        "checker_cmd": f"make -C coq {cfg['props'].replace('.v', '.vo')} (coqc 8.16.1, full .vo build) + coqc {cfg['props']} for Print Assumptions",
        "trusted_base": common.TRUSTED_BASE_COMMON + [
            "hand-written Gallina model of cmd/swagger/commands/diff (Tools/Diff*.v): modelled, tied by the correspondence run below",
            f"Print Assumptions: {closed} theorems closed under the global context, axioms: {axioms or 'none'}"],
        "property_theorems": closed, "axioms": axioms,
        "evaluations": rep["evaluations"] + corr["cases"],
        "distinct_nontrivial": rep["distinct_nontrivial"],
        "rule": rep["rule"],
        "samples": rep["samples"][:3] or [{"note": "no sample"}],
        "oracle_evaluations": rep["evaluations"], "oracle_skipped": rep.get("skipped", {}),
        "correspondence_cases": corr["cases"], "correspondence_mismatches": len(corr["mismatches"]),
        "documents_in_theorem_domain": f"{ctx.domain[0]} of {ctx.domain[1]} correspondence pairs are well-formed and closed (hypotheses of C12_identity / C12_total)" if ctx.domain[1] else "n/a",
        "correspondence_projection": cfg["proj"] or "report cases (text lines, breaking lines, JSON count, three exit flags)",
        "input_distribution": rep["coverage"], "corr_input_distribution": corr.get("coverage", {}),
        "known_findings_seen": {k: c for k, (_, c) in known_seen.items()},
        "broken": broken, "repo": ctx.repo_rev(),
    }
    ctx.write_evidence(cov, [
        "the Gallina model is hand-written; its agreement with the Go code is sampled by the correspondence run, not proved",
        "go-openapi/spec JSON decoding, loads.Spec and validate.Spec are trusted dependencies/oracles",
    ], nviol)
    return rc


def replay(ctx, path):
    obj = json.load(open(path))
    ctx.build_tools(["diffcheck"])
    inp = obj.get("input") or {}
    if "case" in inp:
        inp = inp["case"]
    if not inp or "a" not in inp:
        print("replay: the file names a broken obligation without an input; re-running the whole check")
        return run(ctx)
    cfg = CFG[ctx.pid]
    pf = os.path.join(ctx.work, "pairs.json")
    json.dump([{"a": inp["a"], "b": inp.get("b", inp["a"])}], open(pf, "w"))
    sdir = os.path.join(ctx.work, "replay")
    if cfg["oracle"] == "C15":
        print("replay for C15 inputs: run ./check C15 (the report cases are regenerated from the pair)")
        return run(ctx)
    ctx.sh([os.path.join(BIN, "diffcheck"), "props", "-prop", cfg["oracle"], "-pairs", pf, "-out", sdir])
    rep = json.load(open(os.path.join(sdir, "props.json")))
    for v in rep["violations"]:
        print("REPLAY-FAILS:", v["key"], v["what"])
    print(json.dumps([v["detail"] for v in rep["violations"]], indent=1)[:4000])
    return 1 if rep["violations"] else 0

"""C11 — regeneration never destroys user code and converges."""
import os, json
import common
from common import VERIF, COQ, BIN, CheckError

CONE = ["Base/Str.v", "Tools/Regen.v", "Tools/RegenLemmas.v", "Gen/GenSections.v", "Props/C11.v"]


def run(ctx, replay_steps=None):
    quick = ctx.tier != "thorough"
    ctx.build_tools(["regencheck"])
    ctx.build_swagger()
    ctx.translate([("sections", "GenSections.v")])
    cq = common.coq_phase(ctx, "Props/C11.v", CONE, ["Tools/Regen.vo"])
    broken = []
    odir = os.path.join(ctx.work, "c11")
    cmd = [os.path.join(BIN, "regencheck"), "-bin", os.path.join(BIN, "swagger"), "-work", os.path.join(ctx.work, "fs"), "-out", odir,
           "-seed", str(ctx.seed), "-histories", "12" if quick else "120", "-length", "8" if quick else "25"]
    if replay_steps:
        cmd += ["-replay", replay_steps]
    ctx.sh(cmd, timeout=6000)
    rep = json.load(open(os.path.join(odir, "regen.json")))
    mism = []
    if cq["ok_model"]:
        res = ctx.run_case_shards(odir)
        for f, txt in sorted(res.items()):
            if txt != "[]":
                mism.append((os.path.basename(f), txt))
        if mism:
            broken.append({"kind": "correspondence", "where": "directory after each real step vs do_step of Tools/Regen.v",
                           "error": f"steps on which the model's prediction and the observed directory differ: {mism[:4]}"})
    coverage = {
        "evaluations": rep["evaluations"], "distinct_nontrivial": rep["distinct_nontrivial"], "rule": rep["rule"],
        "samples": rep["samples"][:2] or [{"note": "none"}], "input_distribution": rep["coverage"],
        "ordered_pairs_of_generate_kinds": rep["ordered_pairs"], "model_cases": rep["model_cases"], "model_mismatches": len(mism),
    }
    return common.conclude(ctx, cq, rep["violations"], broken, coverage,
                           ["paths and contents are abstract in the model; the harness maps real files to identifiers by path and SHA-256",
                            "the plan of a run (which files with which content) is taken from the same command run into an empty directory",
                            "OS file-system semantics (os.WriteFile truncation, directory creation) are exercised, not modelled"],
                           "make -C coq Props/C11.vo (coqc 8.16.1) + coqc Props/C11.v for Print Assumptions",
                           "hand-written Gallina model of GenOpts.write / skip_exists over histories (Tools/Regen.v); DefaultSectionOpts translated",
                           mismatch_input={"model_mismatches": mism[:4]} if mism else None)


def replay(ctx, path):
    obj = json.load(open(path))
    hist = (obj.get("input") or {}).get("history")
    if not hist:
        return run(ctx)
    p = os.path.join(ctx.work, "replay_steps.json")
    json.dump(hist, open(p, "w"))
    return run(ctx, replay_steps=p)

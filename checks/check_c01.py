import namecluster
run = namecluster.run
replay = namecluster.replay

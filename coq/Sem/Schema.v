(* Sem/Schema.v — the schema fragment shared by C02 / C05: reference validity (JSON-schema draft 4 / Swagger 2.0
   subset, as go-openapi/validate decides it) and the behaviour of the Go model that go-swagger generates
   (decoding by encoding/json into the generated type, then Validate).  Definitions only.
   Fragment: strings (length bounds, enum), integers (bounds incl. exclusive, multipleOf, enum), booleans, arrays
   (item schema, item counts, uniqueness), maps, objects with required/optional properties; references inlined. *)
From GS Require Import Base.Str Base.Json.

Inductive schema :=
| SStr (minlen maxlen : option Z) (enum : list str)
| SInt (min : option Z) (xmin : bool) (max : option Z) (xmax : bool) (mult : option Z) (enum : list Z)
| SBool
| SArr (items : schema) (minitems maxitems : option Z) (unique : bool)
| SMap (values : schema)
| SObj (props : list (str * bool * schema)).     (* name, required, schema *)

(* ---------- reference validity ---------- *)
Definition opt_le (lo : option Z) (n : Z) : bool := match lo with Some a => Z.leb a n | None => true end.
Definition opt_ge (hi : option Z) (n : Z) : bool := match hi with Some b => Z.leb n b | None => true end.

(* lengths are counted in Unicode code points (utf8.RuneCountInString): UTF-8 continuation bytes do not count *)
Definition is_continuation (b : N) : bool := N.leb 128 b && N.ltb b 192.
Definition str_len (x : str) : Z := Z.of_nat (length (filter (fun b => negb (is_continuation b)) x)).

Definition str_ok (minlen maxlen : option Z) (enum : list str) (x : str) : bool :=
  opt_le minlen (str_len x) && opt_ge maxlen (str_len x) &&
  match enum with [] => true | _ => mem x enum end.

Definition int_ok (min : option Z) (xmin : bool) (max : option Z) (xmax : bool) (mult : option Z) (enum : list Z) (n : Z) : bool :=
  match min with Some a => if xmin then Z.ltb a n else Z.leb a n | None => true end &&
  match max with Some b => if xmax then Z.ltb n b else Z.leb n b | None => true end &&
  match mult with Some m => Z.eqb (Z.rem n m) 0 | None => true end &&
  match enum with [] => true | _ => existsb (Z.eqb n) enum end.

Fixpoint all_distinct (l : list json) : bool :=
  match l with
  | [] => true
  | x :: r => negb (existsb (json_eqb x) r) && all_distinct r
  end.

Fixpoint ref_valid (s : schema) (d : json) : bool :=
  match s, d with
  | SStr lo hi en, JStr x => str_ok lo hi en x
  | SInt lo xl hi xh m en, JNum n 0 => int_ok lo xl hi xh m en n
  | SBool, JBool _ => true
  | SArr it lo hi uq, JArr l =>
      opt_le lo (Z.of_nat (length l)) && opt_ge hi (Z.of_nat (length l)) &&
      (if uq then all_distinct l else true) && forallb (ref_valid it) l
  | SMap v, JObj l => forallb (fun kv => ref_valid v (snd kv)) l
  | SObj ps, JObj l =>
      forallb (fun p => let '(name, req, ps') := p in
                        match assoc name l with
                        | Some v => ref_valid ps' v
                        | None => negb req
                        end) ps
  | _, _ => false
  end.

(* ---------- the generated Go model ---------- *)
(* is the Go field of a scalar property a pointer (nil distinguishable from the zero value)?  types.go:
   nullableBool / nullableNumber / nullableString without default, readOnly and x-nullable *)
Definition nullable (s : schema) (req : bool) : bool :=
  match s with
  | SStr lo _ _ => req || match lo with Some 0%Z => true | _ => false end
  | SInt lo xl hi xh _ _ =>
      req ||
      (match lo with Some 0%Z => negb xl | _ => false end) ||
      (match hi with Some 0%Z => negb xh | _ => false end) ||
      (match lo, hi with Some a, Some b => Z.ltb a 0 && Z.ltb 0 b | _, _ => false end)
  | SBool => req
  | _ => true    (* containers and structs: presence is visible (nil slice / nil map / pointer) *)
  end.

Definition is_scalar (s : schema) : bool := match s with SStr _ _ _ | SInt _ _ _ _ _ _ | SBool => true | _ => false end.

(* the zero value of the scalar's Go type, as a JSON value *)
Definition is_zero_of (s : schema) (d : json) : bool :=
  match s, d with
  | SStr _ _ _, JStr [] => true
  | SInt _ _ _ _ _ _, JNum 0 0 => true
  | SBool, JBool false => true
  | _, _ => false
  end.

(* does encoding/json accept the value for the generated type? (wrong JSON type => error; null => zero/nil) *)
Fixpoint decodes (s : schema) (d : json) : bool :=
  match s, d with
  | _, JNull => true
  | SStr _ _ _, JStr _ => true
  | SInt _ _ _ _ _ _, JNum _ 0 => true
  | SBool, JBool _ => true
  | SArr it _ _ _, JArr l => forallb (decodes it) l
  | SMap v, JObj l => forallb (fun kv => decodes v (snd kv)) l
  | SObj ps, JObj l =>
      forallb (fun p => let '(name, _, ps') := p in
                        match assoc name l with Some v => decodes ps' v | None => true end) ps
  | _, _ => false
  end.

(* Validate() on the decoded value; [d] stands for the decoded Go value (null = nil / zero) *)
Fixpoint gvalidate (s : schema) (d : json) : bool :=
  match s, d with
  | SStr lo hi en, JStr x => str_ok lo hi en x
  | SInt lo xl hi xh m en, JNum n 0 => int_ok lo xl hi xh m en n
  | SBool, JBool _ => true
  | SArr it lo hi uq, JArr l =>
      opt_le lo (Z.of_nat (length l)) && opt_ge hi (Z.of_nat (length l)) &&
      (if uq then all_distinct l else true) && forallb (gvalidate it) l
  | SMap v, JObj l => forallb (fun kv => gvalidate v (snd kv)) l
  | SObj ps, JObj l =>
      forallb (fun p => let '(name, req, ps') := p in
                        match assoc name l with
                        | None | Some JNull => negb req                              (* validate.Required on nil / skipped when optional *)
                        | Some v =>
                            if negb req && negb (nullable ps' req) && is_zero_of ps' v
                            then true                                                (* swag.IsZero(m.X): not required, skip *)
                            else gvalidate ps' v
                        end) ps
  | _, _ => false
  end.

Definition gen_accepts (s : schema) (d : json) : bool := decodes s d && gvalidate s d.

(* ---------- the documented exception, as a document transformation ---------- *)
(* an optional property holding null, or the zero value of a scalar whose Go field is not a pointer, is treated as
   absent; everything else is kept (undeclared properties included: both sides ignore them) *)
Definition is_null (d : json) : bool := match d with JNull => true | _ => false end.

Fixpoint erase (s : schema) (d : json) : json :=
  match s, d with
  | SArr it _ _ _, JArr l => JArr (map (erase it) l)
  | SMap v, JObj l => JObj (map (fun kv => (fst kv, erase v (snd kv))) l)
  | SObj ps, JObj l =>
      JObj (flat_map (fun kv =>
              (fix look (ps : list (str * bool * schema)) : list (str * json) :=
                 match ps with
                 | [] => [kv]
                 | (name, req, ps') :: r =>
                     if str_eqb (fst kv) name then
                       if negb req && (is_null (snd kv) || (negb (nullable ps' req) && is_zero_of ps' (snd kv)))
                       then [] else [(fst kv, erase ps' (snd kv))]
                     else look r
                 end) ps) l)
  | _, _ => d
  end.

(* ---------- well-formed (schema, document) pairs: what the theorem quantifies over ---------- *)
Fixpoint nodup_str (l : list str) : bool :=
  match l with [] => true | x :: r => negb (mem x r) && nodup_str r end.

Fixpoint wf (s : schema) (d : json) : bool :=
  match s, d with
  | SArr it _ _ uq, JArr l => (if uq then is_scalar it else true) && forallb (fun e => negb (is_null e) && wf it e) l
  | SMap v, JObj l => nodup_str (map fst l) && forallb (fun kv => negb (is_null (snd kv)) && wf v (snd kv)) l
  | SObj ps, JObj l =>
      nodup_str (map (fun p => fst (fst p)) ps) && nodup_str (map fst l) &&
      forallb (fun p => let '(name, _, ps') := p in
                        match assoc name l with Some v => wf ps' v | None => true end) ps
  | _, _ => true
  end.

(* ---------- encoding the decoded value back (C05): json.Marshal(json.Unmarshal(d)) for the generated type ---------- *)
(* struct tags: optional scalars, maps and nested structs carry omitempty; arrays do not; required fields never do *)
Definition is_arr (s : schema) : bool := match s with SArr _ _ _ _ => true | _ => false end.
Definition is_map (s : schema) : bool := match s with SMap _ => true | _ => false end.
Definition is_empty_obj (d : json) : bool := match d with JObj [] => true | _ => false end.

Fixpoint rt (s : schema) (d : json) : json :=
  match s, d with
  | SArr it _ _ _, JArr l => JArr (map (rt it) l)
  | SMap v, JObj l => JObj (map (fun kv => (fst kv, rt v (snd kv))) l)
  | SObj ps, JObj l =>
      JObj (flat_map (fun p => let '(name, req, ps') := p in
                      match assoc name l with
                      | None | Some JNull => if req || is_arr ps' then [(name, JNull)] else []
                      | Some v =>
                          if negb req && ((negb (nullable ps' req) && is_zero_of ps' v) || (is_map ps' && is_empty_obj v))
                          then [] else [(name, rt ps' v)]
                      end) ps)
  | _, _ => d
  end.

(* equality of JSON values up to the order of object members (objects with distinct keys) *)
Fixpoint json_equiv (a b : json) : bool :=
  match a, b with
  | JNull, JNull => true
  | JBool x, JBool y => Bool.eqb x y
  | JNum m e, JNum m' e' => Z.eqb m m' && Z.eqb e e'
  | JStr x, JStr y => str_eqb x y
  | JArr l, JArr l' =>
      (fix go (l l' : list json) : bool :=
         match l, l' with
         | [], [] => true
         | x :: r, y :: r' => json_equiv x y && go r r'
         | _, _ => false
         end) l l'
  | JObj l, JObj l' =>
      Nat.eqb (length l) (length l') &&
      (fix go (l : list (str * json)) : bool :=
         match l with
         | [] => true
         | (k, x) :: r => match assoc k l' with Some y => json_equiv x y | None => false end && go r
         end) l
  | _, _ => false
  end.

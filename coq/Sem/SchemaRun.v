(* Sem/SchemaRun.v — evaluation harness for C02 cases. *)
From GS Require Import Base.Str Base.Json Sem.Schema Sem.PropCount.

Record mcase := { mc_schema : schema; mc_doc : json; mc_gen : bool; mc_ref : bool }.

(* 1: the model of the generated code disagrees with the compiled generated code
   2: the reference semantics of the model disagrees with go-openapi/validate (on the erased document, or on the raw one
      when the harness found the generated verdict to follow the raw reading) *)
Definition judge_mc (c : mcase) : list nat :=
  (if Bool.eqb (gen_accepts (mc_schema c) (mc_doc c)) (mc_gen c) then [] else [1]) ++
  (if Bool.eqb (ref_valid (mc_schema c) (erase (mc_schema c) (mc_doc c))) (mc_ref c) ||
      Bool.eqb (ref_valid (mc_schema c) (mc_doc c)) (mc_ref c) then [] else [2]).

Fixpoint run_mc_from (i : nat) (cs : list mcase) : list (nat * list nat) :=
  match cs with
  | [] => []
  | c :: r => match judge_mc c with [] => run_mc_from (S i) r | l => (i, l) :: run_mc_from (S i) r end
  end.
Definition run_mc (cs : list mcase) := run_mc_from 0 cs.

(* C05 cases: a document valid for the schema and what json.Marshal(json.Unmarshal(doc)) really produced *)
Record rtcase := { rt_schema : schema; rt_doc : json; rt_out : json }.
Definition judge_rt (c : rtcase) : bool := json_equiv (rt (rt_schema c) (rt_doc c)) (rt_out c).
Fixpoint run_rt_from (i : nat) (cs : list rtcase) : list nat :=
  match cs with
  | [] => []
  | c :: r => if judge_rt c then run_rt_from (S i) r else i :: run_rt_from (S i) r
  end.
Definition run_rt (cs : list rtcase) := run_rt_from 0 cs.

(* C02 cases with minProperties / maxProperties on an object of the fragment (Sem/PropCount.v) *)
Record pcase := { pc_schema : schema; pc_min : option Z; pc_max : option Z; pc_doc : json; pc_gen : bool; pc_ref : bool }.
Definition judge_pc (c : pcase) : list nat :=
  match pc_schema c with
  | SObj ps =>
      let d := pc_doc c in
      let refv (x : json) := ref_valid (SObj ps) x && ref_counts (pc_min c) (pc_max c) x in
      (if Bool.eqb (gen_accepts (SObj ps) d && gen_counts ps (pc_min c) (pc_max c) d) (pc_gen c) then [] else [1]) ++
      (if Bool.eqb (refv (erase (SObj ps) d)) (pc_ref c) || Bool.eqb (refv d) (pc_ref c) then [] else [2])
  | _ => [3]
  end.
Fixpoint run_pc_from (i : nat) (cs : list pcase) : list (nat * list nat) :=
  match cs with
  | [] => []
  | c :: r => match judge_pc c with [] => run_pc_from (S i) r | l => (5000 + i, l) :: run_pc_from (S i) r end
  end.
Definition run_pc (cs : list pcase) := run_pc_from 0 cs.

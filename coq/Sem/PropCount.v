(* Sem/PropCount.v — C02: minProperties / maxProperties on an object with declared properties.
   The reference validator counts the members of the document.  The generated Validate counts the members of the value
   marshalled back from the decoded struct: the declared properties as Sem/Schema.v [rt] renders them — optional members
   holding a zero value or an empty map are gone, absent arrays and absent required members are back as null — plus the
   undeclared members, which a type with property counts keeps in a map of its own.
   The two counts agree on the documents whose declared members are exactly those that [rt] keeps ([plain]);
   off that set they differ in both directions (the two known findings c02/...[property-count-of-remarshalled-object]). *)
From GS Require Import Base.Str Base.Json Sem.Schema Sem.SchemaLemmas.
From Coq Require Import Lia.

Definition count_ok (mn mx : option Z) (n : nat) : bool := opt_le mn (Z.of_nat n) && opt_ge mx (Z.of_nat n).

Definition ref_counts (mn mx : option Z) (d : json) : bool :=
  match d with JObj l => count_ok mn mx (length l) | _ => false end.
Definition pname (p : str * bool * schema) : str := fst (fst p).
Definition declared (ps : list (str * bool * schema)) (kv : str * json) : bool := mem (fst kv) (map pname ps).

Definition gen_counts (ps : list (str * bool * schema)) (mn mx : option Z) (d : json) : bool :=
  match d, rt (SObj ps) d with
  | JObj l, JObj l' => count_ok mn mx (length l' + length (filter (fun kv => negb (declared ps kv)) l))
  | _, _ => false
  end.

(* a declared property is either absent — and then neither required nor an array — or present with a value that
   marshalling keeps *)
Definition plain (ps : list (str * bool * schema)) (l : list (str * json)) : bool :=
  forallb (fun p => let '(name, req, s') := p in
                    match assoc name l with
                    | None => negb (req || is_arr s')
                    | Some JNull => false
                    | Some v => negb (negb req && ((negb (nullable s' req) && is_zero_of s' v) || (is_map s' && is_empty_obj v)))
                    end) ps.

Definition present (l : list (str * json)) (p : str * bool * schema) : bool :=
  match assoc (pname p) l with Some _ => true | None => false end.

Lemma member_plain ps l : plain ps l = true ->
  forall p, In p ps -> length (member l p) = if present l p then 1 else 0.
Proof.
  unfold plain. intro H. rewrite forallb_forall in H. intros p Hp. specialize (H p Hp).
  destruct p as [[name req] s']. unfold member, present, pname. cbn [fst] in *.
  destruct (assoc name l) as [v|].
  - destruct v; try discriminate;
      match goal with |- context [if ?c then [] else _] => destruct c; [discriminate|reflexivity] end.
  - destruct (req || is_arr s'); [discriminate|reflexivity].
Qed.

Lemma length_flat_map_member ps0 l : (forall p, In p ps0 -> length (member l p) = if present l p then 1 else 0) ->
  length (flat_map (member l) ps0) = length (filter (present l) ps0).
Proof.
  induction ps0 as [|p r IH]; intro H; [reflexivity|]. cbn [flat_map filter]. rewrite app_length, (H p (or_introl eq_refl)).
  rewrite IH by (intros q Hq; apply H; right; exact Hq). destruct (present l p); reflexivity.
Qed.

Lemma NoDup_map_filter {A B} (f : A -> B) (g : A -> bool) l : NoDup (map f l) -> NoDup (map f (filter g l)).
Proof.
  induction l as [|a r IH]; intro H; [constructor|]. cbn [map filter] in *. inversion H as [|? ? Hn Hr]; subst.
  destruct (g a); [|apply IH, Hr]. cbn [map]. constructor; [|apply IH, Hr].
  intro X. apply Hn. rewrite in_map_iff in *. destruct X as [x [E Hx]]. exists x. split; [exact E|]. apply filter_In in Hx. tauto.
Qed.

Lemma length_partition {A} (f : A -> bool) l : length l = length (filter f l) + length (filter (fun x => negb (f x)) l).
Proof. induction l as [|a r IH]; [reflexivity|]. cbn [filter length]. destruct (f a); cbn [negb length]; lia. Qed.

Theorem counts_agree ps mn mx l :
  NoDup (map pname ps) -> NoDup (map fst l) -> plain ps l = true ->
  gen_counts ps mn mx (JObj l) = ref_counts mn mx (JObj l).
Proof.
  intros NDp NDl Hp. unfold gen_counts, ref_counts. rewrite rt_obj. f_equal.
  rewrite (length_flat_map_member ps l (member_plain ps l Hp)).
  rewrite (length_partition (declared ps) l). f_equal.
  rewrite <- (map_length pname (filter (present l) ps)), <- (map_length fst (filter (declared ps) l)).
  apply Nat.le_antisymm.
  - apply NoDup_incl_length; [apply NoDup_map_filter; exact NDp|].
    intros k Hk. rewrite in_map_iff in Hk. destruct Hk as [p [<- Hf]]. apply filter_In in Hf as [Hin Hf].
    unfold present in Hf. destruct (assoc (pname p) l) as [v|] eqn:E; [|discriminate].
    apply assoc_In in E. rewrite in_map_iff. exists (pname p, v). split; [reflexivity|].
    apply filter_In. split; [exact E|]. unfold declared. cbn [fst]. apply mem_In. apply in_map. exact Hin.
  - apply NoDup_incl_length; [apply NoDup_map_filter; exact NDl|].
    intros k Hk. rewrite in_map_iff in Hk. destruct Hk as [kv [<- Hkv]]. apply filter_In in Hkv as [Hkv Hd].
    unfold declared in Hd. apply mem_In in Hd. rewrite in_map_iff in Hd. destruct Hd as [p [En Hin]].
    rewrite in_map_iff. exists p. split; [exact En|].
    apply filter_In. split; [exact Hin|]. unfold present. rewrite En.
    destruct (assoc (fst kv) l) eqn:E; [reflexivity|]. apply assoc_None_keys in E. exfalso. apply E. apply in_map. exact Hkv.
Qed.

(* off [plain] the counts differ, in both directions *)
Example counts_refuted_accepts_invalid :
  let ps := [(s "id", true, SMap SBool); (s "tags", false, SMap (SInt None false None false None []));
             (s "gamma", false, SStr None (Some 3%Z) []); (s "delta", false, SInt None false None false None [])] in
  let d := JObj [(s "delta", JNum 3 0); (s "gamma", JStr (s "bb")); (s "id", JObj [(s "k1", JBool false)]); (s "tags", JObj [])] in
  ref_counts (Some 1%Z) (Some 3%Z) d = false /\ gen_counts ps (Some 1%Z) (Some 3%Z) d = true.
Proof. split; vm_compute; reflexivity. Qed.

Example counts_refuted_rejects_valid :
  let ps := [(s "alpha", false, SArr (SInt None false None false None []) None None false); (s "beta", false, SObj [(s "flag", false, SBool)]);
             (s "delta", false, SMap (SInt None false None false None [])); (s "gamma", true, SInt None false None false None [])] in
  let d := JObj [(s "beta", JObj [(s "flag", JBool true)]); (s "delta", JObj [(s "k1", JNum 3 0)]); (s "gamma", JNum 3 0)] in
  ref_counts (Some 1%Z) (Some 3%Z) d = true /\ gen_counts ps (Some 1%Z) (Some 3%Z) d = false.
Proof. split; vm_compute; reflexivity. Qed.

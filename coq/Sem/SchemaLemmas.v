(* Sem/SchemaLemmas.v — the generated model accepts a document exactly when the reference accepts the document with
   the documented zero values erased. *)
From GS Require Import Base.Str Base.Json Sem.Schema.

(* induction principle following the nesting of properties *)
Section SchemaInd.
  Variable P : schema -> Prop.
  Hypothesis Hstr : forall lo hi en, P (SStr lo hi en).
  Hypothesis Hint : forall lo xl hi xh m en, P (SInt lo xl hi xh m en).
  Hypothesis Hbool : P SBool.
  Hypothesis Harr : forall it lo hi uq, P it -> P (SArr it lo hi uq).
  Hypothesis Hmap : forall v, P v -> P (SMap v).
  Hypothesis Hobj : forall ps, Forall (fun p => P (snd p)) ps -> P (SObj ps).
  Fixpoint schema_ind' (s : schema) : P s :=
    match s with
    | SStr lo hi en => Hstr lo hi en
    | SInt lo xl hi xh m en => Hint lo xl hi xh m en
    | SBool => Hbool
    | SArr it lo hi uq => Harr it lo hi uq (schema_ind' it)
    | SMap v => Hmap v (schema_ind' v)
    | SObj ps => Hobj ps ((fix go (ps : list (str * bool * schema)) : Forall (fun p => P (snd p)) ps :=
                             match ps with [] => Forall_nil _ | p :: r => Forall_cons _ (schema_ind' (snd p)) (go r) end) ps)
    end.
End SchemaInd.

Lemma nodup_str_NoDup l : nodup_str l = true -> NoDup l.
Proof.
  induction l as [|x r IH]; cbn; [constructor|]. intro H. apply andb_true_iff in H as [H1 H2].
  constructor; [|now apply IH]. apply negb_true_iff in H1. now apply mem_false.
Qed.

Lemma forallb_ext_in {A} (f g : A -> bool) l : (forall x, In x l -> f x = g x) -> forallb f l = forallb g l.
Proof.
  induction l as [|x r IH]; intro H; [reflexivity|]. cbn. rewrite (H x (or_introl eq_refl)), IH; [reflexivity|].
  intros y Hy. apply H. now right.
Qed.

Lemma forallb_and {A} (f g : A -> bool) l : forallb f l && forallb g l = forallb (fun x => f x && g x) l.
Proof.
  induction l as [|x r IH]; [reflexivity|]. cbn. rewrite <- IH.
  destruct (f x), (g x), (forallb f r), (forallb g r); reflexivity.
Qed.

Lemma forallb_map_comp {A B} (f : B -> bool) (g : A -> B) l : forallb f (map g l) = forallb (fun x => f (g x)) l.
Proof. induction l as [|x r IH]; [reflexivity|]. cbn. now rewrite IH. Qed.

(* scalars are untouched by erase *)
Lemma erase_scalar s d : is_scalar s = true -> erase s d = d.
Proof. destruct s; try discriminate; reflexivity. Qed.

(* ---- the property lookup inside erase ---- *)
Definition look (kv : str * json) :=
  fix look (ps : list (str * bool * schema)) : list (str * json) :=
    match ps with
    | [] => [kv]
    | (name, req, ps') :: r =>
        if str_eqb (fst kv) name then
          if negb req && (is_null (snd kv) || (negb (nullable ps' req) && is_zero_of ps' (snd kv)))
          then [] else [(fst kv, erase ps' (snd kv))]
        else look r
    end.

Lemma erase_obj ps l : erase (SObj ps) (JObj l) = JObj (flat_map (fun kv => look kv ps) l).
Proof. reflexivity. Qed.

(* every result of look keeps the key *)
Lemma look_key kv ps x : In x (look kv ps) -> fst x = fst kv.
Proof.
  induction ps as [|[[name req] ps'] r IH]; cbn; [intros [<-|[]]; reflexivity|].
  destruct (str_eqb (fst kv) name); [|exact IH].
  destruct (negb req && _); [intros [] | intros [<-|[]]; reflexivity].
Qed.

(* lookup in the erased object, for a key of the original object with distinct keys *)
Lemma assoc_flat_map_look k ps l :
  NoDup (map fst l) ->
  assoc k (flat_map (fun kv => look kv ps) l) =
  match assoc k l with
  | None => None
  | Some v => match look (k, v) ps with [] => None | x :: _ => Some (snd x) end
  end.
Proof.
  induction l as [|[k' v'] l IH]; intro ND; [reflexivity|].
  cbn [flat_map assoc map fst] in *. inversion ND as [|? ? Hn ND']; subst.
  destruct (str_eqb k k') eqn:E.
  - apply str_eqb_eq in E. subst k'.
    destruct (look (k, v') ps) as [|x r] eqn:EL.
    + cbn [app]. rewrite (IH ND').
      destruct (assoc k l) eqn:A; [|reflexivity].
      exfalso. apply Hn. apply assoc_In in A. change k with (fst (k, j)). now apply in_map.
    + cbn [app assoc]. assert (Hx : fst x = k) by (apply (look_key (k, v') ps); rewrite EL; now left).
      destruct x as [xk xv]. cbn in Hx. subst xk. now rewrite str_eqb_refl.
  - (* other key: skip the results of look (k', v') *)
    assert (Hskip : forall r', assoc k (look (k', v') ps ++ r') = assoc k r').
    { intro r'. assert (Hall : forall x, In x (look (k', v') ps) -> fst x = k') by (intros x Hx; exact (look_key (k', v') ps x Hx)).
      induction (look (k', v') ps) as [|[xk xv] t IHt]; [reflexivity|].
      cbn [app assoc]. assert (xk = k') by (apply (Hall (xk, xv)); now left). subst xk. rewrite E.
      apply IHt. intros y Hy. apply Hall. now right. }
    rewrite Hskip. exact (IH ND').
Qed.

(* look finds the declaration of a property with distinct names *)
Lemma look_found name req ps' ps v :
  NoDup (map (fun p => fst (fst p)) ps) -> In (name, req, ps') ps ->
  look (name, v) ps =
  if negb req && (is_null v || (negb (nullable ps' req) && is_zero_of ps' v)) then [] else [(name, erase ps' v)].
Proof.
  induction ps as [|[[n q] s'] r IH]; intros ND Hin; [contradiction|].
  cbn [map fst] in ND. inversion ND as [|? ? Hn ND']; subst. cbn [look fst snd].
  destruct Hin as [Heq|Hin].
  - injection Heq as -> -> ->. now rewrite str_eqb_refl.
  - destruct (str_eqb name n) eqn:E.
    + apply str_eqb_eq in E. subst n. exfalso. apply Hn.
      exact (in_map (fun p : str * bool * schema => fst (fst p)) r (name, req, ps') Hin).
    + now apply IH.
Qed.

(* decoding never fails on the zero value of a scalar, and accepts null *)
Lemma decodes_zero s d : is_zero_of s d = true -> decodes s d = true.
Proof. destruct s, d; try discriminate; cbn; try reflexivity; destruct m; try discriminate; destruct e; try discriminate; reflexivity. Qed.

Lemma decodes_null s : decodes s JNull = true.
Proof. destruct s; reflexivity. Qed.
Lemma erase_null s : erase s JNull = JNull.
Proof. destruct s; reflexivity. Qed.
Lemma ref_valid_null s : ref_valid s JNull = false.
Proof. destruct s; reflexivity. Qed.
Lemma gvalidate_null s : gvalidate s JNull = false.
Proof. destruct s; reflexivity. Qed.

Theorem gen_accepts_erase : forall s d, wf s d = true -> d <> JNull -> gen_accepts s d = ref_valid s (erase s d).
Proof.
  induction s as [lo hi en|lo xl hi xh m en| |it lo hi uq IH|v IH|ps IH] using schema_ind'; intros d W NN.
  - destruct d; try reflexivity; try contradiction.
  - destruct d as [| | n e | | |]; try reflexivity; try contradiction. unfold gen_accepts. cbn. destruct e; reflexivity.
  - destruct d; try reflexivity; contradiction.
  - (* arrays *)
    destruct d as [| | | |l|]; try reflexivity; try contradiction.
    unfold gen_accepts. cbn [decodes gvalidate erase ref_valid wf] in *.
    apply andb_true_iff in W as [Wu Wl].
    rewrite map_length.
    assert (Hitems : forallb (decodes it) l && forallb (gvalidate it) l = forallb (ref_valid it) (map (erase it) l)).
    { rewrite forallb_and. rewrite forallb_map_comp. apply forallb_ext_in. intros e He.
      pose proof (proj1 (forallb_forall _ _) Wl e He) as We. apply andb_true_iff in We as [We1 We2].
      apply (IH e We2). destruct e; try discriminate; congruence. }
    assert (Hu : (if uq then all_distinct l else true) = (if uq then all_distinct (map (erase it) l) else true)).
    { destruct uq; [|reflexivity]. f_equal. symmetry. rewrite <- (map_id l) at 2. apply map_ext. intro e. now apply erase_scalar. }
    rewrite <- Hu, <- Hitems.
    destruct (forallb (decodes it) l), (forallb (gvalidate it) l), (opt_le lo _), (opt_ge hi _), (if uq then all_distinct l else true); reflexivity.
  - (* maps *)
    destruct d as [| | | | |l]; try reflexivity; try contradiction.
    unfold gen_accepts. cbn [decodes gvalidate erase ref_valid wf] in *.
    apply andb_true_iff in W as [_ Wl].
    rewrite forallb_and, forallb_map_comp. apply forallb_ext_in. intros [k e] He. cbn [snd fst].
    pose proof (proj1 (forallb_forall _ _) Wl (k, e) He) as We. cbn [snd] in We. apply andb_true_iff in We as [We1 We2].
    apply (IH e We2). destruct e; try discriminate; congruence.
  - (* objects *)
    destruct d as [| | | | |l]; try reflexivity; try contradiction.
    unfold gen_accepts. rewrite erase_obj. cbn [decodes gvalidate ref_valid wf] in *.
    apply andb_true_iff in W as [W12 W3]. apply andb_true_iff in W12 as [W1 W2].
    apply nodup_str_NoDup in W1, W2.
    rewrite forallb_and. apply forallb_ext_in. intros [[name req] ps'] Hin.
    rewrite (assoc_flat_map_look name ps l W2).
    pose proof (proj1 (forallb_forall _ _) W3 _ Hin) as Wp. cbn beta iota in Wp.
    pose proof (proj1 (Forall_forall _ _) IH _ Hin) as IHp. cbn [snd] in IHp.
    destruct (assoc name l) as [v|] eqn:A; [|reflexivity].
    rewrite (look_found name req ps' ps v W1 Hin).
    assert (Hnn : forall v, v <> JNull -> wf ps' v = true ->
              decodes ps' v &&
              (if negb req && negb (nullable ps' req) && is_zero_of ps' v then true else gvalidate ps' v) =
              match (match (if negb req && (false || negb (nullable ps' req) && is_zero_of ps' v) then [] else [(name, erase ps' v)]) with
                     | [] => None | x :: _ => Some (snd x) end) with
              | Some w => ref_valid ps' w | None => negb req end).
    { intros w Hw Ww.
      destruct (negb req && (false || negb (nullable ps' req) && is_zero_of ps' w)) eqn:C.
      - cbn [orb] in C. apply andb_true_iff in C as [C1 C2]. apply andb_true_iff in C2 as [C2 C3].
        rewrite C1, C2, C3. cbn [andb]. rewrite (decodes_zero _ _ C3). reflexivity.
      - cbn [orb] in C. rewrite andb_assoc in C. rewrite C. cbn [snd].
        change (decodes ps' w && gvalidate ps' w) with (gen_accepts ps' w). now apply IHp. }
    destruct v as [|b|n e|x|xs|kvs] eqn:Ev.
    + (* null *) cbn [is_null orb andb decodes]. rewrite andb_true_r.
      rewrite decodes_null. destruct req; cbn [negb andb snd]; [now rewrite erase_null, ref_valid_null | reflexivity].
    + apply (Hnn (JBool b)); [discriminate | exact Wp].
    + apply (Hnn (JNum n e)); [discriminate | exact Wp].
    + apply (Hnn (JStr x)); [discriminate | exact Wp].
    + apply (Hnn (JArr xs)); [discriminate | exact Wp].
    + apply (Hnn (JObj kvs)); [discriminate | exact Wp].
Qed.

(* what erase removes: only an optional property whose value is null or the zero value of its scalar type *)
Lemma erase_removes_only_documented ps l name :
  NoDup (map (fun p => fst (fst p)) ps) -> NoDup (map fst l) ->
  forall v, assoc name l = Some v ->
  assoc name (match erase (SObj ps) (JObj l) with JObj l' => l' | _ => [] end) = None ->
  exists req ps', In (name, req, ps') ps /\ req = false /\ (v = JNull \/ (is_scalar ps' = true /\ is_zero_of ps' v = true)).
Proof.
  intros NDp NDl v A H. rewrite erase_obj in H. rewrite (assoc_flat_map_look name ps l NDl), A in H.
  (* look (name, v) ps is empty: find the declaration *)
  assert (G : forall ps0, (forall p, In p ps0 -> In p ps) ->
              match look (name, v) ps0 with [] => None | x :: _ => Some (snd x) end = None ->
              exists req ps', In (name, req, ps') ps /\ req = false /\ (v = JNull \/ (is_scalar ps' = true /\ is_zero_of ps' v = true))).
  { induction ps0 as [|[[n q] s'] r IH]; intros Hsub Hl; [discriminate|].
    cbn [look fst snd] in Hl. destruct (str_eqb name n) eqn:E.
    - apply str_eqb_eq in E. subst n.
      destruct (negb q && (is_null v || negb (nullable s' q) && is_zero_of s' v)) eqn:C; [|discriminate].
      apply andb_true_iff in C as [C1 C2]. exists q, s'. split; [apply Hsub; now left|]. split; [now destruct q|].
      apply orb_true_iff in C2 as [C2|C2]; [left; now destruct v|].
      apply andb_true_iff in C2 as [_ C3]. right. split; [|exact C3]. destruct s', v; try discriminate; reflexivity.
    - apply IH; [intros p Hp; apply Hsub; now right | exact Hl]. }
  apply (G ps); [auto | exact H].
Qed.

(* ------------------------------------------------------------------ *)
(* C05: what json.Marshal(json.Unmarshal(d)) keeps                      *)
(* ------------------------------------------------------------------ *)
Definition member (l : list (str * json)) (p : str * bool * schema) : list (str * json) :=
  let '(name, req, ps') := p in
  match assoc name l with
  | None | Some JNull => if req || is_arr ps' then [(name, JNull)] else []
  | Some v =>
      if negb req && ((negb (nullable ps' req) && is_zero_of ps' v) || (is_map ps' && is_empty_obj v))
      then [] else [(name, rt ps' v)]
  end.

Lemma rt_obj ps l : rt (SObj ps) (JObj l) = JObj (flat_map (member l) ps).
Proof. reflexivity. Qed.

Lemma member_key l p x : In x (member l p) -> fst x = fst (fst p).
Proof.
  destruct p as [[name req] ps']. unfold member. cbn [fst].
  destruct (assoc name l) as [v|].
  - destruct v; try (destruct (negb req && _); [intros [] | intros [<-|[]]; reflexivity]).
    destruct (req || is_arr ps'); [intros [<-|[]]; reflexivity | intros []].
  - destruct (req || is_arr ps'); [intros [<-|[]]; reflexivity | intros []].
Qed.

Lemma assoc_app_skip {A} name (a b : list (str * A)) : (forall y, In y a -> fst y <> name) -> assoc name (a ++ b) = assoc name b.
Proof.
  induction a as [|[yk yv] t IH]; intro H; [reflexivity|]. cbn [app assoc].
  destruct (str_eqb name yk) eqn:E.
  - apply str_eqb_eq in E. exfalso. apply (H (yk, yv)); [now left | now subst].
  - apply IH. intros y Hy. apply H. now right.
Qed.

Lemma assoc_flat_map_none name l r :
  ~ In name (map (fun p : str * bool * schema => fst (fst p)) r) -> assoc name (flat_map (member l) r) = None.
Proof.
  induction r as [|q r IH]; intro H; [reflexivity|]. cbn [flat_map].
  rewrite assoc_app_skip.
  - apply IH. intro K. apply H. cbn [map]. now right.
  - intros y Hy E. apply H. cbn [map]. left. rewrite <- E. symmetry. exact (member_key l q y Hy).
Qed.

Lemma assoc_flat_map_member name req ps' ps l :
  NoDup (map (fun p => fst (fst p)) ps) -> In (name, req, ps') ps ->
  assoc name (flat_map (member l) ps) = match member l (name, req, ps') with [] => None | x :: _ => Some (snd x) end.
Proof.
  induction ps as [|p r IH]; intros ND Hin; [contradiction|].
  cbn [map] in ND. inversion ND as [|? ? Hn ND']; subst. cbn [flat_map].
  destruct Hin as [->|Hin].
  - cbn [fst] in Hn. destruct (member l (name, req, ps')) as [|x t] eqn:E.
    + cbn [app]. now apply assoc_flat_map_none.
    + cbn [app assoc]. assert (Hx : fst x = name) by (apply (member_key l (name, req, ps')); rewrite E; now left).
      destruct x as [xk xv]. cbn in Hx. subst xk. now rewrite str_eqb_refl.
  - rewrite assoc_app_skip; [now apply IH|].
    intros y Hy E2. apply Hn. rewrite (member_key l p y Hy) in E2. rewrite E2.
    exact (in_map (fun p : str * bool * schema => fst (fst p)) r (name, req, ps') Hin).
Qed.

(* a declared property present in the document with a non-null value comes back at the same place, unless it is an
   optional scalar holding the zero value of a non-pointer field, or an optional empty map (omitempty) *)
Lemma rt_property_kept name req ps' ps l v :
  NoDup (map (fun p => fst (fst p)) ps) -> In (name, req, ps') ps ->
  assoc name l = Some v -> v <> JNull ->
  negb req && ((negb (nullable ps' req) && is_zero_of ps' v) || (is_map ps' && is_empty_obj v)) = false ->
  assoc name (match rt (SObj ps) (JObj l) with JObj l' => l' | _ => [] end) = Some (rt ps' v).
Proof.
  intros ND Hin A NN C. rewrite rt_obj. rewrite (assoc_flat_map_member name req ps' ps l ND Hin).
  unfold member. rewrite A. destruct v; try contradiction; now rewrite C.
Qed.

(* a required property is never omitted *)
Lemma rt_required_present name ps' ps l :
  NoDup (map (fun p => fst (fst p)) ps) -> In (name, true, ps') ps ->
  assoc name (match rt (SObj ps) (JObj l) with JObj l' => l' | _ => [] end) <> None.
Proof.
  intros ND Hin. rewrite rt_obj, (assoc_flat_map_member name true ps' ps l ND Hin).
  unfold member. destruct (assoc name l) as [v|]; [destruct v|]; cbn; discriminate.
Qed.

(* nothing undeclared is added *)
Lemma rt_only_declared ps l x :
  In x (match rt (SObj ps) (JObj l) with JObj l' => l' | _ => [] end) -> In (fst x) (map (fun p => fst (fst p)) ps).
Proof.
  rewrite rt_obj. intro H. apply in_flat_map in H as [p [Hp Hx]].
  rewrite (member_key l p x Hx). exact (in_map (fun p : str * bool * schema => fst (fst p)) ps p Hp).
Qed.

Lemma rt_scalar s d : is_scalar s = true -> rt s d = d.
Proof. destruct s; try discriminate; reflexivity. Qed.

(* ------------------------------------------------------------------ *)
(* C05: a second round trip changes nothing                             *)
(* ------------------------------------------------------------------ *)
Fixpoint names_distinct (s : schema) : bool :=
  match s with
  | SArr it _ _ _ => names_distinct it
  | SMap v => names_distinct v
  | SObj ps => nodup_str (map (fun p => fst (fst p)) ps) &&
               (fix all (l : list (str * bool * schema)) : bool := match l with [] => true | p :: r => names_distinct (snd p) && all r end) ps
  | _ => true
  end.

Lemma names_distinct_obj ps : names_distinct (SObj ps) = true ->
  NoDup (map (fun p => fst (fst p)) ps) /\ forall p, In p ps -> names_distinct (snd p) = true.
Proof.
  cbn [names_distinct]. intros H. apply andb_prop in H as [H1 H2]. split; [apply nodup_str_NoDup; exact H1|].
  induction ps as [|q r IH]; intros p Hin; [contradiction|]. apply andb_prop in H2 as [A B].
  destruct Hin as [<-|Hin]; [exact A|]. apply IH; [|exact B | exact Hin].
  cbn [map nodup_str] in H1. apply andb_prop in H1 as [_ H1]. exact H1.
Qed.

Lemma rt_not_null s d : d <> JNull -> rt s d <> JNull.
Proof. destruct s, d; cbn; congruence. Qed.

Lemma is_zero_of_rt s d : is_zero_of s (rt s d) = is_zero_of s d.
Proof. destruct s; try reflexivity; destruct d; reflexivity. Qed.

Lemma is_empty_obj_rt_map v d : is_empty_obj (rt (SMap v) d) = is_empty_obj d.
Proof. destruct d as [| | | | |l]; try reflexivity. destruct l; reflexivity. Qed.

Lemma member_twice l ps p :
  NoDup (map (fun q => fst (fst q)) ps) -> In p ps -> (forall d, rt (snd p) (rt (snd p) d) = rt (snd p) d) ->
  member (flat_map (member l) ps) p = member l p.
Proof.
  destruct p as [[name req] ps']. cbn [snd]. intros ND Hin IH.
  unfold member at 1. rewrite (assoc_flat_map_member name req ps' ps l ND Hin).
  unfold member. destruct (assoc name l) as [v|] eqn:A.
  - destruct (match v with JNull => true | _ => false end) eqn:NV.
    + destruct v; try discriminate. destruct (req || is_arr ps'); reflexivity.
    + assert (v <> JNull) as NN by (destruct v; congruence).
      assert ((match v with
               | JNull => if req || is_arr ps' then [(name, JNull)] else []
               | _ => if negb req && (negb (nullable ps' req) && is_zero_of ps' v || is_map ps' && is_empty_obj v) then [] else [(name, rt ps' v)]
               end) = (if negb req && (negb (nullable ps' req) && is_zero_of ps' v || is_map ps' && is_empty_obj v) then [] else [(name, rt ps' v)])) as EV
        by (destruct v; congruence).
      rewrite EV. clear EV.
      destruct (negb req && (negb (nullable ps' req) && is_zero_of ps' v || is_map ps' && is_empty_obj v)) eqn:C.
      * (* omitted: the field is optional and not an array *)
        apply andb_prop in C as [NR C]. apply Bool.negb_true_iff in NR. subst req.
        assert (is_arr ps' = false) as NA.
        { destruct ps'; try reflexivity. cbn in C. discriminate. }
        rewrite NA. reflexivity.
      * cbn [snd]. pose proof (rt_not_null ps' v NN) as RN.
        assert ((match rt ps' v with
                 | JNull => if req || is_arr ps' then [(name, JNull)] else []
                 | _ => if negb req && (negb (nullable ps' req) && is_zero_of ps' (rt ps' v) || is_map ps' && is_empty_obj (rt ps' v)) then [] else [(name, rt ps' (rt ps' v))]
                 end) = (if negb req && (negb (nullable ps' req) && is_zero_of ps' (rt ps' v) || is_map ps' && is_empty_obj (rt ps' v)) then [] else [(name, rt ps' (rt ps' v))])) as EV
          by (destruct (rt ps' v); congruence).
        rewrite EV, is_zero_of_rt, IH.
        assert (is_map ps' && is_empty_obj (rt ps' v) = is_map ps' && is_empty_obj v) as EM.
        { destruct ps'; try reflexivity. cbn [is_map andb]. apply is_empty_obj_rt_map. }
        rewrite EM, C. reflexivity.
  - destruct (req || is_arr ps'); reflexivity.
Qed.

Theorem rt_idempotent : forall s d, names_distinct s = true -> rt s (rt s d) = rt s d.
Proof.
  induction s as [lo hi en|lo xl hi xh m en| |it lo hi uq IH|v IH|ps IH] using schema_ind'; intros d W; try (destruct d; reflexivity).
  - destruct d as [| | | |l|]; try reflexivity. cbn [rt]. f_equal. rewrite map_map. apply map_ext. intros x. apply IH. exact W.
  - destruct d as [| | | | |l]; try reflexivity. cbn [rt]. f_equal. rewrite map_map. apply map_ext. intros [k x]. cbn [fst snd]. f_equal. apply IH. exact W.
  - destruct d as [| | | | |l]; try reflexivity. rewrite !rt_obj. f_equal.
    destruct (names_distinct_obj ps W) as [ND WP].
    assert (forall r, (forall p, In p r -> In p ps) -> flat_map (member (flat_map (member l) ps)) r = flat_map (member l) r) as FM.
    { induction r as [|q r IHr]; intros Hin; [reflexivity|]. cbn [flat_map]. rewrite IHr by (intros p Hp; apply Hin; right; exact Hp).
      f_equal. apply member_twice; [exact ND | apply Hin; left; reflexivity|].
      intros d0. rewrite Forall_forall in IH. apply (IH q (Hin q (or_introl eq_refl))). apply WP. apply Hin. left. reflexivity. }
    apply FM. auto.
Qed.

(* Scan/GoTypes.v — C16: Go model types, their JSON encoding by encoding/json, the definition codescan gives them
   (codescan/schema.go buildFromType / buildFromStruct / parseJSONTag on the fragment), reference validity of a document
   against such a definition and what encoding/json accepts when decoding.  Definitions only.
   Fragment: strings, booleans, integers of every width, pointers, slices, arrays, string-keyed maps, structs whose
   fields carry a JSON name and the omitempty option (unexported / "-" / ignored fields are simply not listed). *)
From GS Require Import Base.Str Base.Json.

Inductive gotype :=
| GStr | GBool
| GInt (lo hi : Z)                       (* the range of the Go integer type *)
| GPtr (t : gotype) | GSlice (t : gotype) | GArray (n : nat) (t : gotype) | GMap (t : gotype)
| GStruct (fields : list (str * bool * gotype)).     (* JSON name, omitempty, type *)

Inductive gval :=
| VStr (x : str) | VBool (b : bool) | VInt (z : Z)
| VNil                                    (* nil pointer, nil slice, nil map *)
| VPtr (v : gval) | VList (l : list gval) | VMap (l : list (str * gval)) | VStruct (l : list gval).

(* ---------- encoding/json: Marshal ---------- *)
(* omitempty: false, 0, nil pointer, and any empty array, slice, map or string *)
Definition is_empty_val (v : gval) : bool :=
  match v with
  | VBool false | VInt 0%Z | VStr [] | VNil | VList [] | VMap [] => true
  | _ => false
  end.

Fixpoint encode (t : gotype) (v : gval) {struct t} : json :=
  match t, v with
  | GStr, VStr x => JStr x
  | GBool, VBool b => JBool b
  | GInt _ _, VInt z => JNum z 0
  | GPtr t', VPtr v' => encode t' v'
  | GSlice t', VList l => JArr (map (encode t') l)
  | GArray _ t', VList l => JArr (map (encode t') l)
  | GMap t', VMap l => JObj (map (fun kv => (fst kv, encode t' (snd kv))) l)
  | GStruct fs, VStruct vs =>
      JObj ((fix go (fs : list (str * bool * gotype)) (vs : list gval) : list (str * json) :=
               match fs, vs with
               | (name, omit, t') :: fs', v' :: vs' =>
                   if omit && is_empty_val v' then go fs' vs' else (name, encode t' v') :: go fs' vs'
               | _, _ => []
               end) fs vs)
  | _, _ => JNull                          (* nil pointer / slice / map; ill-typed values are excluded by has_type *)
  end.

Fixpoint has_type (t : gotype) (v : gval) {struct t} : bool :=
  match t, v with
  | GStr, VStr _ => true
  | GBool, VBool _ => true
  | GInt lo hi, VInt z => Z.leb lo z && Z.leb z hi
  | GPtr _, VNil => true
  | GPtr t', VPtr v' => has_type t' v'
  | GSlice _, VNil => true
  | GSlice t', VList l => forallb (has_type t') l
  | GArray n t', VList l => Nat.eqb (length l) n && forallb (has_type t') l
  | GMap _, VNil => true
  | GMap t', VMap l => forallb (fun kv => has_type t' (snd kv)) l
  | GStruct fs, VStruct vs =>
      (fix go (fs : list (str * bool * gotype)) (vs : list gval) : bool :=
         match fs, vs with
         | [], [] => true
         | (_, _, t') :: fs', v' :: vs' => has_type t' v' && go fs' vs'
         | _, _ => false
         end) fs vs
  | _, _ => false
  end.

(* ---------- codescan: the definition of the type ---------- *)
Inductive scanned :=
| KStr | KBool | KInt (lo hi : Z)
| KArr (items : scanned) | KMap (values : scanned)
| KObj (props : list (str * bool * scanned)).        (* name, x-nullable, schema *)

Definition is_ptr (t : gotype) : bool := match t with GPtr _ => true | _ => false end.

Fixpoint scan (t : gotype) : scanned :=
  match t with
  | GStr => KStr
  | GBool => KBool
  | GInt lo hi => KInt lo hi               (* the format names the Go type, read as its range *)
  | GPtr t' => scan t'
  | GSlice t' => KArr (scan t')
  | GArray _ t' => KArr (scan t')
  | GMap t' => KMap (scan t')
  | GStruct fs => KObj (map (fun f => let '(name, omit, t') := f in (name, is_ptr t' && negb omit, scan t')) fs)
  end.

(* reference validity against a scanned definition: nothing is required, additional properties are allowed,
   null only under x-nullable; duplicate keys: every occurrence is checked *)
Fixpoint sval (s : scanned) (d : json) {struct s} : bool :=
  match s, d with
  | KStr, JStr _ => true
  | KBool, JBool _ => true
  | KInt lo hi, JNum n 0 => Z.leb lo n && Z.leb n hi
  | KArr it, JArr l => forallb (sval it) l
  | KMap v, JObj l => forallb (fun kv => sval v (snd kv)) l
  | KObj ps, JObj l =>
      forallb (fun kv =>
        forallb (fun p => let '(name, nullable, s') := p in
                          if str_eqb (fst kv) name then (match snd kv with JNull => nullable | v => sval s' v end) else true) ps) l
  | _, _ => false
  end.

(* ---------- encoding/json: Unmarshal succeeds ---------- *)
Fixpoint decodes (t : gotype) (d : json) {struct t} : bool :=
  match t, d with
  | _, JNull => true                        (* null leaves the destination untouched *)
  | GStr, JStr _ => true
  | GBool, JBool _ => true
  | GInt lo hi, JNum n 0 => Z.leb lo n && Z.leb n hi
  | GPtr t', _ => decodes t' d
  | GSlice t', JArr l => forallb (decodes t') l
  | GArray _ t', JArr l => forallb (decodes t') l          (* extra elements are dropped, missing ones zeroed *)
  | GMap t', JObj l => forallb (fun kv => decodes t' (snd kv)) l
  | GStruct fs, JObj l =>
      forallb (fun kv =>
        forallb (fun f => let '(name, _, t') := f in
                          if str_eqb (fst kv) name then decodes t' (snd kv) else true) fs) l     (* unknown keys are ignored *)
  | _, _ => false
  end.

(* ---------- the values whose nils the definition can describe ---------- *)
(* a nil may only sit in a struct field that is a pointer (x-nullable, or omitted under omitempty) or that has omitempty *)
Fixpoint clean (t : gotype) (v : gval) {struct t} : bool :=
  match t, v with
  | _, VNil => false
  | GPtr t', VPtr v' => clean t' v'
  | GSlice t', VList l => forallb (clean t') l
  | GArray _ t', VList l => forallb (clean t') l
  | GMap t', VMap l => forallb (fun kv => clean t' (snd kv)) l
  | GStruct fs, VStruct vs =>
      (fix go (fs : list (str * bool * gotype)) (vs : list gval) : bool :=
         match fs, vs with
         | (_, omit, t') :: fs', v' :: vs' =>
             (match v' with VNil => omit || is_ptr t' | _ => clean t' v' end) && go fs' vs'
         | _, _ => true
         end) fs vs
  | _, _ => true
  end.

(* Scan/DocVocab.v — C18: the validation vocabulary the model templates write into doc comments
   (generator/templates/validation/structfield.gotmpl propertyValidationDocString) and the recognisers that read it back
   (codescan/regexprs.go rx*Fmt + the set* parsers of codescan/parser.go), on the lines the generator emits.
   Numbers are integers printed in plain decimal (Go prints a bound with %v: from 10^6 on it switches to exponent
   notation, which the scanner does not read — a known finding, outside [wf]).  Definitions only. *)
From GS Require Import Base.Str Tools.Decimal.

Record vals := {
  d_required : bool; d_readonly : bool;
  d_max : option (bool * Z);            (* exclusive?, bound *)
  d_min : option (bool * Z);
  d_mult : option Z;
  d_maxlen : option Z; d_minlen : option Z;
  d_pattern : option str;
  d_maxitems : option Z; d_minitems : option Z;
  d_unique : bool }.

Definition empty_vals : vals :=
  {| d_required := false; d_readonly := false; d_max := None; d_min := None; d_mult := None; d_maxlen := None; d_minlen := None;
     d_pattern := None; d_maxitems := None; d_minitems := None; d_unique := false |}.

(* ---------- the template ---------- *)
Definition opt_line {A} (o : option A) (f : A -> str) : list str := match o with Some a => [f a] | None => [] end.
Definition flag_line (b : bool) (l : str) : list str := if b then [l] else [].

Definition emit (v : vals) : list str :=
  flag_line (d_required v) (s "Required: true") ++
  flag_line (d_readonly v) (s "Read Only: true") ++
  opt_line (d_max v) (fun p => s "Maximum: " ++ (if fst p then s "< " else []) ++ dec_text (snd p)) ++
  opt_line (d_min v) (fun p => s "Minimum: " ++ (if fst p then s "> " else []) ++ dec_text (snd p)) ++
  opt_line (d_mult v) (fun z => s "Multiple Of: " ++ dec_text z) ++
  opt_line (d_maxlen v) (fun z => s "Max Length: " ++ dec_text z) ++
  opt_line (d_minlen v) (fun z => s "Min Length: " ++ dec_text z) ++
  opt_line (d_pattern v) (fun p => s "Pattern: " ++ p) ++
  opt_line (d_maxitems v) (fun z => s "Max Items: " ++ dec_text z) ++
  opt_line (d_minitems v) (fun z => s "Min Items: " ++ dec_text z) ++
  flag_line (d_unique v) (s "Unique: true").

(* ---------- the recognisers, on lines that start with the keyword ---------- *)
Fixpoint strip_prefix (p l : str) : option str :=
  match p, l with
  | [], _ => Some l
  | c :: p', d :: l' => if N.eqb c d then strip_prefix p' l' else None
  | _ :: _, [] => None
  end.
Fixpoint skip_spaces (x : str) : str := match x with 32%N :: r => skip_spaces r | _ => x end.
Definition parse_flag (x : str) : option bool :=
  if str_eqb x (s "true") then Some true else if str_eqb x (s "false") then Some false else None.
(* ([<=])? spaces number *)
Definition parse_bound (marker : N) (x : str) : option (bool * Z) :=
  let x := skip_spaces x in
  match x with
  | c :: r => if N.eqb c marker then option_map (fun z => (true, z)) (parse_dec (skip_spaces r))
              else if N.eqb c 61 then option_map (fun z => (false, z)) (parse_dec (skip_spaces r))
              else option_map (fun z => (false, z)) (parse_dec x)
  | [] => None
  end.
Definition parse_num (x : str) : option Z := parse_dec (skip_spaces x).

Definition set_required b v := {| d_required := b; d_readonly := d_readonly v; d_max := d_max v; d_min := d_min v; d_mult := d_mult v; d_maxlen := d_maxlen v; d_minlen := d_minlen v; d_pattern := d_pattern v; d_maxitems := d_maxitems v; d_minitems := d_minitems v; d_unique := d_unique v |}.
Definition set_readonly b v := {| d_required := d_required v; d_readonly := b; d_max := d_max v; d_min := d_min v; d_mult := d_mult v; d_maxlen := d_maxlen v; d_minlen := d_minlen v; d_pattern := d_pattern v; d_maxitems := d_maxitems v; d_minitems := d_minitems v; d_unique := d_unique v |}.
Definition set_max p v := {| d_required := d_required v; d_readonly := d_readonly v; d_max := Some p; d_min := d_min v; d_mult := d_mult v; d_maxlen := d_maxlen v; d_minlen := d_minlen v; d_pattern := d_pattern v; d_maxitems := d_maxitems v; d_minitems := d_minitems v; d_unique := d_unique v |}.
Definition set_min p v := {| d_required := d_required v; d_readonly := d_readonly v; d_max := d_max v; d_min := Some p; d_mult := d_mult v; d_maxlen := d_maxlen v; d_minlen := d_minlen v; d_pattern := d_pattern v; d_maxitems := d_maxitems v; d_minitems := d_minitems v; d_unique := d_unique v |}.
Definition set_mult z v := {| d_required := d_required v; d_readonly := d_readonly v; d_max := d_max v; d_min := d_min v; d_mult := Some z; d_maxlen := d_maxlen v; d_minlen := d_minlen v; d_pattern := d_pattern v; d_maxitems := d_maxitems v; d_minitems := d_minitems v; d_unique := d_unique v |}.
Definition set_maxlen z v := {| d_required := d_required v; d_readonly := d_readonly v; d_max := d_max v; d_min := d_min v; d_mult := d_mult v; d_maxlen := Some z; d_minlen := d_minlen v; d_pattern := d_pattern v; d_maxitems := d_maxitems v; d_minitems := d_minitems v; d_unique := d_unique v |}.
Definition set_minlen z v := {| d_required := d_required v; d_readonly := d_readonly v; d_max := d_max v; d_min := d_min v; d_mult := d_mult v; d_maxlen := d_maxlen v; d_minlen := Some z; d_pattern := d_pattern v; d_maxitems := d_maxitems v; d_minitems := d_minitems v; d_unique := d_unique v |}.
Definition set_pattern p v := {| d_required := d_required v; d_readonly := d_readonly v; d_max := d_max v; d_min := d_min v; d_mult := d_mult v; d_maxlen := d_maxlen v; d_minlen := d_minlen v; d_pattern := Some p; d_maxitems := d_maxitems v; d_minitems := d_minitems v; d_unique := d_unique v |}.
Definition set_maxitems z v := {| d_required := d_required v; d_readonly := d_readonly v; d_max := d_max v; d_min := d_min v; d_mult := d_mult v; d_maxlen := d_maxlen v; d_minlen := d_minlen v; d_pattern := d_pattern v; d_maxitems := Some z; d_minitems := d_minitems v; d_unique := d_unique v |}.
Definition set_minitems z v := {| d_required := d_required v; d_readonly := d_readonly v; d_max := d_max v; d_min := d_min v; d_mult := d_mult v; d_maxlen := d_maxlen v; d_minlen := d_minlen v; d_pattern := d_pattern v; d_maxitems := d_maxitems v; d_minitems := Some z; d_unique := d_unique v |}.
Definition set_unique b v := {| d_required := d_required v; d_readonly := d_readonly v; d_max := d_max v; d_min := d_min v; d_mult := d_mult v; d_maxlen := d_maxlen v; d_minlen := d_minlen v; d_pattern := d_pattern v; d_maxitems := d_maxitems v; d_minitems := d_minitems v; d_unique := b |}.

Definition try_kw {A} (kw : str) (p : str -> option A) (set : A -> vals -> vals) (l : str) : option (vals -> vals) :=
  match strip_prefix kw l with Some rest => option_map set (p rest) | None => None end.
Definition orelse {A} (a b : option A) : option A := match a with Some _ => a | None => b end.

Definition parse_line (l : str) : option (vals -> vals) :=
  orelse (try_kw (s "Required:") (fun r => parse_flag (skip_spaces r)) set_required l)
 (orelse (try_kw (s "Read Only:") (fun r => parse_flag (skip_spaces r)) set_readonly l)
 (orelse (try_kw (s "Maximum:") (parse_bound 60) set_max l)
 (orelse (try_kw (s "Minimum:") (parse_bound 62) set_min l)
 (orelse (try_kw (s "Multiple Of:") parse_num set_mult l)
 (orelse (try_kw (s "Max Length:") parse_num set_maxlen l)
 (orelse (try_kw (s "Min Length:") parse_num set_minlen l)
 (orelse (try_kw (s "Pattern:") (fun r => Some (skip_spaces r)) set_pattern l)
 (orelse (try_kw (s "Max Items:") parse_num set_maxitems l)
 (orelse (try_kw (s "Min Items:") parse_num set_minitems l)
         (try_kw (s "Unique:") (fun r => parse_flag (skip_spaces r)) set_unique l)))))))))).

Definition parse (lines : list str) : vals :=
  fold_left (fun acc l => match parse_line l with Some f => f acc | None => acc end) lines empty_vals.

(* a pattern survives when it is not empty and does not start with a blank (the recogniser skips them) *)
Definition pattern_ok (p : str) : bool := match p with [] => false | c :: _ => negb (N.eqb c 32) end.
Definition wf (v : vals) : bool := match d_pattern v with Some p => pattern_ok p | None => true end.

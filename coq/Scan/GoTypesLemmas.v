(* Scan/GoTypesLemmas.v — C16 on the fragment of Scan/GoTypes.v. *)
From GS Require Import Base.Str Base.Json Scan.GoTypes.
From Coq Require Import Lia.

Section GoInd.
  Variable P : gotype -> Prop.
  Hypothesis Hstr : P GStr.
  Hypothesis Hbool : P GBool.
  Hypothesis Hint : forall lo hi, P (GInt lo hi).
  Hypothesis Hptr : forall t, P t -> P (GPtr t).
  Hypothesis Hslice : forall t, P t -> P (GSlice t).
  Hypothesis Harray : forall n t, P t -> P (GArray n t).
  Hypothesis Hmap : forall t, P t -> P (GMap t).
  Hypothesis Hstruct : forall fs, Forall (fun f => P (snd f)) fs -> P (GStruct fs).
  Fixpoint gotype_ind' (t : gotype) : P t :=
    match t with
    | GStr => Hstr | GBool => Hbool | GInt lo hi => Hint lo hi
    | GPtr t' => Hptr t' (gotype_ind' t') | GSlice t' => Hslice t' (gotype_ind' t')
    | GArray n t' => Harray n t' (gotype_ind' t') | GMap t' => Hmap t' (gotype_ind' t')
    | GStruct fs => Hstruct fs ((fix go (fs : list (str * bool * gotype)) : Forall (fun f => P (snd f)) fs :=
                                   match fs with [] => Forall_nil _ | f :: r => Forall_cons _ (gotype_ind' (snd f)) (go r) end) fs)
    end.
End GoInd.

(* struct fields carry distinct JSON names (encoding/json drops conflicting fields; the model does not) *)
Fixpoint wf_type (t : gotype) : bool :=
  match t with
  | GPtr t' | GSlice t' | GArray _ t' | GMap t' => wf_type t'
  | GStruct fs =>
      (fix nd (l : list (str * bool * gotype)) : bool :=
         match l with [] => true | (n, _, _) :: r => negb (mem n (map (fun f => fst (fst f)) r)) && nd r end) fs &&
      (fix all (l : list (str * bool * gotype)) : bool :=
         match l with [] => true | (_, _, t') :: r => wf_type t' && all r end) fs
  | _ => true
  end.

(* ---------- what the definition accepts decodes ---------- *)
Theorem accepted_decodes : forall t d, sval (scan t) d = true -> decodes t d = true.
Proof.
  induction t as [| | lo hi | t IH | t IH | n t IH | t IH | fs IH] using gotype_ind'; intros d H.
  - destruct d; cbn in *; try discriminate; reflexivity.
  - destruct d; cbn in *; try discriminate; reflexivity.
  - destruct d as [| |m e| | |]; cbn in *; try discriminate. destruct e; try discriminate. exact H.
  - cbn [scan] in H. specialize (IH d H). destruct d; cbn; try reflexivity; exact IH.
  - cbn [scan] in H. destruct d as [| | | |l|]; cbn in *; try discriminate; try reflexivity.
    rewrite forallb_forall in *. intros x Hx. apply IH, H, Hx.
  - cbn [scan] in H. destruct d as [| | | |l|]; cbn in *; try discriminate; try reflexivity.
    rewrite forallb_forall in *. intros x Hx. apply IH, H, Hx.
  - cbn [scan] in H. destruct d as [| | | | |l]; cbn in *; try discriminate; try reflexivity.
    rewrite forallb_forall in *. intros x Hx. apply IH, H, Hx.
  - cbn [scan] in H. destruct d as [| | | | |l]; cbn [sval decodes] in *; try discriminate; try reflexivity.
    rewrite forallb_forall in *. intros kv Hkv. specialize (H kv Hkv). rewrite forallb_forall in *.
    intros [[name omit] t'] Hf. destruct (str_eqb (fst kv) name) eqn:E; [|reflexivity].
    specialize (H (name, is_ptr t' && negb omit, scan t')).
    assert (In (name, is_ptr t' && negb omit, scan t') (map (fun f : str * bool * gotype => let '(name, omit, t') := f in (name, is_ptr t' && negb omit, scan t')) fs)) as Hin
      by (apply in_map_iff; exists (name, omit, t'); auto).
    specialize (H Hin). cbn beta iota in H. rewrite E in H.
    rewrite Forall_forall in IH. specialize (IH _ Hf). cbn [snd] in IH.
    destruct (snd kv) eqn:Es; try (apply IH; exact H). destruct t'; reflexivity.
Qed.

(* ---------- the encoding of a value is accepted by the definition of its type ---------- *)
Lemma encode_not_null : forall t v, has_type t v = true -> clean t v = true -> encode t v <> JNull.
Proof.
  induction t as [| | lo hi | t IH | t IH | n t IH | t IH | fs IH] using gotype_ind'; intros v HT HC; destruct v; cbn in *; try discriminate.
  apply IH; assumption.
Qed.

(* distinct names: two fields with the same name are the same field *)
Lemma nd_inj (fs : list (str * bool * gotype)) :
  (fix nd (l : list (str * bool * gotype)) : bool :=
     match l with [] => true | (n, _, _) :: r => negb (mem n (map (fun f => fst (fst f)) r)) && nd r end) fs = true ->
  forall n o1 t1 o2 t2, In (n, o1, t1) fs -> In (n, o2, t2) fs -> o1 = o2 /\ t1 = t2.
Proof.
  induction fs as [|[[n0 o0] t0] r IH]; intros H n o1 t1 o2 t2 H1 H2; [contradiction|].
  apply andb_prop in H as [N1 N2]. apply Bool.negb_true_iff in N1. apply mem_false in N1.
  assert (forall o t, In (n0, o, t) r -> False) as NO.
  { intros o t Hin. apply N1. apply in_map_iff. exists (n0, o, t). auto. }
  destruct H1 as [E1|H1], H2 as [E2|H2].
  - inversion E1; inversion E2; subst; auto.
  - inversion E1; subst. exfalso. apply (NO _ _ H2).
  - inversion E2; subst. exfalso. apply (NO _ _ H1).
  - apply (IH N2 n o1 t1 o2 t2 H1 H2).
Qed.

(* the members of the encoding of a struct value *)
Definition field_ok (omit : bool) (t' : gotype) (v' : gval) : Prop :=
  has_type t' v' = true /\ (match v' with VNil => omit || is_ptr t' | _ => clean t' v' end) = true /\ (omit && is_empty_val v') = false.

Lemma encode_members (fs : list (str * bool * gotype)) : forall vs,
  (fix go (fs : list (str * bool * gotype)) (vs : list gval) : bool :=
     match fs, vs with
     | [], [] => true
     | (_, _, t') :: fs', v' :: vs' => has_type t' v' && go fs' vs'
     | _, _ => false
     end) fs vs = true ->
  (fix go (fs : list (str * bool * gotype)) (vs : list gval) : bool :=
     match fs, vs with
     | (_, omit, t') :: fs', v' :: vs' => (match v' with VNil => omit || is_ptr t' | _ => clean t' v' end) && go fs' vs'
     | _, _ => true
     end) fs vs = true ->
  forall kv, In kv ((fix go (fs : list (str * bool * gotype)) (vs : list gval) : list (str * json) :=
                       match fs, vs with
                       | (name, omit, t') :: fs', v' :: vs' =>
                           if omit && is_empty_val v' then go fs' vs' else (name, encode t' v') :: go fs' vs'
                       | _, _ => []
                       end) fs vs) ->
  exists name omit t' v', In (name, omit, t') fs /\ kv = (name, encode t' v') /\ field_ok omit t' v'.
Proof.
  induction fs as [|[[name omit] t'] r IH]; intros vs HT HC kv Hin; [contradiction|].
  destruct vs as [|v' vs']; [contradiction|].
  apply andb_prop in HT as [HT1 HT2]. apply andb_prop in HC as [HC1 HC2].
  destruct (omit && is_empty_val v') eqn:E.
  - destruct (IH vs' HT2 HC2 kv Hin) as [n [o [t2 [v2 [H1 H2]]]]]. exists n, o, t2, v2. split; [right; exact H1 | exact H2].
  - destruct Hin as [Hk|Hin].
    + exists name, omit, t', v'. split; [left; reflexivity|]. split; [symmetry; exact Hk|]. repeat split; assumption.
    + destruct (IH vs' HT2 HC2 kv Hin) as [n [o [t2 [v2 [H1 H2]]]]]. exists n, o, t2, v2. split; [right; exact H1 | exact H2].
Qed.

Lemma match_not_null (j : json) (nl : bool) (f : json -> bool) : j <> JNull -> (match j with JNull => nl | v => f v end) = f j.
Proof. destruct j; intros H; try reflexivity. congruence. Qed.

Lemma wf_fields (fs : list (str * bool * gotype)) :
  (fix all (l : list (str * bool * gotype)) : bool :=
     match l with [] => true | (_, _, t') :: r => wf_type t' && all r end) fs = true ->
  forall n o t', In (n, o, t') fs -> wf_type t' = true.
Proof.
  induction fs as [|[[n0 o0] t0] r IH]; intros H n o t' Hin; [contradiction|]. apply andb_prop in H as [H1 H2].
  destruct Hin as [E|Hin]; [inversion E; subst; exact H1 | apply (IH H2 _ _ _ Hin)].
Qed.

Theorem encoding_accepted : forall t v, wf_type t = true -> has_type t v = true -> clean t v = true -> sval (scan t) (encode t v) = true.
Proof.
  induction t as [| | lo hi | t IH | t IH | n t IH | t IH | fs IH] using gotype_ind'; intros v W HT HC.
  - destruct v; cbn in *; try discriminate; reflexivity.
  - destruct v; cbn in *; try discriminate; reflexivity.
  - destruct v; cbn in *; try discriminate. exact HT.
  - destruct v; cbn in HT, HC; try discriminate. cbn [scan encode wf_type] in *. apply IH; assumption.
  - destruct v as [| | | | |l| |]; cbn in HT, HC; try discriminate. cbn [scan encode sval wf_type] in *.
    rewrite forallb_forall in *. intros x Hx. apply in_map_iff in Hx as [y [E Hy]]. subst x. apply IH; [exact W | apply HT, Hy | apply HC, Hy].
  - destruct v as [| | | | |l| |]; cbn in HT, HC; try discriminate. cbn [scan encode sval wf_type] in *.
    apply andb_prop in HT as [_ HT]. rewrite forallb_forall in *. intros x Hx. apply in_map_iff in Hx as [y [E Hy]]. subst x. apply IH; [exact W | apply HT, Hy | apply HC, Hy].
  - destruct v as [| | | | | |l|]; cbn in HT, HC; try discriminate. cbn [scan encode sval wf_type] in *.
    rewrite forallb_forall in *. intros x Hx. apply in_map_iff in Hx as [y [E Hy]]. subst x. cbn [snd]. apply IH; [exact W | apply (HT y Hy) | apply (HC y Hy)].
  - destruct v as [| | | | | | |vs]; cbn [has_type clean] in HT, HC; try discriminate.
    cbn [scan encode sval]. cbn [wf_type] in W. apply andb_prop in W as [ND WA].
    apply forallb_forall. intros kv Hkv.
    destruct (encode_members fs vs HT HC kv Hkv) as [name [omit [t' [v' [Hin [Ekv [F1 [F2 F3]]]]]]]]. subst kv.
    apply forallb_forall. intros [[n2 nl2] s2] Hp. cbn [fst snd].
    destruct (str_eqb name n2) eqn:E; [|reflexivity]. apply str_eqb_eq in E. subst n2.
    apply in_map_iff in Hp as [[[n3 o3] t3] [Ep Hin3]]. inversion Ep; subst.
    destruct (nd_inj fs ND _ _ _ _ _ Hin Hin3) as [Eo Et]. subst o3 t3.
    rewrite Forall_forall in IH. pose proof (IH _ Hin) as IHf. cbn [snd] in IHf.
    pose proof (wf_fields fs WA _ _ _ Hin) as Wf.
    destruct v'; cbn beta iota in F2.
    all: try (match goal with |- context [encode ?tt ?vv] =>
                assert (encode tt vv <> JNull) as NN by (apply encode_not_null; assumption);
                destruct (encode tt vv) eqn:EE; [congruence| | | | |]; rewrite <- EE; apply IHf; assumption end).
    (* v' = VNil: the field is present, so omitempty is off and the field is a pointer: x-nullable *)
    destruct omit; cbn in F3; [discriminate|]. cbn [orb] in F2.
    destruct t'; cbn in F2; try discriminate. cbn. reflexivity.
Qed.

(* the JSON keys of an encoded struct are names of its fields *)
Theorem encoding_keys : forall fs vs k j, has_type (GStruct fs) (VStruct vs) = true -> clean (GStruct fs) (VStruct vs) = true ->
  (exists l, encode (GStruct fs) (VStruct vs) = JObj l /\ In (k, j) l) -> In k (map (fun f => fst (fst f)) fs).
Proof.
  intros fs vs k j HT HC [l [E Hin]]. cbn [encode] in E. inversion E; subst l. clear E.
  cbn [has_type clean] in HT, HC.
  destruct (encode_members fs vs HT HC (k, j) Hin) as [name [omit [t' [v' [Hf [Ekv _]]]]]]. inversion Ekv; subst.
  apply in_map_iff. exists (name, omit, t'). auto.
Qed.

(* Scan/DocVocabLemmas.v — the vocabulary round trip. *)
From Coq Require Import DecimalString DecimalZ DecimalPos Decimal Lia.
From GS Require Import Base.Str Tools.Decimal Scan.DocVocab.

(* the decimal text of an integer starts with a digit or a minus sign *)
Definition digit_or_minus (c : N) : bool := N.eqb c 45 || (N.leb 48 c && N.leb c 57).

Lemma uint_head d : d <> Nil -> exists c r, str_of_string (NilZero.string_of_uint d) = c :: r /\ digit_or_minus c = true.
Proof.
  intros H. destruct d; try contradiction; cbn; eexists; eexists; (split; [reflexivity|reflexivity]).
Qed.

Lemma dec_text_head z : exists c r, dec_text z = c :: r /\ digit_or_minus c = true.
Proof.
  unfold dec_text. destruct (to_int_not_nil z) as [H1 H2]. destruct (Z.to_int z) as [d|d].
  - apply uint_head. intros E. apply H1. rewrite E. reflexivity.
  - cbn. eexists; eexists. split; reflexivity.
Qed.

Lemma skip_spaces_dec z : skip_spaces (dec_text z) = dec_text z.
Proof.
  destruct (dec_text_head z) as [c [r [E H]]]. rewrite E. unfold digit_or_minus in H.
  destruct (N.eqb_spec c 32) as [X|X]; [subst c; discriminate|].
  cbn [skip_spaces]. destruct c as [|p]; [reflexivity|].
  do 6 (destruct p as [p|p|]; try reflexivity). congruence.
Qed.

Lemma parse_num_text z : parse_num (dec_text z) = Some z.
Proof. unfold parse_num. rewrite skip_spaces_dec. apply parse_dec_text. Qed.
Lemma parse_num_text_sp z : parse_num (32%N :: dec_text z) = Some z.
Proof. unfold parse_num. cbn [skip_spaces]. rewrite skip_spaces_dec. apply parse_dec_text. Qed.

Lemma parse_bound_plain marker z : (marker = 60 \/ marker = 62)%N -> parse_bound marker (32%N :: dec_text z) = Some (false, z).
Proof.
  intros M. unfold parse_bound. cbn [skip_spaces]. rewrite skip_spaces_dec.
  destruct (dec_text_head z) as [c [r [E H]]]. rewrite E. rewrite <- E.
  assert (N.eqb c marker = false /\ N.eqb c 61 = false) as [A B].
  { unfold digit_or_minus in H. split; apply N.eqb_neq; intros X; subst c; destruct M; subst; discriminate. }
  rewrite A, B. rewrite parse_dec_text. reflexivity.
Qed.

Lemma parse_bound_excl_max z : parse_bound 60 (32%N :: 60%N :: 32%N :: dec_text z) = Some (true, z).
Proof. unfold parse_bound. cbn [skip_spaces N.eqb Pos.eqb]. rewrite skip_spaces_dec, parse_dec_text. reflexivity. Qed.
Lemma parse_bound_excl_min z : parse_bound 62 (32%N :: 62%N :: 32%N :: dec_text z) = Some (true, z).
Proof. unfold parse_bound. cbn [skip_spaces N.eqb Pos.eqb]. rewrite skip_spaces_dec, parse_dec_text. reflexivity. Qed.

(* ---------- every emitted line is read back by its own recogniser ---------- *)
Ltac line := unfold parse_line, try_kw, orelse; cbn [s String.length strip_prefix app N.eqb Pos.eqb str_of_string N_of_ascii N_of_digits].

Lemma line_required : parse_line (s "Required: true") = Some (set_required true).
Proof. vm_compute. reflexivity. Qed.
Lemma line_readonly : parse_line (s "Read Only: true") = Some (set_readonly true).
Proof. vm_compute. reflexivity. Qed.
Lemma line_unique : parse_line (s "Unique: true") = Some (set_unique true).
Proof. vm_compute. reflexivity. Qed.

Ltac reduce_line := cbv beta iota zeta delta -[parse_num parse_bound parse_flag skip_spaces parse_dec dec_text
  set_required set_readonly set_max set_min set_mult set_maxlen set_minlen set_pattern set_maxitems set_minitems set_unique option_map].

Lemma line_num_maxlen d z : parse_num (32%N :: d) = Some z -> parse_line (s "Max Length: " ++ d) = Some (set_maxlen z).
Proof. intros H. reduce_line. rewrite H. reflexivity. Qed.
Lemma line_num_minlen d z : parse_num (32%N :: d) = Some z -> parse_line (s "Min Length: " ++ d) = Some (set_minlen z).
Proof. intros H. reduce_line. rewrite H. reflexivity. Qed.
Lemma line_num_maxitems d z : parse_num (32%N :: d) = Some z -> parse_line (s "Max Items: " ++ d) = Some (set_maxitems z).
Proof. intros H. reduce_line. rewrite H. reflexivity. Qed.
Lemma line_num_minitems d z : parse_num (32%N :: d) = Some z -> parse_line (s "Min Items: " ++ d) = Some (set_minitems z).
Proof. intros H. reduce_line. rewrite H. reflexivity. Qed.
Lemma line_num_mult d z : parse_num (32%N :: d) = Some z -> parse_line (s "Multiple Of: " ++ d) = Some (set_mult z).
Proof. intros H. reduce_line. rewrite H. reflexivity. Qed.
Lemma line_bound_max d p : parse_bound 60 (32%N :: d) = Some p -> parse_line (s "Maximum: " ++ d) = Some (set_max p).
Proof. intros H. reduce_line. rewrite H. reflexivity. Qed.
Lemma line_bound_min d p : parse_bound 62 (32%N :: d) = Some p -> parse_line (s "Minimum: " ++ d) = Some (set_min p).
Proof. intros H. reduce_line. rewrite H. reflexivity. Qed.
Lemma line_pattern p : pattern_ok p = true -> parse_line (s "Pattern: " ++ p) = Some (set_pattern p).
Proof.
  intros H. reduce_line. destruct p as [|c r]; [discriminate|]. cbn in H. apply Bool.negb_true_iff in H. apply N.eqb_neq in H.
  replace (skip_spaces (32%N :: c :: r)) with (c :: r); [reflexivity|].
  cbn [skip_spaces]. destruct c as [|q]; [reflexivity|]. do 6 (destruct q as [q|q|]; try reflexivity). congruence.
Qed.

(* ---------- the round trip ---------- *)
Definition step (acc : vals) (l : str) : vals := match parse_line l with Some f => f acc | None => acc end.
Definition apply_opt {A} (o : option A) (set : A -> vals -> vals) (acc : vals) : vals := match o with Some a => set a acc | None => acc end.
Definition apply_flag (b : bool) (set : bool -> vals -> vals) (acc : vals) : vals := if b then set true acc else acc.

Lemma seg_opt {A} (o : option A) (f : A -> str) (set : A -> vals -> vals) acc :
  (forall a, o = Some a -> parse_line (f a) = Some (set a)) -> fold_left step (opt_line o f) acc = apply_opt o set acc.
Proof. intros H. destruct o as [a|]; [|reflexivity]. cbn. unfold step. rewrite (H a eq_refl). reflexivity. Qed.
Lemma seg_flag (b : bool) (l : str) (set : bool -> vals -> vals) acc :
  parse_line l = Some (set true) -> fold_left step (flag_line b l) acc = apply_flag b set acc.
Proof. intros H. destruct b; [|reflexivity]. cbn. unfold step. rewrite H. reflexivity. Qed.

Theorem parse_emit : forall v, wf v = true -> parse (emit v) = v.
Proof.
  intros [rq ro mx mn mu xl nl pt xi ni un] W. unfold wf in W. cbn [d_pattern] in W.
  unfold parse, emit. cbn [d_required d_readonly d_max d_min d_mult d_maxlen d_minlen d_pattern d_maxitems d_minitems d_unique].
  change (fun acc l => match parse_line l with Some f => f acc | None => acc end) with step.
  rewrite !fold_left_app.
  rewrite (seg_flag rq _ set_required) by exact line_required.
  rewrite (seg_flag ro _ set_readonly) by exact line_readonly.
  rewrite (seg_opt mx _ set_max).
  2:{ intros [x z] _. cbn [fst snd]. apply line_bound_max. destruct x; [apply parse_bound_excl_max | apply parse_bound_plain; left; reflexivity]. }
  rewrite (seg_opt mn _ set_min).
  2:{ intros [x z] _. cbn [fst snd]. apply line_bound_min. destruct x; [apply parse_bound_excl_min | apply parse_bound_plain; right; reflexivity]. }
  rewrite (seg_opt mu _ set_mult) by (intros z _; apply line_num_mult, parse_num_text_sp).
  rewrite (seg_opt xl _ set_maxlen) by (intros z _; apply line_num_maxlen, parse_num_text_sp).
  rewrite (seg_opt nl _ set_minlen) by (intros z _; apply line_num_minlen, parse_num_text_sp).
  rewrite (seg_opt pt _ set_pattern) by (intros p E; apply line_pattern; subst pt; exact W).
  rewrite (seg_opt xi _ set_maxitems) by (intros z _; apply line_num_maxitems, parse_num_text_sp).
  rewrite (seg_opt ni _ set_minitems) by (intros z _; apply line_num_minitems, parse_num_text_sp).
  rewrite (seg_flag un _ set_unique) by exact line_unique.
  destruct rq, ro, un, mx, mn, mu, xl, nl, pt, xi, ni; reflexivity.
Qed.

(* distinct constraint sets are written as distinct comments *)
Corollary emit_injective : forall a b, wf a = true -> wf b = true -> emit a = emit b -> a = b.
Proof. intros a b Wa Wb E. rewrite <- (parse_emit a Wa), <- (parse_emit b Wb), E. reflexivity. Qed.

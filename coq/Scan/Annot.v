(* Scan/Annot.v — C17: the annotation grammar where it has a closed form: the swagger:route / swagger:operation header
   line (codescan/regexprs.go rxRoute, operations.go parsePathAnnotation) on single-space separated lines, and the typing
   of default / example / enum literals by the schema level they are declared for (parser.go parseValueFromSchema with
   the items.-prefix taggers of parameters.go).  Definitions only. *)
From GS Require Import Base.Str Tools.GenServer Tools.Decimal.

Definition is_letter (c : N) : bool := (N.leb 65 c && N.leb c 90) || (N.leb 97 c && N.leb c 122).
Definition is_digit_c (c : N) : bool := N.leb 48 c && N.leb c 57.
(* \p{Pd} and \p{Pc} on ASCII: '-' and '_' *)
Definition id_char (c : N) : bool := is_letter c || is_digit_c c || N.eqb c 45 || N.eqb c 95.
Definition tag_char (c : N) : bool := id_char c || N.eqb c 46.
Definition path_char (c : N) : bool :=
  is_letter c || is_digit_c c || existsb (N.eqb c) [45; 95; 123; 125; 46; 63; 126; 37; 33; 36; 38; 39; 40; 41; 42; 43; 44; 59; 61; 58; 64; 47]%N.

Definition valid_method (m : str) : bool := negb (is_empty m) && forallb is_letter m.
Definition valid_path (p : str) : bool := match p with 47%N :: r => forallb path_char r | _ => false end.
Definition valid_id (x : str) : bool := match x with c :: (_ :: _) as r => is_letter c && forallb id_char r | _ => false end.
Definition valid_tag (x : str) : bool := negb (is_empty x) && forallb tag_char x.
(* the tags group of the recogniser starts with a letter and holds at least two characters in all *)
Definition valid_tags (l : list str) : bool :=
  match l with
  | [] => true
  | [t] => (match t with c :: _ :: _ => is_letter c | _ => false end) && valid_tag t
  | t :: _ => (match t with c :: _ => is_letter c | [] => false end) && forallb valid_tag l
  end.

Record route := { r_method : str; r_path : str; r_tags : list str; r_id : str }.

(* the header line as the documentation gives it: swagger:route [method] [path pattern] [?tag1 tag2 tag3] [operation id] *)
Definition route_line (kw : str) (r : route) : str := join_by 32 (kw :: r_method r :: r_path r :: r_tags r ++ [r_id r]).

Definition parse_route (kw : str) (line : str) : option route :=
  match split_by 32 line with
  | k :: m :: p :: rest =>
      if str_eqb k kw && valid_method m && valid_path p then
        match rev rest with
        | id :: rtags => if valid_id id && valid_tags (rev rtags)
                         then Some {| r_method := m; r_path := p; r_tags := rev rtags; r_id := id |} else None
        | [] => None
        end
      else None
  | _ => None
  end.

Definition wf_route (r : route) : bool :=
  valid_method (r_method r) && valid_path (r_path r) && valid_tags (r_tags r) && valid_id (r_id r).

(* ---------- literals are typed by the level they are declared for ---------- *)
Inductive ltype := TInt | TBool | TStr | TNum | TArr.
Inductive lit := LInt (z : Z) | LBool (b : bool) | LStr (x : str) | LFail.

Definition parse_literal (t : ltype) (text : str) : lit :=
  match t with
  | TInt => match parse_dec text with Some z => LInt z | None => LFail end
  | TBool => if str_eqb text (s "true") then LBool true else if str_eqb text (s "false") then LBool false else LFail
  | TStr => LStr text
  | TNum => match parse_dec text with Some z => LInt z | None => LFail end      (* integral numbers only in the model *)
  | TArr => LStr text                                                           (* not a JSON array: kept as text *)
  end.

(* a parameter of Go type [][]..T: level 0 is the parameter (an array when depth > 0), level k the k-th items *)
Definition level_type (depth : nat) (elem : ltype) (level : nat) : ltype := if Nat.ltb level depth then TArr else elem.
(* "items.items.default: text" on such a parameter *)
Definition typed_literal (depth : nat) (elem : ltype) (level : nat) (text : str) : lit := parse_literal (level_type depth elem level) text.

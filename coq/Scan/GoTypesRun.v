(* Scan/GoTypesRun.v — C16 model evaluated on what was observed on the implementation. *)
From GS Require Import Base.Str Base.Json Scan.GoTypes Scan.Embed.

Fixpoint scanned_eqb (a b : scanned) {struct a} : bool :=
  match a, b with
  | KStr, KStr => true
  | KBool, KBool => true
  | KInt l h, KInt l' h' => Z.eqb l l' && Z.eqb h h'
  | KArr x, KArr y => scanned_eqb x y
  | KMap x, KMap y => scanned_eqb x y
  | KObj ps, KObj qs =>
      (fix go (ps qs : list (str * bool * scanned)) : bool :=
         match ps, qs with
         | [], [] => true
         | (n, nl, s) :: r, (n', nl', s') :: r' => str_eqb n n' && Bool.eqb nl nl' && scanned_eqb s s' && go r r'
         | _, _ => false
         end) ps qs
  | _, _ => false
  end.

(* properties of a scanned object come from a Go map: compare them sorted by name *)
Fixpoint insert_prop (p : str * bool * scanned) (l : list (str * bool * scanned)) : list (str * bool * scanned) :=
  match l with
  | [] => [p]
  | q :: r => if str_ltb (fst (fst p)) (fst (fst q)) then p :: l else q :: insert_prop p r
  end.
Fixpoint norm_scanned (s : scanned) : scanned :=
  match s with
  | KArr x => KArr (norm_scanned x)
  | KMap x => KMap (norm_scanned x)
  | KObj ps => KObj (fold_right insert_prop [] (map (fun p => (fst p, norm_scanned (snd p))) ps))
  | _ => s
  end.

(* encoding/json writes struct fields in declaration order and map keys sorted; documents are compared with the
   keys of every object sorted *)
Fixpoint insert_member (p : str * json) (l : list (str * json)) : list (str * json) :=
  match l with
  | [] => [p]
  | q :: r => if str_ltb (fst p) (fst q) then p :: l else q :: insert_member p r
  end.
Fixpoint norm_json (j : json) : json :=
  match j with
  | JArr l => JArr (map norm_json l)
  | JObj l => JObj (fold_right insert_member [] (map (fun kv => (fst kv, norm_json (snd kv))) l))
  | _ => j
  end.

Record ecase := { e_type : gotype; e_scanned : scanned;
                  e_vals : list (gval * json * bool) }.      (* value, observed encoding, accepted by the definition *)
Fixpoint run_vals (t : gotype) (i : N) (l : list (gval * json * bool)) : list N :=
  match l with
  | [] => []
  | (v, j, acc) :: r =>
      (if json_eqb (norm_json (encode t v)) (norm_json j) then [] else [(10 + i)%N]) ++
      (if Bool.eqb (sval (scan t) j) acc then [] else [(1000 + i)%N]) ++
      (if has_type t v then [] else [(2000 + i)%N]) ++
      run_vals t (i + 1) r
  end.
Definition run_e (c : ecase) : list N :=
  (if scanned_eqb (norm_scanned (scan (e_type c))) (norm_scanned (e_scanned c)) then [] else [1%N]) ++ run_vals (e_type c) 0 (e_vals c).

Record dcase := { d_type : gotype; d_docs : list (json * bool * bool) }.   (* document, accepted by the definition, decodes *)
Fixpoint run_docs (t : gotype) (i : N) (l : list (json * bool * bool)) : list N :=
  match l with
  | [] => []
  | (j, acc, dec) :: r =>
      (if Bool.eqb (sval (scan t) j) acc then [] else [(1000 + i)%N]) ++
      (if Bool.eqb (decodes t j) dec then [] else [(3000 + i)%N]) ++
      run_docs t (i + 1) r
  end.
Definition run_d (c : dcase) : list N := run_docs (d_type c) 0 (d_docs c).

(* a struct declaration with embedded structs: the values list one value per reachable field, in declaration order
   (visible or not); the model keeps those encoding/json sees *)
Record scase := { s_fields : list sfield; s_scanned : scanned;
                  s_vals : list (list gval * json * bool);          (* field values, observed encoding, accepted *)
                  s_docs : list (json * bool * bool) }.              (* document, accepted by the definition, decodes *)
Definition pick (es : list (nat * fld)) (vs : list gval) : list gval :=
  map snd (filter (fun p => dominant es (fst p)) (combine es vs)).
Fixpoint run_svals (fs : list sfield) (i : N) (l : list (list gval * json * bool)) : list N :=
  match l with
  | [] => []
  | (vs, j, acc) :: r =>
      let es := entries_f 0 (SE fs) in
      let v := VStruct (pick es vs) in
      (if Nat.eqb (length vs) (length es) then [] else [(4000 + i)%N]) ++
      (if json_eqb (norm_json (encode (go_struct fs) v)) (norm_json j) then [] else [(10 + i)%N]) ++
      (if Bool.eqb (sval (scan_emb fs) j) acc then [] else [(1000 + i)%N]) ++
      (if has_type (go_struct fs) v then [] else [(2000 + i)%N]) ++
      run_svals fs (i + 1) r
  end.
Fixpoint run_sdocs (fs : list sfield) (i : N) (l : list (json * bool * bool)) : list N :=
  match l with
  | [] => []
  | (j, acc, dec) :: r =>
      (if Bool.eqb (sval (scan_emb fs) j) acc then [] else [(5000 + i)%N]) ++
      (if Bool.eqb (decodes (go_struct fs) j) dec then [] else [(6000 + i)%N]) ++
      run_sdocs fs (i + 1) r
  end.
Definition run_s (c : scase) : list N :=
  (if scanned_eqb (norm_scanned (scan_emb (s_fields c))) (norm_scanned (s_scanned c)) then [] else [1%N]) ++
  run_svals (s_fields c) 0 (s_vals c) ++ run_sdocs (s_fields c) 0 (s_docs c).

Inductive anycase := CE (c : ecase) | CD (c : dcase) | CS (c : scase).

(* how many declarations lie in the domain of the agreement theorem (C16_embedding_agree) *)
Definition in_domain (l : list anycase) : nat * nat :=
  (length (filter (fun c => match c with CS c => ewf (s_fields c) | _ => false end) l),
   length (filter (fun c => match c with CS _ => true | _ => false end) l)).
Fixpoint run_cases_from (i : N) (l : list anycase) : list (N * list N) :=
  match l with
  | [] => []
  | c :: r =>
      let d := match c with CE c => run_e c | CD c => run_d c | CS c => run_s c end in
      match d with [] => run_cases_from (i + 1) r | _ => (i, d) :: run_cases_from (i + 1) r end
  end.
Definition run_cases (l : list anycase) : list (N * list N) := run_cases_from 0 l.

(* Scan/Embed.v — C16: embedded structs.  Definitions only.
   A struct declaration lists declared fields and embedded structs (no json name on the embedding: its fields are
   promoted).  Two readings of such a declaration are modelled:
   * encoding/json (encode.go typeFields): every field reachable through embeddings, with its depth; for one JSON name
     the field of least depth wins, and when several fields share the least depth none of them is visible
     (fragment: every field carries a json tag, so the tagged-beats-untagged tie-break does not arise);
   * codescan (schema.go buildFromStruct): first pass, every embedded struct is built into the same property table in
     declaration order (recursively: its embeddings, then its own fields); second pass, the declared fields; each write
     replaces the property of that name.
   The struct type as the rest of the model sees it is [GStruct (promote fs)]; the definition the scanner gives it is
   [scan_emb fs].  Outside the fragment: embedded pointers, embeddings that carry a json name, swagger:allOf members,
   and what an overwrite leaves behind of the property it replaces (x-nullable, $ref siblings). *)
From GS Require Import Base.Str Base.Json Scan.GoTypes.

Definition fld := (str * bool * gotype)%type.          (* JSON name, omitempty, type *)
Definition fname (f : fld) : str := fst (fst f).

Inductive sfield :=
| SF (x : fld)                      (* a declared, exported field *)
| SE (fs : list sfield).            (* an embedded struct *)

(* ---------- encoding/json ---------- *)
Fixpoint entries_f (d : nat) (f : sfield) : list (nat * fld) :=
  match f with
  | SF x => [(d, x)]
  | SE fs => flat_map (entries_f (S d)) fs
  end.

(* competitors of an entry: the entries of the same name that are not deeper *)
Definition rivals (es : list (nat * fld)) (e : nat * fld) : list (nat * fld) :=
  filter (fun o => str_eqb (fname (snd o)) (fname (snd e)) && Nat.leb (fst o) (fst e)) es.
(* the entry itself is one of them: it is visible when it is the only one *)
Definition dominant (es : list (nat * fld)) (e : nat * fld) : bool := Nat.eqb (length (rivals es e)) 1.

Definition promote (fs : list sfield) : list fld :=
  let es := entries_f 0 (SE fs) in map snd (filter (dominant es) es).

Definition go_struct (fs : list sfield) : gotype := GStruct (promote fs).

(* ---------- codescan ---------- *)
Definition own (fs : list sfield) : list fld :=
  flat_map (fun f => match f with SF x => [x] | SE _ => [] end) fs.

Fixpoint writes_f (f : sfield) : list fld :=
  match f with
  | SF _ => []
  | SE fs => flat_map writes_f fs ++ own fs
  end.

(* the table read back: one property per name, the one written last *)
Fixpoint table (ws : list fld) : list fld :=
  match ws with
  | [] => []
  | x :: r => if existsb (fun y => str_eqb (fname y) (fname x)) r then table r else x :: table r
  end.

Definition prop_of (f : fld) : str * bool * scanned :=
  let '(name, omit, t) := f in (name, is_ptr t && negb omit, scan t).

Definition scan_emb (fs : list sfield) : scanned := KObj (map prop_of (table (writes_f (SE fs)))).

(* ---------- the declarations on which the two readings are proved to agree ---------- *)
Fixpoint names_f (f : sfield) : list str :=
  match f with
  | SF x => [fname x]
  | SE fs => flat_map names_f fs
  end.

Definition disj (a b : list str) : bool := forallb (fun x => negb (mem x b)) a.
(* two embedded members of one struct promote disjoint sets of names (a declared field may shadow a promoted one) *)
Definition apart (a b : sfield) : bool :=
  match a, b with
  | SE _, SE _ => disj (names_f a) (names_f b)
  | _, _ => true
  end.
Fixpoint pairwise (l : list sfield) : bool :=
  match l with
  | [] => true
  | a :: r => forallb (apart a) r && pairwise r
  end.
Fixpoint nodupb (l : list str) : bool :=
  match l with
  | [] => true
  | x :: r => negb (mem x r) && nodupb r
  end.

Fixpoint ewf_f (f : sfield) : bool :=
  match f with
  | SF _ => true
  | SE fs => nodupb (map fname (own fs)) && pairwise fs && forallb ewf_f fs
  end.
Definition ewf (fs : list sfield) : bool := ewf_f (SE fs).

(* ---------- the field a name resolves to (specification both readings are compared with) ---------- *)
Fixpoint first_some {A} (l : list (option A)) : option A :=
  match l with
  | [] => None
  | Some x :: _ => Some x
  | None :: r => first_some r
  end.
Definition res_own (n : str) (f : sfield) : option fld :=
  match f with
  | SF x => if str_eqb (fname x) n then Some x else None
  | SE _ => None
  end.
Fixpoint resolve_f (n : str) (f : sfield) : option fld :=
  match f with
  | SF _ => None
  | SE fs =>
      match first_some (map (res_own n) fs) with
      | Some x => Some x
      | None => first_some (map (resolve_f n) fs)
      end
  end.

Fixpoint find_last (n : str) (l : list fld) : option fld :=
  match l with
  | [] => None
  | x :: r => match find_last n r with
              | Some y => Some y
              | None => if str_eqb (fname x) n then Some x else None
              end
  end.

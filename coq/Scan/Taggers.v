(* Scan/Taggers.v — C17 / C18: how the sectioned comment parser (codescan/parser.go sectionedParser.Parse) hands lines to
   taggers.  A line goes to the first tagger of the list whose recogniser matches it and is filed under that tagger's NAME;
   at the end, each name's entry — the tagger value stored when the name was first seen, with all the lines filed under
   the name — is parsed once.  So two taggers of one list that share a name share an entry: the second one never runs.
   The tagger lists of the current source are regenerated into Gen/GenTaggers.v; their names are pairwise distinct. *)
From GS Require Import Base.Str Gen.GenTaggers.

Record tagger := { t_name : str; t_matches : str -> bool; t_id : nat }.   (* t_id: position in the list, for statements *)

Fixpoint first_match (ts : list tagger) (line : str) : option tagger :=
  match ts with
  | [] => None
  | t :: r => if t_matches t line then Some t else first_match r line
  end.

(* the lines filed under a name *)
Definition filed (ts : list tagger) (lines : list str) (name : str) : list str :=
  filter (fun ln => match first_match ts ln with Some t => str_eqb (t_name t) name | None => false end) lines.

(* the tagger whose setter parses the entry of a name: the one that matched the first line filed under it *)
Fixpoint entry_owner (ts : list tagger) (lines : list str) (name : str) : option tagger :=
  match lines with
  | [] => None
  | ln :: r =>
      match first_match ts ln with
      | Some t => if str_eqb (t_name t) name then Some t else entry_owner ts r name
      | None => entry_owner ts r name
      end
  end.

(* the lines a tagger recognises first *)
Definition own_lines (ts : list tagger) (lines : list str) (t : tagger) : list str :=
  filter (fun ln => match first_match ts ln with Some t' => Nat.eqb (t_id t') (t_id t) | None => false end) lines.

Fixpoint distinct (l : list str) : bool :=
  match l with [] => true | x :: r => negb (mem x r) && distinct r end.

Definition well_indexed (ts : list tagger) : Prop :=
  forall a b, In a ts -> In b ts -> t_id a = t_id b -> a = b.

Lemma first_match_in ts line t : first_match ts line = Some t -> In t ts.
Proof.
  induction ts as [|a r IH]; cbn [first_match]; [discriminate|].
  destruct (t_matches a line); [intro H; inversion H; left; reflexivity | intro H; right; apply IH, H].
Qed.

Lemma distinct_names_inj ts : distinct (map t_name ts) = true ->
  forall a b, In a ts -> In b ts -> t_name a = t_name b -> a = b.
Proof.
  induction ts as [|x r IH]; intros D a b Ha Hb E; [destruct Ha|].
  cbn [map distinct] in D. apply andb_prop in D as [Dx Dr]. apply Bool.negb_true_iff, mem_false in Dx.
  destruct Ha as [<-|Ha]; destruct Hb as [<-|Hb].
  - reflexivity.
  - exfalso. apply Dx. rewrite E. apply in_map. exact Hb.
  - exfalso. apply Dx. rewrite <- E. apply in_map. exact Ha.
  - apply IH; assumption.
Qed.

(* with distinct names, the entry of a tagger's name holds exactly the lines that tagger recognised first, and it is that
   tagger's setter that parses them *)
Theorem filed_is_own ts lines t :
  distinct (map t_name ts) = true -> well_indexed ts -> In t ts ->
  filed ts lines (t_name t) = own_lines ts lines t.
Proof.
  intros D W Ht. unfold filed, own_lines. apply filter_ext_in. intros ln _.
  destruct (first_match ts ln) as [t'|] eqn:E; [|reflexivity].
  pose proof (first_match_in _ _ _ E) as Ht'.
  destruct (str_eqb (t_name t') (t_name t)) eqn:En.
  - apply str_eqb_eq in En. rewrite (distinct_names_inj ts D _ _ Ht' Ht En). symmetry. apply Nat.eqb_refl.
  - symmetry. apply Nat.eqb_neq. intro Ei. rewrite (W _ _ Ht' Ht Ei), str_eqb_refl in En. discriminate.
Qed.

Theorem entry_owner_is_self ts lines t o :
  distinct (map t_name ts) = true -> In t ts -> entry_owner ts lines (t_name t) = Some o -> o = t.
Proof.
  intros D Ht. induction lines as [|ln r IH]; cbn [entry_owner]; [discriminate|].
  destruct (first_match ts ln) as [t'|] eqn:E; [|exact IH].
  destruct (str_eqb (t_name t') (t_name t)) eqn:En; [|exact IH].
  intro H. inversion H; subst o. apply str_eqb_eq in En.
  exact (distinct_names_inj ts D _ _ (first_match_in _ _ _ E) Ht En).
Qed.

(* without it a tagger loses its lines to a namesake: two recognisers registered under "minimum" *)
Example shared_name_loses_lines :
  let is_min := fun ln => str_eqb ln (s "Minimum: 1") in
  let is_mult := fun ln => str_eqb ln (s "Multiple Of: 2") in
  let ts := [{| t_name := s "minimum"; t_matches := is_min; t_id := 0 |}; {| t_name := s "minimum"; t_matches := is_mult; t_id := 1 |}] in
  let lines := [s "Minimum: 1"; s "Multiple Of: 2"] in
  filed ts lines (s "minimum") = lines /\
  option_map t_id (entry_owner ts lines (s "minimum")) = Some 0 /\
  own_lines ts lines {| t_name := s "minimum"; t_matches := is_mult; t_id := 1 |} = [s "Multiple Of: 2"].
Proof. repeat split; vm_compute; reflexivity. Qed.

(* every tagger list of the current source registers its taggers under pairwise distinct names *)
Lemma tagger_lists_distinct : forallb (fun g => distinct (snd g)) tagger_lists = true.
Proof. vm_compute. reflexivity. Qed.

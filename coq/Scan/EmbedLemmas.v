(* Scan/EmbedLemmas.v — C16, embedded structs: on declarations where two embedded members of one struct never promote the
   same name ([ewf]), the property table codescan builds is the set of fields encoding/json sees. *)
From GS Require Import Base.Str Base.Json Scan.GoTypes Scan.GoTypesLemmas Scan.Embed.
From Coq Require Import Lia.

Section SInd.
  Variable P : sfield -> Prop.
  Hypothesis HF : forall x, P (SF x).
  Hypothesis HE : forall fs, Forall P fs -> P (SE fs).
  Fixpoint sfield_ind' (f : sfield) : P f :=
    match f with
    | SF x => HF x
    | SE fs => HE fs ((fix go (l : list sfield) : Forall P l :=
                         match l with [] => Forall_nil _ | a :: r => Forall_cons _ (sfield_ind' a) (go r) end) fs)
    end.
End SInd.

(* ---------- small facts ---------- *)
Lemma first_some_none {A} (l : list (option A)) : first_some l = None <-> forall o, In o l -> o = None.
Proof.
  induction l as [|[a|] r IH]; cbn.
  - split; [intros _ o []|reflexivity].
  - split; [discriminate|]. intro H. specialize (H (Some a) (or_introl eq_refl)). discriminate.
  - rewrite IH. split.
    + intros H o [<-|Ho]; [reflexivity|apply H, Ho].
    + intros H o Ho. apply H. right. exact Ho.
Qed.

Lemma first_some_in {A} (l : list (option A)) x : first_some l = Some x -> In (Some x) l.
Proof.
  induction l as [|[a|] r IH]; cbn; intro H; try discriminate.
  - left. exact H.
  - right. apply IH, H.
Qed.

Lemma res_own_some n f x : res_own n f = Some x -> f = SF x /\ fname x = n.
Proof.
  destruct f as [y|fs]; cbn; [|discriminate].
  destruct (str_eqb (fname y) n) eqn:E; [|discriminate]. intro H. injection H as ->.
  apply str_eqb_eq in E. auto.
Qed.

Lemma own_in x fs : In x (own fs) <-> In (SF x) fs.
Proof.
  unfold own. rewrite in_flat_map. split.
  - intros [f [Hf Hx]]. destruct f as [y|]; [|destruct Hx]. destruct Hx as [<-|[]]. exact Hf.
  - intro H. exists (SF x). split; [exact H|left; reflexivity].
Qed.

Lemma entries_names : forall f k d y, In (d, y) (entries_f k f) -> In (fname y) (names_f f).
Proof.
  induction f as [x|fs IH] using sfield_ind'; intros k d y H; cbn in *.
  - destruct H as [H|[]]. injection H as _ ->. left. reflexivity.
  - rewrite in_flat_map in *. destruct H as [f [Hf H]]. exists f. split; [exact Hf|].
    rewrite Forall_forall in IH. eapply IH; eassumption.
Qed.

Lemma entries_depth : forall f k d y, In (d, y) (entries_f k f) -> k <= d.
Proof.
  induction f as [x|fs IH] using sfield_ind'; intros k d y H; cbn in *.
  - destruct H as [H|[]]. injection H as <- _. lia.
  - rewrite in_flat_map in H. destruct H as [f [Hf H]]. rewrite Forall_forall in IH.
    specialize (IH f Hf (S k) d y H). lia.
Qed.

Lemma entries_depth_emb fs k d y : In (d, y) (entries_f k (SE fs)) -> S k <= d.
Proof.
  cbn. rewrite in_flat_map. intros [f [_ H]]. eapply entries_depth. exact H.
Qed.

Lemma resolve_names : forall f n x, resolve_f n f = Some x -> In n (names_f f) /\ fname x = n.
Proof.
  induction f as [y|fs IH] using sfield_ind'; intros n x H; cbn in H; [discriminate|].
  destruct (first_some (map (res_own n) fs)) as [z|] eqn:E.
  - injection H as ->. apply first_some_in in E. rewrite in_map_iff in E. destruct E as [f [Hr Hf]].
    apply res_own_some in Hr. destruct Hr as [-> Hn]. split; [|exact Hn].
    cbn. rewrite in_flat_map. exists (SF x). split; [exact Hf|]. cbn. left. exact Hn.
  - apply first_some_in in H. rewrite in_map_iff in H. destruct H as [f [Hr Hf]].
    rewrite Forall_forall in IH. destruct (IH f Hf n x Hr) as [Hin Hn]. split; [|exact Hn].
    cbn. rewrite in_flat_map. exists f. auto.
Qed.

Lemma resolve_none_names : forall f n, (exists fs, f = SE fs) -> resolve_f n f = None -> ~ In n (names_f f).
Proof.
  induction f as [y|fs IH] using sfield_ind'; intros n [fs' Hfs] H; [discriminate|]. clear fs' Hfs.
  cbn in H. destruct (first_some (map (res_own n) fs)) as [z|] eqn:E; [discriminate|].
  rewrite first_some_none in E, H. cbn. rewrite in_flat_map. intros [f [Hf Hin]].
  destruct f as [x|inner].
  - cbn in Hin. destruct Hin as [Hn|[]]. specialize (E (res_own n (SF x)) (in_map _ _ _ Hf)). cbn in E.
    rewrite <- Hn, str_eqb_refl in E. discriminate.
  - rewrite Forall_forall in IH. apply (IH _ Hf n); [eexists; reflexivity| |exact Hin].
    apply H. apply in_map_iff. exists (SE inner). auto.
Qed.

(* ---------- find_last ---------- *)
Lemma find_last_app n a b :
  find_last n (a ++ b) = match find_last n b with Some y => Some y | None => find_last n a end.
Proof.
  induction a as [|x a IH]; cbn.
  - destruct (find_last n b); reflexivity.
  - rewrite IH. destruct (find_last n b); reflexivity.
Qed.

Lemma find_last_some n l y : find_last n l = Some y -> fname y = n /\ In y l.
Proof.
  induction l as [|x r IH]; cbn; [discriminate|].
  destruct (find_last n r) as [z|] eqn:E.
  - intro H. injection H as ->. destruct (IH eq_refl) as [Hn Hin]. auto.
  - destruct (str_eqb (fname x) n) eqn:En; [|discriminate]. intro H. injection H as ->.
    apply str_eqb_eq in En. auto.
Qed.

Lemma find_last_none n l : find_last n l = None <-> existsb (fun y => str_eqb (fname y) n) l = false.
Proof.
  induction l as [|x r IH]; cbn; [tauto|].
  destruct (find_last n r) as [z|] eqn:E.
  - split; [discriminate|]. intro H. apply Bool.orb_false_iff in H. destruct H as [_ H].
    apply IH in H. discriminate.
  - destruct (str_eqb (fname x) n); cbn; [split; discriminate|]. tauto.
Qed.

(* ---------- the table is the last write of every name ---------- *)
Lemma table_last : forall ws x, In x (table ws) <-> find_last (fname x) ws = Some x.
Proof.
  induction ws as [|x0 r IH]; intro x; cbn [table find_last].
  - split; [intros []|discriminate].
  - destruct (existsb (fun y => str_eqb (fname y) (fname x0)) r) eqn:Ex.
    + rewrite IH. destruct (find_last (fname x) r) as [z|] eqn:E; [tauto|].
      split; [discriminate|]. destruct (str_eqb (fname x0) (fname x)) eqn:En; [|discriminate].
      intro H. injection H as ->. apply find_last_none in E. congruence.
    + apply find_last_none in Ex. cbn [In]. rewrite IH.
      destruct (find_last (fname x) r) as [z|] eqn:E.
      * split; [|tauto]. intros [->|H]; [congruence|exact H].
      * destruct (str_eqb (fname x0) (fname x)) eqn:En.
        -- split; [intros [->|H]; [reflexivity|discriminate]|]. intro H. injection H as ->. left. reflexivity.
        -- split; [|discriminate]. intros [->|H]; [|discriminate]. rewrite str_eqb_refl in En. discriminate.
Qed.

(* ---------- the scanner's writes resolve like the specification ---------- *)
Lemma nodupb_cons x l : nodupb (x :: l) = true <-> ~ In x l /\ nodupb l = true.
Proof.
  cbn. rewrite Bool.andb_true_iff, Bool.negb_true_iff, mem_false. tauto.
Qed.

Lemma own_first_none n fs : first_some (map (res_own n) fs) = None <-> ~ In n (map fname (own fs)).
Proof.
  rewrite first_some_none. split.
  - intros H Hin. rewrite in_map_iff in Hin. destruct Hin as [x [Hn Hx]]. apply own_in in Hx.
    specialize (H (res_own n (SF x)) (in_map _ _ _ Hx)). cbn in H. rewrite Hn, str_eqb_refl in H. discriminate.
  - intros H o Ho. rewrite in_map_iff in Ho. destruct Ho as [f [<- Hf]].
    destruct (res_own n f) as [x|] eqn:E; [|reflexivity]. apply res_own_some in E. destruct E as [-> Hn].
    exfalso. apply H. rewrite in_map_iff. exists x. split; [exact Hn|]. apply own_in. exact Hf.
Qed.

Lemma find_last_own n fs :
  nodupb (map fname (own fs)) = true -> find_last n (own fs) = first_some (map (res_own n) fs).
Proof.
  induction fs as [|f r IH]; intro Hnd; [reflexivity|].
  destruct f as [x|inner].
  - change (own (SF x :: r)) with (x :: own r) in *. cbn [map] in Hnd. apply nodupb_cons in Hnd. destruct Hnd as [Hx Hnd].
    cbn [find_last map first_some res_own]. rewrite (IH Hnd).
    destruct (str_eqb (fname x) n) eqn:E.
    + apply str_eqb_eq in E. subst n. apply own_first_none in Hx. rewrite Hx. reflexivity.
    + destruct (first_some (map (res_own n) r)); reflexivity.
  - change (own (SE inner :: r)) with (own r) in *. cbn [map first_some res_own]. apply IH, Hnd.
Qed.

Lemma apart_none n f0 f x :
  resolve_f n f0 = Some x -> apart f0 f = true -> resolve_f n f = None.
Proof.
  intros H Ha. destruct (resolve_f n f) as [z|] eqn:E; [|reflexivity]. exfalso.
  destruct (resolve_names _ _ _ H) as [H0 _]. destruct (resolve_names _ _ _ E) as [H1 _].
  destruct f0 as [|fs0]; [discriminate|]. destruct f as [|fs1]; [discriminate|].
  unfold apart, disj in Ha. rewrite forallb_forall in Ha. specialize (Ha n H0).
  apply Bool.negb_true_iff, mem_false in Ha. contradiction.
Qed.

Lemma first_some_resolve_none n f0 r x :
  resolve_f n f0 = Some x -> forallb (apart f0) r = true -> first_some (map (resolve_f n) r) = None.
Proof.
  intros H Ha. rewrite first_some_none. intros o Ho. rewrite in_map_iff in Ho. destruct Ho as [f [<- Hf]].
  rewrite forallb_forall in Ha. eapply apart_none; [exact H|apply Ha, Hf].
Qed.

Lemma writes_emb n : forall fs,
  pairwise fs = true ->
  Forall (fun f => ewf_f f = true -> find_last n (writes_f f) = resolve_f n f) fs ->
  forallb ewf_f fs = true ->
  find_last n (flat_map writes_f fs) = first_some (map (resolve_f n) fs).
Proof.
  induction fs as [|f r IH]; intros Hp HF Hw; [reflexivity|].
  cbn [pairwise] in Hp. apply Bool.andb_true_iff in Hp. destruct Hp as [Ha Hp].
  cbn [forallb] in Hw. apply Bool.andb_true_iff in Hw. destruct Hw as [Hwf Hw].
  inversion HF as [|? ? Hf HF']; subst.
  cbn [flat_map map first_some]. rewrite find_last_app, (IH Hp HF' Hw), (Hf Hwf).
  destruct (resolve_f n f) as [x|] eqn:E.
  - rewrite (first_some_resolve_none _ _ _ _ E Ha). reflexivity.
  - destruct (first_some (map (resolve_f n) r)); reflexivity.
Qed.

Theorem writes_resolve : forall f n, ewf_f f = true -> find_last n (writes_f f) = resolve_f n f.
Proof.
  induction f as [x|fs IH] using sfield_ind'; intros n Hw; [reflexivity|].
  cbn [ewf_f] in Hw. apply Bool.andb_true_iff in Hw. destruct Hw as [Hw Hall].
  apply Bool.andb_true_iff in Hw. destruct Hw as [Hnd Hp].
  cbn [writes_f resolve_f]. rewrite find_last_app, (find_last_own _ _ Hnd).
  destruct (first_some (map (res_own n) fs)); [reflexivity|].
  apply writes_emb; [exact Hp| |exact Hall].
  rewrite Forall_forall in *. intros f Hf Hwf. apply IH; assumption.
Qed.

(* ---------- a visible field of encoding/json is the one the name resolves to ---------- *)
Lemma first_some_unique n : forall fs f y,
  pairwise fs = true -> In f fs -> resolve_f n f = Some y -> first_some (map (resolve_f n) fs) = Some y.
Proof.
  induction fs as [|f0 r IH]; intros f y Hp Hin Hr; [destruct Hin|].
  cbn [pairwise] in Hp. apply Bool.andb_true_iff in Hp. destruct Hp as [Ha Hp].
  cbn [map first_some]. destruct Hin as [->|Hin].
  - rewrite Hr. reflexivity.
  - destruct (resolve_f n f0) as [z|] eqn:E.
    + rewrite forallb_forall in Ha. rewrite (apart_none _ _ _ _ E (Ha _ Hin)) in Hr. discriminate.
    + eapply IH; eassumption.
Qed.

Lemma dominant_resolves : forall f k d y,
  ewf_f f = true -> (exists fs, f = SE fs) -> In (d, y) (entries_f k f) ->
  (forall o, In o (entries_f k f) -> fname (snd o) = fname y -> fst o <= d -> o = (d, y)) ->
  resolve_f (fname y) f = Some y.
Proof.
  induction f as [x|fs IH] using sfield_ind'; intros k d y Hw [fs' Hfs] Hin Huniq; [discriminate|]. clear fs' Hfs.
  cbn [ewf_f] in Hw. apply Bool.andb_true_iff in Hw. destruct Hw as [Hw Hall].
  apply Bool.andb_true_iff in Hw. destruct Hw as [Hnd Hp].
  pose proof (entries_depth_emb _ _ _ _ Hin) as Hd.
  cbn [resolve_f]. destruct (first_some (map (res_own (fname y)) fs)) as [x|] eqn:E.
  - apply first_some_in in E. rewrite in_map_iff in E. destruct E as [f [Hr Hf]].
    apply res_own_some in Hr. destruct Hr as [-> Hn].
    assert (In (S k, x) (entries_f k (SE fs))) as Hx.
    { cbn. rewrite in_flat_map. exists (SF x). split; [exact Hf|left; reflexivity]. }
    specialize (Huniq _ Hx Hn Hd). injection Huniq as _ ->. reflexivity.
  - cbn [entries_f] in Hin. rewrite in_flat_map in Hin. destruct Hin as [f [Hf Hy]].
    destruct f as [x|inner].
    + cbn in Hy. destruct Hy as [Hy|[]]. injection Hy as _ ->.
      rewrite first_some_none in E. specialize (E (res_own (fname y) (SF y)) (in_map _ _ _ Hf)).
      cbn in E. rewrite str_eqb_refl in E. discriminate.
    + rewrite Forall_forall in IH. rewrite forallb_forall in Hall.
      assert (resolve_f (fname y) (SE inner) = Some y) as Hr.
      { apply (IH _ Hf (S k) d y (Hall _ Hf)); [eexists; reflexivity|exact Hy|].
        intros o Ho. apply Huniq. cbn. rewrite in_flat_map. exists (SE inner). auto. }
      eapply first_some_unique; eassumption.
Qed.

(* ---------- the field a name resolves to is visible to encoding/json ---------- *)
Definition cnt (n : str) (d : nat) (es : list (nat * fld)) : nat :=
  length (filter (fun o => str_eqb (fname (snd o)) n && Nat.leb (fst o) d) es).

Lemma cnt_app n d a b : cnt n d (a ++ b) = cnt n d a + cnt n d b.
Proof. unfold cnt. rewrite filter_app, app_length. reflexivity. Qed.

Lemma cnt_zero n d es : (forall o, In o es -> fname (snd o) = n -> fst o <= d -> False) -> cnt n d es = 0.
Proof.
  unfold cnt. induction es as [|o r IH]; intro H; [reflexivity|]. cbn [filter].
  destruct (str_eqb (fname (snd o)) n && Nat.leb (fst o) d) eqn:E.
  - apply Bool.andb_true_iff in E. destruct E as [En Ed]. apply str_eqb_eq in En. apply Nat.leb_le in Ed.
    exfalso. eapply H; [left; reflexivity|exact En|exact Ed].
  - apply IH. intros o' Ho'. apply H. right. exact Ho'.
Qed.

Lemma cnt_zero_names n d k f : ~ In n (names_f f) -> cnt n d (entries_f k f) = 0.
Proof.
  intro H. apply cnt_zero. intros [d' y] Ho Hn _. apply H. cbn in Hn. rewrite <- Hn. eapply entries_names. exact Ho.
Qed.

Lemma cnt_zero_list n d k r : (forall f, In f r -> ~ In n (names_f f)) -> cnt n d (flat_map (entries_f k) r) = 0.
Proof.
  induction r as [|f r IH]; intro H; [reflexivity|]. cbn [flat_map]. rewrite cnt_app, IH.
  - rewrite cnt_zero_names; [reflexivity|]. apply H. left. reflexivity.
  - intros f' Hf'. apply H. right. exact Hf'.
Qed.

Lemma cnt_own n k fs :
  cnt n (S k) (flat_map (entries_f (S k)) fs) = length (filter (fun y => str_eqb (fname y) n) (own fs)).
Proof.
  induction fs as [|f r IH]; [reflexivity|]. cbn [flat_map]. rewrite cnt_app, IH. destruct f as [x|inner].
  - change (own (SF x :: r)) with (x :: own r). cbn [filter entries_f]. unfold cnt at 1. cbn [filter fst snd].
    rewrite Nat.leb_refl, Bool.andb_true_r. destruct (str_eqb (fname x) n); reflexivity.
  - change (own (SE inner :: r)) with (own r). rewrite cnt_zero; [reflexivity|].
    intros [d y] Ho _ Hd. apply entries_depth_emb in Ho. cbn in Hd. lia.
Qed.

Lemma filter_name_nil n l : ~ In n (map fname l) -> filter (fun y => str_eqb (fname y) n) l = [].
Proof.
  induction l as [|a r IH]; intro H; [reflexivity|]. cbn [filter]. destruct (str_eqb (fname a) n) eqn:E.
  - apply str_eqb_eq in E. exfalso. apply H. left. exact E.
  - apply IH. intro H'. apply H. right. exact H'.
Qed.

Lemma nodup_count n : forall l x,
  nodupb (map fname l) = true -> In x l -> fname x = n -> length (filter (fun y => str_eqb (fname y) n) l) = 1.
Proof.
  induction l as [|a r IH]; intros x Hnd Hin Hn; [destruct Hin|].
  cbn [map] in Hnd. apply nodupb_cons in Hnd. destruct Hnd as [Ha Hnd]. cbn [filter].
  destruct Hin as [->|Hin].
  - rewrite Hn, str_eqb_refl. rewrite filter_name_nil; [reflexivity|]. rewrite <- Hn. exact Ha.
  - destruct (str_eqb (fname a) n) eqn:E.
    + apply str_eqb_eq in E. exfalso. apply Ha. rewrite E, <- Hn. apply in_map. exact Hin.
    + eapply IH; eassumption.
Qed.

Lemma resolves_dominant : forall f n k x,
  ewf_f f = true -> resolve_f n f = Some x ->
  exists d, In (d, x) (entries_f k f) /\ cnt n d (entries_f k f) = 1.
Proof.
  induction f as [y|fs IH] using sfield_ind'; intros n k x Hw Hr; [discriminate|].
  cbn [ewf_f] in Hw. apply Bool.andb_true_iff in Hw. destruct Hw as [Hw Hall].
  apply Bool.andb_true_iff in Hw. destruct Hw as [Hnd Hp].
  cbn [resolve_f] in Hr. destruct (first_some (map (res_own n) fs)) as [z|] eqn:E.
  - injection Hr as ->. apply first_some_in in E. rewrite in_map_iff in E. destruct E as [f [Hro Hf]].
    apply res_own_some in Hro. destruct Hro as [-> Hn]. exists (S k). split.
    + cbn. rewrite in_flat_map. exists (SF x). split; [exact Hf|left; reflexivity].
    + cbn [entries_f]. rewrite cnt_own. eapply nodup_count; [exact Hnd|apply own_in; exact Hf|exact Hn].
  - cbn [entries_f]. rewrite first_some_none in E.
    assert (forall f, In f fs -> res_own n f = None) as Hown by (intros f Hf; apply E, in_map, Hf). clear E Hnd.
    revert Hp Hall IH Hown Hr. generalize (S k) as K. intro K.
    induction fs as [|f0 r IHr]; intros Hp Hall IH Hown Hr; [discriminate|].
    cbn [pairwise] in Hp. apply Bool.andb_true_iff in Hp. destruct Hp as [Ha Hp].
    cbn [forallb] in Hall. apply Bool.andb_true_iff in Hall. destruct Hall as [Hw0 Hall].
    inversion IH as [|? ? IH0 IH']; subst.
    cbn [map first_some] in Hr. cbn [flat_map]. destruct (resolve_f n f0) as [z|] eqn:E0.
    + injection Hr as ->. destruct (IH0 n K x Hw0 E0) as [d [Hin Hc]]. exists d. split.
      * apply in_or_app. left. exact Hin.
      * rewrite cnt_app, Hc, cnt_zero_list; [reflexivity|]. intros f Hf.
        rewrite forallb_forall in Ha. pose proof (apart_none _ _ _ _ E0 (Ha _ Hf)) as Hnone.
        destruct f as [y|inner].
        -- cbn. intros [Hy|[]]. specialize (Hown (SF y) (or_intror Hf)). cbn in Hown.
           rewrite Hy, str_eqb_refl in Hown. discriminate.
        -- apply resolve_none_names; [eexists; reflexivity|exact Hnone].
    + destruct (IHr Hp Hall IH' (fun f Hf => Hown f (or_intror Hf)) Hr) as [d [Hin Hc]]. exists d. split.
      * apply in_or_app. right. exact Hin.
      * rewrite cnt_app, Hc, cnt_zero_names; [reflexivity|]. destruct f0 as [y|inner].
        -- cbn. intros [Hy|[]]. specialize (Hown (SF y) (or_introl eq_refl)). cbn in Hown.
           rewrite Hy, str_eqb_refl in Hown. discriminate.
        -- apply resolve_none_names; [eexists; reflexivity|exact E0].
Qed.

(* ---------- the two readings agree ---------- *)
Lemma rivals_single es e : In e es -> dominant es e = true -> forall o, In o (rivals es e) -> o = e.
Proof.
  unfold dominant. intros Hin Hd o Ho. apply Nat.eqb_eq in Hd.
  assert (In e (rivals es e)) as He.
  { unfold rivals. apply filter_In. split; [exact Hin|]. rewrite str_eqb_refl, Nat.leb_refl. reflexivity. }
  destruct (rivals es e) as [|a [|b l]]; try discriminate.
  destruct Ho as [<-|[]]. destruct He as [<-|[]]. reflexivity.
Qed.

Theorem promote_resolve fs y : ewf fs = true -> (In y (promote fs) <-> resolve_f (fname y) (SE fs) = Some y).
Proof.
  intro Hw. unfold promote. rewrite in_map_iff. split.
  - intros [[d y'] [Hy Hin]]. cbn in Hy. subst y'. apply filter_In in Hin. destruct Hin as [Hin Hd].
    eapply dominant_resolves; [exact Hw|eexists; reflexivity|exact Hin|].
    intros o Ho Hn Hle. apply (rivals_single _ _ Hin Hd). unfold rivals. apply filter_In. split; [exact Ho|].
    cbn [snd fst]. apply Bool.andb_true_iff. split; [apply str_eqb_eq; exact Hn|apply Nat.leb_le; exact Hle].
  - intro Hr. destruct (resolves_dominant _ _ 0 _ Hw Hr) as [d [Hin Hc]].
    exists (d, y). split; [reflexivity|]. apply filter_In. split; [exact Hin|].
    unfold dominant, rivals. cbn [snd fst]. unfold cnt in Hc. rewrite Hc. reflexivity.
Qed.

Theorem table_promote fs x : ewf fs = true -> (In x (table (writes_f (SE fs))) <-> In x (promote fs)).
Proof.
  intro Hw. rewrite table_last, (writes_resolve _ _ Hw), (promote_resolve _ _ Hw). tauto.
Qed.

Lemma forallb_same {A} (h : A -> bool) (p q : list A) : (forall a, In a p <-> In a q) -> forallb h p = forallb h q.
Proof.
  intro H. apply Bool.eq_true_iff_eq. rewrite !forallb_forall. split; intros Hx a Ha; apply Hx, H, Ha.
Qed.

Lemma forallb_pointwise {A} (g h : A -> bool) (l : list A) : (forall a, g a = h a) -> forallb g l = forallb h l.
Proof. intro H. induction l as [|a r IH]; [reflexivity|]. cbn. rewrite H, IH. reflexivity. Qed.

Lemma scan_struct_props l :
  scan (GStruct l) = KObj (map prop_of l).
Proof. reflexivity. Qed.

Theorem scan_emb_agrees fs d : ewf fs = true -> sval (scan_emb fs) d = sval (scan (go_struct fs)) d.
Proof.
  intro Hw. unfold go_struct. rewrite scan_struct_props. unfold scan_emb.
  destruct d as [| | | | |l]; try reflexivity. cbn [sval].
  apply forallb_pointwise. intro kv. apply forallb_same. intro p. rewrite !in_map_iff.
  split; intros [x [Hx Hin]]; exists x; (split; [exact Hx|]); apply (table_promote _ _ Hw); exact Hin.
Qed.

Theorem emb_accepted_decodes fs d : ewf fs = true -> sval (scan_emb fs) d = true -> decodes (go_struct fs) d = true.
Proof. intros Hw H. apply accepted_decodes. rewrite <- (scan_emb_agrees _ _ Hw). exact H. Qed.

Theorem emb_encoding_accepted fs v :
  ewf fs = true -> wf_type (go_struct fs) = true -> has_type (go_struct fs) v = true -> clean (go_struct fs) v = true ->
  sval (scan_emb fs) (encode (go_struct fs) v) = true.
Proof. intros Hw Ht Hv Hc. rewrite (scan_emb_agrees _ _ Hw). apply encoding_accepted; assumption. Qed.

(* ---------- the visible fields carry distinct names, whatever the declaration ---------- *)
Lemma cnt_ge n d es o : In o es -> fname (snd o) = n -> fst o <= d -> 1 <= cnt n d es.
Proof.
  intros Hin Hn Hd. unfold cnt.
  assert (In o (filter (fun o => str_eqb (fname (snd o)) n && Nat.leb (fst o) d) es)) as H.
  { apply filter_In. split; [exact Hin|]. apply Bool.andb_true_iff. split; [apply str_eqb_eq; exact Hn|apply Nat.leb_le; exact Hd]. }
  destruct (filter _ es); [destruct H|cbn; lia].
Qed.

Lemma dominant_cnt es e : dominant es e = true <-> cnt (fname (snd e)) (fst e) es = 1.
Proof. unfold dominant, rivals, cnt. apply Nat.eqb_eq. Qed.

Lemma dominant_names_nodup es : forall suf pre, es = pre ++ suf ->
  nodupb (map fname (map snd (filter (dominant es) suf))) = true.
Proof.
  induction suf as [|e r IH]; intros pre Hes; [reflexivity|]. cbn [filter].
  assert (es = (pre ++ [e]) ++ r) as Hes' by (rewrite <- app_assoc; exact Hes).
  destruct (dominant es e) eqn:He; [|eapply IH; exact Hes'].
  cbn [map]. apply nodupb_cons. split; [|eapply IH; exact Hes'].
  intro Hin. rewrite map_map, in_map_iff in Hin. destruct Hin as [e' [Hn Hin']].
  apply filter_In in Hin'. destruct Hin' as [Hr He'].
  apply dominant_cnt in He, He'.
  set (n := fname (snd e)) in *. 
  assert (forall D, fst e <= D -> fst e' <= D -> 2 <= cnt n D es) as H2.
  { intros D H1 H2. rewrite Hes, cnt_app. change (e :: r) with ([e] ++ r). rewrite cnt_app.
    pose proof (cnt_ge n D [e] e (or_introl eq_refl) eq_refl H1).
    pose proof (cnt_ge n D r e' Hr Hn H2). lia. }
  destruct (Nat.le_ge_cases (fst e) (fst e')) as [Hle|Hle].
  - specialize (H2 (fst e') Hle (le_n _)). rewrite Hn in He'. lia.
  - specialize (H2 (fst e) (le_n _) Hle). lia.
Qed.

Theorem promote_nodup fs : nodupb (map fname (promote fs)) = true.
Proof. unfold promote. apply (dominant_names_nodup _ _ []). reflexivity. Qed.

Lemma wf_struct l : wf_type (GStruct l) = nodupb (map fname l) && forallb (fun f => wf_type (snd f)) l.
Proof.
  cbn [wf_type]. f_equal.
  - induction l as [|[[n o] t] r IH]; [reflexivity|]. cbn [map nodupb]. rewrite <- IH. reflexivity.
  - induction l as [|[[n o] t] r IH]; [reflexivity|]. cbn [forallb snd]. rewrite <- IH. reflexivity.
Qed.

(* the types of all fields, visible or not *)
Definition types_wf (fs : list sfield) : bool := forallb (fun e => wf_type (snd (snd e))) (entries_f 0 (SE fs)).

Theorem go_struct_wf fs : types_wf fs = true -> wf_type (go_struct fs) = true.
Proof.
  intro H. unfold go_struct. rewrite wf_struct, promote_nodup. cbn [andb].
  unfold types_wf in H. rewrite forallb_forall in *. intros x Hx. unfold promote in Hx.
  rewrite in_map_iff in Hx. destruct Hx as [e [<- He]]. apply filter_In in He. apply H, He.
Qed.

Theorem emb_encoding_accepted' fs v :
  ewf fs = true -> types_wf fs = true -> has_type (go_struct fs) v = true -> clean (go_struct fs) v = true ->
  sval (scan_emb fs) (encode (go_struct fs) v) = true.
Proof. intros Hw Ht. apply emb_encoding_accepted; [exact Hw|apply go_struct_wf, Ht]. Qed.

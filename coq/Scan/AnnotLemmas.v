(* Scan/AnnotLemmas.v — C17: round trip of the route header line; typing of literals by level. *)
From GS Require Import Base.Str Tools.GenServer Tools.GenServerLemmas Tools.Decimal Scan.Annot.
From Coq Require Import Lia.

(* every character of the annotation classes is a printable, non-blank ASCII character *)
Definition visible (c : N) : Prop := (33 <= c)%N.

Ltac class_bound :=
  repeat match goal with
  | H : (_ || _)%bool = true |- _ => apply orb_prop in H as [H|H]
  | H : (_ && _)%bool = true |- _ => apply andb_prop in H as [? ?]
  | H : N.leb _ _ = true |- _ => apply N.leb_le in H
  | H : N.eqb _ _ = true |- _ => apply N.eqb_eq in H
  | H : false = true |- _ => discriminate
  end; unfold visible; try lia.

Lemma letter_visible c : is_letter c = true -> visible c.
Proof. unfold is_letter. intros H. class_bound. Qed.
Lemma id_char_visible c : id_char c = true -> visible c.
Proof. unfold id_char, is_letter, is_digit_c. intros H. class_bound. Qed.
Lemma tag_char_visible c : tag_char c = true -> visible c.
Proof. unfold tag_char, id_char, is_letter, is_digit_c. intros H. class_bound. Qed.
Lemma path_char_visible c : path_char c = true -> visible c.
Proof. unfold path_char, is_letter, is_digit_c. cbn [existsb]. intros H. class_bound. Qed.

Lemma visible_not_space c : visible c -> is_space c = false /\ N.eqb 32 c = false.
Proof.
  unfold visible, is_space. intros H. split.
  - repeat (apply Bool.orb_false_intro); apply N.eqb_neq; lia.
  - apply N.eqb_neq. lia.
Qed.

(* a non-empty token of visible characters survives split/join on blanks *)
Lemma visible_clean x : x <> [] -> Forall visible x -> clean_item 32 x = true.
Proof.
  intros NE H. unfold clean_item.
  assert (existsb (N.eqb 32) x = false) as E1.
  { apply Bool.not_true_iff_false. intros E. apply existsb_exists in E as [c [Hc Ec]]. rewrite Forall_forall in H.
    destruct (visible_not_space c (H c Hc)) as [_ X]. congruence. }
  destruct x as [|c r]; [contradiction|]. cbn [is_empty negb]. rewrite E1. cbn [negb andb].
  inversion H as [|? ? Hc Hr]; subst. destruct (visible_not_space c Hc) as [S _]. rewrite S. cbn [negb andb].
  destruct (rev (c :: r)) as [|l rr] eqn:ER; [destruct r; cbn in ER; [discriminate | apply app_eq_nil in ER as [_ X]; discriminate]|].
  assert (In l (c :: r)) as Hin by (apply in_rev; rewrite ER; left; reflexivity).
  rewrite Forall_forall in H. destruct (visible_not_space l (H l Hin)) as [S2 _]. rewrite S2. reflexivity.
Qed.

Lemma forallb_Forall_visible (P : N -> bool) x : (forall c, P c = true -> visible c) -> forallb P x = true -> Forall visible x.
Proof. intros HP H. apply Forall_forall. intros c Hc. apply HP. rewrite forallb_forall in H. apply H, Hc. Qed.

Lemma method_clean m : valid_method m = true -> clean_item 32 m = true.
Proof.
  unfold valid_method. intros H. apply andb_prop in H as [NE F]. apply visible_clean.
  - destruct m; [discriminate | discriminate].
  - apply (forallb_Forall_visible is_letter); [exact letter_visible | exact F].
Qed.
Lemma path_clean p : valid_path p = true -> clean_item 32 p = true.
Proof.
  unfold valid_path. destruct p as [|c r]; [discriminate|]. destruct (N.eqb_spec c 47) as [E|E].
  - subst c. intros F. apply visible_clean; [discriminate|]. constructor; [unfold visible; lia|].
    apply (forallb_Forall_visible path_char); [exact path_char_visible | exact F].
  - intros H. exfalso. destruct c as [|q]; [discriminate|]. do 6 (destruct q as [q|q|]; try discriminate). congruence.
Qed.
Lemma id_clean x : valid_id x = true -> clean_item 32 x = true.
Proof.
  unfold valid_id. destruct x as [|c [|c2 r]]; try discriminate. intros H. apply andb_prop in H as [L F].
  apply visible_clean; [discriminate|]. constructor; [apply letter_visible; exact L|].
  apply (forallb_Forall_visible id_char); [exact id_char_visible | exact F].
Qed.
Lemma tag_clean x : valid_tag x = true -> clean_item 32 x = true.
Proof.
  unfold valid_tag. intros H. apply andb_prop in H as [NE F]. apply visible_clean.
  - destruct x; [discriminate | discriminate].
  - apply (forallb_Forall_visible tag_char); [exact tag_char_visible | exact F].
Qed.
Lemma tags_clean l : valid_tags l = true -> Forall (fun x => clean_item 32 x = true) l.
Proof.
  unfold valid_tags. destruct l as [|t [|t2 r]]; [constructor| |]; intros H; apply andb_prop in H as [_ F].
  - constructor; [apply tag_clean; exact F | constructor].
  - apply Forall_forall. intros x Hx. apply tag_clean. rewrite forallb_forall in F. apply F, Hx.
Qed.

Lemma kw_clean : clean_item 32 (s "swagger:route") = true /\ clean_item 32 (s "swagger:operation") = true.
Proof. split; vm_compute; reflexivity. Qed.

Theorem route_roundtrip kw r : clean_item 32 kw = true -> wf_route r = true -> parse_route kw (route_line kw r) = Some r.
Proof.
  intros K W. unfold wf_route in W. apply andb_prop in W as [W Hid]. apply andb_prop in W as [W Htags]. apply andb_prop in W as [Hm Hp].
  unfold parse_route, route_line.
  rewrite split_join.
  - rewrite str_eqb_refl, Hm, Hp. cbn [andb]. rewrite rev_app_distr. cbn [rev app]. rewrite rev_involutive, Hid, Htags. cbn [andb].
    destruct r; reflexivity.
  - constructor; [exact K|]. constructor; [apply method_clean; exact Hm|]. constructor; [apply path_clean; exact Hp|].
    apply Forall_app. split; [apply tags_clean; exact Htags|]. constructor; [apply id_clean; exact Hid | constructor].
  - discriminate.
Qed.

(* two well-formed routes with the same header line are the same route *)
Corollary route_line_injective kw a b : clean_item 32 kw = true -> wf_route a = true -> wf_route b = true -> route_line kw a = route_line kw b -> a = b.
Proof. intros K Wa Wb E. pose proof (route_roundtrip kw a K Wa) as Ha. rewrite E, (route_roundtrip kw b K Wb) in Ha. inversion Ha. reflexivity. Qed.

(* ---------- literals ---------- *)
Theorem literal_at_element_level (depth level : nat) (z : Z) : depth <= level -> typed_literal depth TInt level (dec_text z) = LInt z.
Proof.
  intros H. unfold typed_literal, level_type. destruct (Nat.ltb_spec level depth); [lia|]. cbn. rewrite parse_dec_text. reflexivity.
Qed.
Theorem bool_literal_at_element_level (depth level : nat) (b : bool) : depth <= level ->
  typed_literal depth TBool level (if b then s "true" else s "false") = LBool b.
Proof. intros H. unfold typed_literal, level_type. destruct (Nat.ltb_spec level depth); [lia|]. destruct b; vm_compute; reflexivity. Qed.
Theorem string_literal_is_text (depth level : nat) (x : str) : depth <= level -> typed_literal depth TStr level x = LStr x.
Proof. intros H. unfold typed_literal, level_type. destruct (Nat.ltb_spec level depth); [lia|]. reflexivity. Qed.

(* Scan/DocVocabRun.v — C18 vocabulary model evaluated on generated doc comments and scanned properties. *)
From GS Require Import Base.Str Tools.Decimal Scan.DocVocab.

Definition opt_eqb {A} (eq : A -> A -> bool) (a b : option A) : bool :=
  match a, b with Some x, Some y => eq x y | None, None => true | _, _ => false end.
Definition bz_eqb (a b : bool * Z) : bool := Bool.eqb (fst a) (fst b) && Z.eqb (snd a) (snd b).
Definition vals_eqb (a b : vals) : bool :=
  Bool.eqb (d_required a) (d_required b) && Bool.eqb (d_readonly a) (d_readonly b) &&
  opt_eqb bz_eqb (d_max a) (d_max b) && opt_eqb bz_eqb (d_min a) (d_min b) && opt_eqb Z.eqb (d_mult a) (d_mult b) &&
  opt_eqb Z.eqb (d_maxlen a) (d_maxlen b) && opt_eqb Z.eqb (d_minlen a) (d_minlen b) && opt_eqb str_eqb (d_pattern a) (d_pattern b) &&
  opt_eqb Z.eqb (d_maxitems a) (d_maxitems b) && opt_eqb Z.eqb (d_minitems a) (d_minitems b) && Bool.eqb (d_unique a) (d_unique b).

Fixpoint lines_eqb (a b : list str) : bool :=
  match a, b with [], [] => true | x :: a', y :: b' => str_eqb x y && lines_eqb a' b' | _, _ => false end.

Record vcase := { c_input : vals;          (* the validations of the input property *)
                  c_lines : list str;       (* the vocabulary lines of the generated field comment *)
                  c_scanned : vals }.       (* the validations of the scanned property *)
Definition run_v (c : vcase) : list N :=
  (if lines_eqb (emit (c_input c)) (c_lines c) then [] else [1%N]) ++
  (if vals_eqb (parse (c_lines c)) (c_scanned c) then [] else [2%N]).

Fixpoint run_cases_from (i : N) (l : list vcase) : list (N * list N) :=
  match l with
  | [] => []
  | c :: r => match run_v c with [] => run_cases_from (i + 1) r | d => (i, d) :: run_cases_from (i + 1) r end
  end.
Definition run_cases (l : list vcase) : list (N * list N) := run_cases_from 0 l.

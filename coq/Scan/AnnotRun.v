(* Scan/AnnotRun.v — C17 grammar model evaluated on lines scanned by the implementation. *)
From GS Require Import Base.Str Tools.GenServer Scan.Annot.

Fixpoint strs_eqb (a b : list str) : bool :=
  match a, b with [], [] => true | x :: a', y :: b' => str_eqb x y && strs_eqb a' b' | _, _ => false end.
Definition route_eqb (a b : route) : bool :=
  str_eqb (r_method a) (r_method b) && str_eqb (r_path a) (r_path b) && strs_eqb (r_tags a) (r_tags b) && str_eqb (r_id a) (r_id b).
Definition lit_eqb (a b : lit) : bool :=
  match a, b with
  | LInt x, LInt y => Z.eqb x y | LBool x, LBool y => Bool.eqb x y | LStr x, LStr y => str_eqb x y | LFail, LFail => true | _, _ => false
  end.

Inductive acase :=
| CR (kw line : str) (observed : option route)             (* what the scanned document holds for this header line *)
| CL (depth : nat) (elem : ltype) (level : nat) (text : str) (observed : lit).

Definition run_a (c : acase) : list N :=
  match c with
  | CR kw line obs =>
      match parse_route kw line, obs with
      | Some a, Some b => if route_eqb a b then [] else [1%N]
      | None, None => []
      | Some _, None => [2%N]
      | None, Some _ => [3%N]
      end
  | CL depth elem level text obs => if lit_eqb (typed_literal depth elem level text) obs then [] else [4%N]
  end.

Fixpoint run_cases_from (i : N) (l : list acase) : list (N * list N) :=
  match l with
  | [] => []
  | c :: r => match run_a c with [] => run_cases_from (i + 1) r | d => (i, d) :: run_cases_from (i + 1) r end
  end.
Definition run_cases (l : list acase) : list (N * list N) := run_cases_from 0 l.

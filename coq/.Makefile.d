Base/Str.vo Base/Str.glob Base/Str.v.beautified Base/Str.required_vo: Base/Str.v 
Base/Str.vio: Base/Str.v 
Base/Str.vos Base/Str.vok Base/Str.required_vos: Base/Str.v 
Base/Json.vo Base/Json.glob Base/Json.v.beautified Base/Json.required_vo: Base/Json.v Base/Str.vo
Base/Json.vio: Base/Json.v Base/Str.vio
Base/Json.vos Base/Json.vok Base/Json.required_vos: Base/Json.v Base/Str.vos
Gen/GenDiffTables.vo Gen/GenDiffTables.glob Gen/GenDiffTables.v.beautified Gen/GenDiffTables.required_vo: Gen/GenDiffTables.v Base/Str.vo
Gen/GenDiffTables.vio: Gen/GenDiffTables.v Base/Str.vio
Gen/GenDiffTables.vos Gen/GenDiffTables.vok Gen/GenDiffTables.required_vos: Gen/GenDiffTables.v Base/Str.vos
Tools/DiffTypes.vo Tools/DiffTypes.glob Tools/DiffTypes.v.beautified Tools/DiffTypes.required_vo: Tools/DiffTypes.v Base/Str.vo Gen/GenDiffTables.vo
Tools/DiffTypes.vio: Tools/DiffTypes.v Base/Str.vio Gen/GenDiffTables.vio
Tools/DiffTypes.vos Tools/DiffTypes.vok Tools/DiffTypes.required_vos: Tools/DiffTypes.v Base/Str.vos Gen/GenDiffTables.vos
Tools/DiffReport.vo Tools/DiffReport.glob Tools/DiffReport.v.beautified Tools/DiffReport.required_vo: Tools/DiffReport.v Base/Str.vo Base/Json.vo Gen/GenDiffTables.vo Tools/DiffTypes.vo
Tools/DiffReport.vio: Tools/DiffReport.v Base/Str.vio Base/Json.vio Gen/GenDiffTables.vio Tools/DiffTypes.vio
Tools/DiffReport.vos Tools/DiffReport.vok Tools/DiffReport.required_vos: Tools/DiffReport.v Base/Str.vos Base/Json.vos Gen/GenDiffTables.vos Tools/DiffTypes.vos
Tools/DiffReportLemmas.vo Tools/DiffReportLemmas.glob Tools/DiffReportLemmas.v.beautified Tools/DiffReportLemmas.required_vo: Tools/DiffReportLemmas.v Base/Str.vo Base/Json.vo Gen/GenDiffTables.vo Tools/DiffTypes.vo Tools/DiffReport.vo
Tools/DiffReportLemmas.vio: Tools/DiffReportLemmas.v Base/Str.vio Base/Json.vio Gen/GenDiffTables.vio Tools/DiffTypes.vio Tools/DiffReport.vio
Tools/DiffReportLemmas.vos Tools/DiffReportLemmas.vok Tools/DiffReportLemmas.required_vos: Tools/DiffReportLemmas.v Base/Str.vos Base/Json.vos Gen/GenDiffTables.vos Tools/DiffTypes.vos Tools/DiffReport.vos
Props/C15.vo Props/C15.glob Props/C15.v.beautified Props/C15.required_vo: Props/C15.v Base/Str.vo Base/Json.vo Gen/GenDiffTables.vo Tools/DiffTypes.vo Tools/DiffReport.vo Tools/DiffReportLemmas.vo
Props/C15.vio: Props/C15.v Base/Str.vio Base/Json.vio Gen/GenDiffTables.vio Tools/DiffTypes.vio Tools/DiffReport.vio Tools/DiffReportLemmas.vio
Props/C15.vos Props/C15.vok Props/C15.required_vos: Props/C15.v Base/Str.vos Base/Json.vos Gen/GenDiffTables.vos Tools/DiffTypes.vos Tools/DiffReport.vos Tools/DiffReportLemmas.vos
Tools/DiffSpec.vo Tools/DiffSpec.glob Tools/DiffSpec.v.beautified Tools/DiffSpec.required_vo: Tools/DiffSpec.v Base/Str.vo
Tools/DiffSpec.vio: Tools/DiffSpec.v Base/Str.vio
Tools/DiffSpec.vos Tools/DiffSpec.vok Tools/DiffSpec.required_vos: Tools/DiffSpec.v Base/Str.vos
Tools/DiffModel.vo Tools/DiffModel.glob Tools/DiffModel.v.beautified Tools/DiffModel.required_vo: Tools/DiffModel.v Base/Str.vo Gen/GenDiffTables.vo Tools/DiffTypes.vo Tools/DiffSpec.vo
Tools/DiffModel.vio: Tools/DiffModel.v Base/Str.vio Gen/GenDiffTables.vio Tools/DiffTypes.vio Tools/DiffSpec.vio
Tools/DiffModel.vos Tools/DiffModel.vok Tools/DiffModel.required_vos: Tools/DiffModel.v Base/Str.vos Gen/GenDiffTables.vos Tools/DiffTypes.vos Tools/DiffSpec.vos
Tools/DiffRun.vo Tools/DiffRun.glob Tools/DiffRun.v.beautified Tools/DiffRun.required_vo: Tools/DiffRun.v Base/Str.vo Gen/GenDiffTables.vo Tools/DiffTypes.vo Tools/DiffSpec.vo Tools/DiffModel.vo Tools/DiffReport.vo
Tools/DiffRun.vio: Tools/DiffRun.v Base/Str.vio Gen/GenDiffTables.vio Tools/DiffTypes.vio Tools/DiffSpec.vio Tools/DiffModel.vio Tools/DiffReport.vio
Tools/DiffRun.vos Tools/DiffRun.vok Tools/DiffRun.required_vos: Tools/DiffRun.v Base/Str.vos Gen/GenDiffTables.vos Tools/DiffTypes.vos Tools/DiffSpec.vos Tools/DiffModel.vos Tools/DiffReport.vos

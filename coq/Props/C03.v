(* Props/C03.v — the generated server binds and validates requests per the spec.
   Proved for every parameter of the scalar fragment (strings with length bounds and enum, integers of every format
   with bounds incl. exclusive, booleans; path/query/header/formData; required / optional / allowEmptyValue), every list
   of raw occurrences of the key and every hasKey flag; and for one-level array parameters of such items in every
   collection format (csv / ssv / tsv / pipes split of the last occurrence, multi = the occurrences themselves) with
   item validations, minItems / maxItems / uniqueItems. The body schema is C02's theorem.
   Exercised only: routing, multipart, formats handled by strfmt, nested arrays. *)
From GS Require Import Base.Str Tools.GenServer Tools.GenServerLemmas.

(* the binder accepts exactly the requests the parameter semantics accepts *)
Theorem C03_bind_iff : forall p rd hk, bind p rd hk <> Reject <-> req_ok p rd hk.
Proof. exact bind_ok_iff. Qed.
Print Assumptions C03_bind_iff.

(* what the handler sees is the typed value of the last occurrence, validated *)
Theorem C03_values : forall p rd hk v,
  bind p rd hk = Bound v -> convert (sp_type p) (carried rd) = Some v /\ valid_value (sp_type p) v = true.
Proof. exact bind_bound_value. Qed.
Print Assumptions C03_values.

(* "absent" (the default applies) only for an empty value of a parameter that may be empty *)
Theorem C03_absent : forall p rd hk,
  bind p rd hk = Absent -> carried rd = [] /\ sp_path p = false /\ (sp_required p = false \/ sp_allow_empty p = true).
Proof. exact bind_absent_empty. Qed.
Print Assumptions C03_absent.

(* array parameters: accepted exactly when every item converts and validates and the counts / uniqueness hold *)
Theorem C03_array_bind_iff : forall p rd hk, bind_array p rd hk <> AReject <-> areq_ok p rd hk.
Proof. exact bind_array_iff. Qed.
Print Assumptions C03_array_bind_iff.

Theorem C03_array_values : forall p rd hk vs, bind_array p rd hk = ABound vs ->
  Forall2 (fun raw v => convert (ap_elem p) raw = Some v /\ valid_value (ap_elem p) v = true) (items_of p rd) vs /\
  count_ok p vs = true /\ (ap_unique p = true -> distinct_values vs = true).
Proof. exact bind_array_values. Qed.
Print Assumptions C03_array_values.

Example C03_array_nonvacuous :
  let p := {| ap_required := true; ap_allow_empty := false; ap_multi := false; ap_sep := 124; ap_elem := PInt (-2147483648) 2147483647 (Some 1%Z) false None false;
              ap_minitems := Some 1%Z; ap_maxitems := Some 3%Z; ap_unique := true |} in
  bind_array p [s "9|9"; s "3| 4 |5"] true = ABound [VInt 3; VInt 4; VInt 5] /\ bind_array p [s "3|3"] true = AReject /\
  bind_array p [s "1|2|3|4"] true = AReject /\ bind_array p [s "0"] true = AReject /\ bind_array p [s ""] true = AReject /\ bind_array p [] false = AReject.
Proof. repeat split; vm_compute; reflexivity. Qed.

Example C03_nonvacuous :
  let p := {| sp_path := false; sp_header := false; sp_required := true; sp_allow_empty := false;
              sp_type := PInt 0 4294967295 (Some 1%Z) true (Some 10%Z) false |} in
  bind p [s "3"; s "10"] true = Bound (VInt 10) /\ bind p [s "1"] true = Reject /\ bind p [] false = Reject /\
  bind p [s ""] true = Reject /\ bind p [s "-1"] true = Reject /\ bind p [s "4294967296"] true = Reject.
Proof. repeat split; vm_compute; reflexivity. Qed.

(* ---------- nested array parameters ---------- *)
(* restricted to leaves, the nested model is the one-level model above *)
Theorem C03_nested_generalises_flat : forall p rd hk,
  ap_multi p = false -> bind_nested (lift_param p) rd hk = lift_outcome (bind_array p rd hk).
Proof. exact nested_generalises_flat. Qed.
Print Assumptions C03_nested_generalises_flat.

(* what the handler is given: every leaf is a converted text that satisfies the leaf's constraints, the outer item
   counts hold and, when asked for, the outer elements are distinct as values *)
Theorem C03_nested_values : forall p rd hk vs, bind_nested p rd hk = NBound vs ->
  forallb (leaves_ok (np_items p)) vs = true /\
  len_ok (np_minitems p) (np_maxitems p) (length vs) = true /\ (np_unique p = true -> distinct_nvalues vs = true).
Proof. exact bind_nested_values. Qed.
Print Assumptions C03_nested_values.

(* an inner level is accepted only with its item counts in range and, when unique, with parts that differ as texts *)
Theorem C03_nested_inner_checks : forall sep mn mx u inner raw o,
  conv_elem (NArr sep mn mx u inner) raw = Some o ->
  len_ok mn mx (length (split_by sep raw)) = true /\ (u = true -> distinct_texts (split_by sep raw) = true).
Proof. exact conv_elem_inner_checks. Qed.
Print Assumptions C03_nested_inner_checks.

(* ... which is weaker than what the specification asks: equal values written differently pass an inner uniqueItems.
   The unchanged generator has this gap (known finding c03/handler-reached-for-invalid-request[nested-array-uniqueItems-compared-as-text]) *)
Example C03_nested_unique_refuted :
  let int32 := PInt (-2147483648) 2147483647 None false None false in
  let p := {| np_required := false; np_allow_empty := false; np_sep := 124; np_items := NArr 44 None None true (NLeaf int32);
              np_minitems := None; np_maxitems := None; np_unique := false |} in
  bind_nested p [s "1,01"] true = NBound [NL [NV (VInt 1); NV (VInt 1)]].
Proof. vm_compute. reflexivity. Qed.

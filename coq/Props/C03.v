(* Props/C03.v — the generated server binds and validates requests per the spec.
   Proved for every parameter of the scalar fragment (strings with length bounds and enum, integers of every format
   with bounds incl. exclusive, booleans; path/query/header/formData; required / optional / allowEmptyValue), every list
   of raw occurrences of the key and every hasKey flag. Arrays: the collection-format split is modelled (split_by) and
   its round trip with join is C04_split_join; item conversion reuses [convert]. The body schema is C02's theorem.
   Exercised only: routing, multipart, formats handled by strfmt, nested arrays. *)
From GS Require Import Base.Str Tools.GenServer Tools.GenServerLemmas.

(* the binder accepts exactly the requests the parameter semantics accepts *)
Theorem C03_bind_iff : forall p rd hk, bind p rd hk <> Reject <-> req_ok p rd hk.
Proof. exact bind_ok_iff. Qed.
Print Assumptions C03_bind_iff.

(* what the handler sees is the typed value of the last occurrence, validated *)
Theorem C03_values : forall p rd hk v,
  bind p rd hk = Bound v -> convert (sp_type p) (carried rd) = Some v /\ valid_value (sp_type p) v = true.
Proof. exact bind_bound_value. Qed.
Print Assumptions C03_values.

(* "absent" (the default applies) only for an empty value of a parameter that may be empty *)
Theorem C03_absent : forall p rd hk,
  bind p rd hk = Absent -> carried rd = [] /\ sp_path p = false /\ (sp_required p = false \/ sp_allow_empty p = true).
Proof. exact bind_absent_empty. Qed.
Print Assumptions C03_absent.

Example C03_nonvacuous :
  let p := {| sp_path := false; sp_header := false; sp_required := true; sp_allow_empty := false;
              sp_type := PInt 0 4294967295 (Some 1%Z) true (Some 10%Z) false |} in
  bind p [s "3"; s "10"] true = Bound (VInt 10) /\ bind p [s "1"] true = Reject /\ bind p [] false = Reject /\
  bind p [s ""] true = Reject /\ bind p [s "-1"] true = Reject /\ bind p [s "4294967296"] true = Reject.
Proof. repeat split; vm_compute; reflexivity. Qed.

(* Props/C01.v — generated code always builds: the part that is logic is the mangling of spec names into Go identifiers,
   file names and variable names.  [u] stands for Go's unicode tables (classification and case mapping); [uni_laws u]
   says they agree with ASCII on ASCII and that letters are in L/M/N/Pc.  PARTIAL: Go typing of the emitted text
   (declaration/use agreement of pointer-ness, imports, scopes inside templates) is not modelled; it is exercised by
   compiling generated trees.  The names the theorems exclude (marks, No/Nl, Pc, caseless first letters) are exactly
   where the unchanged code fails: see C01_refuted_* and KNOWN_FINDINGS.jsonl. *)
From GS Require Import Base.Str Tools.Names Tools.NamesLemmas.

(* every rune of a mangled name is an identifier character, for every name without marks / No / Nl / Pc characters *)
Theorem C01_pascalize_ident_chars : forall u name,
  uni_laws u -> case_closed u -> ident_name u name -> forallb (ident_char u) (pascalize u name) = true.
Proof. exact pascalize_ident_chars. Qed.
Print Assumptions C01_pascalize_ident_chars.

(* a name with a letter, whose first letter (if it starts with one) has an upper case, becomes an exported Go identifier *)
Theorem C01_pascalize_exported : forall u name,
  uni_laws u -> case_closed u -> upper_fixed u -> ident_name u name ->
  (exists r, In r name /\ u_letter u r = true) ->
  (forall r0 rest, name = r0 :: rest -> u_letter u r0 = true -> cased u r0) ->
  go_exported u (pascalize u name) = true.
Proof. exact pascalize_go_exported. Qed.
Print Assumptions C01_pascalize_exported.

(* hence never a Go keyword *)
Theorem C01_exported_not_keyword : forall u x, uni_laws u -> go_exported u x = true -> mem x reserved_words = false.
Proof. exact exported_not_reserved. Qed.
Print Assumptions C01_exported_not_keyword.

(* variable names are never keywords *)
Theorem C01_var_not_keyword : forall u name v, mangle_var_name u name = Some v -> mem v reserved_words = false.
Proof. exact mangle_var_not_reserved. Qed.
Print Assumptions C01_var_not_keyword.

(* a generated file name never ends in a word the go tool gives a meaning to: _test, or any operating system or
   architecture of go/build's syslist (past, present and future ports).  The generator's own table is regenerated from
   GoLangOpts on every run; that it covers the toolchain's lists is the obligation [build_suffixes_cover]
   (it failed for wasip1 on the tree as found: fix 8e070f8) *)
Theorem C01_file_name_built : forall u name, mem (last (mangle_file_parts u name) []) go_build_words = false.
Proof. exact mangle_file_built. Qed.
Print Assumptions C01_file_name_built.
Theorem C01_file_name_not_reserved : forall u name, mem (last (mangle_file_parts u name) []) build_suffixes = false.
Proof. exact mangle_file_safe. Qed.
Print Assumptions C01_file_name_not_reserved.

(* where every rune of a Go name comes from: ASCII letters/digits, the prefix, or a filtered rune of the name, case-mapped *)
Theorem C01_go_name_runes : forall u, uni_laws u -> forall name pfx,
  Forall (fun c => good u name c \/ In c (pfx name)) (to_go_name u pfx name).
Proof. exact to_go_name_runes. Qed.
Print Assumptions C01_go_name_runes.

(* the client's private timeout field never collides (case-insensitively) with the go name of a parameter *)
Theorem C01_timeout_fresh : forall fuel seen name r, rename_timeout fuel seen name = Some r -> mem (ascii_lower_s r) seen = false.
Proof. exact rename_timeout_fresh. Qed.
Print Assumptions C01_timeout_fresh.
(* ... and the search always ends, whatever the parameters are called: the candidates (six fixed names, then "operTimeout"
   with more and more 1s) have pairwise different lower-cased names, so more of them than there are parameters cannot all
   be taken; the model's fuel (number of parameters + 8) is therefore never exhausted *)
Theorem C01_timeout_total : forall seen fuel, length seen < fuel -> exists r, rename_timeout fuel seen (s "timeout") = Some r.
Proof. exact rename_timeout_total. Qed.
Print Assumptions C01_timeout_total.
Theorem C01_timeout_name_total : forall u params, exists r, timeout_name u params = Some r.
Proof. exact timeout_name_total. Qed.
Print Assumptions C01_timeout_name_total.
(* (kept: from any name of 19 runes or more the candidates only grow) *)
Theorem C01_timeout_found_from_long_names : forall seen k name, 19 <= length name -> maxlen seen < length name + k ->
  exists r, rename_timeout (S k) seen name = Some r.
Proof. exact rename_timeout_long. Qed.
Print Assumptions C01_timeout_found_from_long_names.
Example C01_timeout_example :
  timeout_name au [s "Timeout"; s "request-timeout"; s "x"] = Some (s "httpRequestTimeout") /\ timeout_name au [s "limit"] = Some (s "timeout").
Proof. split; vm_compute; reflexivity. Qed.

(* the hypotheses are met by ordinary names, and the excluded names really fail (on the model, as on the code) *)
Example C01_nonvacuous :
  pascalize au (s "findPetsByStatus") = s "FindPetsByStatus" /\ pascalize au (s "x-rate_limit id") = s "XRateLimitID" /\
  pascalize au (s "type") = s "Type" /\ pascalize au (s "1st") = s "Nr1st" /\ pascalize au (s "$ref") = s "DollarRef" /\
  mangle_var_name au (s "type") = Some (s "typeVar") /\ mangle_file_name au (s "LabTest") = s "lab_test_swagger".
Proof. repeat split; vm_compute; reflexivity. Qed.

Definition combining_acute : rune := 769%N.
Definition u_mark : uni := table_uni [(combining_acute, {| i_upper := false; i_lower := false; i_letter := false; i_digit := false; i_lmnpc := true; i_space := false; i_up := combining_acute; i_lo := combining_acute |})].
Example C01_refuted_mark : go_ident u_mark (pascalize u_mark [97; combining_acute; 98]%N) = false.
Proof. vm_compute. reflexivity. Qed.
Definition cjk : rune := 26085%N.
Definition u_cjk : uni := table_uni [(cjk, {| i_upper := false; i_lower := false; i_letter := true; i_digit := false; i_lmnpc := true; i_space := false; i_up := cjk; i_lo := cjk |})].
Example C01_refuted_caseless : go_ident u_cjk (pascalize u_cjk [cjk]) = true /\ go_exported u_cjk (pascalize u_cjk [cjk]) = false.
Proof. split; vm_compute; reflexivity. Qed.
Definition e_acute : rune := 233%N.
Definition u_e : uni := table_uni [(e_acute, {| i_upper := false; i_lower := true; i_letter := true; i_digit := false; i_lmnpc := true; i_space := false; i_up := 201%N; i_lo := e_acute |});
                                   (201%N, {| i_upper := true; i_lower := false; i_letter := true; i_digit := false; i_lmnpc := true; i_space := false; i_up := 201%N; i_lo := e_acute |})].
Example C01_refuted_var_name : mangle_var_name u_e [e_acute; 97]%N = None /\ pascalize u_e [e_acute; 97]%N = [201; 97]%N.
Proof. split; vm_compute; reflexivity. Qed.

(* Props/C07.v — every command's output depends only on its inputs.
   PARTIAL (see DESIGN.md 5.7): proved — the loop patterns are permutation-invariant for all inputs; every map-range
   site of generator/, cmd/swagger/commands/diff and codescan (inventory regenerated with go/types on every run) is in
   a proven pattern or in the reviewed table; the media-type table is unambiguous on a catalogue of media types.
   Trusted — that a Go loop matches its detected pattern (syntactic classifier). Exercised only — absence of data
   races and byte-identity of whole outputs (N runs in fresh processes, K concurrent library calls under -race). *)
From Coq Require Import Permutation.
From GS Require Import Base.Str Tools.Order Tools.OrderLemmas Tools.OrderSites Gen.GenRangeSites Gen.GenMediaTable.

(* collect in map order, then sort: the slice does not depend on the order *)
Theorem C07_collect_then_sort : forall l l', Permutation l l' -> sort_str l = sort_str l'.
Proof. exact sort_perm_invariant. Qed.
Print Assumptions C07_collect_then_sort.

(* first match over a table visited in any order: same answer when all matching entries agree *)
Theorem C07_first_match : forall (A : Type) (f : A -> bool) (g : A -> str) l l',
  Permutation l l' -> (forall x y, In x l -> In y l -> f x = true -> f y = true -> g x = g y) ->
  first_match f g l = first_match f g l'.
Proof. exact @first_match_perm. Qed.
Print Assumptions C07_first_match.

(* building a map from entries with distinct keys: every lookup is independent of the insertion order *)
Theorem C07_map_build : forall (A : Type) (l l' : list (str * A)) k,
  Permutation l l' -> NoDup (keys l) -> assoc k l = assoc k l'.
Proof. exact @assoc_perm. Qed.
Print Assumptions C07_map_build.

Theorem C07_set_membership : forall x l l', Permutation l l' -> mem x l = mem x l'.
Proof. exact mem_perm. Qed.
Print Assumptions C07_set_membership.

(* every map-range site of the current sources is covered *)
Definition site_covered (x : rsite) : bool := proven_pattern (rs_pattern x) || existsb (rsite_eqb x) reviewed_sites.
Lemma sites_covered : forallb site_covered range_sites = true.
Proof. vm_compute. reflexivity. Qed.
Theorem C07_sites : forall x, In x range_sites -> site_covered x = true.
Proof. intros x H. exact (proj1 (forallb_forall _ _) sites_covered x H). Qed.
Print Assumptions C07_sites.

(* wellKnownMime ranges over a Go map and returns the first match: it is a function of its argument because, for
   every media type of the catalogue, all matching entries of the (regenerated) table carry the same name *)
Lemma media_unambiguous : forallb (unambiguous media_table) media_catalogue = true.
Proof. vm_compute. reflexivity. Qed.
Theorem C07_media_table_unambiguous : forall t, In t media_catalogue -> unambiguous media_table t = true.
Proof. intros t H. exact (proj1 (forallb_forall _ _) media_unambiguous t H). Qed.
Print Assumptions C07_media_table_unambiguous.

Example C07_nonvacuous :
  30 <=? length range_sites = true /\ 20 <=? length media_table = true /\
  matching_names media_table (s "application/x-gzip") = [s "gzip"] /\
  matching_names media_table (s "application/vnd.api+json") = [s "json"].
Proof. repeat split; vm_compute; reflexivity. Qed.

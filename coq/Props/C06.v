(* Props/C06.v — the generated server enforces security requirements exactly.
   [serve] is the gate of server/operation.gotmpl (authorize first when the operation is Authed, then bind) over the
   runtime's RouteAuthenticators.Authenticate; [answer] is what each scheme's authenticator says about the request
   (not applicable / error / principal). Requirements without the anonymous alternative {}. Scheme wiring
   (AuthenticatorsFor switch of builder.gotmpl), credential extraction and status codes are exercised by the harness. *)
From GS Require Import Base.Str Tools.GenServer Tools.GenServerLemmas.

(* the handler runs exactly when the effective requirement is empty or some alternative has every scheme
   authenticated — and the parameters bind *)
Theorem C06_exact : forall answer r ok, no_anonymous r ->
  ((exists p, serve answer r ok = Handler p) <-> (r = [] \/ sat answer r = true) /\ ok = true).
Proof. exact serve_handler_iff. Qed.
Print Assumptions C06_exact.

(* a request satisfying no alternative is denied before anything else happens, whatever its parameters *)
Theorem C06_denied_first : forall answer r ok, no_anonymous r -> r <> [] -> sat answer r = false -> serve answer r ok = Denied.
Proof. exact serve_denied. Qed.
Print Assumptions C06_denied_first.

(* the principal is one returned by an authenticator of a fully satisfied alternative *)
Theorem C06_principal : forall answer r p,
  authenticate answer r = Some (Some p) -> exists a sch, In a r /\ In sch a /\ answer sch = Principal p /\ alt_sat answer a = true.
Proof. exact authenticate_principal. Qed.
Print Assumptions C06_principal.

(* the operation's own list, when present, replaces the global one — an explicit empty list opens the operation *)
Lemma effective_override r g : effective (Some r) g = r /\ effective None g = g.
Proof. split; reflexivity. Qed.
Theorem C06_effective : forall r g, effective (Some r) g = r /\ effective None g = g.
Proof. exact effective_override. Qed.
Print Assumptions C06_effective.

Example C06_nonvacuous :
  let r := [[s "key"; s "oauth:read"]; [s "basic"]] in
  let answer := fun sch => if str_eqb sch (s "basic") then Principal (s "basic:alice") else if str_eqb sch (s "key") then AuthError else NotApplicable in
  no_anonymous r /\ serve answer r true = Handler (Some (s "basic:alice")) /\ serve (fun _ => NotApplicable) r false = Denied.
Proof. cbv zeta. split; [repeat constructor; discriminate|]. split; vm_compute; reflexivity. Qed.

(* Props/C17.v — generate spec yields a valid, faithful document or an error.
   PARTIAL. What has a closed form is proved: the header line of swagger:route / swagger:operation written as the
   documentation gives it is read back as exactly the declared method, path, tags and operation id (for every
   well-formed route), and default / example / enum literals are typed by the schema level they are declared for.
   Validity of the assembled document (validate.Spec), faithfulness of every other declared element and the absence of
   crashes on arbitrary comment text are decided on the implementation: go/packages, the YAML decoder and ~40 regular
   expressions are dependencies no executable Gallina model can carry in the time available; the regular expressions are
   modelled only on the single-space, ASCII lines the documented syntax produces. *)
From GS Require Import Base.Str Tools.GenServer Tools.Decimal Scan.Annot Scan.AnnotLemmas Gen.GenTaggers Scan.Taggers.

Theorem C17_route_line_faithful : forall kw r, clean_item 32 kw = true -> wf_route r = true -> parse_route kw (route_line kw r) = Some r.
Proof. exact route_roundtrip. Qed.
Print Assumptions C17_route_line_faithful.

Theorem C17_route_line_injective : forall kw a b,
  clean_item 32 kw = true -> wf_route a = true -> wf_route b = true -> route_line kw a = route_line kw b -> a = b.
Proof. exact route_line_injective. Qed.
Print Assumptions C17_route_line_injective.

Theorem C17_integer_literal_typed_at_its_level : forall (depth level : nat) (z : Z), depth <= level ->
  typed_literal depth TInt level (dec_text z) = LInt z.
Proof. exact literal_at_element_level. Qed.
Print Assumptions C17_integer_literal_typed_at_its_level.

Theorem C17_boolean_literal_typed_at_its_level : forall (depth level : nat) (b : bool), depth <= level ->
  typed_literal depth TBool level (if b then s "true" else s "false") = LBool b.
Proof. exact bool_literal_at_element_level. Qed.
Print Assumptions C17_boolean_literal_typed_at_its_level.

Example C17_nonvacuous :
  let r := {| r_method := s "GET"; r_path := s "/pets/{id}/items.json"; r_tags := [s "pets"; s "v2.store"]; r_id := s "listPetItems" |} in
  wf_route r = true /\ route_line (s "swagger:route") r = s "swagger:route GET /pets/{id}/items.json pets v2.store listPetItems" /\
  parse_route (s "swagger:route") (s "swagger:route  GET   /a   ab") = Some {| r_method := s "GET"; r_path := s "/a"; r_tags := []; r_id := s "ab" |} /\
  typed_literal 2 TInt 2 (s "3") = LInt 3 /\ typed_literal 2 TInt 1 (s "3") = LStr (s "3").
Proof. repeat split; vm_compute; reflexivity. Qed.

(* the documented syntax allows any operation id; the recogniser needs two characters: a one-letter id is not read
   (known finding c17/route-missing[one-letter-operation-id]) *)
Example C17_refuted_one_letter_id : parse_route (s "swagger:route") (s "swagger:route GET /a x") = None.
Proof. vm_compute. reflexivity. Qed.

(* ---------- the sectioned comment parser hands every tagger its own lines ---------- *)
(* lines are filed under the NAME of the first tagger that recognises them; with pairwise distinct names the entry of a
   tagger's name holds exactly the lines that tagger recognised first and is parsed by that tagger's setter *)
Theorem C17_tagger_entry_is_own : forall ts lines t,
  distinct (map t_name ts) = true -> well_indexed ts -> In t ts -> filed ts lines (t_name t) = own_lines ts lines t.
Proof. exact filed_is_own. Qed.
Print Assumptions C17_tagger_entry_is_own.
Theorem C17_tagger_entry_owner : forall ts lines t o,
  distinct (map t_name ts) = true -> In t ts -> entry_owner ts lines (t_name t) = Some o -> o = t.
Proof. exact entry_owner_is_self. Qed.
Print Assumptions C17_tagger_entry_owner.
(* ... and the tagger lists of the current source (regenerated from codescan/*.go on every run) meet the hypothesis *)
Theorem C17_tagger_names_distinct : forall g, In g tagger_lists -> distinct (snd g) = true.
Proof. intros g H. exact (proj1 (forallb_forall _ _) tagger_lists_distinct g H). Qed.
Print Assumptions C17_tagger_names_distinct.

(* Props/C14.v — diff reports the direction of every change correctly.
   PARTIAL: proved for every value-level comparison of the analyser, for all inputs; the whole-document
   statement is REFUTED on the faithful model (witnesses below, replayed on the implementation: known findings). *)
From Coq Require Import Permutation.
From GS Require Import Base.Str Gen.GenDiffTables Tools.DiffTypes Tools.DiffSpec Tools.DiffModel Tools.DiffModelLemmas Tools.DiffExt Tools.DiffExtLemmas Tools.DiffIdentity Tools.DiffDocMirror.

Theorem C14_int_bounds_mirror : forall n a b gt lt,
  mirror_code gt = lt -> mirror_code lt = gt ->
  codes (compare_int_values n a b gt lt) = map mirror_code (codes (compare_int_values n b a gt lt)).
Proof. exact compare_int_values_mirror. Qed.
Print Assumptions C14_int_bounds_mirror.

Theorem C14_float_bounds_mirror : forall n a b gt lt,
  mirror_code gt = lt -> mirror_code lt = gt ->
  codes (compare_float_values n a b gt lt) = map mirror_code (codes (compare_float_values n b a gt lt)).
Proof. exact compare_float_values_mirror. Qed.
Print Assumptions C14_float_bounds_mirror.

Theorem C14_numeric_mirror : forall x1 x2,
  codes (check_numeric x1 x2) = map mirror_code (codes (check_numeric x2 x1)).
Proof. exact check_numeric_mirror. Qed.
Print Assumptions C14_numeric_mirror.

Theorem C14_required_mirror : forall r1 r2,
  codes (check_required r1 r2) = map mirror_code (codes (check_required r2 r1)).
Proof. exact check_required_mirror. Qed.
Print Assumptions C14_required_mirror.

(* vendor extensions: whatever is added from e1 to e2 is deleted from e2 to e1, key by key, at the very same location
   (and vice versa), for every pair of extension tables, every location and every field prefix *)
Theorem C14_extension_added_mirrors_deleted : forall e1 e2 l p, map flip_ext (check_added e1 e2 l p) = check_deleted e2 e1 l p.
Proof. exact check_added_mirror. Qed.
Print Assumptions C14_extension_added_mirrors_deleted.

Theorem C14_extension_deleted_mirrors_added : forall e1 e2 l p, map flip_ext (check_deleted e1 e2 l p) = check_added e2 e1 l p.
Proof. exact check_deleted_mirror. Qed.
Print Assumptions C14_extension_deleted_mirrors_added.

(* a changed value is reported both ways, at the same location (direction-less) *)
Theorem C14_extension_changed_both_ways : forall e1 e2 l p, NoDup (keys e1) -> NoDup (keys e2) ->
  forall d, In d (check_changed e1 e2 l p) <-> In d (check_changed e2 e1 l p).
Proof. exact check_changed_sym. Qed.
Print Assumptions C14_extension_changed_both_ways.

Example C14_extension_nonvacuous :
  check_added [(s "x-a", DInt 1)] [(s "x-a", DInt 1); (s "x-b", DStr (s "v"))] (node_loc (s "Spec")) [] <> [] /\
  check_deleted [(s "x-a", DInt 1); (s "x-b", DStr (s "v"))] [(s "x-a", DInt 1)] (node_loc (s "Spec")) [] <> [].
Proof. split; vm_compute; discriminate. Qed.

Theorem C14_string_lists_swap : forall a b,
  diffs_to (Some a) (Some b) = (snd (diffs_to (Some b) (Some a)), fst (diffs_to (Some b) (Some a))).
Proof. exact diffs_to_swap. Qed.
Print Assumptions C14_string_lists_swap.

Theorem C14_enums_mirror : forall l r,
  Permutation (codes (compare_enums l r)) (map mirror_code (codes (compare_enums r l))).
Proof. exact compare_enums_mirror. Qed.
Print Assumptions C14_enums_mirror.

(* mirror is an involution on every code that has a direction, and fixes the others *)
Lemma mirror_involutive_dir : forall c, c <> AddedRequiredProperty -> c <> DeletedDeprecatedEndpoint -> mirror_code (mirror_code c) = c.
Proof. intros c H1 H2. destruct c; try reflexivity; contradiction. Qed.
Theorem C14_mirror_involutive : forall c, c <> AddedRequiredProperty -> c <> DeletedDeprecatedEndpoint -> mirror_code (mirror_code c) = c.
Proof. exact mirror_involutive_dir. Qed.
Print Assumptions C14_mirror_involutive.

(* ---------- document level, for the parts of the analysis that do not walk schemas ---------- *)
(* endpoints: the multiset of (location, code) of B against A is the mirror of A against B — added <-> deleted at the
   same (url, method) — when no endpoint that B alone has is deprecated (a deleted deprecated endpoint has a code of
   its own, whose mirror is a plain addition) *)
Theorem C14_doc_endpoints_mirror : forall um1 um2, no_deprecated um2 ->
  Permutation (map lc_mirror (analyse_endpoints um1 um2)) (map lc (analyse_endpoints um2 um1)).
Proof. exact endpoints_mirror. Qed.
Print Assumptions C14_doc_endpoints_mirror.

(* consumes / produces / schemes (and any pair of mirrored codes over two string lists), at one location *)
Theorem C14_doc_string_lists_mirror : forall (x y : list str) (l : loc) (ca cd : code),
  mirror_code ca = cd -> mirror_code cd = ca ->
  let ad := diffs_to (Some x) (Some y) in let ad' := diffs_to (Some y) (Some x) in
  Permutation (map lc_mirror (map (fun v => mk_diff l ca v) (fst ad) ++ map (fun v => mk_diff l cd v) (snd ad)))
              (map lc (map (fun v => mk_diff l ca v) (fst ad') ++ map (fun v => mk_diff l cd v) (snd ad'))).
Proof. exact list_pair_mirror. Qed.
Print Assumptions C14_doc_string_lists_mirror.

(* the whole metadata section (consumes, produces, schemes, description, host, base path) of two documents that both
   declare the three lists *)
Theorem C14_doc_metadata_mirror : forall a b, lists_present a -> lists_present b ->
  Permutation (map lc_mirror (analyse_metadata a b)) (map lc (analyse_metadata b a)).
Proof. exact metadata_mirror. Qed.
Print Assumptions C14_doc_metadata_mirror.

(* the tags of an operation that both documents have *)
Theorem C14_doc_tags_mirror : forall (k : str * str) (t1 t2 : list str),
  let ad := diffs_to (Some t1) (Some t2) in let ad' := diffs_to (Some t2) (Some t1) in
  Permutation
    (map lc_mirror (map (fun t => mk_diff (um_loc k) AddedTag (quote t)) (fst ad) ++ map (fun t => mk_diff (um_loc k) DeletedTag (quote t)) (snd ad)))
    (map lc (map (fun t => mk_diff (um_loc k) AddedTag (quote t)) (fst ad') ++ map (fun t => mk_diff (um_loc k) DeletedTag (quote t)) (snd ad'))).
Proof. exact tags_mirror. Qed.
Print Assumptions C14_doc_tags_mirror.

(* --- the whole-document statement is false of the faithful model --- *)
Definition op0 (desc : str) : operation :=
  {| o_tags := None; o_desc := desc; o_deprecated := false; o_params := [];
     o_responses := [(200%Z, {| r_desc := s "ok"; r_schema := None; r_headers := [] |})] |}.
Definition sw0 (desc : str) : swagger :=
  {| sw_consumes := None; sw_produces := None; sw_schemes := None; sw_host := []; sw_basepath := []; sw_info_desc := [];
     sw_paths := [(s "/a", {| pi_params := []; pi_ops := [(s "get", op0 desc)] |})]; sw_defs := [] |}.

Lemma mirror_refuted_description :
  exists A B ds ds', analyse 8 A B = Ok ds /\ analyse 8 B A = Ok ds' /\
                     map d_code ds = [DeletedDescripton] /\ map d_code ds' = [DeletedDescripton] /\
                     map mirror_code (map d_code ds) <> map d_code ds'.
Proof.
  exists (sw0 (s "one")), (sw0 (s "two")). eexists. eexists.
  split; [vm_compute; reflexivity|]. split; [vm_compute; reflexivity|].
  split; [reflexivity|]. split; [reflexivity|]. discriminate.
Qed.
Theorem C14_document_mirror_refuted_description :
  exists A B ds ds', analyse 8 A B = Ok ds /\ analyse 8 B A = Ok ds' /\
                     map d_code ds = [DeletedDescripton] /\ map d_code ds' = [DeletedDescripton] /\
                     map mirror_code (map d_code ds) <> map d_code ds'.
Proof. exact mirror_refuted_description. Qed.
Print Assumptions C14_document_mirror_refuted_description.

(* the enum guard: an enum added where none existed is silent one way and reported the other way *)
Definition str_schema (e : list enumv) : schema :=
  Schema [] [s "string"] [] [] {| v_max := None; v_min := None; v_xmax := false; v_xmin := false; v_maxlen := None; v_minlen := None;
                                   v_maxitems := None; v_minitems := None; v_pattern := []; v_enum := e |} None [] [] [].
Lemma mirror_refuted_enum :
  compare_props (str_schema []) (str_schema [EStr (s "a")]) = Ok [] /\
  exists t, compare_props (str_schema [EStr (s "a")]) (str_schema []) = Ok [t] /\ td_change t = DeletedEnumValue.
Proof. split; [reflexivity|]. eexists. split; reflexivity. Qed.
Theorem C14_enum_guard_refuted :
  compare_props (str_schema []) (str_schema [EStr (s "a")]) = Ok [] /\
  exists t, compare_props (str_schema [EStr (s "a")]) (str_schema []) = Ok [t] /\ td_change t = DeletedEnumValue.
Proof. exact mirror_refuted_enum. Qed.
Print Assumptions C14_enum_guard_refuted.

Example C14_nonvacuous :
  codes (compare_int_values (s "MaxLength") (Some 3%Z) (Some 9%Z) WidenedType NarrowedType) = [WidenedType] /\
  codes (compare_int_values (s "MaxLength") (Some 9%Z) (Some 3%Z) WidenedType NarrowedType) = [NarrowedType].
Proof. split; reflexivity. Qed.

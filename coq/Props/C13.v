(* Props/C13.v — diff never reports a request-breaking change as compatible.
   PARTIAL: soundness is proved for the value-level comparisons (bounds, lengths, item counts, exclusivity,
   enum values) for all inputs, and for the translated compatibility policy; the known gaps of the analyser are
   stated as REFUTED witnesses (replayed on the implementation: known findings).
   Composition over the document walk (Tools/DiffDocSound.v): for ANY two documents and ANY fuel, if the analysis
   returns a report, the report holds a Breaking entry — and `swagger diff` then exits non-zero — whenever an endpoint
   is removed, a parameter is added as required or becomes required, a primitive parameter (number, string) rejects a
   value it accepted, a response code or a response header is removed, a request body gains a required property, a response body loses a property (the C13_doc_ theorems
   below). What remains exercised only: edits deeper inside a body or response schema (nested properties, items, allOf,
   references), which the recursive compare_schema walks. *)
From GS Require Import Base.Str Gen.GenDiffTables Tools.DiffTypes Tools.DiffSpec Tools.DiffModel Tools.DiffModelLemmas Tools.DiffSound Tools.DiffParams Tools.DiffReport Tools.DiffIdentity Tools.DiffDocSound.

(* the policy tables regenerated from compatibility.go classify the request-narrowing codes as Breaking *)
Lemma policy_request :
  forallb breaking_req [AddedRequiredProperty; DeletedProperty; AddedRequiredParam; NarrowedType; ChangedType;
                        ChangedOptionalToRequired; DeletedEnumValue; AddedConstraint; ChangedCollectionFormat;
                        DeletedEndpoint; DeletedConsumesFormat; RefTargetChanged] = true.
Proof. vm_compute. reflexivity. Qed.
Theorem C13_policy_request_breaking :
  forallb breaking_req [AddedRequiredProperty; DeletedProperty; AddedRequiredParam; NarrowedType; ChangedType;
                        ChangedOptionalToRequired; DeletedEnumValue; AddedConstraint; ChangedCollectionFormat;
                        DeletedEndpoint; DeletedConsumesFormat; RefTargetChanged] = true.
Proof. exact policy_request. Qed.
Print Assumptions C13_policy_request_breaking.

Lemma policy_response :
  forallb (fun c => compat_eqb (get_compat c true) Breaking)
          [DeletedResponse; DeletedProperty; DeletedResponseHeader; AddedEnumValue] = true.
Proof. vm_compute. reflexivity. Qed.
Theorem C13_policy_response_breaking :
  forallb (fun c => compat_eqb (get_compat c true) Breaking)
          [DeletedResponse; DeletedProperty; DeletedResponseHeader; AddedEnumValue] = true.
Proof. exact policy_response. Qed.
Print Assumptions C13_policy_response_breaking.

(* lengths and item counts: any n accepted before and rejected after yields a Breaking entry *)
Theorem C13_range_sound : forall nlo nhi lo1 hi1 lo2 hi2 n,
  sat_range lo1 hi1 n = true -> sat_range lo2 hi2 n = false ->
  existsb (fun t => breaking_req (td_change t))
    (compare_int_values nlo lo1 lo2 NarrowedType WidenedType ++ compare_int_values nhi hi1 hi2 WidenedType NarrowedType) = true.
Proof. exact compare_range_sound. Qed.
Print Assumptions C13_range_sound.

(* numeric bounds, same exclusivity on both sides *)
Theorem C13_numeric_sound : forall x1 x2 v,
  v_xmax x1 = v_xmax x2 -> v_xmin x1 = v_xmin x2 ->
  sat_numeric x1 v = true -> sat_numeric x2 v = false ->
  existsb (fun t => breaking_req (td_change t))
    (compare_float_values (s "Maximum") (v_max x1) (v_max x2) WidenedType NarrowedType ++
     compare_float_values (s "Minimum") (v_min x1) (v_min x2) NarrowedType WidenedType) = true.
Proof. exact compare_numeric_sound. Qed.
Print Assumptions C13_numeric_sound.

Theorem C13_exclusive_added_sound : forall x1 x2,
  (v_xmax (sc_vals x1) = false /\ v_xmax (sc_vals x2) = true) \/ (v_xmin (sc_vals x1) = false /\ v_xmin (sc_vals x2) = true) ->
  wideness (hd_type (sc_typ x1)) <> None -> wideness (hd_type (sc_typ x2)) <> None ->
  existsb (fun t => breaking_req (td_change t)) (check_numeric x1 x2) = true.
Proof. exact exclusive_added_sound. Qed.
Print Assumptions C13_exclusive_added_sound.

Theorem C13_enum_deleted_sound : forall l r e,
  In (enumv_fmt e) (map enumv_fmt l) -> ~ In (enumv_fmt e) (map enumv_fmt r) ->
  existsb (fun t => breaking_req (td_change t)) (compare_enums l r) = true.
Proof. exact enum_deleted_sound. Qed.
Print Assumptions C13_enum_deleted_sound.

(* one level up: whole primitive schemas through the control flow of CompareProps.
   numbers: a value accepted by the first schema and rejected by the second is reported Breaking whenever the
   exclusivity flags agree (the analyser looks at the bounds only then), and adding exclusivity is reported by itself *)
Theorem C13_numeric_schema_sound : forall x1 x2 t v,
  sc_ref x1 = [] -> sc_ref x2 = [] -> sc_typ x1 = [t] -> sc_typ x2 = [t] -> sc_format x1 = sc_format x2 -> wideness t <> None ->
  ((v_xmax (sc_vals x1) = v_xmax (sc_vals x2) /\ v_xmin (sc_vals x1) = v_xmin (sc_vals x2) /\
    sat_numeric (sc_vals x1) v = true /\ sat_numeric (sc_vals x2) v = false) \/
   (v_xmax (sc_vals x1) = false /\ v_xmax (sc_vals x2) = true) \/ (v_xmin (sc_vals x1) = false /\ v_xmin (sc_vals x2) = true)) ->
  exists l, compare_props x1 x2 = Ok l /\ breaking_list l = true.
Proof. exact numeric_schema_sound. Qed.
Print Assumptions C13_numeric_schema_sound.

(* strings: length bounds, pattern (any matching engine), enumeration — unless an enumeration is added where none was *)
Theorem C13_string_schema_sound : forall matches x1 x2 len v,
  sc_ref x1 = [] -> sc_ref x2 = [] -> sc_typ x1 = [s "string"] -> sc_typ x2 = [s "string"] -> sc_format x1 = sc_format x2 ->
  (v_enum (sc_vals x1) = [] -> v_enum (sc_vals x2) = []) ->
  sat_string matches (sc_vals x1) len v = true -> sat_string matches (sc_vals x2) len v = false ->
  exists l, compare_props x1 x2 = Ok l /\ breaking_list l = true.
Proof. exact string_schema_sound. Qed.
Print Assumptions C13_string_schema_sound.

(* --- gaps of the analyser: the full statement is false of the faithful model --- *)
Definition int_schema (mx : option Z) (xm : bool) (e : list enumv) : schema :=
  Schema [] [s "integer"] [] [] {| v_max := mx; v_min := None; v_xmax := xm; v_xmin := false; v_maxlen := None; v_minlen := None;
                                    v_maxitems := None; v_minitems := None; v_pattern := []; v_enum := e |} None [] [] [].

(* 60 is accepted by {maximum 100, exclusive} and rejected by {maximum 50}: only "Exclusive Maximum Removed" (Widened) is reported *)
Lemma gap_exclusive_removed_and_bound_lowered :
  sat_numeric (sc_vals (int_schema (Some 100%Z) true [])) 60 = true /\
  sat_numeric (sc_vals (int_schema (Some 50%Z) false [])) 60 = false /\
  exists l, compare_props (int_schema (Some 100%Z) true []) (int_schema (Some 50%Z) false []) = Ok l /\
            existsb (fun t => breaking_req (td_change t)) l = false.
Proof. split; [reflexivity|]. split; [reflexivity|]. eexists. split; reflexivity. Qed.
Theorem C13_refuted_exclusive_removed_bound_lowered :
  sat_numeric (sc_vals (int_schema (Some 100%Z) true [])) 60 = true /\
  sat_numeric (sc_vals (int_schema (Some 50%Z) false [])) 60 = false /\
  exists l, compare_props (int_schema (Some 100%Z) true []) (int_schema (Some 50%Z) false []) = Ok l /\
            existsb (fun t => breaking_req (td_change t)) l = false.
Proof. exact gap_exclusive_removed_and_bound_lowered. Qed.
Print Assumptions C13_refuted_exclusive_removed_bound_lowered.

(* integer enums are never compared; an enum added to a string where none existed is not reported *)
Lemma gap_integer_enum : compare_props (int_schema None false [EInt 1; EInt 2]) (int_schema None false [EInt 1]) = Ok [].
Proof. reflexivity. Qed.
Theorem C13_refuted_integer_enum_narrowed :
  compare_props (int_schema None false [EInt 1; EInt 2]) (int_schema None false [EInt 1]) = Ok [].
Proof. exact gap_integer_enum. Qed.
Print Assumptions C13_refuted_integer_enum_narrowed.

Example C13_nonvacuous :
  sat_range (Some 1%Z) (Some 9%Z) 7 = true /\ sat_range (Some 1%Z) (Some 5%Z) 7 = false /\
  sat_numeric (sc_vals (int_schema (Some 10%Z) false [])) 10 = true /\ sat_numeric (sc_vals (int_schema (Some 10%Z) true [])) 10 = false.
Proof. repeat split; reflexivity. Qed.

(* ---------- which declaration of a parameter is compared ---------- *)
(* a parameter is identified by name and location; the operation's declaration replaces the path item's *)
Theorem C13_effective_param : forall pp op location n,
  assoc n (get_params pp op location) =
  match declared op n location with Some p => Some p | None => declared pp n location end.
Proof. exact effective_param. Qed.
Print Assumptions C13_effective_param.

(* what is compared at a location was declared for that location under that name ... *)
Theorem C13_effective_param_sound : forall pp op location n p,
  assoc n (get_params pp op location) = Some p -> (In p op \/ In p pp) /\ p_in p = location /\ p_name p = n.
Proof. exact effective_param_sound. Qed.
Print Assumptions C13_effective_param_sound.

(* ... and no declaration is lost, whatever other locations use the same name *)
Theorem C13_effective_param_complete : forall pp op location p,
  In p op \/ In p pp -> p_in p = location -> assoc (p_name p) (get_params pp op location) <> None.
Proof. exact effective_param_complete. Qed.
Print Assumptions C13_effective_param_complete.

(* ---------- the same clauses on whole documents: through the loops of SpecAnalyser.Analyse ---------- *)
(* a Breaking entry makes the command exit non-zero (text report, no ignore file; with and without --break) *)
Theorem C13_breaking_entry_exit_status : forall ds only_breaking, reports_breaking ds -> execute_fails false only_breaking ds [] = true.
Proof. exact reports_breaking_exit. Qed.
Print Assumptions C13_breaking_entry_exit_status.

Theorem C13_doc_endpoint_removed : forall fuel a b ds k pit op,
  analyse fuel a b = Ok ds -> In (k, (pit, op)) (url_methods a) -> find_um k (url_methods b) = None ->
  options_deprecated pit || o_deprecated op = false -> reports_breaking ds.
Proof. exact doc_endpoint_removed. Qed.
Print Assumptions C13_doc_endpoint_removed.

(* [k] is an operation (url, method) of both documents; params1/params2 are its effective parameters at [location]
   (C13_effective_param: operation level over path level, identity by name and location) *)
Theorem C13_doc_required_param_added : forall fuel a b ds, analyse fuel a b = Ok ds ->
  forall location k pit1 pit2 op1 op2, In location param_locations ->
  In (k, (pit2, op2)) (url_methods b) -> find_um k (url_methods a) = Some (pit1, op1) ->
  forall n p2, In (n, p2) (get_params (pi_params pit2) (o_params op2) location) ->
  assoc n (get_params (pi_params pit1) (o_params op1) location) = None -> p_required p2 = true -> reports_breaking ds.
Proof. exact doc_required_param_added. Qed.
Print Assumptions C13_doc_required_param_added.

Theorem C13_doc_param_became_required : forall fuel a b ds, analyse fuel a b = Ok ds ->
  forall location k pit1 pit2 op1 op2, In location param_locations ->
  In (k, (pit2, op2)) (url_methods b) -> find_um k (url_methods a) = Some (pit1, op1) ->
  forall n p1 p2, In (n, p2) (get_params (pi_params pit2) (o_params op2) location) ->
  assoc n (get_params (pi_params pit1) (o_params op1) location) = Some p1 ->
  p_required p1 = false -> p_required p2 = true -> reports_breaking ds.
Proof. exact doc_param_became_required. Qed.
Print Assumptions C13_doc_param_became_required.

Theorem C13_doc_numeric_param_narrowed : forall fuel a b ds, analyse fuel a b = Ok ds ->
  forall location k pit1 pit2 op1 op2, In location param_locations ->
  In (k, (pit2, op2)) (url_methods b) -> find_um k (url_methods a) = Some (pit1, op1) ->
  forall n p1 p2 t v, In (n, p2) (get_params (pi_params pit2) (o_params op2) location) ->
  assoc n (get_params (pi_params pit1) (o_params op1) location) = Some p1 ->
  si_typ (p_simple p1) = t -> si_typ (p_simple p2) = t -> si_format (p_simple p1) = si_format (p_simple p2) -> wideness t <> None ->
  let x1 := si_vals (p_simple p1) in let x2 := si_vals (p_simple p2) in
  ((v_xmax x1 = v_xmax x2 /\ v_xmin x1 = v_xmin x2 /\ sat_numeric x1 v = true /\ sat_numeric x2 v = false) \/
   (v_xmax x1 = false /\ v_xmax x2 = true) \/ (v_xmin x1 = false /\ v_xmin x2 = true)) ->
  reports_breaking ds.
Proof. exact doc_numeric_param_narrowed. Qed.
Print Assumptions C13_doc_numeric_param_narrowed.

Theorem C13_doc_string_param_narrowed : forall fuel a b ds, analyse fuel a b = Ok ds ->
  forall location k pit1 pit2 op1 op2, In location param_locations ->
  In (k, (pit2, op2)) (url_methods b) -> find_um k (url_methods a) = Some (pit1, op1) ->
  forall matches n p1 p2 len v, In (n, p2) (get_params (pi_params pit2) (o_params op2) location) ->
  assoc n (get_params (pi_params pit1) (o_params op1) location) = Some p1 ->
  si_typ (p_simple p1) = s "string" -> si_typ (p_simple p2) = s "string" -> si_format (p_simple p1) = si_format (p_simple p2) ->
  let x1 := si_vals (p_simple p1) in let x2 := si_vals (p_simple p2) in
  (v_enum x1 = [] -> v_enum x2 = []) ->
  sat_string matches x1 len v = true -> sat_string matches x2 len v = false -> reports_breaking ds.
Proof. exact doc_string_param_narrowed. Qed.
Print Assumptions C13_doc_string_param_narrowed.

(* a parameter that left its location (removed, or moved elsewhere) is listed — as a deletion, which the policy does
   not count as request-breaking; when it is required at its new location, C13_doc_required_param_added applies there *)
Theorem C13_doc_param_removed_reported : forall fuel a b ds, analyse fuel a b = Ok ds ->
  forall location k pit1 pit2 op1 op2, In location param_locations ->
  In (k, (pit2, op2)) (url_methods b) -> find_um k (url_methods a) = Some (pit1, op1) ->
  forall n p, In (n, p) (get_params (pi_params pit1) (o_params op1) location) ->
  has_key n (get_params (pi_params pit2) (o_params op2) location) = false ->
  exists t, In (mk_diff (loc_add (param_root k location) (node_of n t)) (if p_required p then DeletedRequiredParam else DeletedOptionalParam) []) ds.
Proof. exact doc_param_removed_reported. Qed.
Print Assumptions C13_doc_param_removed_reported.

Theorem C13_doc_response_removed : forall fuel a b ds, analyse fuel a b = Ok ds ->
  forall k pit1 pit2 op1 op2, In (k, (pit2, op2)) (url_methods b) -> find_um k (url_methods a) = Some (pit1, op1) ->
  forall c r1, In (c, r1) (o_responses op1) -> assocZ c (o_responses op2) = None -> reports_breaking ds.
Proof. exact doc_response_removed. Qed.
Print Assumptions C13_doc_response_removed.

Theorem C13_doc_response_header_removed : forall fuel a b ds, analyse fuel a b = Ok ds ->
  forall k pit1 pit2 op1 op2, In (k, (pit2, op2)) (url_methods b) -> find_um k (url_methods a) = Some (pit1, op1) ->
  forall c r1 r2 n h1, In (c, r2) (o_responses op2) -> assocZ c (o_responses op1) = Some r1 ->
  In (n, h1) (r_headers r1) -> has_key n (r_headers r2) = false -> reports_breaking ds.
Proof. exact doc_response_header_removed. Qed.
Print Assumptions C13_doc_response_header_removed.

(* a request body — inline object schemas without allOf whose own keywords agree — gains a property its schema requires *)
Theorem C13_doc_body_required_property_added : forall fuel a b ds, analyse fuel a b = Ok ds ->
  forall location k pit1 pit2 op1 op2, In location param_locations ->
  In (k, (pit2, op2)) (url_methods b) -> find_um k (url_methods a) = Some (pit1, op1) ->
  forall n p1 p2 s1 s2 name sc2, In (n, p2) (get_params (pi_params pit2) (o_params op2) location) ->
  assoc n (get_params (pi_params pit1) (o_params op1) location) = Some p1 ->
  p_schema p1 = Some s1 -> p_schema p2 = Some s2 ->
  is_ref s1 = false -> is_ref s2 = false -> sc_allof s1 = [] -> sc_allof s2 = [] ->
  compare_props s1 s2 = Ok [] -> is_array_type (sc_typ s1) = false -> NoDup (keys (sc_props s2)) ->
  In (name, sc2) (sc_props s2) -> has_key name (sc_props s1) = false -> mem name (sc_required s2) = true ->
  reports_breaking ds.
Proof. exact doc_body_required_property_added. Qed.
Print Assumptions C13_doc_body_required_property_added.

(* the response side: a response body — inline object schemas without allOf whose own keywords agree — loses a property *)
Theorem C13_doc_response_property_removed : forall fuel a b ds, analyse fuel a b = Ok ds ->
  forall k pit1 pit2 op1 op2, In (k, (pit2, op2)) (url_methods b) -> find_um k (url_methods a) = Some (pit1, op1) ->
  forall c r1 r2 x1 x2 name sc1, In (c, r2) (o_responses op2) -> assocZ c (o_responses op1) = Some r1 ->
  r_schema r1 = Some x1 -> r_schema r2 = Some x2 ->
  is_ref x1 = false -> is_ref x2 = false -> sc_allof x1 = [] -> sc_allof x2 = [] ->
  compare_props x1 x2 = Ok [] -> is_array_type (sc_typ x1) = false ->
  In (name, sc1) (sc_props x1) -> has_key name (sc_props x2) = false -> reports_breaking ds.
Proof. exact doc_response_property_removed. Qed.
Print Assumptions C13_doc_response_property_removed.

Definition doc_body (props : list (str * schema)) (req : list str) : swagger :=
  {| sw_consumes := None; sw_produces := None; sw_schemes := None; sw_host := []; sw_basepath := []; sw_info_desc := [];
     sw_paths := [(s "/pets", {| pi_params := [];
        pi_ops := [(s "post", {| o_tags := None; o_desc := []; o_deprecated := false;
            o_params := [{| p_name := s "body"; p_in := s "body"; p_required := true; p_desc := [];
                            p_schema := Some (Schema [] [s "object"] [] [] no_vals None props req []);
                            p_simple := Simple [] [] [] false DNone DNone no_vals None |}];
            o_responses := [(204%Z, {| r_desc := s "ok"; r_schema := None; r_headers := [] |})] |})] |})];
     sw_defs := [] |}.
Example C13_doc_body_nonvacuous :
  let str_s := Schema [] [s "string"] [] [] no_vals None [] [] [] in
  exists ds, analyse 4 (doc_body [(s "name", str_s)] []) (doc_body [(s "name", str_s); (s "zip", str_s)] [s "zip"]) = Ok ds /\ has_breaking ds = true.
Proof. eexists. split; vm_compute; reflexivity. Qed.

(* non-vacuity: two documents that meet the hypotheses of the narrowed-parameter clause; the analysis returns and
   the report holds the Breaking entry *)
Definition doc_lim (mx : Z) (req : bool) : swagger :=
  {| sw_consumes := None; sw_produces := None; sw_schemes := None; sw_host := []; sw_basepath := []; sw_info_desc := [];
     sw_paths := [(s "/pets", {| pi_params := [];
        pi_ops := [(s "get", {| o_tags := None; o_desc := []; o_deprecated := false;
            o_params := [{| p_name := s "limit"; p_in := s "query"; p_required := req; p_desc := []; p_schema := None;
                            p_simple := Simple (s "integer") (s "int32") [] false DNone DNone
                              {| v_max := Some mx; v_min := None; v_xmax := false; v_xmin := false; v_maxlen := None; v_minlen := None;
                                 v_maxitems := None; v_minitems := None; v_pattern := []; v_enum := [] |} None |}];
            o_responses := [(200%Z, {| r_desc := s "ok"; r_schema := None; r_headers := [] |})] |})] |})];
     sw_defs := [] |}.
Example C13_doc_nonvacuous :
  exists ds, analyse 3 (doc_lim 100 false) (doc_lim 50 false) = Ok ds /\ has_breaking ds = true /\
             execute_fails false false ds [] = true /\
  exists ds', analyse 3 (doc_lim 100 false) (doc_lim 100 true) = Ok ds' /\ has_breaking ds' = true.
Proof. eexists. split; [vm_compute; reflexivity|]. split; [vm_compute; reflexivity|]. split; [vm_compute; reflexivity|].
  eexists. split; vm_compute; reflexivity. Qed.

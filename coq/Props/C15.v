(* Props/C15.v — diff: ignore file, report formats and exit status are coherent.
   Only theorem statements closed by [exact lemma]; proofs live in Tools/DiffReportLemmas.v. *)
From Coq Require Import Permutation.
From GS Require Import Base.Str Base.Json Gen.GenDiffTables Tools.DiffTypes Tools.DiffReport Tools.DiffReportLemmas.

(* the JSON identifiers of change codes / compatibilities decode back to the same constant
   (re-checked against the tables regenerated from difftypes.go on every run) *)
Theorem C15_code_roundtrip : forall c, decode_code (enc_code c) = Some c.
Proof. exact code_roundtrip. Qed.
Print Assumptions C15_code_roundtrip.

Theorem C15_compat_roundtrip : forall c, decode_compat (enc_compat c) = Some c.
Proof. exact compat_roundtrip. Qed.
Print Assumptions C15_compat_roundtrip.

(* every difference, whatever strings and node depth it carries, survives the JSON report *)
Theorem C15_diff_json_roundtrip : forall d, diff_of_json (diff_json d) = Some d.
Proof. exact diff_roundtrip. Qed.
Print Assumptions C15_diff_json_roundtrip.

(* an ignore entry matches exactly the difference it was copied from *)
Theorem C15_matches_eq : forall a b, matches a b = true <-> a = b.
Proof. exact matches_eq. Qed.
Print Assumptions C15_matches_eq.

(* ignoring a subset removes exactly those entries and nothing else (ds as produced by the analyser) *)
Theorem C15_filter_exact : forall ds ig d, Forall canonical ds ->
  (In d (filter_ignores ds ig) <-> In d ds /\ ~ In d ig).
Proof. exact filter_ignores_In. Qed.
Print Assumptions C15_filter_exact.

Theorem C15_filter_is_filter : forall ds ig, Forall canonical ds ->
  filter_ignores ds ig = filter (fun d => negb (contains ig d)) ds.
Proof. exact filter_ignores_canonical. Qed.
Print Assumptions C15_filter_is_filter.

Theorem C15_ignore_all : forall ds, filter_ignores ds ds = [].
Proof. exact filter_ignores_all. Qed.
Print Assumptions C15_ignore_all.

Theorem C15_ignore_none : forall ds, Forall canonical ds -> filter_ignores ds [] = ds.
Proof. exact filter_ignores_nil. Qed.
Print Assumptions C15_ignore_none.

(* exit status, text and breaking-only modes: non-zero iff a non-ignored Breaking difference exists *)
Lemma exit_text_iff only_breaking ds ig :
  execute_fails false only_breaking ds ig = true <->
  exists d, In d (filter_ignores ds ig) /\ d_compat d = Breaking.
Proof.
  unfold execute_fails, report_all_fails, report_compat_fails. cbn [negb andb].
  destruct only_breaking.
  - apply breaking_count_pos.
  - destruct (filter_ignores ds ig) as [|d r] eqn:E.
    + split; [discriminate | intros [d [[] _]]].
    + apply breaking_count_pos.
Qed.

Theorem C15_exit_text : forall only_breaking ds ig,
  execute_fails false only_breaking ds ig = true <->
  exists d, In d (filter_ignores ds ig) /\ d_compat d = Breaking.
Proof. exact exit_text_iff. Qed.
Print Assumptions C15_exit_text.

(* the same statement for -f json is FALSE of the faithful model: the JSON branch returns no error.
   Witness replayed on the implementation by the harness => known finding C15/json-exit. *)
Definition c15_witness : list sdiff :=
  [mk_diff {| l_url := s "/a"; l_method := s "get"; l_response := 0; l_node := None |} DeletedEndpoint []].

Lemma exit_json_refuted :
  exists ds ig, (exists d, In d (filter_ignores ds ig) /\ d_compat d = Breaking) /\
                execute_fails true false ds ig = false.
Proof.
  exists c15_witness, []. split; [|reflexivity].
  eexists. split; [left; reflexivity | reflexivity].
Qed.

Theorem C15_exit_json_refuted :
  exists ds ig, (exists d, In d (filter_ignores ds ig) /\ d_compat d = Breaking) /\
                execute_fails true false ds ig = false.
Proof. exact exit_json_refuted. Qed.
Print Assumptions C15_exit_json_refuted.

(* the three reports describe the same differences *)
Theorem C15_text_report_lists_all : forall ds,
  Permutation (report_text_lines ds) (map diff_string ds).
Proof. exact report_text_lines_perm. Qed.
Print Assumptions C15_text_report_lists_all.

Theorem C15_breaking_report_lists_breaking : forall ds,
  Permutation (report_compat_lines ds) (map diff_string (filter (is_compat Breaking) ds)).
Proof. exact report_compat_lines_perm. Qed.
Print Assumptions C15_breaking_report_lists_breaking.

Lemma json_report_decodes ds : map diff_of_json (map diff_json ds) = map Some ds.
Proof. rewrite map_map. apply map_ext. exact diff_roundtrip. Qed.

Theorem C15_json_report_lists_all : forall ds, map diff_of_json (map diff_json ds) = map Some ds.
Proof. exact json_report_decodes. Qed.
Print Assumptions C15_json_report_lists_all.

(* non-vacuity: a canonical, non-trivial list with all three compatibilities *)
Example C15_nonvacuous :
  let ds := [mk_diff {| l_url := s "/a"; l_method := s "get"; l_response := 200;
                        l_node := Some (Node (s "Body") (s "A1") true (Some (leaf (s "p")))) |} DeletedProperty (s "x");
             mk_diff {| l_url := s "/a"; l_method := s "get"; l_response := 0; l_node := Some (leaf (s "Query")) |} AddedOptionalParam [];
             mk_diff {| l_url := []; l_method := []; l_response := 0; l_node := Some (leaf (s "Spec")) |} AddedExtension []] in
  Forall canonical ds /\ map d_compat ds = [Breaking; NonBreaking; Warning] /\
  execute_fails false false ds [] = true /\ execute_fails false false ds ds = false.
Proof. cbv zeta. split; [repeat constructor|]. split; [reflexivity|]. split; reflexivity. Qed.

(* Props/C08.v — no operation or definition is silently dropped or merged.
   The naming plan of the generator (gatherOperations + the collision checks of newAppGenerator / makeCodegenApp /
   buildProperties) either fails or gives every operation, definition and property a Go name of its own.
   Routing of a request to its handler is exercised on the compiled generated server (servercheck), not modelled. *)
From GS Require Import Base.Str Tools.Names Tools.NamesLemmas.

Theorem C08_operations : forall u ops m, plan_ops u ops = Some m ->
  (forall o, In o ops -> exists k e, In (k, e) m /\ same_route e o) /\
  NoDup (map fst m) /\ NoDup (map (fun kv => pascalize u (fst kv)) m) /\
  (forall o1 o2 k1 k2 e1 e2, In (k1, e1) m -> In (k2, e2) m -> same_route e1 o1 -> same_route e2 o2 -> ~ same_route o1 o2 ->
     k1 <> k2 /\ pascalize u k1 <> pascalize u k2).
Proof. exact plan_ops_own_names. Qed.
Print Assumptions C08_operations.

(* with the packages of the tags: server and client compare go names inside each package, the cli (one package for the
   commands of all operations: flat = true) across all of them *)
Theorem C08_operations_packages : forall u pk flat ops m, plan_ops_pkg u pk flat ops = Some m ->
  (forall o, In o ops -> exists k e, In (k, e) m /\ same_route e o) /\
  NoDup (map fst m) /\
  (forall o1 o2 k1 k2 e1 e2, In (k1, e1) m -> In (k2, e2) m -> same_route e1 o1 -> same_route e2 o2 -> ~ same_route o1 o2 ->
     k1 <> k2 /\ ((flat = true \/ pkg_of pk e1 = pkg_of pk e2) -> pascalize u k1 <> pascalize u k2)).
Proof. exact plan_ops_pkg_own_names. Qed.
Print Assumptions C08_operations_packages.

(* two operations of different tags whose ids give the same go name: accepted by server and client, refused by the cli *)
Example C08_packages_nonvacuous :
  let ops := [{| o_method := s "POST"; o_path := s "/orders/search"; o_id := s "search-items" |};
              {| o_method := s "POST"; o_path := s "/products/search"; o_id := s "search_items" |}] in
  let pk := [((s "POST", s "/orders/search"), s "orders"); ((s "POST", s "/products/search"), s "products")] in
  (exists m, plan_ops_pkg au pk false ops = Some m /\ length m = 2) /\ plan_ops_pkg au pk true ops = None /\ plan_ops_pkg au [] false ops = None.
Proof. split; [eexists; split; vm_compute; reflexivity|]. split; vm_compute; reflexivity. Qed.

Theorem C08_definitions : forall u defs p, plan_defs u defs = Some p ->
  map fst p = defs /\ NoDup (map (def_type u) defs) /\ NoDup (map (def_file u) defs).
Proof. exact plan_defs_own_names. Qed.
Print Assumptions C08_definitions.

Theorem C08_properties : forall u props p, plan_props u props = Some p -> map fst p = props /\ NoDup (map (pascalize u) props).
Proof. exact plan_props_own_names. Qed.
Print Assumptions C08_properties.

(* the model file of a definition is always part of a normal build (shared with C01) *)
Theorem C08_model_file_built : forall u name, mem (last (mangle_file_parts u name) []) build_suffixes = false.
Proof. exact mangle_file_safe. Qed.
Print Assumptions C08_model_file_built.

Example C08_nonvacuous :
  plan_defs au [s "a-b"; s "a_b"] = None /\ plan_defs au [s "a-b"; s "ab2"] <> None /\
  plan_ops au [{| o_method := s "GET"; o_path := s "/a-b"; o_id := [] |}; {| o_method := s "GET"; o_path := s "/a_b"; o_id := [] |}] = None /\
  (exists m, plan_ops au [{| o_method := s "GET"; o_path := s "/a-b"; o_id := [] |}; {| o_method := s "PUT"; o_path := s "/a_b"; o_id := s "putAB" |}] = Some m /\ length m = 2).
Proof. repeat split; try (vm_compute; reflexivity); try (vm_compute; discriminate). eexists. split; vm_compute; reflexivity. Qed.

(* Props/C09.v — free text from the spec never becomes code.
   Per lexical context, the helper that the templates apply keeps arbitrary text inside that context (all strings,
   unbounded); and every template site that prints a free-text field (inventory regenerated from
   generator/templates/**/*.gotmpl on every run: Gen/GenTextSites.v) pairs its context with a safe helper. *)
From GS Require Import Base.Str Tools.Escape Tools.EscapeLemmas Gen.GenTextSites.

(* `// pre {{ comment x pad }}`: whatever x is, every line of the emitted text is a // comment *)
Theorem C09_line_comment_safe : forall x pad pre,
  (forall c, In c pad -> c <> NL) -> (forall c, In c pre -> c <> NL) ->
  Forall (fun l => starts_comment l = true) (lines (SLASH :: SLASH :: pre ++ pad_comment x pad)).
Proof. exact line_comment_safe. Qed.
Print Assumptions C09_line_comment_safe.

(* `/* {{ blockcomment x }} */`: the emitted text never contains the comment terminator *)
Theorem C09_block_comment_safe : forall x, has_close (block_comment x) = false.
Proof. exact block_comment_safe. Qed.
Print Assumptions C09_block_comment_safe.

(* `` `{{ escapeBackticks x }}` ``: the emitted tokens form one Go expression whose value is x (minus CR, which raw
   strings drop): the text cannot end the literal and continue as code *)
Theorem C09_raw_string_safe : forall x, eval_go_concat (BQ :: escape_backticks x ++ [BQ]) = Some (remove_cr x).
Proof. exact raw_string_safe. Qed.
Print Assumptions C09_raw_string_safe.

(* every inventoried site of the current templates is a safe (context, helper) pair *)
Lemma sites_ok : forallb site_ok text_sites = true.
Proof. vm_compute. reflexivity. Qed.
Theorem C09_sites : forall x, In x text_sites -> site_ok x = true.
Proof. intros x H. exact (proj1 (forallb_forall _ _) sites_ok x H). Qed.
Print Assumptions C09_sites.

(* the inventory is not empty: the obligation above is about real sites *)
Lemma sites_many : 60 <=? length text_sites = true.
Proof. vm_compute. reflexivity. Qed.
Theorem C09_sites_nonvacuous : 60 <=? length text_sites = true.
Proof. exact sites_many. Qed.
Print Assumptions C09_sites_nonvacuous.

Example C09_nonvacuous :
  block_comment (s "x */ func F() {} /* y") = s "x [*]/ func F() {} /* y" /\
  pad_comment [97; 10; 98]%N (s " ") = [97; 10; 47; 47; 32; 98]%N /\
  eval_go_concat (BQ :: escape_backticks (s "a`; _ = `b") ++ [BQ]) = Some (s "a`; _ = `b").
Proof. repeat split; vm_compute; reflexivity. Qed.

(* Props/C11.v — regeneration never destroys user code and converges.
   All statements are over the abstract file-system machine of Tools/Regen.v (GenOpts.write + histories), for
   every history, every plan and every initial directory content. *)
From GS Require Import Base.Str Tools.Regen Tools.RegenLemmas Gen.GenSections.

(* files a run does not target are untouched by it *)
Theorem C11_foreign_untouched : forall plan f p, ~ In p (paths plan) -> lookup p (gen plan f) = lookup p f.
Proof. exact gen_foreign. Qed.
Print Assumptions C11_foreign_untouched.

(* over any history: a path no run targets and the user does not touch keeps its content *)
Theorem C11_history_untouched : forall h f p,
  (forall x, In x h -> ~ step_touches p x) -> lookup p (run h f) = lookup p f.
Proof. exact run_untouched. Qed.
Print Assumptions C11_history_untouched.

(* an existing skip_exists file is not rewritten by a run *)
Theorem C11_configure_kept : forall plan f p c,
  lookup p f = Some c -> (forall w, In w plan -> w_path w = p -> w_skip w = true) ->
  lookup p (gen plan f) = Some c.
Proof. exact gen_skip_kept. Qed.
Print Assumptions C11_configure_kept.

(* over any history: what the user wrote there survives every later run that keeps the directive *)
Theorem C11_history_configure_kept : forall h f p c,
  lookup p f = Some c -> (forall x, In x h -> keeps_skip p x) -> lookup p (run h f) = Some c.
Proof. exact run_user_file_kept. Qed.
Print Assumptions C11_history_configure_kept.

(* convergence: whatever the directory held, every non-skip target equals a fresh generation into an empty directory
   (NoDup: no two templates of the run write the same path — C08's no-overwrite condition) *)
Theorem C11_converges : forall plan f w,
  NoDup (paths plan) -> In w plan -> w_skip w = false ->
  lookup (w_path w) (gen plan f) = lookup (w_path w) (gen plan []).
Proof. exact gen_equals_fresh. Qed.
Print Assumptions C11_converges.

Theorem C11_converges_value : forall plan f w,
  NoDup (paths plan) -> In w plan -> w_skip w = false -> lookup (w_path w) (gen plan f) = Some (w_content w).
Proof. exact gen_converges. Qed.
Print Assumptions C11_converges_value.

(* a skip_exists target that does not exist yet is created *)
Theorem C11_configure_created : forall plan f w,
  NoDup (paths plan) -> In w plan -> lookup (w_path w) f = None -> lookup (w_path w) (gen plan f) = Some (w_content w).
Proof. exact gen_creates. Qed.
Print Assumptions C11_configure_created.

(* the default layout (regenerated from DefaultSectionOpts): exactly one template carries skip_exists, it is the
   configure file, and the directive is switched off by --regenerate-configureapi and by nothing else *)
Definition is_skip (k : skipkind) : bool := match k with SkipNever => false | _ => true end.
Lemma layout_skip :
  map (fun e => fst (fst e)) (filter (fun e => is_skip (snd e)) section_templates) = [s "configure"] /\
  map snd (filter (fun e => is_skip (snd e)) section_templates) = [SkipUnlessRegenerate].
Proof. split; vm_compute; reflexivity. Qed.
Theorem C11_default_layout_skip_exists :
  map (fun e => fst (fst e)) (filter (fun e => is_skip (snd e)) section_templates) = [s "configure"] /\
  map snd (filter (fun e => is_skip (snd e)) section_templates) = [SkipUnlessRegenerate].
Proof. exact layout_skip. Qed.
Print Assumptions C11_default_layout_skip_exists.

(* non-vacuity: a history with a user edit of the configure file (path 1), a user file (path 9), two runs *)
Example C11_nonvacuous :
  let plan1 := [{| w_path := 1; w_content := 10; w_skip := true |}; {| w_path := 2; w_content := 20; w_skip := false |}]%N in
  let plan2 := [{| w_path := 1; w_content := 11; w_skip := true |}; {| w_path := 2; w_content := 21; w_skip := false |}]%N in
  let h := [SGen plan1; SUser 1 77; SUser 9 99; SGen plan2]%N in
  lookup 1%N (run h []) = Some 77%N /\ lookup 9%N (run h []) = Some 99%N /\ lookup 2%N (run h []) = Some 21%N /\ NoDup (paths plan2).
Proof. cbv zeta. repeat split; try reflexivity. repeat constructor; cbn; intuition discriminate. Qed.

(* Props/C10.v — the spec embedded in a generated server is the input spec.
   PARTIAL: proved — the text written between backticks in embedded_spec.go (generateReadableSpec) evaluates, as a Go
   constant expression, to exactly the marshalled document, for every byte string without carriage return (JSON text
   has none: encoding/json escapes control characters). Exercised, not proved — that the flattened document describes
   the same API (analysis.Flatten is a dependency): checked per run by evaluating the real embedded documents. *)
From GS Require Import Base.Str Tools.Escape Tools.EscapeLemmas.

Lemma embed_exact x : (forall c, In c x -> c <> CR) -> eval_go_concat (BQ :: escape_backticks x ++ [BQ]) = Some x.
Proof. intro H. rewrite raw_string_safe. now rewrite remove_cr_id. Qed.

Theorem C10_embed_exact : forall x, (forall c, In c x -> c <> CR) ->
  eval_go_concat (BQ :: escape_backticks x ++ [BQ]) = Some x.
Proof. exact embed_exact. Qed.
Print Assumptions C10_embed_exact.

(* without the side condition: only carriage returns can be lost, nothing is added, nothing becomes code *)
Theorem C10_embed_value : forall x, eval_go_concat (BQ :: escape_backticks x ++ [BQ]) = Some (remove_cr x).
Proof. exact raw_string_safe. Qed.
Print Assumptions C10_embed_value.

(* the escaping is the identity on documents without backticks (non-ASCII bytes included) *)
Lemma escape_id x : (forall c, In c x -> c <> BQ) -> escape_backticks x = x.
Proof.
  induction x as [|c r IH]; intro H; [reflexivity|]. cbn.
  destruct (N.eqb_spec c BQ) as [E|E]; [exfalso; apply (H c); [now left | assumption]|].
  f_equal. apply IH. intros d Hd. apply H. now right.
Qed.
Theorem C10_escape_identity_without_backticks : forall x, (forall c, In c x -> c <> BQ) -> escape_backticks x = x.
Proof. exact escape_id. Qed.
Print Assumptions C10_escape_identity_without_backticks.

Example C10_nonvacuous :
  let doc := s "{""description"": ""a`b``c caf" ++ [195; 169]%N ++ s """}" in
  (forall c, In c doc -> c <> CR) /\ eval_go_concat (BQ :: escape_backticks doc ++ [BQ]) = Some doc.
Proof.
  cbv zeta. split; [|vm_compute; reflexivity].
  intros c H. vm_compute in H. repeat (destruct H as [<-|H]; [discriminate|]). contradiction.
Qed.

(* Props/C04.v — generated client and server interoperate losslessly.
   Proved: (1) array parameters — joining items by the declared collectionFormat and splitting them back on the server
   gives exactly the items, for every non-empty list of items representable in that format (no separator inside, no
   blank at either end, not empty); (2) the client's response dispatch returns the typed result for exactly the declared
   codes, the default response or a generic API error otherwise, always carrying the code the handler answered with.
   Together with C03_values (the server hands the typed value of what was sent) this is the parameter half; payload
   (de)serialisation is C05's model; transport, media-type negotiation and header typing are exercised by the harness. *)
From GS Require Import Base.Str Tools.Decimal Tools.GenServer Tools.GenServerLemmas Tools.IntText Tools.ClientServer.

Theorem C04_split_join : forall sep items,
  Forall (fun x => clean_item sep x = true) items -> items <> [] -> split_by sep (join_by sep items) = items.
Proof. exact split_join. Qed.
Print Assumptions C04_split_join.

Theorem C04_response_code_kept : forall declared has_default code, result_code (client_read declared has_default code) = code.
Proof. exact client_read_code. Qed.
Print Assumptions C04_response_code_kept.

Theorem C04_typed_iff_declared : forall declared has_default code,
  (exists c, client_read declared has_default code = Typed c) <-> In code declared.
Proof. exact client_read_typed_iff. Qed.
Print Assumptions C04_typed_iff_declared.

Theorem C04_undeclared_is_api_error : forall declared code, ~ In code declared -> client_read declared false code = APIError code.
Proof. exact client_read_undeclared. Qed.
Print Assumptions C04_undeclared_is_api_error.

(* scalar parameters: what the client writes for a value of the parameter's Go type (the string itself,
   swag.FormatInt*, swag.FormatBool) is bound by the server to that very value, whenever the value is valid *)
Theorem C04_param_roundtrip : forall p v,
  typed (sp_type p) v = true -> valid_value (sp_type p) v = true -> render v <> [] -> bind p [render v] true = Bound v.
Proof. exact param_roundtrip. Qed.
Print Assumptions C04_param_roundtrip.

(* the decimal text of any integer is read back by the server's integer parser as that integer *)
Theorem C04_integer_text : forall z, parse_int_go (dec_text z) = Some z.
Proof. exact parse_int_go_dec_text. Qed.
Print Assumptions C04_integer_text.

Example C04_nonvacuous :
  Forall (fun x => clean_item 44 x = true) [s "a b"; s "c"; s "1"] /\
  split_by 124 (join_by 124 [s "x,y"; s "z"]) = [s "x,y"; s "z"] /\
  client_read [200; 404]%Z true 418 = DefaultTyped 418 false /\ client_read [200]%Z false 200 = Typed 200.
Proof. split; [repeat constructor|]. repeat split; vm_compute; reflexivity. Qed.

(* Props/C12.v — diff: a spec never differs from itself, and diff never crashes.
   Statements only, each closed by [exact lemma]; proofs are in Tools/DiffModelLemmas.v.
   C12_identity is the whole-document statement on the model: for every document whose JSON objects have distinct
   keys (paths x methods, property names at any depth, parameter and header names, response codes, definition names)
   and for every amount of fuel, if the analysis of A against itself returns, it returns no difference — through
   references, allOf, items, the visited marks and the bookkeeping of referenced definitions (Tools/DiffIdentity.v).
   The theorems after it cover every comparison function for all inputs.
   C12_total is the "never crashes" half on the model: for every pair of closed documents (every $ref names a
   definition, every array schema and array parameter carries items — what Swagger 2.0 validity demands) and every
   amount of fuel the analysis never takes a Panic branch; the Panic branches of the model are the nil dereferences of
   the real analyser (missing definition, array without items), compared with the implementation on every run.
   PARTIAL: that the recursion ends (no Fuel outcome with enough fuel, i.e. no unbounded recursion through references)
   is decided on the implementation only (worker processes observe fatal stack overflow and hangs). *)
From GS Require Import Base.Str Gen.GenDiffTables Tools.DiffTypes Tools.DiffSpec Tools.DiffModel Tools.DiffModelLemmas Tools.DiffIdentity Tools.DiffTotal Tools.DiffExt Tools.DiffExtLemmas Tools.DiffCycle Tools.DiffExtTotal.

Theorem C12_total : forall fuel a b, closed_swaggerb a = true -> closed_swaggerb b = true -> analyse fuel a b <> Panic.
Proof. exact analyse_total. Qed.
Print Assumptions C12_total.

Theorem C12_identity : forall fuel a ds, wf_swaggerb a = true -> analyse fuel a a = Ok ds -> ds = [].
Proof. exact analyse_identity. Qed.
Print Assumptions C12_identity.

Theorem C12_schema_identity : forall d, wf_defs d -> forall fuel l x sta ds sta',
  wfb x = true -> compare_schema fuel d d l x x sta = Ok (ds, sta') -> ds = [].
Proof. exact compare_schema_refl. Qed.
Print Assumptions C12_schema_identity.

(* non-vacuity: a document with a recursive definition, allOf, an array of references, a body and a query parameter,
   two responses with a header — well-formed, and the analysis against itself returns (nothing) *)
Definition str_schema : schema := Schema [] [s "string"] [] [] no_vals None [] [] [].
Definition ref_to (n : str) : schema := Schema n [] [] [] no_vals None [] [] [].
Definition pet : schema :=
  Schema [] [s "object"] [] (s "a pet") no_vals None
    [(s "name", str_schema); (s "friends", Schema [] [s "array"] [] [] no_vals (Some (ref_to (s "Pet"))) [] [] []); (s "owner", ref_to (s "Owner"))]
    [s "name"] [].
Definition owner : schema :=
  Schema [] [] [] [] no_vals None [] [] [ref_to (s "Named"); Schema [] [s "object"] [] [] no_vals None [(s "pets", Schema [] [s "array"] [] [] no_vals (Some (ref_to (s "Pet"))) [] [] [])] [] []].
Definition named : schema := Schema [] [s "object"] [] [] no_vals None [(s "name", str_schema)] [] [].
Definition q_limit : param :=
  {| p_name := s "limit"; p_in := s "query"; p_required := false; p_desc := []; p_schema := None;
     p_simple := Simple (s "integer") (s "int32") [] false DNone DNone no_vals None |}.
Definition b_pet : param :=
  {| p_name := s "body"; p_in := s "body"; p_required := true; p_desc := []; p_schema := Some (ref_to (s "Pet"));
     p_simple := Simple [] [] [] false DNone DNone no_vals None |}.
Definition sample_doc : swagger :=
  {| sw_consumes := Some [s "application/json"]; sw_produces := None; sw_schemes := None; sw_host := []; sw_basepath := s "/api"; sw_info_desc := [];
     sw_paths := [(s "/pets", {| pi_params := [q_limit];
                                 pi_ops := [(s "post", {| o_tags := Some [s "pets"]; o_desc := []; o_deprecated := false; o_params := [b_pet];
                                                          o_responses := [(200%Z, {| r_desc := s "ok"; r_schema := Some (ref_to (s "Pet"));
                                                                                     r_headers := [(s "X-Total", Simple (s "integer") [] [] false DNone DNone no_vals None)] |});
                                                                          (404%Z, {| r_desc := s "none"; r_schema := None; r_headers := [] |})] |})] |})];
     sw_defs := [(s "Pet", pet); (s "Owner", owner); (s "Named", named)] |}.
Example C12_identity_nonvacuous : wf_swaggerb sample_doc = true /\ closed_swaggerb sample_doc = true /\ analyse 12 sample_doc sample_doc = Ok [].
Proof. repeat split; vm_compute; reflexivity. Qed.
(* closedness is needed: a reference to a missing definition is a nil dereference in the real code and a Panic here *)
Example C12_panic_on_dangling_ref :
  let bad := {| sw_consumes := None; sw_produces := None; sw_schemes := None; sw_host := []; sw_basepath := []; sw_info_desc := [];
                sw_paths := []; sw_defs := [(s "A", Schema [] [s "object"] [] [] no_vals None [(s "x", ref_to (s "Missing"))] [] [])] |} in
  closed_swaggerb bad = false /\ analyse 5 bad bad = Panic.
Proof. split; vm_compute; reflexivity. Qed.

(* the vendor-extension pass (root, info, contact, license, tags, security definitions, path items, operations, their
   responses objects, parameters, response headers, response schemas down their items): a document against itself
   reports no extension difference, and so does the whole command *)
Theorem C12_extensions_identity : forall x ds, wf_xdoc x = true -> analyse_ext x x = Ok ds -> ds = [].
Proof. exact analyse_ext_refl. Qed.
Print Assumptions C12_extensions_identity.

Theorem C12_identity_with_extensions : forall fuel a x ds, wf_swaggerb a = true -> wf_xdoc x = true ->
  analyse_all fuel a a x x = Ok ds -> ds = [].
Proof. exact analyse_all_identity. Qed.
Print Assumptions C12_identity_with_extensions.

(* ... and never takes a Panic branch on closed documents (array parameters and array schemas carry items) *)
Theorem C12_total_with_extensions : forall fuel a b xa xb,
  closed_swaggerb a = true -> closed_swaggerb b = true -> closed_xdoc (sw_defs a) xa = true -> closed_xdoc (sw_defs b) xb = true ->
  analyse_all fuel a b xa xb <> Panic.
Proof. exact analyse_all_total. Qed.
Print Assumptions C12_total_with_extensions.

Definition sample_x : xdoc :=
  {| xd_ext := [(s "x-order", DInt 1)]; xd_info := [(s "x-owner", DStr (s "alpha"))]; xd_contact := Some []; xd_license := None;
     xd_tags := [(s "pets", [(s "x-flags", DArr [DStr (s "a"); DInt 0])])]; xd_secdefs := [(s "key", [(s "x-internal", DBool true)])];
     xd_paths := [(s "/pets", {| xi_ext := [(s "x-order", DInt 2)]; xi_params := [(q_limit, [(s "x-owner", DStr (s "beta"))])];
        xi_ops := [(s "post", {| xo_ext := [(s "x-internal", DBool false)]; xo_resp_ext := [(s "x-flags", DInt 1)]; xo_params := [(b_pet, [])];
                                 xo_resps := [(200%Z, {| xr_headers := [(s "X-Total", [(s "x-order", DInt 0)])];
                                                         xr_body := [(ref_to (s "Pet"), [])] |})] |})] |})] |}.
Example C12_extensions_nonvacuous : wf_xdoc sample_x = true /\ closed_xdoc (sw_defs sample_doc) sample_x = true /\
  analyse_all 12 sample_doc sample_doc sample_x sample_x = Ok [].
Proof. repeat split; vm_compute; reflexivity. Qed.

(* circular references: a reference met under a location key that was already recorded is not followed — for any
   definitions, circular or not — and the key of a location stays the same below its first child node, so that along one
   path of the walk a reference of the first document is followed at most twice (once above, once below that node).
   (That the recursion as a whole ends is still decided on the implementation: see PARTIAL above.) *)
Theorem C12_visited_reference_is_cut : forall f d1 d2 l x1 x2 sta,
  is_ref x1 = true -> is_ref x2 = true -> sc_ref x1 = sc_ref x2 -> mem (schema_location_key l) (visited sta) = true ->
  compare_schema (S f) d1 d2 l x1 x2 sta = Ok ([], sta).
Proof. exact visited_ref_is_cut. Qed.
Print Assumptions C12_visited_reference_is_cut.

Theorem C12_location_key_stable : forall l n c x,
  l_node l = Some (Node (n_field n) (n_type n) (n_array n) (Some c)) -> schema_location_key (loc_add l x) = schema_location_key l.
Proof. exact key_stable_below_first_child. Qed.
Print Assumptions C12_location_key_stable.

(* a definition that contains itself, directly and through an array, compared with a changed copy: the walk returns *)
Definition node_def (extra : list (str * schema)) : schema :=
  Schema [] [s "object"] [] [] no_vals None
    ([(s "next", ref_to (s "Node")); (s "kids", Schema [] [s "array"] [] [] no_vals (Some (ref_to (s "Node"))) [] [] [])] ++ extra) [] [].
Definition cyc_doc (extra : list (str * schema)) : swagger :=
  {| sw_consumes := None; sw_produces := None; sw_schemes := None; sw_host := []; sw_basepath := []; sw_info_desc := [];
     sw_paths := [(s "/n", {| pi_params := [];
        pi_ops := [(s "get", {| o_tags := None; o_desc := []; o_deprecated := false; o_params := [];
                                o_responses := [(200%Z, {| r_desc := s "ok"; r_schema := Some (ref_to (s "Node")); r_headers := [] |})] |})] |})];
     sw_defs := [(s "Node", node_def extra)] |}.
Example C12_circular_returns :
  analyse 6 (cyc_doc []) (cyc_doc []) = Ok [] /\
  exists ds, analyse 6 (cyc_doc []) (cyc_doc [(s "label", str_schema)]) = Ok ds /\ length ds = 2.
Proof. split; [vm_compute; reflexivity|]. eexists. split; vm_compute; reflexivity. Qed.

Theorem C12_compare_props_refl : forall x, compare_props x x = Ok [].
Proof. exact compare_props_refl. Qed.
Print Assumptions C12_compare_props_refl.

Theorem C12_check_ref_change_refl : forall tos x, check_ref_change tos x x = Ok [].
Proof. exact check_ref_change_refl. Qed.
Print Assumptions C12_check_ref_change_refl.

Theorem C12_compare_description_refl : forall l d, compare_description l d d = [].
Proof. exact compare_description_refl. Qed.
Print Assumptions C12_compare_description_refl.

Theorem C12_check_required_refl : forall r, check_required r r = [].
Proof. exact check_required_refl. Qed.
Print Assumptions C12_check_required_refl.

(* string lists (consumes, produces, schemes, tags, enum values): nothing added, nothing deleted,
   whatever the order and the duplicates; holds for the nil list too *)
Theorem C12_diffs_to_refl : forall o, diffs_to o o = ([], []).
Proof. exact diffs_to_refl. Qed.
Print Assumptions C12_diffs_to_refl.

Theorem C12_compare_enums_refl : forall l, compare_enums l l = [].
Proof. exact compare_enums_refl. Qed.
Print Assumptions C12_compare_enums_refl.

(* non-body parameters and headers, to any items depth, with any default/example (arrays included:
   this is the statement the unrepaired code violated by panicking) *)
Theorem C12_compare_simple_refl : forall x l, wf_simple x = true -> compare_simple l x x = Ok [].
Proof. exact compare_simple_refl. Qed.
Print Assumptions C12_compare_simple_refl.

Theorem C12_metadata_refl : forall a, analyse_metadata a a = [].
Proof. exact analyse_metadata_refl. Qed.
Print Assumptions C12_metadata_refl.

Theorem C12_endpoints_refl : forall um, analyse_endpoints um um = [].
Proof. exact analyse_endpoints_refl. Qed.
Print Assumptions C12_endpoints_refl.

(* non-vacuity: a nested array parameter with an array default meets wf_simple *)
Example C12_nonvacuous :
  let it := Simple (s "string") [] [] false DNone DNone no_vals None in
  let x := Simple (s "array") [] (s "csv") false (DArr [DStr (s "a")]) DNone no_vals (Some it) in
  wf_simple x = true /\ compare_simple (spec_loc (s "q")) x x = Ok [].
Proof. split; reflexivity. Qed.

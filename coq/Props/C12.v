(* Props/C12.v — diff: a spec never differs from itself, and diff never crashes.
   Statements only, each closed by [exact lemma]; proofs are in Tools/DiffModelLemmas.v.
   PARTIAL: the theorems below cover every comparison function of the analyser (value, type, reference,
   property-flag, parameter-schema, metadata and endpoint level) for all inputs; the composition into
   "analyse fuel A A = Ok []" over the recursive schema walk is exercised by the harness (identity pairs,
   projection PTotal/PFull), see DESIGN.md 5.12. *)
From GS Require Import Base.Str Gen.GenDiffTables Tools.DiffTypes Tools.DiffSpec Tools.DiffModel Tools.DiffModelLemmas.

Theorem C12_compare_props_refl : forall x, compare_props x x = Ok [].
Proof. exact compare_props_refl. Qed.
Print Assumptions C12_compare_props_refl.

Theorem C12_check_ref_change_refl : forall tos x, check_ref_change tos x x = Ok [].
Proof. exact check_ref_change_refl. Qed.
Print Assumptions C12_check_ref_change_refl.

Theorem C12_compare_description_refl : forall l d, compare_description l d d = [].
Proof. exact compare_description_refl. Qed.
Print Assumptions C12_compare_description_refl.

Theorem C12_check_required_refl : forall r, check_required r r = [].
Proof. exact check_required_refl. Qed.
Print Assumptions C12_check_required_refl.

(* string lists (consumes, produces, schemes, tags, enum values): nothing added, nothing deleted,
   whatever the order and the duplicates; holds for the nil list too *)
Theorem C12_diffs_to_refl : forall o, diffs_to o o = ([], []).
Proof. exact diffs_to_refl. Qed.
Print Assumptions C12_diffs_to_refl.

Theorem C12_compare_enums_refl : forall l, compare_enums l l = [].
Proof. exact compare_enums_refl. Qed.
Print Assumptions C12_compare_enums_refl.

(* non-body parameters and headers, to any items depth, with any default/example (arrays included:
   this is the statement the unrepaired code violated by panicking) *)
Theorem C12_compare_simple_refl : forall x l, wf_simple x = true -> compare_simple l x x = Ok [].
Proof. exact compare_simple_refl. Qed.
Print Assumptions C12_compare_simple_refl.

Theorem C12_metadata_refl : forall a, analyse_metadata a a = [].
Proof. exact analyse_metadata_refl. Qed.
Print Assumptions C12_metadata_refl.

Theorem C12_endpoints_refl : forall um, analyse_endpoints um um = [].
Proof. exact analyse_endpoints_refl. Qed.
Print Assumptions C12_endpoints_refl.

(* non-vacuity: a nested array parameter with an array default meets wf_simple *)
Example C12_nonvacuous :
  let it := Simple (s "string") [] [] false DNone DNone no_vals None in
  let x := Simple (s "array") [] (s "csv") false (DArr [DStr (s "a")]) DNone no_vals (Some it) in
  wf_simple x = true /\ compare_simple (spec_loc (s "q")) x x = Ok [].
Proof. split; reflexivity. Qed.

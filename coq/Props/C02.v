(* Props/C02.v — generated model validation agrees with the schema.
   Fragment (see Sem/Schema.v): strings (length bounds in code points, enum), integers (bounds incl. exclusive, multipleOf,
   enum), booleans, arrays (item schema, item counts, uniqueness of scalar items), maps, objects with required and
   optional properties at any depth; references inlined.  Excluded (exercised by the harness only): formats, patterns,
   numbers, allOf, additionalProperties next to properties, defaults, readOnly, x-nullable.
   Property counts: Sem/PropCount.v (below). *)
From GS Require Import Base.Str Base.Json Sem.Schema Sem.SchemaLemmas Sem.PropCount.

(* decoding the document into the generated type and calling Validate succeeds exactly when the reference accepts the
   document in which the documented zero values are treated as absent — for every schema of the fragment, every
   well-formed document (distinct keys), at every depth *)
Theorem C02_agrees : forall s d, wf s d = true -> d <> JNull -> gen_accepts s d = ref_valid s (erase s d).
Proof. exact gen_accepts_erase. Qed.
Print Assumptions C02_agrees.

(* the only thing the generated code treats as absent: an OPTIONAL property holding null or the zero value (0, "", false)
   of its scalar type — nothing else is ever dropped from what gets validated *)
Theorem C02_erase_only_documented : forall ps l name,
  NoDup (map (fun p => fst (fst p)) ps) -> NoDup (map fst l) ->
  forall v, assoc name l = Some v ->
  assoc name (match erase (SObj ps) (JObj l) with JObj l' => l' | _ => [] end) = None ->
  exists req ps', In (name, req, ps') ps /\ req = false /\ (v = JNull \/ (is_scalar ps' = true /\ is_zero_of ps' v = true)).
Proof. exact erase_removes_only_documented. Qed.
Print Assumptions C02_erase_only_documented.

(* non-vacuity: a three-level schema with every constraint kind of the fragment, a document that meets wf *)
Definition ex_schema : schema :=
  SObj [(s "name", true, SStr (Some 1%Z) (Some 5%Z) []);
        (s "kind", false, SStr None None [s "a"; s "bb"]);
        (s "count", false, SInt (Some 1%Z) false (Some 10%Z) true (Some 2%Z) []);
        (s "tags", false, SArr (SStr (Some 2%Z) None []) (Some 1%Z) (Some 3%Z) true);
        (s "meta", false, SMap (SInt None false None false None [1; 2]%Z));
        (s "child", false, SObj [(s "flag", true, SBool); (s "n", false, SInt (Some 0%Z) false None false None [])])].
Definition ex_doc : json :=
  JObj [(s "name", JStr (s "abc")); (s "kind", JStr []); (s "count", JNum 0 0); (s "tags", JArr [JStr (s "xy")]);
        (s "meta", JObj [(s "k", JNum 2 0)]); (s "child", JObj [(s "flag", JBool false); (s "n", JNum 0 0)])].
Example C02_nonvacuous :
  wf ex_schema ex_doc = true /\ gen_accepts ex_schema ex_doc = true /\ ref_valid ex_schema ex_doc = false /\
  ref_valid ex_schema (erase ex_schema ex_doc) = true.
Proof. repeat split; vm_compute; reflexivity. Qed.

(* ---------- minProperties / maxProperties ---------- *)
(* the generated Validate counts the members of the value marshalled back from the decoded struct, the reference counts
   the members of the document.  On documents whose declared members are exactly those that marshalling keeps
   ([plain]: no optional member holding a zero value or an empty map, no absent array or required member; undeclared
   members are kept by the generated type and count on both sides) the two verdicts are the same *)
Theorem C02_property_counts_agree : forall ps mn mx l,
  NoDup (map pname ps) -> NoDup (map fst l) -> plain ps l = true ->
  gen_counts ps mn mx (JObj l) = ref_counts mn mx (JObj l).
Proof. exact counts_agree. Qed.
Print Assumptions C02_property_counts_agree.

(* off that set they differ in both directions, on the model as on the unchanged generator
   (known findings c02/generated-accepts-invalid|generated-rejects-valid[property-count-of-remarshalled-object]) *)
Example C02_property_counts_refuted :
  (exists ps d, ref_counts (Some 1%Z) (Some 3%Z) d = false /\ gen_counts ps (Some 1%Z) (Some 3%Z) d = true) /\
  (exists ps d, ref_counts (Some 1%Z) (Some 3%Z) d = true /\ gen_counts ps (Some 1%Z) (Some 3%Z) d = false).
Proof.
  split; eexists; eexists; [exact counts_refuted_accepts_invalid | exact counts_refuted_rejects_valid].
Qed.

Example C02_property_counts_nonvacuous :
  let ps := [(s "a", true, SStr None None []); (s "b", false, SInt None false None false None []); (s "m", false, SMap SBool)] in
  let l := [(s "a", JStr (s "x")); (s "m", JObj [(s "k", JBool true)])] in
  plain ps l = true /\ gen_counts ps (Some 2%Z) (Some 2%Z) (JObj l) = true.
Proof. split; vm_compute; reflexivity. Qed.

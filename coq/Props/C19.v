(* Props/C19.v — JSON and YAML renderings of a spec are interchangeable.
   PARTIAL: what is proved is the part that has a closed mathematical form — integers of ANY size survive the decimal
   text both renderings share (no 2^53 cliff): parsing the decimal text of z gives back z, and distinct integers have
   distinct texts. The YAML block structure and the scalar quoting rules of yaml.v3 / swag.JSONMapSlice are
   dependencies: they are exercised on every run (all ambiguous scalar classes x all commands x formats), not modelled. *)
From GS Require Import Base.Str Tools.Decimal.

Theorem C19_integer_text_roundtrip : forall z, parse_dec (dec_text z) = Some z.
Proof. exact parse_dec_text. Qed.
Print Assumptions C19_integer_text_roundtrip.

Lemma dec_text_inj a b : dec_text a = dec_text b -> a = b.
Proof.
  intro H. pose proof (parse_dec_text a) as Ha. rewrite H, parse_dec_text in Ha. now injection Ha.
Qed.
Theorem C19_integer_text_injective : forall a b, dec_text a = dec_text b -> a = b.
Proof. exact dec_text_inj. Qed.
Print Assumptions C19_integer_text_injective.

Example C19_nonvacuous :
  dec_text 9223372036854775807 = s "9223372036854775807" /\ dec_text (-9007199254740993) = s "-9007199254740993" /\
  parse_dec (s "9007199254740993") = Some 9007199254740993%Z.
Proof. repeat split; vm_compute; reflexivity. Qed.

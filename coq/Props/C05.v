(* Props/C05.v — model JSON serialization round-trips without loss.
   rt s d is the document that json.Marshal(json.Unmarshal(d)) produces for the Go type generated from s (fragment of
   Sem/Schema.v; the model is compared with the compiled generated models on every run).
   PARTIAL: proved per level of nesting (the statements compose along any path because rt recurses with the same
   definition); allOf, additionalProperties next to properties, tuples, aliases of formatted types and polymorphic
   subtypes are exercised by the harness only. *)
From GS Require Import Base.Str Base.Json Sem.Schema Sem.SchemaLemmas.

(* every declared property present with a non-null value is preserved at its path (value = the round trip of the
   value), except an optional scalar holding the zero value of a non-pointer field, or an optional empty map *)
Theorem C05_property_kept : forall name req ps' ps l v,
  NoDup (map (fun p => fst (fst p)) ps) -> In (name, req, ps') ps ->
  assoc name l = Some v -> v <> JNull ->
  negb req && ((negb (nullable ps' req) && is_zero_of ps' v) || (is_map ps' && is_empty_obj v)) = false ->
  assoc name (match rt (SObj ps) (JObj l) with JObj l' => l' | _ => [] end) = Some (rt ps' v).
Proof. exact rt_property_kept. Qed.
Print Assumptions C05_property_kept.

(* required properties are never omitted *)
Theorem C05_required_never_omitted : forall name ps' ps l,
  NoDup (map (fun p => fst (fst p)) ps) -> In (name, true, ps') ps ->
  assoc name (match rt (SObj ps) (JObj l) with JObj l' => l' | _ => [] end) <> None.
Proof. exact rt_required_present. Qed.
Print Assumptions C05_required_never_omitted.

(* nothing undeclared is added *)
Theorem C05_nothing_added : forall ps l x,
  In x (match rt (SObj ps) (JObj l) with JObj l' => l' | _ => [] end) -> In (fst x) (map (fun p => fst (fst p)) ps).
Proof. exact rt_only_declared. Qed.
Print Assumptions C05_nothing_added.

(* scalars, array elements and map entries are carried over one by one *)
Theorem C05_scalar_exact : forall s d, is_scalar s = true -> rt s d = d.
Proof. exact rt_scalar. Qed.
Print Assumptions C05_scalar_exact.

Lemma rt_arr it lo hi uq l : rt (SArr it lo hi uq) (JArr l) = JArr (map (rt it) l).
Proof. reflexivity. Qed.
Theorem C05_array_elementwise : forall it lo hi uq l, rt (SArr it lo hi uq) (JArr l) = JArr (map (rt it) l).
Proof. exact rt_arr. Qed.
Print Assumptions C05_array_elementwise.

Lemma rt_map v l : rt (SMap v) (JObj l) = JObj (map (fun kv => (fst kv, rt v (snd kv))) l).
Proof. reflexivity. Qed.
Theorem C05_map_entrywise : forall v l, rt (SMap v) (JObj l) = JObj (map (fun kv => (fst kv, rt v (snd kv))) l).
Proof. exact rt_map. Qed.
Print Assumptions C05_map_entrywise.

(* a second round trip changes nothing: what Marshal wrote is a fixed point (any depth; property names distinct) *)
Theorem C05_idempotent : forall s d, names_distinct s = true -> rt s (rt s d) = rt s d.
Proof. exact rt_idempotent. Qed.
Print Assumptions C05_idempotent.

Example C05_nonvacuous :
  let sc := SObj [(s "name", true, SStr None None []); (s "n", false, SInt None false None false None []);
                  (s "tags", false, SArr (SStr None None []) None None false); (s "m", false, SMap SBool)] in
  rt sc (JObj [(s "name", JStr []); (s "n", JNum 0 0); (s "m", JObj [(s "k", JBool false)]); (s "zz", JNum 1 0)]) =
  JObj [(s "name", JStr []); (s "tags", JNull); (s "m", JObj [(s "k", JBool false)])].
Proof. vm_compute. reflexivity. Qed.

(* Props/C18.v — spec -> generated models -> scanned spec preserves every schema.
   What has a closed form is the vocabulary: the validation lines the model templates write above a struct field and
   the recognisers of the scanner that read them back.  PARTIAL: property-level validations with integer values
   (Required, Read Only, Maximum / Minimum with exclusivity, Multiple Of, Max/Min Length, Pattern, Max/Min Items,
   Unique); enums, formats, types, references and the structure of definitions are decided on the implementation
   (whole-document round trip through `generate model` and codescan.Run, keyword by keyword). *)
From GS Require Import Base.Str Tools.Decimal Scan.DocVocab Scan.DocVocabLemmas Gen.GenTaggers Scan.Taggers.

(* what the template writes is read back as exactly the same validations *)
Theorem C18_vocabulary_roundtrip : forall v, wf v = true -> parse (emit v) = v.
Proof. exact parse_emit. Qed.
Print Assumptions C18_vocabulary_roundtrip.

(* so two different sets of validations never share a comment *)
Theorem C18_vocabulary_injective : forall a b, wf a = true -> wf b = true -> emit a = emit b -> a = b.
Proof. exact emit_injective. Qed.
Print Assumptions C18_vocabulary_injective.

Definition sample : vals :=
  {| d_required := true; d_readonly := false; d_max := Some (true, 100%Z); d_min := Some (false, (-5)%Z); d_mult := Some 2%Z;
     d_maxlen := None; d_minlen := None; d_pattern := Some (s "^[a-z]+$"); d_maxitems := Some 4%Z; d_minitems := None; d_unique := true |}.
Example C18_nonvacuous :
  wf sample = true /\
  emit sample = [s "Required: true"; s "Maximum: < 100"; s "Minimum: -5"; s "Multiple Of: 2"; s "Pattern: ^[a-z]+$"; s "Max Items: 4"; s "Unique: true"].
Proof. split; vm_compute; reflexivity. Qed.

(* the side condition on patterns is needed: the recogniser skips the blanks after the colon *)
Example C18_refuted_pattern_with_leading_blank :
  let v := {| d_required := false; d_readonly := false; d_max := None; d_min := None; d_mult := None; d_maxlen := None; d_minlen := None;
              d_pattern := Some (s " x"); d_maxitems := None; d_minitems := None; d_unique := false |} in
  d_pattern (parse (emit v)) = Some (s "x").
Proof. vm_compute. reflexivity. Qed.

(* ---------- the sectioned comment parser hands every tagger its own lines ---------- *)
(* lines are filed under the NAME of the first tagger that recognises them; with pairwise distinct names the entry of a
   tagger's name holds exactly the lines that tagger recognised first and is parsed by that tagger's setter *)
Theorem C18_tagger_entry_is_own : forall ts lines t,
  distinct (map t_name ts) = true -> well_indexed ts -> In t ts -> filed ts lines (t_name t) = own_lines ts lines t.
Proof. exact filed_is_own. Qed.
Print Assumptions C18_tagger_entry_is_own.
Theorem C18_tagger_entry_owner : forall ts lines t o,
  distinct (map t_name ts) = true -> In t ts -> entry_owner ts lines (t_name t) = Some o -> o = t.
Proof. exact entry_owner_is_self. Qed.
Print Assumptions C18_tagger_entry_owner.
(* ... and the tagger lists of the current source (regenerated from codescan/*.go on every run) meet the hypothesis *)
Theorem C18_tagger_names_distinct : forall g, In g tagger_lists -> distinct (snd g) = true.
Proof. intros g H. exact (proj1 (forallb_forall _ _) tagger_lists_distinct g H). Qed.
Print Assumptions C18_tagger_names_distinct.

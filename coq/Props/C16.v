(* Props/C16.v — scanned model schemas describe the type's actual JSON encoding (fragment of Scan/GoTypes.v:
   strings, booleans, integers of every width, pointers, slices, arrays, string-keyed maps, nested structs, json names
   and omitempty; unexported / "-" / ignored fields are not part of the type as the model sees it).
   Embedded structs (Scan/Embed.v): declarations whose embedded members promote disjoint sets of names.
   Outside the fragment (floats, time.Time, named types, ",string", embedded pointers and embeddings with a json name,
   interface{}, RawMessage, []byte) the property is decided on the implementation only (scancheck). *)
From GS Require Import Base.Str Base.Json Scan.GoTypes Scan.GoTypesLemmas Scan.Embed Scan.EmbedLemmas.

(* every value of the type — with nil only where the definition can say so: pointer fields (x-nullable) and omitempty
   fields — is encoded by encoding/json as a document the scanned definition accepts *)
Theorem C16_encoding_accepted : forall t v,
  wf_type t = true -> has_type t v = true -> clean t v = true -> sval (scan t) (encode t v) = true.
Proof. exact encoding_accepted. Qed.
Print Assumptions C16_encoding_accepted.

(* every document the scanned definition accepts decodes into the type *)
Theorem C16_accepted_decodes : forall t d, sval (scan t) d = true -> decodes t d = true.
Proof. exact accepted_decodes. Qed.
Print Assumptions C16_accepted_decodes.

(* the JSON keys of the encoding are property names of the definition *)
Theorem C16_keys : forall fs vs k j, has_type (GStruct fs) (VStruct vs) = true -> clean (GStruct fs) (VStruct vs) = true ->
  (exists l, encode (GStruct fs) (VStruct vs) = JObj l /\ In (k, j) l) -> In k (map (fun f => fst (fst f)) fs).
Proof. exact encoding_keys. Qed.
Print Assumptions C16_keys.

Definition sample_type : gotype :=
  GStruct [(s "id", false, GInt 0 255); (s "tags", true, GSlice GStr); (s "next", false, GPtr (GStruct [(s "n", false, GBool)])); (s "m", true, GMap (GArray 2 (GInt (-128) 127)))].
Definition sample_val : gval := VStruct [VInt 7; VList [VStr (s "a")]; VNil; VMap [(s "k", VList [VInt (-1); VInt 3])]].
Example C16_nonvacuous :
  wf_type sample_type = true /\ has_type sample_type sample_val = true /\ clean sample_type sample_val = true /\
  encode sample_type sample_val = JObj [(s "id", JNum 7 0); (s "tags", JArr [JStr (s "a")]); (s "next", JNull); (s "m", JObj [(s "k", JArr [JNum (-1) 0; JNum 3 0])])].
Proof. repeat split; vm_compute; reflexivity. Qed.

(* the hypothesis [clean] is needed: a nil slice without omitempty is encoded as null, which the definition rejects —
   the unchanged scanner has this gap (known finding c16/encoding-rejected-by-definition[nil-slice-or-map-encoded-as-null]) *)
Example C16_refuted_nil_slice :
  let t := GStruct [(s "f", false, GSlice GStr)] in let v := VStruct [VNil] in
  has_type t v = true /\ sval (scan t) (encode t v) = false.
Proof. split; vm_compute; reflexivity. Qed.

(* ---------- embedded structs ---------- *)
(* a struct declaration with embedded structs, read by encoding/json ([go_struct]: least depth wins, ties hide the
   name) and by the scanner ([scan_emb]: embedded members written first, in declaration order, then the declared
   fields; the last write of a name stays).  When two embedded members of one struct never promote the same name
   ([ewf]; a declared field may shadow a promoted one, at any depth), the property table of the scanner holds exactly
   the fields encoding/json sees *)
Theorem C16_embedding_table : forall fs x, ewf fs = true -> (In x (table (writes_f (SE fs))) <-> In x (promote fs)).
Proof. exact table_promote. Qed.
Print Assumptions C16_embedding_table.

(* ... hence the definition accepts the same documents as the definition of the flat struct encoding/json sees *)
Theorem C16_embedding_agree : forall fs d, ewf fs = true -> sval (scan_emb fs) d = sval (scan (go_struct fs)) d.
Proof. exact scan_emb_agrees. Qed.
Print Assumptions C16_embedding_agree.

(* ... and both directions of the property hold for it *)
Theorem C16_embedding_encoding_accepted : forall fs v,
  ewf fs = true -> types_wf fs = true -> has_type (go_struct fs) v = true -> clean (go_struct fs) v = true ->
  sval (scan_emb fs) (encode (go_struct fs) v) = true.
Proof. exact emb_encoding_accepted'. Qed.
Print Assumptions C16_embedding_encoding_accepted.

Theorem C16_embedding_accepted_decodes : forall fs d,
  ewf fs = true -> sval (scan_emb fs) d = true -> decodes (go_struct fs) d = true.
Proof. exact emb_accepted_decodes. Qed.
Print Assumptions C16_embedding_accepted_decodes.

(* the fields encoding/json sees never share a name, whatever the declaration *)
Theorem C16_promoted_names_distinct : forall fs, nodupb (map fname (promote fs)) = true.
Proof. exact promote_nodup. Qed.
Print Assumptions C16_promoted_names_distinct.

(* a declaration in the domain: an own field shadows a promoted one, two levels of embedding *)
Definition deep_v : sfield := SE [SF (s "v", false, GInt (-128) 127); SF (s "w", false, GBool)].
Definition shadowing : list sfield := [SE [deep_v; SF (s "u", true, GSlice GStr)]; SF (s "v", false, GStr)].
Example C16_embedding_nonvacuous :
  ewf shadowing = true /\ types_wf shadowing = true /\
  promote shadowing = [(s "w", false, GBool); (s "u", true, GSlice GStr); (s "v", false, GStr)] /\
  has_type (go_struct shadowing) (VStruct [VBool true; VNil; VStr (s "x")]) = true /\
  clean (go_struct shadowing) (VStruct [VBool true; VNil; VStr (s "x")]) = true.
Proof. repeat split; vm_compute; reflexivity. Qed.

(* the hypothesis [ewf] is needed, and the unchanged scanner fails without it: struct { ShallowV; MidV } where ShallowV
   declares v string and MidV embeds a struct declaring v int64 — encoding/json shows the shallower v (a string), the
   scanner keeps the write of the member embedded later (an integer), and rejects the type's own encoding
   (known finding c16/encoding-rejected-by-definition[deeper-promoted-field-written-after-a-shallower-one-of-the-same-name]) *)
Definition both_decl : list sfield := [SE [SF (s "v", false, GStr)]; SE [SE [SF (s "v", false, GInt (-128) 127); SF (s "w", false, GBool)]]].
Example C16_embedding_refuted_overlap :
  ewf both_decl = false /\
  has_type (go_struct both_decl) (VStruct [VStr []; VBool false]) = true /\
  sval (scan_emb both_decl) (encode (go_struct both_decl) (VStruct [VStr []; VBool false])) = false.
Proof. repeat split; vm_compute; reflexivity. Qed.

(* Props/C16.v — scanned model schemas describe the type's actual JSON encoding (fragment of Scan/GoTypes.v:
   strings, booleans, integers of every width, pointers, slices, arrays, string-keyed maps, nested structs, json names
   and omitempty; unexported / "-" / ignored fields are not part of the type as the model sees it).
   Outside the fragment (floats, time.Time, named types, ",string", embedded structs, interface{}, RawMessage, []byte)
   the property is decided on the implementation only (scancheck). *)
From GS Require Import Base.Str Base.Json Scan.GoTypes Scan.GoTypesLemmas.

(* every value of the type — with nil only where the definition can say so: pointer fields (x-nullable) and omitempty
   fields — is encoded by encoding/json as a document the scanned definition accepts *)
Theorem C16_encoding_accepted : forall t v,
  wf_type t = true -> has_type t v = true -> clean t v = true -> sval (scan t) (encode t v) = true.
Proof. exact encoding_accepted. Qed.
Print Assumptions C16_encoding_accepted.

(* every document the scanned definition accepts decodes into the type *)
Theorem C16_accepted_decodes : forall t d, sval (scan t) d = true -> decodes t d = true.
Proof. exact accepted_decodes. Qed.
Print Assumptions C16_accepted_decodes.

(* the JSON keys of the encoding are property names of the definition *)
Theorem C16_keys : forall fs vs k j, has_type (GStruct fs) (VStruct vs) = true -> clean (GStruct fs) (VStruct vs) = true ->
  (exists l, encode (GStruct fs) (VStruct vs) = JObj l /\ In (k, j) l) -> In k (map (fun f => fst (fst f)) fs).
Proof. exact encoding_keys. Qed.
Print Assumptions C16_keys.

Definition sample_type : gotype :=
  GStruct [(s "id", false, GInt 0 255); (s "tags", true, GSlice GStr); (s "next", false, GPtr (GStruct [(s "n", false, GBool)])); (s "m", true, GMap (GArray 2 (GInt (-128) 127)))].
Definition sample_val : gval := VStruct [VInt 7; VList [VStr (s "a")]; VNil; VMap [(s "k", VList [VInt (-1); VInt 3])]].
Example C16_nonvacuous :
  wf_type sample_type = true /\ has_type sample_type sample_val = true /\ clean sample_type sample_val = true /\
  encode sample_type sample_val = JObj [(s "id", JNum 7 0); (s "tags", JArr [JStr (s "a")]); (s "next", JNull); (s "m", JObj [(s "k", JArr [JNum (-1) 0; JNum 3 0])])].
Proof. repeat split; vm_compute; reflexivity. Qed.

(* the hypothesis [clean] is needed: a nil slice without omitempty is encoded as null, which the definition rejects —
   the unchanged scanner has this gap (known finding c16/encoding-rejected-by-definition[nil-slice-or-map-encoded-as-null]) *)
Example C16_refuted_nil_slice :
  let t := GStruct [(s "f", false, GSlice GStr)] in let v := VStruct [VNil] in
  has_type t v = true /\ sval (scan t) (encode t v) = false.
Proof. split; vm_compute; reflexivity. Qed.

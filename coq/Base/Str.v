(* Base/Str.v — strings as lists of byte/code-point numbers, association lists.
   Definitions and small lemmas only; stdlib only. *)
From Coq Require Export String Ascii.
From Coq Require Export NArith ZArith Bool Lia List.
Export ListNotations.
Open Scope list_scope.

Definition str := list N.

(* literal: [s "abc"] is the byte list of the Coq string *)
Fixpoint s (x : string) : str :=
  match x with
  | EmptyString => []
  | String a r => N_of_ascii a :: s r
  end.

Fixpoint str_eqb (a b : str) : bool :=
  match a, b with
  | [], [] => true
  | x :: a', y :: b' => N.eqb x y && str_eqb a' b'
  | _, _ => false
  end.

Lemma str_eqb_refl a : str_eqb a a = true.
Proof. induction a as [|x a IH]; cbn; [reflexivity|]. now rewrite N.eqb_refl, IH. Qed.

Lemma str_eqb_eq a b : str_eqb a b = true <-> a = b.
Proof.
  revert b; induction a as [|x a IH]; intros [|y b]; cbn; split; intro H;
    try reflexivity; try discriminate.
  - apply andb_true_iff in H as [H1 H2]. apply N.eqb_eq in H1. apply IH in H2. now subst.
  - injection H as -> ->. now rewrite N.eqb_refl, str_eqb_refl.
Qed.

Lemma str_eqb_neq a b : str_eqb a b = false <-> a <> b.
Proof.
  split; intro H.
  - intro E. apply str_eqb_eq in E. congruence.
  - destruct (str_eqb a b) eqn:E; [|reflexivity]. apply str_eqb_eq in E. contradiction.
Qed.

Lemma str_eqb_sym a b : str_eqb a b = str_eqb b a.
Proof.
  destruct (str_eqb a b) eqn:E.
  - apply str_eqb_eq in E. subst. now rewrite str_eqb_refl.
  - symmetry. apply str_eqb_neq. apply str_eqb_neq in E. congruence.
Qed.

Definition str_eq_dec (a b : str) : {a = b} + {a <> b} := list_eq_dec N.eq_dec a b.

Definition is_empty (a : str) : bool := match a with [] => true | _ => false end.

(* lexicographic order on byte strings (Go's < on strings) *)
Fixpoint str_ltb (a b : str) : bool :=
  match a, b with
  | [], [] => false
  | [], _ :: _ => true
  | _ :: _, [] => false
  | x :: a', y :: b' => if N.ltb x y then true else if N.ltb y x then false else str_ltb a' b'
  end.

Definition str_leb (a b : str) : bool := negb (str_ltb b a).

Definition mem (x : str) (l : list str) : bool := existsb (str_eqb x) l.

Lemma mem_In x l : mem x l = true <-> In x l.
Proof.
  unfold mem. rewrite existsb_exists. split.
  - intros [y [Hy E]]. apply str_eqb_eq in E. now subst.
  - intro H. exists x. split; [assumption|apply str_eqb_refl].
Qed.

Lemma mem_false x l : mem x l = false <-> ~ In x l.
Proof.
  split; intro H.
  - intro I. apply mem_In in I. congruence.
  - destruct (mem x l) eqn:E; [|reflexivity]. apply mem_In in E. contradiction.
Qed.

(* association lists keyed by str *)
Fixpoint assoc {A} (k : str) (l : list (str * A)) : option A :=
  match l with
  | [] => None
  | (k', v) :: r => if str_eqb k k' then Some v else assoc k r
  end.

Definition has_key {A} (k : str) (l : list (str * A)) : bool :=
  match assoc k l with Some _ => true | None => false end.

Definition keys {A} (l : list (str * A)) : list str := map fst l.

Lemma assoc_None_keys {A} k (l : list (str * A)) : assoc k l = None <-> ~ In k (keys l).
Proof.
  induction l as [|[k' v] l IH]; cbn; [tauto|].
  destruct (str_eqb k k') eqn:E.
  - apply str_eqb_eq in E. subst. split; [discriminate|]. intro H. exfalso. apply H. now left.
  - apply str_eqb_neq in E. rewrite IH. split; intro H.
    + intros [H1|H1]; [congruence|tauto].
    + tauto.
Qed.

Lemma assoc_In {A} k (l : list (str * A)) v : assoc k l = Some v -> In (k, v) l.
Proof.
  induction l as [|[k' v'] l IH]; cbn; [discriminate|].
  destruct (str_eqb k k') eqn:E.
  - apply str_eqb_eq in E. subst. intro H. injection H as ->. now left.
  - intro H. right. auto.
Qed.

Lemma In_assoc_NoDup {A} k v (l : list (str * A)) :
  NoDup (keys l) -> In (k, v) l -> assoc k l = Some v.
Proof.
  induction l as [|[k' v'] l IH]; cbn; [tauto|].
  intros ND [H|H].
  - injection H as -> ->. now rewrite str_eqb_refl.
  - inversion ND as [|? ? Hn ND']; subst.
    destruct (str_eqb k k') eqn:E.
    + apply str_eqb_eq in E. subst. exfalso. apply Hn. change k' with (fst (k', v)). now apply in_map.
    + auto.
Qed.

(* decimal rendering of integers: Go's %d *)
Definition digit (n : N) : N := (48 + n)%N.

Fixpoint dec_pos_fuel (fuel : nat) (n : N) (acc : str) : str :=
  match fuel with
  | O => acc
  | S f => let q := (n / 10)%N in let r := (n mod 10)%N in
           if (q =? 0)%N then digit r :: acc else dec_pos_fuel f q (digit r :: acc)
  end.

Definition dec_of_N (n : N) : str := dec_pos_fuel (S (N.to_nat (N.log2 n))) n [].

Definition dec_of_Z (z : Z) : str :=
  match z with
  | Z0 => [48%N]
  | Zpos p => dec_of_N (Npos p)
  | Zneg p => 45%N :: dec_of_N (Npos p)
  end.

(* join with separator: strings.Join *)
Fixpoint join (sep : str) (l : list str) : str :=
  match l with
  | [] => []
  | [x] => x
  | x :: r => x ++ sep ++ join sep r
  end.

(* insertion sort on strings (sort.Strings / sort.Slice with <) *)
Fixpoint insert_str (x : str) (l : list str) : list str :=
  match l with
  | [] => [x]
  | y :: r => if str_leb x y then x :: l else y :: insert_str x r
  end.
Definition sort_str (l : list str) : list str := fold_right insert_str [] l.

(* dedup keeping first occurrences *)
Fixpoint dedup (l : list str) : list str :=
  match l with
  | [] => []
  | x :: r => if mem x r then dedup r else x :: dedup r
  end.

(* sorting association lists by key (sort.Strings on the keys, then lookup) *)
Fixpoint insert_kv {A} (x : str * A) (l : list (str * A)) : list (str * A) :=
  match l with
  | [] => [x]
  | y :: r => if str_leb (fst x) (fst y) then x :: l else y :: insert_kv x r
  end.
Definition sort_kv {A} (l : list (str * A)) : list (str * A) := fold_right insert_kv [] l.

Fixpoint insert_zkv {A} (x : Z * A) (l : list (Z * A)) : list (Z * A) :=
  match l with
  | [] => [x]
  | y :: r => if Z.leb (fst x) (fst y) then x :: l else y :: insert_zkv x r
  end.
Definition sort_zkv {A} (l : list (Z * A)) : list (Z * A) := fold_right insert_zkv [] l.

(* Base/Json.v — abstract JSON values. Numbers are integers or exact decimals m*10^e. *)
From GS Require Import Base.Str.

Inductive json :=
| JNull
| JBool (b : bool)
| JNum (m e : Z)          (* m * 10^e; integers have e = 0 *)
| JStr (x : str)
| JArr (l : list json)
| JObj (l : list (str * json)).

Definition jint (z : Z) : json := JNum z 0.

Fixpoint json_size (j : json) : nat :=
  match j with
  | JArr l => S (fold_right (fun x a => json_size x + a) 0 l)
  | JObj l => S (fold_right (fun x a => json_size (snd x) + a) 0 l)
  | _ => 1
  end.

(* nested induction principle *)
Section JsonInd.
  Variable P : json -> Prop.
  Hypothesis Hnull : P JNull.
  Hypothesis Hbool : forall b, P (JBool b).
  Hypothesis Hnum : forall m e, P (JNum m e).
  Hypothesis Hstr : forall x, P (JStr x).
  Hypothesis Harr : forall l, Forall P l -> P (JArr l).
  Hypothesis Hobj : forall l, Forall (fun kv => P (snd kv)) l -> P (JObj l).
  Fixpoint json_ind' (j : json) : P j :=
    match j with
    | JNull => Hnull
    | JBool b => Hbool b
    | JNum m e => Hnum m e
    | JStr x => Hstr x
    | JArr l => Harr l ((fix go (l : list json) : Forall P l :=
                           match l with [] => Forall_nil _ | x :: r => Forall_cons _ (json_ind' x) (go r) end) l)
    | JObj l => Hobj l ((fix go (l : list (str * json)) : Forall (fun kv => P (snd kv)) l :=
                           match l with [] => Forall_nil _ | x :: r => Forall_cons _ (json_ind' (snd x)) (go r) end) l)
    end.
End JsonInd.

(* structural equality (object keys in order) *)
Fixpoint json_eqb (a b : json) : bool :=
  match a, b with
  | JNull, JNull => true
  | JBool x, JBool y => Bool.eqb x y
  | JNum m e, JNum m' e' => Z.eqb m m' && Z.eqb e e'
  | JStr x, JStr y => str_eqb x y
  | JArr l, JArr l' =>
      (fix go (l l' : list json) : bool :=
         match l, l' with
         | [], [] => true
         | x :: r, y :: r' => json_eqb x y && go r r'
         | _, _ => false
         end) l l'
  | JObj l, JObj l' =>
      (fix go (l l' : list (str * json)) : bool :=
         match l, l' with
         | [], [] => true
         | (k, x) :: r, (k', y) :: r' => str_eqb k k' && json_eqb x y && go r r'
         | _, _ => false
         end) l l'
  | _, _ => false
  end.

Definition jfield (k : str) (j : json) : option json :=
  match j with JObj l => assoc k l | _ => None end.

(* Tools/OrderSites.v — map-range sites that are NOT in a proven pattern, reviewed by hand (initial table written
   from the pinned tree). Each entry is identified by file, function, ranged expression and detected pattern: a site
   that appears, or whose loop body changes class, is not covered and breaks C07_sites.
   Reasons: the diff analyser sorts its result at the end of Analyse and iterates side-effecting loops in sorted
   order (fix a43f2b8); loops classified FirstMatch in codescan/generator leave early only on an error or after
   a unique key match; the remaining loops feed values that are sorted before use (GenOperations.Sort, sorted
   imports, sorted schemes) — all of them are exercised by the N-run byte comparison of the C07 harness. *)
From GS Require Import Base.Str Tools.Order.

Definition reviewed_sites : list rsite := [
  {| rs_file := (s "cmd/swagger/commands/diff/checks.go"); rs_func := (s "CompareProperties"); rs_expr := (s "schema2.Properties"); rs_pattern := CollectUnsorted |};
  {| rs_file := (s "cmd/swagger/commands/diff/spec_analyser.go"); rs_func := (s "SpecAnalyser.AnalyseDefinitions"); rs_expr := (s "sd.Definitions2"); rs_pattern := UpdateWithCalls |};
  {| rs_file := (s "cmd/swagger/commands/diff/spec_analyser.go"); rs_func := (s "SpecAnalyser.analyseEndpointData"); rs_expr := (s "sd.urlMethods2"); rs_pattern := Other |};
  {| rs_file := (s "cmd/swagger/commands/diff/spec_analyser.go"); rs_func := (s "SpecAnalyser.analyseRequestParams"); rs_expr := (s "sd.urlMethods2"); rs_pattern := Other |};
  {| rs_file := (s "cmd/swagger/commands/diff/spec_analyser.go"); rs_func := (s "SpecAnalyser.analyseRequestParams"); rs_expr := (s "params1"); rs_pattern := Other |};
  {| rs_file := (s "cmd/swagger/commands/diff/spec_analyser.go"); rs_func := (s "SpecAnalyser.analyseRequestParams"); rs_expr := (s "params2"); rs_pattern := Other |};
  {| rs_file := (s "cmd/swagger/commands/diff/spec_analyser.go"); rs_func := (s "SpecAnalyser.analyseResponseParams"); rs_expr := (s "sd.urlMethods2"); rs_pattern := CollectUnsorted |};
  {| rs_file := (s "cmd/swagger/commands/diff/spec_analyser.go"); rs_func := (s "SpecAnalyser.analyseResponseParams"); rs_expr := (s "op1Responses"); rs_pattern := Other |};
  {| rs_file := (s "cmd/swagger/commands/diff/spec_analyser.go"); rs_func := (s "SpecAnalyser.analyseResponseParams"); rs_expr := (s "op2Response.ResponseProps.Headers"); rs_pattern := Other |};
  {| rs_file := (s "cmd/swagger/commands/diff/spec_analyser.go"); rs_func := (s "SpecAnalyser.analyseResponseParams"); rs_expr := (s "op1Response.ResponseProps.Headers"); rs_pattern := Other |};
  {| rs_file := (s "cmd/swagger/commands/diff/spec_analyser.go"); rs_func := (s "SpecAnalyser.analyzeOperationExtensions"); rs_expr := (s "sd.urlMethods2"); rs_pattern := UpdateWithCalls |};
  {| rs_file := (s "cmd/swagger/commands/diff/spec_analyser.go"); rs_func := (s "SpecAnalyser.analyzeOperationExtensions"); rs_expr := (s "op1.Operation.Responses.StatusCodeResponses"); rs_pattern := UpdateWithCalls |};
  {| rs_file := (s "cmd/swagger/commands/diff/spec_analyser.go"); rs_func := (s "SpecAnalyser.analyzeOperationExtensions"); rs_expr := (s "resp.Headers"); rs_pattern := UpdateWithCalls |};
  {| rs_file := (s "cmd/swagger/commands/diff/spec_analyser.go"); rs_func := (s "SpecAnalyser.analyzeOperationExtensions"); rs_expr := (s "sd.urlMethods1"); rs_pattern := UpdateWithCalls |};
  {| rs_file := (s "cmd/swagger/commands/diff/spec_analyser.go"); rs_func := (s "SpecAnalyser.analyzeOperationExtensions"); rs_expr := (s "op1.Operation.Responses.StatusCodeResponses"); rs_pattern := UpdateWithCalls |};
  {| rs_file := (s "cmd/swagger/commands/diff/spec_analyser.go"); rs_func := (s "SpecAnalyser.analyzeOperationExtensions"); rs_expr := (s "resp.Headers"); rs_pattern := UpdateWithCalls |};
  {| rs_file := (s "cmd/swagger/commands/diff/spec_analyser.go"); rs_func := (s "SpecAnalyser.checkParamExtensions"); rs_expr := (s "params1"); rs_pattern := UpdateWithCalls |};
  {| rs_file := (s "cmd/swagger/commands/diff/spec_analyser.go"); rs_func := (s "SpecAnalyser.checkParamExtensions"); rs_expr := (s "params2"); rs_pattern := UpdateWithCalls |};
  {| rs_file := (s "cmd/swagger/commands/diff/spec_analyser.go"); rs_func := (s "SpecAnalyser.analyzeSecurityDefinitionExtensions"); rs_expr := (s "spec1.SecurityDefinitions"); rs_pattern := UpdateWithCalls |};
  {| rs_file := (s "cmd/swagger/commands/diff/spec_analyser.go"); rs_func := (s "SpecAnalyser.analyzeSecurityDefinitionExtensions"); rs_expr := (s "spec2.SecurityDefinitions"); rs_pattern := UpdateWithCalls |};
  {| rs_file := (s "cmd/swagger/commands/diff/spec_analyser.go"); rs_func := (s "SpecAnalyser.checkAddedExtensions"); rs_expr := (s "extensions2"); rs_pattern := Other |};
  {| rs_file := (s "cmd/swagger/commands/diff/spec_analyser.go"); rs_func := (s "SpecAnalyser.checkChangedExtensions"); rs_expr := (s "extensions2"); rs_pattern := Other |};
  {| rs_file := (s "cmd/swagger/commands/diff/spec_analyser.go"); rs_func := (s "SpecAnalyser.checkDeletedExtensions"); rs_expr := (s "extensions1"); rs_pattern := Other |};
  {| rs_file := (s "cmd/swagger/commands/diff/spec_analyser.go"); rs_func := (s "SpecAnalyser.findAddedEndpoints"); rs_expr := (s "sd.urlMethods2"); rs_pattern := Other |};
  {| rs_file := (s "cmd/swagger/commands/diff/spec_analyser.go"); rs_func := (s "SpecAnalyser.findDeletedEndpoints"); rs_expr := (s "sd.urlMethods1"); rs_pattern := Other |};
  {| rs_file := (s "cmd/swagger/commands/diff/type_adapters.go"); rs_func := (s "getURLMethodsFor"); rs_expr := (s "spec.Paths.Paths"); rs_pattern := UpdateWithCalls |};
  {| rs_file := (s "codescan/application.go"); rs_func := (s "scanCtx.FindModel"); rs_expr := (s "s.app.Models"); rs_pattern := FirstMatch |};
  {| rs_file := (s "codescan/application.go"); rs_func := (s "typeIndex.walkImports"); rs_expr := (s "pkg.Imports"); rs_pattern := FirstMatch |};
  {| rs_file := (s "codescan/meta.go"); rs_func := (s "metaVendorExtensibleSetter"); rs_expr := (s "jsonData"); rs_pattern := FirstMatch |};
  {| rs_file := (s "codescan/meta.go"); rs_func := (s "infoVendorExtensibleSetter"); rs_expr := (s "jsonData"); rs_pattern := FirstMatch |};
  {| rs_file := (s "codescan/parameters.go"); rs_func := (s "spExtensionsSetter"); rs_expr := (s "*exts"); rs_pattern := UpdateWithCalls |};
  {| rs_file := (s "codescan/parser.go"); rs_func := (s "sectionedParser.Parse"); rs_expr := (s "st.matched"); rs_pattern := FirstMatch |};
  {| rs_file := (s "codescan/route_params.go"); rs_func := (s "processSchema"); rs_expr := (s "data"); rs_pattern := Other |};
  {| rs_file := (s "codescan/routes.go"); rs_func := (s "opExtensionsSetter"); rs_expr := (s "*exts"); rs_pattern := UpdateWithCalls |};
  {| rs_file := (s "codescan/schema.go"); rs_func := (s "schemaBuilder.buildFromStruct"); rs_expr := (s "seen"); rs_pattern := FirstMatch |};
  {| rs_file := (s "codescan/schema.go"); rs_func := (s "schemaVendorExtensibleSetter"); rs_expr := (s "jsonData"); rs_pattern := FirstMatch |};
  {| rs_file := (s "codescan/spec.go"); rs_func := (s "specBuilder.buildModels"); rs_expr := (s "s.ctx.app.Models"); rs_pattern := FirstMatch |};
  {| rs_file := (s "codescan/spec.go"); rs_func := (s "specBuilder.joinExtraModels"); rs_expr := (s "tmp"); rs_pattern := FirstMatch |};
  {| rs_file := (s "generator/language.go"); rs_func := (s "GoLangOpts"); rs_expr := (s "imports"); rs_pattern := CollectThenSortWithCalls |};
  {| rs_file := (s "generator/media.go"); rs_func := (s "wellKnownMime"); rs_expr := (s "mediaTypeNames"); rs_pattern := FirstMatch |};
  {| rs_file := (s "generator/media.go"); rs_func := (s "appGenerator.makeSerializers"); rs_expr := (s "uniqueSerializerGroups"); rs_pattern := CollectUnsorted |};
  {| rs_file := (s "generator/media.go"); rs_func := (s "appGenerator.makeSerializers"); rs_expr := (s "uniqueSerializers"); rs_pattern := CollectThenSortWithCalls |};
  {| rs_file := (s "generator/model.go"); rs_func := (s "GenerateDefinition"); rs_expr := (s "specDoc.Spec().Definitions"); rs_pattern := CollectUnsorted |};
  {| rs_file := (s "generator/model.go"); rs_func := (s "schemaGenContext.buildProperties"); rs_expr := (s "sg.Schema.Properties"); rs_pattern := FirstMatch |};
  {| rs_file := (s "generator/operation.go"); rs_func := (s "GenerateServerOperation"); rs_expr := (s "ops"); rs_pattern := FirstMatch |};
  {| rs_file := (s "generator/operation.go"); rs_func := (s "paramMappings"); rs_expr := (s "params"); rs_pattern := UpdateWithCalls |};
  {| rs_file := (s "generator/operation.go"); rs_func := (s "codeGenOpBuilder.MakeOperation"); rs_expr := (s "paramsForOperation"); rs_pattern := FirstMatch |};
  {| rs_file := (s "generator/operation.go"); rs_func := (s "codeGenOpBuilder.MakeResponse"); rs_expr := (s "resp.Headers"); rs_pattern := FirstMatch |};
  {| rs_file := (s "generator/shared.go"); rs_func := (s "gatherSecuritySchemes"); rs_expr := (s "securitySchemes"); rs_pattern := CollectUnsorted |};
  {| rs_file := (s "generator/shared.go"); rs_func := (s "gatherSecuritySchemes"); rs_expr := (s "req.Scopes"); rs_pattern := CollectUnsorted |};
  {| rs_file := (s "generator/shared.go"); rs_func := (s "securityRequirements"); rs_expr := (s "r"); rs_pattern := CollectUnsorted |};
  {| rs_file := (s "generator/shared.go"); rs_func := (s "concatUnique"); rs_expr := (s "resultSet"); rs_pattern := CollectUnsorted |};
  {| rs_file := (s "generator/structs.go"); rs_func := (s "GenSchema.PrintTags"); rs_expr := (s "tags"); rs_pattern := FirstMatch |};
  {| rs_file := (s "generator/support.go"); rs_func := (s "appGenerator.makeCodegenApp"); rs_expr := (s "a.Models"); rs_pattern := FirstMatch |};
  {| rs_file := (s "generator/support.go"); rs_func := (s "appGenerator.makeCodegenApp"); rs_expr := (s "model.Imports"); rs_pattern := UpdateWithCalls |};
  {| rs_file := (s "generator/support.go"); rs_func := (s "appGenerator.makeCodegenApp"); rs_expr := (s "a.Operations"); rs_pattern := FirstMatch |};
  {| rs_file := (s "generator/support.go"); rs_func := (s "appGenerator.makeCodegenApp"); rs_expr := (s "opsGroupedByPackage"); rs_pattern := CollectUnsorted |};
  {| rs_file := (s "generator/template_repo.go"); rs_func := (s "Repository.LoadDefaults"); rs_expr := (s "assets"); rs_pattern := UpdateWithCalls |};
  {| rs_file := (s "generator/template_repo.go"); rs_func := (s "findDependencies"); rs_expr := (s "depMap"); rs_pattern := CollectUnsorted |};
  {| rs_file := (s "generator/template_repo.go"); rs_func := (s "Repository.addDependencies"); rs_expr := (s "deps"); rs_pattern := FirstMatch |};
  {| rs_file := (s "generator/template_repo.go"); rs_func := (s "Repository.DumpTemplates"); rs_expr := (s "t.templates"); rs_pattern := UpdateWithCalls |};
  {| rs_file := (s "generator/types.go"); rs_func := (s "newTypeResolver"); rs_expr := (s "doc.Spec().Definitions"); rs_pattern := UpdateWithCalls |}
].
